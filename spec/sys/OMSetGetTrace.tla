--------------------------- MODULE OMSetGetTrace ---------------------------
(***************************************************************************)
(* Trace validation of Problem.set_val / get_val / final_setup / run_model *)
(* histories on GENERATED hierarchical models (C07, second family; the     *)
(* first family is OMSetGet.tla on a fixed model with TLC-generated        *)
(* behaviours).                                                            *)
(*                                                                         *)
(* State: the store Y of all source (output) values - OMModel's Y.  Every  *)
(* addressable name is a VIEW of one source: an output itself, an absolute *)
(* input (the whole chain of src_indices of its connection, unit map), or  *)
(* a promoted input name at some group level (the prefix of the chain that *)
(* lies above that level).  The positions of a view are computed here by   *)
(* NdIndex (ChainPos), not by the harness.                                 *)
(*                                                                         *)
(*   Set(v, idx, vals)  writes the selected entries of view v through to   *)
(*                      the source (inverse unit map); every other source  *)
(*                      entry is unchanged                                 *)
(*   FinalSetup         store unchanged                                    *)
(*   Run                independent values are kept, every computed output *)
(*                      is overwritten by the solution of its component's  *)
(*                      equations (the relation IsRunResult: bilinear      *)
(*                      components have no closed one-pass form in OMModel)*)
(*   after every event the observed values of ALL views must be the views  *)
(*   of the store (RoundTrip + OthersUnchanged + PhaseNeutral of           *)
(*   OMSetGet.tla, for arbitrary chains)                                   *)
(*                                                                         *)
(* One behaviour per case; the verdict names the first event and clause    *)
(* that does not match.                                                    *)
(***************************************************************************)
EXTENDS OMModel, Json, IOUtils, Sequences

Cases == JsonDeserialize(IOEnv.OM_CASES)

VARIABLES tid, l, Y, verdict
vars == <<tid, l, Y, verdict>>

Iota(n) == [k \in 1..n |-> k - 1]

\* views: [src, chain, fac, off, shape]
VPos(M, v) == ChainPos(v.chain, 1, Iota(OSize(M, v.src)))
ViewVal(M, St, v) == LET pos == VPos(M, v) IN [k \in 1..Len(pos) |-> Add(Mul(v.fac, St[v.src][pos[k] + 1]), v.off)]
AllViews(M, V, St) == [j \in 1..Len(V) |-> ViewVal(M, St, V[j])]

\* local (0-based, C order) positions of the view selected by the `indices` argument
LocalPos(v, idx) == IF idx.k = "none" THEN Iota(Nd!Size(v.shape)) ELSE Nd!Positions(idx, v.shape, FALSE)

\* the value handed for selected entry k (a single value is broadcast)
Given(vals, k) == IF Len(vals) = 1 THEN vals[1] ELSE vals[k]

\* Set: last write wins where the selection repeats a source entry (the harness only hands equal values there)
SetStore(M, St, v, idx, vals) ==
    LET lp == LocalPos(v, idx)
        vp == VPos(M, v)
        sp == [k \in 1..Len(lp) |-> vp[lp[k] + 1]]
        hit(p) == {k \in 1..Len(sp) : sp[k] + 1 = p}
    IN [o \in DOMAIN St |->
          IF o # v.src THEN St[o]
          ELSE [p \in DOMAIN St[o] |->
                  IF hit(p) = {} THEN St[o][p]
                  ELSE LET k == CHOOSE x \in hit(p) : \A y \in hit(p) : y <= x
                       IN Div(Sub(Given(vals, k), v.off), v.fac)]]

Ambiguous(M, v, idx, vals) ==
    LET lp == LocalPos(v, idx)
        vp == VPos(M, v)
    IN \E a, b \in 1..Len(lp) : a # b /\ vp[lp[a] + 1] = vp[lp[b] + 1] /\ Given(vals, a) # Given(vals, b)

\* the store after run_model: OMModel's IsFixpoint with the independent values taken from the store before the run
IsRunResult(M, Yold, Ynew) ==
    \A k \in 1..Len(M.comps) :
        LET c == M.comps[k]
        IN \A ko \in 1..Len(c.outs) :
              IF c.kind = "ivc" THEN Ynew[c.outs[ko]] = Yold[c.outs[ko]]
              ELSE LET rhs == Rhs(M, c, Ynew, ko)
                   IN \A r \in DOMAIN rhs :
                         IF c.kind = "bil" /\ ko = 2
                         THEN Mul(Ynew[c.outs[1]][r], Ynew[c.outs[2]][r]) = rhs[r]
                         ELSE Mul(c.d[ko][r], Ynew[c.outs[ko]][r]) = rhs[r]

C == Cases[tid]
Ev == C.ev[l]

Init == /\ tid \in 1..Len(Cases)
        /\ l = 1
        /\ Y = InitY(Cases[tid].M)
        /\ verdict = [k |-> "ok"]

\* the first view whose observed value differs (0: none)
FirstBad(obs, exp) == IF \A j \in 1..Len(exp) : obs[j] = exp[j] THEN 0
                      ELSE CHOOSE j \in 1..Len(exp) : obs[j] # exp[j] /\ \A i \in 1..(j - 1) : obs[i] = exp[i]

Step ==
    /\ verdict.k = "ok"
    /\ l <= Len(C.ev)
    /\ LET e == Ev
           M == C.M
           V == C.V
           new == CASE e.a = "set" -> SetStore(M, Y, V[e.v], e.idx, e.vals)
                    [] e.a = "run" -> [o \in DOMAIN Y |-> e.views[o]]       \* views 1..#outs are the outputs themselves
                    [] OTHER -> Y
           bad == FirstBad(e.views, AllViews(M, V, new))
       IN IF e.a = "set" /\ Ambiguous(M, V[e.v], e.idx, e.vals)
          THEN verdict' = [k |-> "harness-ambiguous-set"] /\ UNCHANGED <<Y, l>>
          ELSE IF e.a = "run" /\ ~IsRunResult(M, Y, new)
          THEN verdict' = [k |-> "bad", ev |-> l, a |-> e.a, view |-> 0, clause |-> "run-result", expected |-> <<>>]
               /\ UNCHANGED <<Y, l>>
          ELSE IF bad # 0
          THEN /\ verdict' = [k |-> "bad", ev |-> l, a |-> e.a, view |-> bad,
                              clause |-> IF e.a = "set" /\ bad = e.v THEN "round-trip"
                                         ELSE IF e.a = "set" /\ V[bad].src = V[e.v].src THEN "same-source-view"
                                         ELSE IF e.a = "set" THEN "other-source-changed"
                                         ELSE IF e.a = "run" THEN "run" ELSE "phase-not-neutral",
                              expected |-> AllViews(M, V, new)[bad]]
               /\ UNCHANGED <<Y, l>>
          ELSE Y' = new /\ l' = l + 1 /\ UNCHANGED verdict
    /\ UNCHANGED tid

Done == (verdict.k # "ok" \/ l > Len(C.ev)) /\ UNCHANGED vars

Next == Step \/ Done
Spec == Init /\ [][Next]_vars

\* sanity of the view table (harness-provided shapes must agree with the chain)
ViewsWellFormed == \A j \in 1..Len(C.V) : Len(VPos(C.M, C.V[j])) = Nd!Size(C.V[j].shape)

Finished == verdict.k # "ok" \/ l > Len(C.ev)
Export == Finished => PrintT(<<"EXP", ToJson([tid |-> tid, v |-> verdict, n |-> l - 1])>>)
=============================================================================
