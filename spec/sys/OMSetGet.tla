----------------------------- MODULE OMSetGet ------------------------------
(***************************************************************************)
(* set_val / get_val as operations on the authoritative store (the values  *)
(* of the SOURCES).  Every addressable name - a source by its own name, a  *)
(* connected input by its absolute name, an auto-IVC-backed promoted input *)
(* - is a VIEW of one source: value = fac * source[pos] + off, with pos    *)
(* the NdIndex composition of the connection's src_indices chain.  C07.    *)
(*   SetVal(name, v, units, idx): convert v from `units` to the view's     *)
(*       units, then back through the view's affine map, and place it at   *)
(*       pos[ Positions(idx, viewshape) ]; nothing else changes.           *)
(*   GetVal(name, units, idx): the same positions, converted.              *)
(*   FinalSetup, RunModel: the store is unchanged (inputs merely follow).  *)
(* The same semantics in every phase is the point of the property.         *)
(***************************************************************************)
EXTENDS Rat, Naturals, Sequences, FiniteSets, TLC, Json

Nd == INSTANCE NdIndex

CONSTANTS Depth

\* --- the fixed model (harness/vf/drivers/c07.py builds exactly this) -----------------------------------------
\* sources: "x" = ivc.x, shape (4), units m;  "u" = auto-IVC behind the promoted input "pb", shape (3), no units
SrcSize == [x |-> 4, u |-> 3]
Iota(n) == [k \in 1..n |-> k - 1]
\* views: name |-> [src, pos (0-based source positions), shape, units]
Views == [ivc_x |-> [src |-> "x", pos |-> Iota(4), shape |-> <<4>>, units |-> "m"],
          c1_a  |-> [src |-> "x", pos |-> <<2, 0>>, shape |-> <<2>>, units |-> "cm"],          \* connect(..., src_indices=[2, 0])
          c4_a  |-> [src |-> "x", pos |-> <<3, 2, 1>>, shape |-> <<3>>, units |-> "km"],       \* src_indices = slice(3, 0, -1)
          pb    |-> [src |-> "u", pos |-> Iota(3), shape |-> <<3>>, units |-> "none"],
          c2_b  |-> [src |-> "u", pos |-> <<1, 2>>, shape |-> <<2>>, units |-> "none"],        \* promotes(src_indices=[1, -1], src_shape=3)
          c3_b  |-> [src |-> "u", pos |-> Iota(3), shape |-> <<3>>, units |-> "none"]]
Names == DOMAIN Views

\* exact unit maps: value_in_b = F[a][b] * value_in_a   (no offsets among these units)
UFac(a, b) == CASE a = b -> One
                [] a = "m" /\ b = "cm" -> Q(100, 1)   [] a = "cm" /\ b = "m" -> Q(1, 100)
                [] a = "km" /\ b = "m" -> Q(1000, 1)  [] a = "m" /\ b = "km" -> Q(1, 1000)
                [] a = "km" /\ b = "cm" -> Q(100000, 1) [] a = "cm" /\ b = "km" -> Q(1, 100000)
                [] OTHER -> One
SrcUnits(s) == IF s = "x" THEN "m" ELSE "none"
UnitArgs(name) == IF Views[name].units = "none" THEN {"default"} ELSE {"default", "m", "cm", "km"}
ArgUnits(name, u) == IF u = "default" THEN Views[name].units ELSE u

IdxTerms(name) ==
    LET n == Views[name].shape[1]
    IN {[k |-> "none"], Nd!IntT(0), Nd!IntT(1), Nd!IntT(-1), Nd!SliceT(1, Nd!NoneV, Nd!NoneV), Nd!SliceT(Nd!NoneV, Nd!NoneV, -1),
        Nd!ArrT(<<n - 1, 0>>), Nd!ArrT(<<-1>>), Nd!TupT(<<Nd!SliceT(0, 2, Nd!NoneV)>>)}

LocalPos(name, idx) == IF idx.k = "none" THEN Iota(Views[name].shape[1])
                       ELSE Nd!Positions(idx, Views[name].shape, FALSE)
SrcPos(name, idx) == LET q == LocalPos(name, idx) IN [k \in 1..Len(q) |-> Views[name].pos[q[k] + 1]]

VARIABLES phase, store, hist
vars == <<phase, store, hist>>

Init == /\ phase = "setup"
        /\ store = [x |-> <<R(1), R(2), R(3), R(4)>>, u |-> <<R(10), R(20), R(30)>>]
        /\ hist = <<>>

\* value of a view / of a get_val call
ViewVal(st, name) == LET v == Views[name]
                         f == UFac(SrcUnits(v.src), v.units)
                     IN [k \in 1..Len(v.pos) |-> Mul(f, st[v.src][v.pos[k] + 1])]
GetVal(st, name, u, idx) ==
    LET sp == SrcPos(name, idx)
        f == UFac(SrcUnits(Views[name].src), ArgUnits(name, u))
    IN [k \in 1..Len(sp) |-> Mul(f, st[Views[name].src][sp[k] + 1])]

AllViews(st) == [n \in Names |-> ViewVal(st, n)]

NoDup(q) == \A i, j \in 1..Len(q) : i # j => q[i] # q[j]

SetVal(name, u, idx, base) ==
    LET sp == SrcPos(name, idx)
        s == Views[name].src
        val == [k \in 1..Len(sp) |-> R(base + k)]                      \* the values handed to set_val, in `u`
        f == UFac(ArgUnits(name, u), SrcUnits(s))                      \* back to the source's units
        new == [p \in 1..SrcSize[s] |-> IF \E k \in 1..Len(sp) : sp[k] + 1 = p
                                        THEN Mul(f, val[CHOOSE k \in 1..Len(sp) : sp[k] + 1 = p])
                                        ELSE store[s][p]]
    IN /\ NoDup(sp)
       /\ store' = [store EXCEPT ![s] = new]
       /\ hist' = Append(hist, [a |-> "SetVal", name |-> name, units |-> u, idx |-> idx, val |-> val,
                                scalar |-> (idx.k = "int"), views |-> AllViews(store'),
                                readback |-> GetVal(store', name, u, idx)])
       /\ UNCHANGED phase

FinalSetup == /\ phase = "setup" /\ phase' = "final" /\ UNCHANGED store
              /\ hist' = Append(hist, [a |-> "FinalSetup", views |-> AllViews(store)])
RunModel == /\ phase' = "ran" /\ UNCHANGED store
            /\ hist' = Append(hist, [a |-> "RunModel", views |-> AllViews(store)])

Next == /\ Len(hist) < Depth
        /\ \/ \E name \in Names : \E u \in UnitArgs(name) : \E idx \in IdxTerms(name) : \E base \in {5, 20} :
                  SetVal(name, u, idx, base)
           \/ FinalSetup
           \/ RunModel

\* behaviours of writes only (the phase actions are inserted by the harness at every position: by PhaseNeutral they do
\* not change any expectation)
NextSet == /\ Len(hist) < Depth
           /\ \E name \in Names : \E u \in UnitArgs(name) : \E idx \in IdxTerms(name) : \E base \in {5, 20} :
                  SetVal(name, u, idx, base)

\* --- properties ------------------------------------------------------------------------------------
\* round trip: what was written is what is read back with the same arguments
RoundTrip == \A k \in 1..Len(hist) : hist[k].a = "SetVal" => hist[k].readback = hist[k].val
\* a write changes only the addressed source entries
OthersUnchanged ==
    [][\A s \in DOMAIN store : \A p \in 1..SrcSize[s] :
           store'[s][p] # store[s][p] =>
               /\ hist'[Len(hist')].a = "SetVal"
               /\ Views[hist'[Len(hist')].name].src = s
               /\ \E k \in 1..Len(SrcPos(hist'[Len(hist')].name, hist'[Len(hist')].idx)) :
                      SrcPos(hist'[Len(hist')].name, hist'[Len(hist')].idx)[k] + 1 = p]_vars
\* phases never change the store
PhaseNeutral == [][phase' # phase => store' = store]_vars

View == <<phase, store, Len(hist)>>
Export == Len(hist) = Depth => PrintT(<<"EXP", ToJson(hist)>>)
=============================================================================
