------------------------------ MODULE OMJudge ------------------------------
(***************************************************************************)
(* Validation of observed executions of real OpenMDAO problems against the *)
(* system specification (OMModel.tla).  The harness writes one case per    *)
(* generated model: the model record M, the harness's own independent      *)
(* rational reference (used only to cross-check this oracle), and what the *)
(* real code produced (outputs, inputs, total-derivative blocks for a list *)
(* of configurations), quantised to exact rationals.  TLC computes the     *)
(* denotation of M and judges every observation.  C01 C04 C08 C24 ...      *)
(***************************************************************************)
EXTENDS OMModel, Json, IOUtils, Sequences

Cases == JsonDeserialize(IOEnv.OM_CASES)

VARIABLES tid, stage, verdict
vars == <<tid, stage, verdict>>

\* --- judging one case ------------------------------------------------------------------------------
\* expected outputs: computed for feed-forward models, characterised (fixpoint) for models with feedback
OutOK(M, Y) == IF M.cyclic THEN IsFixpoint(M, Y) ELSE Y = Converged(M)

\* C04: every input equals its source through the index chain and the unit conversion (relation on observed values)
InOK(M, Y, X, chk) == \A k \in 1..Len(chk) : X[chk[k]] = InVal(M, Y, chk[k])

FullOK(M, dYspec, full) == IF M.cyclic THEN IsTotalAll(M, full) ELSE full = dYspec

BlocksOK(M, dY, c, vois) ==
    \A k \in 1..Len(c.blocks) :
        LET b == c.blocks[k]
            of == vois.of[b.of]
            wrt == vois.wrt[b.wrt]
        IN b.m = (IF c.scaled THEN ScaledBlock(M, dY, of, wrt) ELSE Block(M, dY, of, wrt))

JudgeCfg(M, dYspec, c, vois) ==
    LET dY == IF M.cyclic THEN c.full ELSE dYspec
    IN [full |-> FullOK(M, dYspec, c.full), blocks |-> BlocksOK(M, dY, c, vois)]

Judge(c) ==
    LET M == c.M
        dYspec == IF M.cyclic THEN <<>> ELSE TotalAll(M)
    IN [oracle |-> IF M.cyclic THEN IsFixpoint(M, c.ref.out) /\ IsTotalAll(M, c.ref.full)
                   ELSE c.ref.out = Converged(M) /\ c.ref.full = dYspec,
        runs |-> [k \in 1..Len(c.runs) |->
                     [out |-> IF c.runs[k].fix THEN OutOK(M, c.runs[k].out) ELSE TRUE,
                      inp |-> InOK(M, c.runs[k].out, c.runs[k].inp, c.runs[k].chk)]],
        cfgs |-> [k \in 1..Len(c.cfgs) |-> JudgeCfg(M, dYspec, c.cfgs[k], c.vois)],
        \* the specification's source positions of every input (used by the harness to judge intermediate,
        \* non-rational states of a run in floating point)
        pos |-> [i \in 1..Len(M.ins) |-> ConnPos(M, i)]]

Init == tid \in 1..Len(Cases) /\ stage = 0 /\ verdict = <<>>
Next == stage = 0 /\ stage' = 1 /\ verdict' = Judge(Cases[tid]) /\ UNCHANGED tid

Export == stage = 1 => PrintT(<<"EXP", ToJson([tid |-> tid, v |-> verdict])>>)
=============================================================================
