------------------------------ MODULE OMJudge ------------------------------
(***************************************************************************)
(* Validation of observed executions of real OpenMDAO problems against the *)
(* system specification (OMModel.tla).  The harness writes one case per    *)
(* generated model: the model record M, the harness's own independent      *)
(* rational reference (used only to cross-check this oracle), and what the *)
(* real code produced (outputs, inputs, total-derivative blocks for a list *)
(* of configurations), quantised to exact rationals.  TLC computes the     *)
(* denotation of M and judges every observation.  C01 C04 C08 C24 ...      *)
(***************************************************************************)
EXTENDS OMModel, Json, IOUtils, Sequences

Cases == JsonDeserialize(IOEnv.OM_CASES)

VARIABLES tid, stage, verdict
vars == <<tid, stage, verdict>>

\* --- judging one case ------------------------------------------------------------------------------
\* expected outputs: computed for feed-forward models, characterised (fixpoint) for models with feedback
OutOK(M, Y) == IF M.cyclic THEN IsFixpoint(M, Y) ELSE Y = Converged(M)

\* C04: every input equals its source through the index chain and the unit conversion (relation on observed values)
InOK(M, Y, X, chk) == \A k \in 1..Len(chk) : X[chk[k]] = InVal(M, Y, chk[k])

FullOK(M, Yref, dYspec, full) == IF M.cyclic THEN IsTotalAll(M, Yref, full) ELSE full = dYspec

BlocksOK(M, dY, c, vois) ==
    \A k \in 1..Len(c.blocks) :
        LET b == c.blocks[k]
            of == vois.of[b.of]
            wrt == vois.wrt[b.wrt]
        IN b.m = (IF c.scaled THEN ScaledBlock(M, dY, of, wrt) ELSE Block(M, dY, of, wrt))

JudgeCfg(M, Yref, dYspec, c, vois) ==
    LET dY == IF M.cyclic THEN c.full ELSE dYspec
    IN [full |-> FullOK(M, Yref, dYspec, c.full), blocks |-> BlocksOK(M, dY, c, vois)]

\* C02: adjoint identity <w, A v> = <A^T w, v> evaluated exactly on observed vectors
AdjOK(op) == RDot(op.w, op.av) = RDot(op.atw, op.v)

\* C02: public Jacobian-vector products against the exact Jacobian. jv: [of, wrt, mode, seed, res]
\* fwd: res (per response, concatenated) = SUM_wrt Block * seed;   rev: res (per design variable) = SUM_of Block^T * seed
RECURSIVE SumVecs(_)
SumVecs(vs) == IF Len(vs) = 1 THEN vs[1] ELSE VAdd(vs[1], SumVecs(Tail(vs)))
MatVec(m, x) == [r \in DOMAIN m |-> RDot(m[r], x)]
MatTVec(m, x) == [c \in DOMAIN m[1] |-> RDot([r \in DOMAIN m |-> m[r][c]], x)]
JvOK(M, dY, j, vois) ==
    IF j.mode = "fwd"
    THEN \A a \in 1..Len(j.of) :
            j.res[a] = SumVecs([b \in 1..Len(j.wrt) |-> MatVec(Block(M, dY, vois.of[j.of[a]], vois.wrt[j.wrt[b]]), j.seed[b])])
    ELSE \A b \in 1..Len(j.wrt) :
            j.res[b] = SumVecs([a \in 1..Len(j.of) |-> MatTVec(Block(M, dY, vois.of[j.of[a]], vois.wrt[j.wrt[b]]), j.seed[a])])

\* C24: a linear solve for a seed must have executed every non-independent component that is relevant to it
\* (over-execution is harmless; under-execution is the unsound direction)
ToSet(q) == {q[k] : k \in 1..Len(q)}
RelOK(M, r) ==
    LET need == {k \in RelevantComps(M, r.mode, r.seed, ToSet(r.others)) : M.comps[k].kind # "ivc"}
    IN need \subseteq ToSet(r.executed)

Judge(c) ==
    LET M == c.M
        dYspec == IF M.cyclic THEN <<>> ELSE TotalAll(M)
    IN [oracle |-> IF M.cyclic THEN IsFixpoint(M, c.ref.out) /\ IsTotalAll(M, c.ref.out, c.ref.full)
                   ELSE c.ref.out = Converged(M) /\ c.ref.full = dYspec,
        runs |-> [k \in 1..Len(c.runs) |->
                     [out |-> IF c.runs[k].fix THEN OutOK(M, c.runs[k].out) ELSE TRUE,
                      inp |-> InOK(M, c.runs[k].out, c.runs[k].inp, c.runs[k].chk)]],
        cfgs |-> [k \in 1..Len(c.cfgs) |-> JudgeCfg(M, c.ref.out, dYspec, c.cfgs[k], c.vois)],
        adj |-> [k \in 1..Len(c.adj) |-> AdjOK(c.adj[k])],
        rel |-> [k \in 1..Len(c.rel) |-> RelOK(M, c.rel[k])],
        jv |-> IF M.cyclic THEN <<>> ELSE [k \in 1..Len(c.jv) |-> JvOK(M, dYspec, c.jv[k], c.vois)],
        \* pairs of observed vectors that must be equal (C02: a product taken with a scope equals the product of the
        \* projected argument taken without one)
        eqs |-> IF "eqs" \in DOMAIN c THEN [k \in 1..Len(c.eqs) |-> c.eqs[k].a = c.eqs[k].b] ELSE <<>>,
        \* partial observations (C24, driver loop): only the listed outputs must hold their converged value; the others
        \* may be stale by design (components outside the optimisation iteration)
        part |-> IF "part" \in DOMAIN c /\ ~M.cyclic
                 THEN LET Yc == Converged(M)
                      IN [k \in 1..Len(c.part) |-> \A j \in 1..Len(c.part[k].outs) :
                                                       c.part[k].out[c.part[k].outs[j]] = Yc[c.part[k].outs[j]]]
                 ELSE <<>>,
        \* the specification's source positions of every input (used by the harness to judge intermediate,
        \* non-rational states of a run in floating point)
        pos |-> [i \in 1..Len(M.ins) |-> ConnPos(M, i)]]

Init == tid \in 1..Len(Cases) /\ stage = 0 /\ verdict = <<>>
Next == stage = 0 /\ stage' = 1 /\ verdict' = Judge(Cases[tid]) /\ UNCHANGED tid

Export == stage = 1 => PrintT(<<"EXP", ToJson([tid |-> tid, v |-> verdict])>>)
=============================================================================
