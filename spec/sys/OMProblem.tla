----------------------------- MODULE OMProblem -----------------------------
(***************************************************************************)
(* The Problem API as a state machine over the VISIBLE model state (the    *)
(* bytes of all inputs and outputs, abstracted to a digest id).  C31.      *)
(*                                                                         *)
(*   Mutating actions   SetVal(x)    - the visible state changes           *)
(*                      RunModel     - state' = Run[state]: a FUNCTION of  *)
(*                                     the visible state (determinism, no  *)
(*                                     hidden state leaking between calls) *)
(*   Read-only actions  ComputeTotals, JacVec, CheckPartials, CheckTotals, *)
(*                      ComputeColoring, ListInputs, ListOutputs, GetVal   *)
(*                      - UNCHANGED state                                  *)
(*                                                                         *)
(* The same module validates traces: several Problem instances built from  *)
(* the same model description are driven with the same mutating calls but  *)
(* different interleavings of read-only calls; all their events are merged *)
(* into one trace.  `memo` is the graph of Run / SetVal learned so far:    *)
(* an event that contradicts it (same visible pre-state, same call,        *)
(* different post-state) is rejected, as is a read-only call that changes  *)
(* the state.                                                              *)
(***************************************************************************)
EXTENDS Naturals, Sequences, TLC, Json, IOUtils

Traces == JsonDeserialize(IOEnv.OM_TRACES)

ReadOnly == {"ComputeTotals", "JacVec", "CheckPartials", "CheckTotals", "ComputeColoring",
             "ListInputs", "ListOutputs", "GetVal"}
Mutating == {"SetVal", "RunModel"}

VARIABLES tid, l, st, fresh, memo, rmemo, verdict
vars == <<tid, l, st, fresh, memo, rmemo, verdict>>

\* st: instance -> digest id of the visible state;  memo: set of <<pre, call, arg, post>>
Init == /\ tid \in 1..Len(Traces)
        /\ l = 1
        /\ st = [i \in 1..Traces[tid].ninst |-> Traces[tid].init]
        /\ fresh = [i \in 1..Traces[tid].ninst |-> FALSE]   \* TRUE iff the model has been run in the current state
        /\ memo = {}
        /\ rmemo = {}          \* results of read-only calls: set of <<visible state, call, result id>>
        /\ verdict = "ok"

Ev == Traces[tid].ev[l]
\* calls that run the model first when it has not been run in its current state (documented behaviour).  With a declared
\* dynamic total coloring the first compute_totals computes that coloring, so it belongs here as well.
ImplicitRun == {"CheckPartials", "CheckTotals", "ComputeColoring"} \cup (IF Traces[tid].dyn THEN {"ComputeTotals"} ELSE {})

\* one event of the trace: [inst, a (action), arg (id of the argument, 0 if none), pre, post]
Step ==
    /\ verdict = "ok"
    /\ l <= Len(Traces[tid].ev)
    /\ LET e == Ev IN
       IF e.pre # st[e.inst]
       THEN verdict' = "pre-state-mismatch" /\ UNCHANGED <<st, fresh, memo, rmemo>>       \* the harness lost track: machinery error
       ELSE IF e.a \in ReadOnly /\ e.post = e.pre
       THEN \* the state is unchanged; where the result of the call was observed (res # 0) it must be a function of the
            \* visible state as well: the same call from the same state gives the same result, whatever happened before
            IF e.res # 0 /\ \E m \in rmemo : m[1] = e.pre /\ m[2] = e.a /\ m[3] # e.res
            THEN verdict' = "read-only-result-depends-on-history" /\ UNCHANGED <<st, fresh, memo, rmemo>>
            ELSE /\ rmemo' = IF e.res # 0 THEN rmemo \cup {<<e.pre, e.a, e.res>>} ELSE rmemo
                 /\ UNCHANGED <<st, fresh, memo, verdict>>
       ELSE IF e.a \in ReadOnly /\ fresh[e.inst]
       THEN verdict' = "read-only-call-changed-state" /\ UNCHANGED <<st, fresh, memo, rmemo>>
       ELSE \* a mutating call, or a derivative check on a model that has not been run in its current state: the
            \* documented behaviour is that the check runs the model first, i.e. it acts as RunModel
            LET act == IF e.a \in ReadOnly THEN "RunModel" ELSE e.a
                known == {m \in memo : m[1] = e.pre /\ m[2] = act /\ m[3] = e.arg}
            IN IF e.a \in ReadOnly /\ e.a \notin ImplicitRun
               THEN verdict' = "read-only-call-changed-state" /\ UNCHANGED <<st, fresh, memo, rmemo>>
               ELSE IF known # {} /\ \E m \in known : m[4] # e.post
               THEN verdict' = "not-a-function-of-visible-state" /\ UNCHANGED <<st, fresh, memo, rmemo>>
               ELSE /\ memo' = memo \cup {<<e.pre, act, e.arg, e.post>>}
                    /\ st' = [st EXCEPT ![e.inst] = e.post]
                    /\ fresh' = [fresh EXCEPT ![e.inst] = (act = "RunModel")]
                    /\ UNCHANGED <<verdict, rmemo>>
    /\ l' = l + 1
    /\ UNCHANGED tid

Next == Step

\* properties of every accepted behaviour
ReadOnlyUnchanged == [][l' = l + 1 /\ verdict' = "ok" /\ Traces[tid].ev[l].a \in ReadOnly /\ fresh[Traces[tid].ev[l].inst]
                           => st' = st]_vars
Functional == \A m1 \in memo, m2 \in memo : (m1[1] = m2[1] /\ m1[2] = m2[2] /\ m1[3] = m2[3]) => m1[4] = m2[4]

Done == l > Len(Traces[tid].ev) \/ verdict # "ok"
Export == Done => PrintT(<<"EXP", ToJson([tid |-> tid, l |-> l, v |-> verdict])>>)
=============================================================================
