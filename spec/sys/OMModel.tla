------------------------------ MODULE OMModel ------------------------------
(***************************************************************************)
(* Denotation of an OpenMDAO model (the system specification's static      *)
(* part).  A model M is a record                                           *)
(*   outs  : sequence of [shape, comp, val]      (val: vector of rationals)*)
(*   ins   : sequence of [src, chain, fac, off]                            *)
(*           chain: sequence of [idx, shape, flat] - the src_indices given *)
(*           on connect / promotes from the source inwards; the input      *)
(*           holds  fac * source[positions] + off  (unit conversion)       *)
(*   comps : sequence, in a topological order of the data graph for        *)
(*           feed-forward models, of [kind, ins, outs, A, b, d]:           *)
(*           kind "ivc": outputs keep their value;                         *)
(*           otherwise  d[o] * y[o] = b[o] + SUM_i A[o][i] . in[i]         *)
(*           (explicit components have d = 1, implicit ones any d # 0);    *)
(*           kind "bil": two states of equal size with the residuals       *)
(*             d[1] . y1 = rhs1   and   y1 . y2 = rhs2   (elementwise):      *)
(*           its linearisation depends on the converged state.             *)
(*   cyclic: BOOLEAN                                                       *)
(* Variables are identified by 1-based positions in outs / ins.            *)
(* Everything is exact (Rat.tla); index semantics come from NdIndex.tla.   *)
(***************************************************************************)
EXTENDS Rat, Naturals, FiniteSets, TLC

Nd == INSTANCE NdIndex     \* instantiated (not extended): NdIndex and Rat both define Norm

OSize(M, o) == Nd!Size(M.outs[o].shape)

\* flat (0-based) source positions read by input i: compose the chain from the source inwards
RECURSIVE ChainPos(_, _, _)
ChainPos(chain, k, pos) ==
    IF k > Len(chain) THEN pos
    ELSE ChainPos(chain, k + 1, Nd!ComposePositions(chain[k].idx, chain[k].shape, chain[k].flat, pos))

ConnPos(M, i) ==
    LET src == M.ins[i].src
        n == OSize(M, src)
    IN ChainPos(M.ins[i].chain, 1, [k \in 1..n |-> k - 1])

ISize(M, i) == Len(ConnPos(M, i))

\* value of input i given output values Y (function: output id -> vector)
InVal(M, Y, i) ==
    LET pos == ConnPos(M, i)
        inp == M.ins[i]
    IN [k \in 1..Len(pos) |-> Add(Mul(inp.fac, Y[inp.src][pos[k] + 1]), inp.off)]

\* linear part only (derivative propagation): rows of dY[src] selected and scaled
InJac(M, dY, i) ==
    LET pos == ConnPos(M, i)
        inp == M.ins[i]
    IN [k \in 1..Len(pos) |-> [c \in DOMAIN dY[inp.src][pos[k] + 1] |-> Mul(inp.fac, dY[inp.src][pos[k] + 1][c])]]

\* sum_k a[k] * x[k]
RECURSIVE DotFrom(_, _, _)
DotFrom(a, x, k) == IF k > Len(a) THEN Zero
                    ELSE IF a[k] = Zero THEN DotFrom(a, x, k + 1)
                    ELSE Add(Mul(a[k], x[k]), DotFrom(a, x, k + 1))
RDot(a, x) == DotFrom(a, x, 1)

\* right-hand side  b[o] + SUM_i A[o][i] . in[i]  for output number ko of component c
Rhs(M, c, Y, ko) ==
    LET n == Len(c.b[ko])
        RECURSIVE Acc(_, _)
        Acc(ki, r) == IF ki > Len(c.ins) THEN c.b[ko][r]
                      ELSE Add(RDot(c.A[ko][ki][r], InVal(M, Y, c.ins[ki])), Acc(ki + 1, r))
    IN [r \in 1..n |-> Acc(1, r)]

CompOut(M, c, Y, ko) == LET rhs == Rhs(M, c, Y, ko) IN [r \in DOMAIN rhs |-> Div(rhs[r], c.d[ko][r])]

\* the same for derivatives: dY maps output id -> matrix (rows = entries, columns = independent scalars)
JRow(M, c, dY, ko, r, ncol) ==
    LET RECURSIVE AccI(_, _)
        AccI(ki, col) ==
            IF ki > Len(c.ins) THEN Zero
            ELSE LET ij == InJac(M, dY, c.ins[ki])
                     a == c.A[ko][ki][r]
                     RECURSIVE AccK(_)
                     AccK(k) == IF k > Len(a) THEN Zero
                                ELSE IF a[k] = Zero THEN AccK(k + 1)
                                ELSE Add(Mul(a[k], ij[k][col]), AccK(k + 1))
                 IN Add(AccK(1), AccI(ki + 1, col))
    IN [col \in 1..ncol |-> Div(AccI(1, col), c.d[ko][r])]

InitY(M) == [o \in 1..Len(M.outs) |-> M.outs[o].val]

\* --- feed-forward models: one ordered pass ------------------------------------------------------
RECURSIVE EvalFrom(_, _, _)
EvalFrom(M, k, Y) ==
    IF k > Len(M.comps) THEN Y
    ELSE LET c == M.comps[k]
         IN IF c.kind = "ivc" THEN EvalFrom(M, k + 1, Y)
            ELSE EvalFrom(M, k + 1,
                          [o \in DOMAIN Y |-> IF \E ko \in 1..Len(c.outs) : c.outs[ko] = o
                                              THEN CompOut(M, c, Y, CHOOSE ko \in 1..Len(c.outs) : c.outs[ko] = o)
                                              ELSE Y[o]])
Converged(M) == EvalFrom(M, 1, InitY(M))

\* independent scalars: entries of the ivc outputs, in output order
IvcOuts(M) == {o \in 1..Len(M.outs) : M.comps[M.outs[o].comp].kind = "ivc"}
RECURSIVE ColBase(_, _)
ColBase(M, o) == IF o = 1 THEN 0
                 ELSE ColBase(M, o - 1) + (IF (o - 1) \in IvcOuts(M) THEN OSize(M, o - 1) ELSE 0)
NCols(M) == ColBase(M, Len(M.outs) + 1)

InitDY(M) ==
    LET nc == NCols(M)
    IN [o \in 1..Len(M.outs) |->
          [r \in 1..OSize(M, o) |->
              [col \in 1..nc |-> IF o \in IvcOuts(M) /\ col = ColBase(M, o) + r THEN One ELSE Zero]]]

RECURSIVE JacFrom(_, _, _)
JacFrom(M, k, dY) ==
    IF k > Len(M.comps) THEN dY
    ELSE LET c == M.comps[k]
             nc == NCols(M)
         IN IF c.kind = "ivc" THEN JacFrom(M, k + 1, dY)
            ELSE JacFrom(M, k + 1,
                         [o \in DOMAIN dY |-> IF \E ko \in 1..Len(c.outs) : c.outs[ko] = o
                                              THEN LET ko == CHOOSE q \in 1..Len(c.outs) : c.outs[q] = o
                                                   IN [r \in 1..OSize(M, o) |-> JRow(M, c, dY, ko, r, nc)]
                                              ELSE dY[o]])
\* d(all outputs)/d(independent scalars)
TotalAll(M) == JacFrom(M, 1, InitDY(M))

\* --- models with feedback: the converged state and its derivative are characterised, not computed ------------
IsFixpoint(M, Y) ==
    \A k \in 1..Len(M.comps) :
        LET c == M.comps[k]
        IN \A ko \in 1..Len(c.outs) :
              IF c.kind = "ivc" THEN Y[c.outs[ko]] = M.outs[c.outs[ko]].val
              ELSE LET rhs == Rhs(M, c, Y, ko)
                   IN \A r \in DOMAIN rhs :
                         IF c.kind = "bil" /\ ko = 2
                         THEN Mul(Y[c.outs[1]][r], Y[c.outs[2]][r]) = rhs[r]
                         ELSE Mul(c.d[ko][r], Y[c.outs[ko]][r]) = rhs[r]

\* right-hand side of the linearised equation of row r of output ko: SUM_i A[ko][i][r] . d(in_i)   (no division)
LinRhs(M, c, dY, ko, r, ncol) ==
    LET RECURSIVE AccI(_, _)
        AccI(ki, col) ==
            IF ki > Len(c.ins) THEN Zero
            ELSE LET ij == InJac(M, dY, c.ins[ki])
                     a == c.A[ko][ki][r]
                     RECURSIVE AccK(_)
                     AccK(k) == IF k > Len(a) THEN Zero
                                ELSE IF a[k] = Zero THEN AccK(k + 1)
                                ELSE Add(Mul(a[k], ij[k][col]), AccK(k + 1))
                 IN Add(AccK(1), AccI(ki + 1, col))
    IN [col \in 1..ncol |-> AccI(1, col)]

\* dY is the derivative of the converged state Y with respect to the independent scalars
IsTotalAll(M, Y, dY) ==
    LET nc == NCols(M)
    IN \A k \in 1..Len(M.comps) :
          LET c == M.comps[k]
          IN \A ko \in 1..Len(c.outs) :
                IF c.kind = "ivc" THEN dY[c.outs[ko]] = InitDY(M)[c.outs[ko]]
                ELSE \A r \in 1..OSize(M, c.outs[ko]) :
                        LET rhs == LinRhs(M, c, dY, ko, r, nc)
                        IN IF c.kind = "bil" /\ ko = 2
                           THEN \A col \in 1..nc :        \* y2 dy1 + y1 dy2 = A2 d(in)
                                   Add(Mul(Y[c.outs[2]][r], dY[c.outs[1]][r][col]),
                                       Mul(Y[c.outs[1]][r], dY[c.outs[2]][r][col])) = rhs[col]
                           ELSE \A col \in 1..nc : Mul(c.d[ko][r], dY[c.outs[ko]][r][col]) = rhs[col]

\* all inputs of the model given output values
AllInputs(M, Y) == [i \in 1..Len(M.ins) |-> InVal(M, Y, i)]

\* --- relevance (C24) -------------------------------------------------------------------------------
\* Variable-level dependency graph on outputs: o -> o2 when some input fed by o enters a component whose block
\* d(o2)/d(input) is not identically zero.  Only true dependencies count: the set derived from it is what a
\* derivative computation NEEDS (a lower bound on what may be skipped), so over-execution is never flagged.
NonZeroBlock(blk) == \E r \in 1..Len(blk) : \E k \in 1..Len(blk[r]) : blk[r][k] # Zero
OutEdges(M) ==
    UNION {UNION {{<<M.ins[M.comps[c].ins[ki]].src, M.comps[c].outs[ko]>> :
                        ko \in {q \in 1..Len(M.comps[c].outs) : NonZeroBlock(M.comps[c].A[q][ki])}}
                  : ki \in 1..Len(M.comps[c].ins)}
           : c \in {k \in 1..Len(M.comps) : M.comps[k].kind # "ivc"}}
    \cup {<<M.comps[c].outs[1], M.comps[c].outs[2]>> : c \in {k \in 1..Len(M.comps) : M.comps[k].kind = "bil"}}
         \* the second residual of a bilinear component depends on its first state
RECURSIVE ReachFrom(_, _)
ReachFrom(E, S) == LET N == S \cup {e[2] : e \in {x \in E : x[1] \in S}} IN IF N = S THEN S ELSE ReachFrom(E, N)
Reach(M, S) == ReachFrom(OutEdges(M), S)
CoReach(M, S) == ReachFrom({<<e[2], e[1]>> : e \in OutEdges(M)}, S)
\* outputs on a dependency path from one of the seed outputs to one of the target outputs
OnPath(M, seeds, targets) == Reach(M, seeds) \cap CoReach(M, targets)
\* fwd: a design variable's derivatives need every component that owns an output between it and any response;
\* rev: the mirror image
RelevantComps(M, mode, seed, others) ==
    LET outs == IF mode = "fwd" THEN OnPath(M, {seed}, others) ELSE OnPath(M, others, {seed})
    IN {M.outs[o].comp : o \in outs}

\* --- variables of interest ----------------------------------------------------------------------
\* voi: [out (output id), idx (NdIndex term or the record [k |-> "none"]), flat, scaler, adder]  (exact rationals)
VoiPos(M, v) == IF v.idx.k = "none" THEN [k \in 1..OSize(M, v.out) |-> k - 1]
                ELSE Nd!Positions(v.idx, M.outs[v.out].shape, v.flat)

\* model-units block d(of)/d(wrt) from dY
Block(M, dY, of, wrt) ==
    LET rp == VoiPos(M, of)
        cp == VoiPos(M, wrt)
    IN [r \in 1..Len(rp) |-> [c \in 1..Len(cp) |-> dY[of.out][rp[r] + 1][ColBase(M, wrt.out) + cp[c] + 1]]]

\* driver-scaled block: rows times the response scaler, columns divided by the design-variable scaler
ScaledBlock(M, dY, of, wrt) ==
    LET b == Block(M, dY, of, wrt)
    IN [r \in DOMAIN b |-> [c \in DOMAIN b[r] |-> Div(Mul(b[r][c], of.scaler), wrt.scaler)]]
=============================================================================
