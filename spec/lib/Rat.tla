-------------------------------- MODULE Rat --------------------------------
(***************************************************************************)
(* Exact rational arithmetic for the specifications.  A rational is a      *)
(* normalised pair <<num, den>> with den > 0 and gcd(|num|, den) = 1.      *)
(* Two extended values carry IEEE semantics where the code relies on them: *)
(*   NaN == <<0, 0>>     Inf == <<1, 0>>    (only +Inf is needed)          *)
(* TLC integers are 32 bit and overflow is an error, never a wrap, so a    *)
(* result computed here is either exact or the run aborts.                 *)
(***************************************************************************)
EXTENDS Integers, Sequences

Abs(x) == IF x < 0 THEN -x ELSE x
Sgn(x) == IF x < 0 THEN -1 ELSE IF x > 0 THEN 1 ELSE 0

RECURSIVE Gcd(_, _)
Gcd(a, b) == IF b = 0 THEN a ELSE Gcd(b, a % b)

Norm(n, d) ==   \* d # 0
    LET s == IF d < 0 THEN -1 ELSE 1
        g == Gcd(Abs(n), Abs(d))
    IN IF n = 0 THEN <<0, 1>> ELSE <<(s * n) \div g, (s * d) \div g>>

R(n) == <<n, 1>>
Q(n, d) == Norm(n, d)
Zero == <<0, 1>>
One == <<1, 1>>
NaN == <<0, 0>>
Inf == <<1, 0>>

IsNaN(a) == a = NaN
IsInf(a) == a = Inf
IsFin(a) == a[2] # 0
IsRat(a) == a \in Int \X Int /\ a[2] > 0 /\ Gcd(Abs(a[1]), a[2]) = 1

\* finite arithmetic (arguments must be finite)
\* addition over the least common denominator (keeps intermediates small: TLC integers are 32 bit)
Add(a, b) == IF a[2] = b[2] THEN Norm(a[1] + b[1], a[2])
             ELSE LET g == Gcd(a[2], b[2])
                  IN Norm(a[1] * (b[2] \div g) + b[1] * (a[2] \div g), (a[2] \div g) * b[2])
Neg(a) == <<-a[1], a[2]>>
Sub(a, b) == Add(a, Neg(b))
\* cross-cancel before multiplying
Mul(a, b) == IF a[1] = 0 \/ b[1] = 0 THEN <<0, 1>>
             ELSE LET g1 == Gcd(Abs(a[1]), b[2])
                      g2 == Gcd(Abs(b[1]), a[2])
                  IN <<(a[1] \div g1) * (b[1] \div g2), (a[2] \div g2) * (b[2] \div g1)>>
Inv(a) == Norm(a[2], a[1])          \* a # 0
Div(a, b) == Mul(a, Inv(b))                    \* b # 0
RAbs(a) == <<Abs(a[1]), a[2]>>
Lt(a, b) == a[1] * b[2] < b[1] * a[2]
Le(a, b) == a[1] * b[2] <= b[1] * a[2]
Gt(a, b) == Lt(b, a)
Ge(a, b) == Le(b, a)
RMin(a, b) == IF Le(a, b) THEN a ELSE b
RMax(a, b) == IF Le(a, b) THEN b ELSE a
RSgn(a) == Sgn(a[1])

\* IEEE comparisons / operations on the extended non-negative values (norms)
\* a > b in floating point: false when either side is NaN
XGt(a, b) == CASE IsNaN(a) \/ IsNaN(b) -> FALSE
               [] IsInf(a) -> ~IsInf(b)
               [] IsInf(b) -> FALSE
               [] OTHER -> Gt(a, b)
XLe(a, b) == CASE IsNaN(a) \/ IsNaN(b) -> FALSE
               [] IsInf(a) -> IsInf(b)
               [] IsInf(b) -> TRUE
               [] OTHER -> Le(a, b)
\* a / b for a >= 0, b > 0 (or Inf/NaN)
XDiv(a, b) == CASE IsNaN(a) \/ IsNaN(b) -> NaN
                [] IsInf(a) /\ IsInf(b) -> NaN
                [] IsInf(a) -> Inf
                [] IsInf(b) -> Zero
                [] OTHER -> Div(a, b)
\* |a - b|
XAbsDiff(a, b) == CASE IsNaN(a) \/ IsNaN(b) -> NaN
                    [] IsInf(a) /\ IsInf(b) -> NaN
                    [] IsInf(a) \/ IsInf(b) -> Inf
                    [] OTHER -> RAbs(Sub(a, b))

\* vectors of rationals
VAdd(u, v) == [i \in DOMAIN u |-> Add(u[i], v[i])]
VSub(u, v) == [i \in DOMAIN u |-> Sub(u[i], v[i])]
VScale(c, v) == [i \in DOMAIN v |-> Mul(c, v[i])]
RECURSIVE SumSeq(_)
SumSeq(s) == IF s = <<>> THEN Zero ELSE Add(s[1], SumSeq(Tail(s)))
Dot(u, v) == SumSeq([i \in DOMAIN u |-> Mul(u[i], v[i])])
=============================================================================
