------------------------------- MODULE NdIndex -------------------------------
(***************************************************************************)
(* NumPy basic + advanced indexing, restricted to the index forms that     *)
(* OpenMDAO's `indexer` accepts (openmdao/utils/indexer.py).  LIBRARY      *)
(* module: pure operators, no variables, no constants to instantiate.      *)
(*                                                                         *)
(* Index terms are tagged records (TLC cannot compare values of different  *)
(* types; every kind has its own payload field so that two terms of        *)
(* different kinds are always comparable):                                 *)
(*    IntT(i)        = [k |-> "int",   i |-> i]                            *)
(*    SliceT(a,b,s)  = [k |-> "slice", a |-> start, b |-> stop, s |-> step]*)
(*                     an omitted part (Python None) is the sentinel NoneV *)
(*    ArrT(v)        = [k |-> "arr",   v |-> <<i1, ..., iL>>]   1-D array  *)
(*    Arr2T(m)       = [k |-> "arr2",  m |-> <<row1, ..., rowR>>] 2-D array*)
(*                     (R >= 1 rows of equal length; the payload field is  *)
(*                     `m`, not `v`: with the same field name TLC would    *)
(*                     compare an integer with a tuple when an "arr" and   *)
(*                     an "arr2" term meet in one set)                     *)
(*    Ell            = [k |-> "ell"]                                       *)
(*    TupT(t)        = [k |-> "tuple", t |-> <<term, ..., term>>]          *)
(*                     (terms of a tuple are not tuples themselves)        *)
(* Shapes are sequences of positive integers (result shapes may hold 0).   *)
(* Positions are 0-based offsets into the C-ordered (row-major) flattened  *)
(* source.  With flatSrc = TRUE the index addresses the flattened source,  *)
(* i.e. an array of shape <<Size(shape)>>.                                 *)
(*                                                                         *)
(* API (keep these names, other modules use them):                         *)
(*   Size(shape)                       number of elements                  *)
(*   Valid(idx, shape, flatSrc)        NumPy accepts the index             *)
(*   Positions(idx, shape, flatSrc)    selected positions, C order of the  *)
(*                                     result; Err = <<-1>> when ~Valid    *)
(*   ResultShape(idx, shape, flatSrc)  shape of the result; Err when ~Valid*)
(*   Indexed(idx, shape, flatSrc)      [ok, rs, pos] in one evaluation     *)
(*   Compose(p2, pos1)                 pos1 re-indexed by the positions p2 *)
(*   ComposePositions(idx2, shape2, flat2, pos1)                           *)
(*                                     pos1 = source positions of an       *)
(*                                     intermediate array of shape shape2, *)
(*                                     indexed again by idx2; Err on error *)
(*   Chain(chain, shape)               [pos, shape] of a whole chain       *)
(*                                     <<[idx |-> .., flat |-> ..], ...>>  *)
(*   Array2Slice(arr)                  equivalent slice term or NoSlice    *)
(*   NoneV  Err  NoSlice  and the constructors IntT SliceT FullSlice ArrT  *)
(*   Arr2T Ell TupT.                                                       *)
(* The module is compared with NumPy on every scenario of NdIndexMC by     *)
(* harness/vf/drivers/c05.py (oracle self-check).                          *)
(***************************************************************************)
EXTENDS Integers, Sequences, FiniteSets

NoneV   == 99999                      \* Python None inside a slice (outside every index range used)
Err     == <<-1>>                     \* error marker of Positions / ResultShape (positions are >= 0)
NoSlice == [k |-> "noslice"]          \* Array2Slice: no equivalent slice

IntT(i)         == [k |-> "int", i |-> i]
SliceT(a, b, s) == [k |-> "slice", a |-> a, b |-> b, s |-> s]
FullSlice       == SliceT(NoneV, NoneV, NoneV)
ArrT(v)         == [k |-> "arr", v |-> v]
Arr2T(m)        == [k |-> "arr2", m |-> m]
Ell             == [k |-> "ell"]
TupT(t)         == [k |-> "tuple", t |-> t]

\* ---------------------------------------------------------------------------------------------
\* shapes, strides
RECURSIVE Size(_)
Size(sh) == IF Len(sh) = 0 THEN 1 ELSE sh[1] * Size(Tail(sh))

Stride(sh, j)  == Size(SubSeq(sh, j + 1, Len(sh)))
Strides(sh)    == [j \in 1..Len(sh) |-> Stride(sh, j)]
Iota(n)        == [j \in 1..n |-> j - 1]                 \* <<0, ..., n-1>>
EffShape(shape, flatSrc) == IF flatSrc THEN <<Size(shape)>> ELSE shape

RECURSIVE SumTo(_, _)
SumTo(f, n) == IF n = 0 THEN 0 ELSE f[n] + SumTo(f, n - 1)    \* f[1] + ... + f[n]

SetMin(S) == CHOOSE x \in S : \A y \in S : x <= y
SetMax(S) == CHOOSE x \in S : \A y \in S : x >= y
IMax(a, b) == IF a >= b THEN a ELSE b

\* ---------------------------------------------------------------------------------------------
\* slices: Python's slice.indices(n) (PySlice_AdjustIndices) and the selected coordinates
SlStep(t) == IF t.s = NoneV THEN 1 ELSE t.s
Clip(x, n, st) ==                      \* x: explicit start or stop, st: step # 0
    IF x < 0 THEN (IF x + n < 0 THEN (IF st < 0 THEN -1 ELSE 0) ELSE x + n)
    ELSE IF x >= n THEN (IF st < 0 THEN n - 1 ELSE n) ELSE x
SlStart(t, n) == LET st == SlStep(t) IN
    IF t.a = NoneV THEN (IF st < 0 THEN n - 1 ELSE 0) ELSE Clip(t.a, n, st)
SlStop(t, n) == LET st == SlStep(t) IN
    IF t.b = NoneV THEN (IF st < 0 THEN -1 ELSE n) ELSE Clip(t.b, n, st)
SlLen(t, n) == LET st == SlStep(t)  a == SlStart(t, n)  b == SlStop(t, n) IN
    IF st > 0 THEN (IF a < b THEN ((b - a - 1) \div st) + 1 ELSE 0)
    ELSE (IF b < a THEN ((a - b - 1) \div (-st)) + 1 ELSE 0)
SliceSel(t, n) == LET st == SlStep(t)  a == SlStart(t, n) IN
    [j \in 1..SlLen(t, n) |-> a + (j - 1) * st]

\* ---------------------------------------------------------------------------------------------
\* integer / array terms ("advanced" indices; an int is a 0-d array)
InR(i, n)  == i >= -n /\ i < n
Norm(i, n) == IF i < 0 THEN i + n ELSE i
FlatRows(m) == LET c == Len(m[1]) IN
    [j \in 1..(Len(m) * c) |-> m[((j - 1) \div c) + 1][((j - 1) % c) + 1]]
AShape(t) == CASE t.k = "int"  -> <<>>
               [] t.k = "arr"  -> <<Len(t.v)>>
               [] t.k = "arr2" -> <<Len(t.m), Len(t.m[1])>>
ARaw(t) == CASE t.k = "int"  -> <<t.i>>
             [] t.k = "arr"  -> t.v
             [] t.k = "arr2" -> FlatRows(t.m)
AData(t, n) == LET r == ARaw(t) IN [j \in 1..Len(r) |-> Norm(r[j], n)]

\* NumPy broadcasting of two shapes (right aligned); -1 marks an incompatible dimension and is absorbing
BDim(a, b) == IF a = b THEN a ELSE IF a = 1 THEN b ELSE IF b = 1 THEN a ELSE -1
PadL(sh, r) == [j \in 1..r |-> IF j <= r - Len(sh) THEN 1 ELSE sh[j - (r - Len(sh))]]
Bcast2(s1, s2) == LET r == IMax(Len(s1), Len(s2))  p1 == PadL(s1, r)  p2 == PadL(s2, r) IN
    [j \in 1..r |-> BDim(p1[j], p2[j])]
RECURSIVE BcastAll(_, _)
BcastAll(shs, n) == IF n = 0 THEN <<>> ELSE Bcast2(BcastAll(shs, n - 1), shs[n])   \* shs[1..n]

\* ---------------------------------------------------------------------------------------------
\* normal form: one term per source axis
Terms(idx)  == IF idx.k = "tuple" THEN idx.t ELSE <<idx>>
EllPos(ts)  == {p \in 1..Len(ts) : ts[p].k = "ell"}
Fulls(n)    == [j \in 1..n |-> FullSlice]
Expand(ts, rank) ==          \* requires Cardinality(EllPos(ts)) <= 1 and #non-ellipsis terms <= rank
    LET ep == EllPos(ts) IN
    IF ep = {} THEN ts \o Fulls(rank - Len(ts))
    ELSE LET p == CHOOSE q \in ep : TRUE IN
         SubSeq(ts, 1, p - 1) \o Fulls(rank - (Len(ts) - 1)) \o SubSeq(ts, p + 1, Len(ts))

WellFormedTerm(t) ==
    \/ t.k \in {"int", "slice", "arr", "ell"}
    \/ t.k = "arr2" /\ Len(t.m) >= 1 /\ \A r \in 1..Len(t.m) : Len(t.m[r]) = Len(t.m[1])
WellFormed(idx) == IF idx.k = "tuple" THEN \A p \in 1..Len(idx.t) : WellFormedTerm(idx.t[p])
                   ELSE WellFormedTerm(idx)

AxisOK(t, n) == IF t.k = "slice" THEN SlStep(t) # 0
                ELSE LET r == ARaw(t) IN \A j \in 1..Len(r) : InR(r[j], n)

\* Valid: NumPy accepts `a[idx]` for an array a of shape EffShape(shape, flatSrc)
Valid(idx, shape, flatSrc) ==
    LET sh == EffShape(shape, flatSrc)
        ts == Terms(idx)
        ne == Cardinality(EllPos(ts))
    IN /\ WellFormed(idx)
       /\ ne <= 1
       /\ Len(ts) - ne <= Len(sh)
       /\ LET E    == Expand(ts, Len(sh))
              advs == {a \in 1..Len(sh) : E[a].k # "slice"}
              ashs == [a \in 1..Len(sh) |-> IF a \in advs THEN AShape(E[a]) ELSE <<>>]
              B    == BcastAll(ashs, Len(sh))
          IN /\ \A a \in 1..Len(sh) : AxisOK(E[a], sh[a])
             /\ \A j \in 1..Len(B) : B[j] >= 0

\* Plan: result shape and positions of a VALID index.
\*  - slices contribute one result dimension each, in order;
\*  - ints and arrays are broadcast together to shape B; the B dimensions stand where the first of them stood when
\*    they are adjacent in the written tuple (ints count as advanced indices as soon as they share the tuple; a slice
\*    or an ellipsis - even one that stands for no axis - between two of them separates them), otherwise in front.
Plan(idx, shape, flatSrc) ==
    LET sh    == EffShape(shape, flatSrc)
        rank  == Len(sh)
        E     == Expand(Terms(idx), rank)
        advs  == {a \in 1..rank : E[a].k # "slice"}
        sel   == [a \in 1..rank |-> IF a \in advs THEN <<>> ELSE SliceSel(E[a], sh[a])]
        ash   == [a \in 1..rank |-> IF a \in advs THEN AShape(E[a]) ELSE <<>>]
        adat  == [a \in 1..rank |-> IF a \in advs THEN AData(E[a], sh[a]) ELSE <<>>]
        astr  == [a \in 1..rank |-> Strides(ash[a])]
        B     == BcastAll(ash, rank)
        nb    == Len(B)
        first == IF advs = {} THEN 0 ELSE SetMin(advs)
        \* adjacency is judged on the tuple AS WRITTEN: an ellipsis between two of them separates them even when it
        \* stands for no axis at all
        ts    == Terms(idx)
        wadv  == {p \in 1..Len(ts) : ts[p].k \notin {"slice", "ell"}}
        adj   == wadv = {} \/ Cardinality(wadv) = SetMax(wadv) - SetMin(wadv) + 1
        boff  == IF advs # {} /\ adj THEN first - 1 ELSE 0        \* result dims in front of the B block
        \* result dimension of the slice on axis a
        dimOf == [a \in 1..rank |-> LET q == a - Cardinality({x \in advs : x < a}) IN
                                     IF adj /\ a < first THEN q ELSE q + nb]
        R     == (rank - Cardinality(advs)) + nb
        rs    == [j \in 1..R |-> IF j > boff /\ j <= boff + nb THEN B[j - boff]
                                 ELSE LET a == CHOOSE x \in (1..rank) \ advs : dimOf[x] = j IN Len(sel[a])]
        rstr  == Strides(rs)
        sstr  == Strides(sh)
        \* source coordinate on axis a for the result multi-index M (0-based)
        Coord(a, M) ==
            IF a \notin advs THEN sel[a][M[dimOf[a]] + 1]
            ELSE LET q   == Len(ash[a])
                     off == SumTo([j \in 1..q |-> (IF ash[a][j] = 1 THEN 0 ELSE M[boff + nb - q + j]) * astr[a][j]], q)
                 IN adat[a][off + 1]
        pos   == [r \in 1..Size(rs) |->
                    LET M == [j \in 1..R |-> ((r - 1) \div rstr[j]) % rs[j]] IN
                    SumTo([a \in 1..rank |-> Coord(a, M) * sstr[a]], rank)]
    IN [rs |-> rs, pos |-> pos]

Positions(idx, shape, flatSrc)   == IF Valid(idx, shape, flatSrc) THEN Plan(idx, shape, flatSrc).pos ELSE Err
ResultShape(idx, shape, flatSrc) == IF Valid(idx, shape, flatSrc) THEN Plan(idx, shape, flatSrc).rs ELSE Err
\* both at once (one evaluation of the plan): [ok, rs, pos]
Indexed(idx, shape, flatSrc) ==
    IF Valid(idx, shape, flatSrc)
    THEN LET p == Plan(idx, shape, flatSrc) IN [ok |-> TRUE, rs |-> p.rs, pos |-> p.pos]
    ELSE [ok |-> FALSE, rs |-> Err, pos |-> Err]

\* ---------------------------------------------------------------------------------------------
\* composition (chains of src_indices)
\* Compose(p2, pos1): p2 = positions selected from an intermediate array whose element j (0-based, C order) is the
\* source position pos1[j+1]; the result holds the source positions of the selected elements.
Compose(p2, pos1) == [j \in 1..Len(p2) |-> pos1[p2[j] + 1]]
\* pos1: source positions of an intermediate array of shape shape2 (Len(pos1) = Size(shape2)), indexed again by idx2
ComposePositions(idx2, shape2, flat2, pos1) ==
    LET p2 == Positions(idx2, shape2, flat2) IN
    IF p2 = Err \/ Len(pos1) # Size(shape2) THEN Err ELSE Compose(p2, pos1)
\* chain = << [idx |-> term, flat |-> BOOLEAN], ... >> applied first to last to a source of the given shape:
\* [pos |-> source positions of the final array, shape |-> its shape], or Err in both fields
RECURSIVE ChainFrom(_, _, _, _)
ChainFrom(chain, j, pos, shp) ==
    IF j > Len(chain) THEN [pos |-> pos, shape |-> shp]
    ELSE LET c == chain[j]  r == Indexed(c.idx, shp, c.flat) IN
         IF ~r.ok THEN [pos |-> Err, shape |-> Err]
         ELSE ChainFrom(chain, j + 1, Compose(r.pos, pos), r.rs)
Chain(chain, shape) == ChainFrom(chain, 1, Iota(Size(shape)), shape)

\* ---------------------------------------------------------------------------------------------
\* index array -> equivalent slice.  Law (checked in NdIndexMC):
\*   Array2Slice(arr) = s /\ s # NoSlice  =>  Positions(s, <<n>>, TRUE) = arr  for every n > max(arr)
\* A slice exists exactly when arr is empty, or a single entry >= 0, or an arithmetic progression with non-zero step
\* of entries >= 0 (an entry < 0 denotes a different position for every n, so no fixed slice reproduces it).
IsProgression(arr) == \A j \in 2..Len(arr) : arr[j] - arr[j - 1] = arr[2] - arr[1]
Array2Slice(arr) ==
    LET L == Len(arr) IN
    IF L = 0 THEN SliceT(0, 0, 1)
    ELSE IF \E j \in 1..L : arr[j] < 0 THEN NoSlice
    ELSE IF L = 1 THEN SliceT(arr[1], arr[1] + 1, 1)
    ELSE LET d == arr[2] - arr[1] IN
         IF d = 0 \/ ~IsProgression(arr) THEN NoSlice
         ELSE IF d > 0 THEN SliceT(arr[1], arr[L] + 1, d)
         ELSE IF arr[L] >= 1 THEN SliceT(arr[1], arr[L] - 1, d)
         ELSE SliceT(arr[1], NoneV, d)              \* runs down to position 0: the stop must be omitted
=============================================================================
