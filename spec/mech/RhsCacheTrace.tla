--------------------------- MODULE RhsCacheTrace ---------------------------
(***************************************************************************)
(* Trace validation of the real LinearRHSChecker against RhsCache.tla.     *)
(* The harness drives the real object through the DirectSolver.solve       *)
(* protocol (get_solution; on a miss solve and add_solution) with random   *)
(* call sequences and logs, per call, the right-hand side, the flag of the *)
(* seed condition, and what came back (zero / a solution / nothing).  Each *)
(* event must be a step RhsCache allows, with the logged answer.           *)
(***************************************************************************)
EXTENDS Integers, Sequences, FiniteSets, TLC, Json, IOUtils

Traces == JsonDeserialize(IOEnv.RHS_TRACES)

CONSTANTS K, CheckZero, MaxTotals, MaxSolves     \* one TLC run per (max_cache_entries, check_zero) class of traces
VARIABLES tid, l, cache, marker, nct, lin, nsolve, last, verdict

ClearOnRelin == TRUE

Base == INSTANCE RhsCache
vars == <<tid, l, cache, marker, nct, lin, nsolve, last, verdict>>

Ev == Traces[tid].ev[l]
ToV(q) == <<q[1], q[2]>>

Init == /\ tid \in 1..Len(Traces) /\ l = 1 /\ verdict = "ok"
        /\ Base!Init

Consume ==
    /\ verdict = "ok" /\ l <= Len(Traces[tid].ev)
    /\ UNCHANGED tid
    /\ LET e == Ev IN
       \/ /\ e.a = "solve"
          /\ Base!Solve(ToV(e.rhs), e.red)
          /\ last'.how = "zero" <=> e.ret = "zero"
          /\ e.ret = "hit" <=> last'.how \in {"eq", "neg", "par"}
          /\ e.ret = "hit" => last'.ans = ToV(e.sol)
          /\ l' = l + 1 /\ UNCHANGED verdict
       \/ /\ e.a = "totals" /\ Base!NewTotals /\ l' = l + 1 /\ UNCHANGED verdict
       \/ /\ e.a = "relin" /\ Base!Relinearize /\ l' = l + 1 /\ UNCHANGED verdict

\* no step of the specification explains the next event: the trace is rejected there
Reject == /\ verdict = "ok" /\ l <= Len(Traces[tid].ev)
          /\ ~ENABLED Consume
          /\ verdict' = "rejected"
          /\ UNCHANGED <<tid, l, cache, marker, nct, lin, nsolve, last>>

Next == Consume \/ Reject

AnswerCorrect == Base!AnswerCorrect
CacheSound == Base!CacheSound

Finished == verdict # "ok" \/ l > Len(Traces[tid].ev)
Export == Finished => PrintT(<<"EXP", ToJson([tid |-> tid, v |-> verdict, n |-> l - 1])>>)
=============================================================================
