------------------------------- MODULE FuncSig -------------------------------
(***************************************************************************)
(* C34: how a function's arguments and return values are bound to the      *)
(* variables of a function / jax component with SEVERAL inputs and outputs.*)
(*                                                                         *)
(* A structure S describes the wrapped function and its declaration:       *)
(*   impl   the outputs are states (implicit component): they are also     *)
(*          arguments of the function and the return values are residuals  *)
(*   api    "func"  openmdao.func_api.wrap(f) + ExplicitFuncComp /         *)
(*                  ImplicitFuncComp                                       *)
(*          "class" JaxExplicitComponent / JaxImplicitComponent subclass   *)
(*                  with compute_primal                                    *)
(*   sig    the argument names of the function in signature order          *)
(*   ret    the outputs in the order in which the function returns their   *)
(*          values (residuals)                                             *)
(*   decl   the outputs in the order of the add_output calls               *)
(*   style  "named": the return values are simple names which the API      *)
(*                   matches BY NAME (output name, or resid= of a state)   *)
(*          "anon":  the return values are expressions; the k-th one       *)
(*                   belongs to the k-th declared output (so ret = decl)   *)
(*   ysh    shape of every output;  ish[i] shape of input i (ysh or (1,))  *)
(*                                                                         *)
(* The property (C34) is stated by name: argument a receives the value of  *)
(* the component variable a, the residual (output) of s is the return      *)
(* value that belongs to s, and the sub-Jacobian (s, w) is the exact       *)
(* derivative of that return value with respect to argument w - whatever   *)
(* the order of the arguments (states before / between / after the inputs), *)
(* of the return values and of the declarations, and whatever direction    *)
(* (Dir) the component chooses to compute its partials.                    *)
(*                                                                         *)
(* The positional bookkeeping an implementation needs is modelled too:     *)
(* Cols is the column order of the component Jacobian (outputs, then       *)
(* inputs), Dest maps a signature position to its column block (what       *)
(* ImplicitFuncComp._reorder_col_chunks has to realise in reverse mode),   *)
(* Start the column offsets.  The laws below are checked by TLC on every   *)
(* structure; FuncSigJudge.tla composes residual trees of Expr.tla with a  *)
(* structure and derives the expected residuals and blocks.                *)
(***************************************************************************)
EXTENDS Integers, Sequences, FiniteSets, TLC, Json

CONSTANTS MaxIn,      \* 1..3 inputs
          MaxOut,     \* 1..2 outputs / states
          YShapes     \* subset of {"s1", "v", "m"}: (1,), (3,), (2,2)

InPool == <<"u0", "u1", "u2">>
OutPool == <<"y0", "y1">>
ASSUME MaxIn \in 1..3 /\ MaxOut \in 1..2 /\ YShapes \subseteq {"s1", "v", "m"}

Ins(n) == {InPool[i] : i \in 1..n}
Outs(n) == {OutPool[i] : i \in 1..n}
AllIns == Ins(3)
AllOuts == Outs(2)
TreeVars == {"x0", "x1"}

\* the expression trees, D and Dom of Expr.tla over the argument names (its generator is not used here)
E == INSTANCE Expr WITH VarNames <- AllIns \cup AllOuts \cup TreeVars, ConstVals <- {2}, UnFns <- {}, BinOps <- {},
                        PowExps <- {}, MaxDepth <- 0, MaxOps <- 0,
                        toks <- <<>>, need <- <<>>, nops <- 0, out <- <<>>

SizeOf(sh) == CASE sh = "s1" -> 1 [] sh = "v" -> 3 [] sh = "m" -> 4

\* --- sequences --------------------------------------------------------------------------------------
RangeOf(s) == {s[i] : i \in 1..Len(s)}
NoDup(s) == \A i, j \in 1..Len(s) : i # j => s[i] # s[j]
RECURSIVE Perms(_)
Perms(S) == IF S = {} THEN {<<>>} ELSE UNION {{<<x>> \o p : p \in Perms(S \ {x})} : x \in S}
IndexOf(s, a) == CHOOSE i \in 1..Len(s) : s[i] = a
RECURSIVE Filter(_, _)
Filter(s, S) == IF s = <<>> THEN <<>>
                ELSE (IF Head(s) \in S THEN <<Head(s)>> ELSE <<>>) \o Filter(Tail(s), S)

\* --- a structure and what follows from it -----------------------------------------------------------
SOuts(S) == RangeOf(S.ret)
SIns(S) == DOMAIN S.ish
ShapeOf(S, a) == IF a \in SOuts(S) THEN S.ysh ELSE S.ish[a]
ArgSize(S, a) == SizeOf(ShapeOf(S, a))
RECURSIVE SumSizes(_, _)
SumSizes(S, s) == IF s = <<>> THEN 0 ELSE ArgSize(S, Head(s)) + SumSizes(S, Tail(s))

StructOK(S) ==
    /\ S.impl \in BOOLEAN /\ S.api \in {"func", "class"} /\ S.style \in {"named", "anon"}
    /\ S.ysh \in {"s1", "v", "m"}
    /\ SIns(S) \in {Ins(n) : n \in 1..3}
    /\ SOuts(S) \in {Outs(n) : n \in 1..2}
    /\ NoDup(S.sig) /\ NoDup(S.ret) /\ NoDup(S.decl)
    /\ RangeOf(S.decl) = SOuts(S)
    /\ RangeOf(S.sig) = SIns(S) \cup (IF S.impl THEN SOuts(S) ELSE {})
    /\ \A i \in SIns(S) : S.ish[i] \in {"s1", S.ysh}
    /\ S.style = "anon" => S.ret = S.decl                \* positional matching: the author returns them as declared
    /\ S.api = "class" =>                                \* compute_primal(self, inputs as added..., states as added...)
          /\ S.style = "anon"
          /\ S.impl => S.sig = Filter(S.sig, SIns(S)) \o S.decl

\* order of the component's variables: inputs as in the signature, outputs as returned
InOrder(S) == Filter(S.sig, SIns(S))
OutOrder(S) == S.ret
InSize(S) == SumSizes(S, InOrder(S))
OutSize(S) == SumSizes(S, OutOrder(S))
\* System.best_partial_deriv_direction: the direction in which the component computes (and colors) its partials
Dir(S) == IF OutSize(S) >= InSize(S) THEN "fwd" ELSE "rev"

\* columns of the component Jacobian the function is differentiated for: states (in output order), then inputs
Cols(S) == (IF S.impl THEN OutOrder(S) ELSE <<>>) \o InOrder(S)
Dest(S) == [i \in 1..Len(S.sig) |-> IndexOf(Cols(S), S.sig[i])]
Start(S, k) == SumSizes(S, SubSeq(Cols(S), 1, k - 1))     \* 0-based offset of block k
NCols(S) == (IF S.impl THEN OutSize(S) ELSE 0) + InSize(S)
\* the states are the trailing arguments, in output order (the layout of every documented example)
StatesTrail(S) == S.impl /\ S.sig = InOrder(S) \o OutOrder(S)
StateOrderKept(S) == Filter(S.sig, SOuts(S)) = (IF S.impl THEN OutOrder(S) ELSE <<>>)

Derived(S) == [dir |-> Dir(S), cols |-> Cols(S), dest |-> Dest(S), insize |-> InSize(S), outsize |-> OutSize(S),
               trail |-> StatesTrail(S), kept |-> StateOrderKept(S), ncols |-> NCols(S),
               start |-> [k \in 1..Len(Cols(S)) |-> Start(S, k)]]

\* --- generation: Init picks the coarse shape, ChooseArgs the argument order, ChooseRest the rest -------
\* (three levels so that TLC's workers share the enumeration)
VARIABLES co,     \* coarse choice
          ao,     \* <<>> or <<order of the arguments (func) / of the inputs (class)>>
          sc      \* <<>> or <<structure>>
vars == <<co, ao, sc>>

Init == /\ co \in [impl : BOOLEAN, api : {"func", "class"}, nin : 1..MaxIn, nout : 1..MaxOut, ysh : YShapes]
        /\ ao = <<>> /\ sc = <<>>

InShapes(c) == {f \in [Ins(c.nin) -> {"s1", c.ysh}] : Cardinality({i \in Ins(c.nin) : f[i] # c.ysh}) <= 1}

ChooseArgs == /\ ao = <<>>
              /\ \E p \in Perms(Ins(co.nin) \cup (IF co.impl /\ co.api = "func" THEN Outs(co.nout) ELSE {})) : ao' = <<p>>
              /\ UNCHANGED <<co, sc>>

Structures(c, p) ==
    LET PO == Perms(Outs(c.nout))
        SH == InShapes(c)
    IN IF c.api = "func"
       THEN {[impl |-> c.impl, api |-> "func", sig |-> p, ret |-> rt, decl |-> dc, style |-> st, ysh |-> c.ysh, ish |-> sh] :
                rt \in PO, dc \in PO, st \in {"named", "anon"}, sh \in SH}
       ELSE {[impl |-> c.impl, api |-> "class", sig |-> p \o (IF c.impl THEN dc ELSE <<>>), ret |-> dc, decl |-> dc,
              style |-> "anon", ysh |-> c.ysh, ish |-> sh] :
                dc \in PO, sh \in SH}

ChooseRest == /\ ao # <<>> /\ sc = <<>>
              /\ \E S \in Structures(co, ao[1]) : StructOK(S) /\ sc' = <<[s |-> S, v |-> Derived(S)]>>
              /\ UNCHANGED <<co, ao>>
Next == ChooseArgs \/ ChooseRest
Done == sc # <<>>
S0 == sc[1].s
\* (the laws read the values stored by the generating step: V0 = Derived(S0) by construction)
V0 == sc[1].v

\* --- laws ---------------------------------------------------------------------------------------------
TypeOK == Done => /\ StructOK(S0)
                  /\ Cardinality(SIns(S0)) = co.nin /\ Cardinality(SOuts(S0)) = co.nout
                  /\ S0.impl = co.impl /\ S0.api = co.api /\ S0.ysh = co.ysh
\* the Jacobian columns are exactly the differentiated arguments, each once; Dest is a bijection that keeps names
ColsLaw == Done => LET C == V0.cols
                       d == V0.dest
                       n == Len(S0.sig)
                   IN /\ NoDup(C) /\ RangeOf(C) = RangeOf(S0.sig)
                      /\ Len(C) = n /\ DOMAIN d = 1..n
                      /\ \A i \in 1..n : C[d[i]] = S0.sig[i]
                      /\ \A i, j \in 1..n : i # j => d[i] # d[j]
\* the column blocks tile 0..NCols-1 in the order of Cols
OffsetLaw == Done => LET C == V0.cols
                         st == V0.start
                     IN /\ st[1] = 0
                        /\ \A k \in 1..Len(C) - 1 : st[k + 1] = st[k] + ArgSize(S0, C[k])
                        /\ st[Len(C)] + ArgSize(S0, C[Len(C)]) = V0.ncols
\* moving the last |states| chunks to the front is the right reordering exactly when the states trail in output order
RotationLaw == (Done /\ S0.impl) =>
                   LET n == Len(S0.sig)
                       k == Len(S0.ret)
                       rot == [i \in 1..n |-> IF i > n - k THEN i - (n - k) ELSE i + k]
                   IN (\A i \in 1..n : V0.dest[i] = rot[i]) <=> V0.trail
\* the direction only depends on the sizes, never on the order of anything
DirLaw == Done => /\ V0.dir \in {"fwd", "rev"}
                  /\ (V0.dir = "rev") <=> (V0.insize > V0.outsize)
                  /\ V0.insize + (IF S0.impl THEN V0.outsize ELSE 0) = V0.ncols
\* the order of the states in the signature is the order of the outputs iff the states can be handed over positionally
KeptLaw == (Done /\ S0.impl) =>
               (V0.kept <=> \A i, j \in 1..Len(S0.sig) :
                               (i < j /\ S0.sig[i] \in SOuts(S0) /\ S0.sig[j] \in SOuts(S0)) => V0.dest[i] < V0.dest[j])

Export == Done => PrintT(<<"EXP", ToJson(sc[1])>>)
=============================================================================
