------------------------------- MODULE Order -------------------------------
(***************************************************************************)
(* Execution order of the subsystems of a group with auto_order enabled.   *)
(* C32: for an acyclic model every component executes after all of its    *)
(* data predecessors (so one ordered pass leaves every residual zero);     *)
(* subsystems inside a cycle keep their declared relative order.           *)
(*                                                                         *)
(* Scenario: a digraph E on nodes 1..N (edge <<a, b>>: an output of a      *)
(* feeds an input of b; self-loops excluded) and a declared order `decl`   *)
(* (a permutation of 1..N: the order of add_subsystem calls).  The spec is *)
(* permissive: ValidOrder accepts ANY order with the two properties, it    *)
(* does not fix the topological sort's tie-breaking.                       *)
(* Every component computes  y = 1 + SUM of its predecessors' y,  so the   *)
(* exact result of one ordered pass is known (Pass).                       *)
(***************************************************************************)
EXTENDS OrderOps, TLC, Json

CONSTANT N

Nodes == 1..N
AllEdges == {e \in Nodes \X Nodes : e[1] # e[2]}
Perms == {p \in [1..N -> Nodes] : \A i, j \in 1..N : i # j => p[i] # p[j]}

Acyclic(E) == AcyclicN(N, E)
Pos(ord, x) == PosN(N, ord, x)
ValidOrder(E, decl, ord) == ValidOrderN(N, E, decl, ord)

\* exact result of one pass in order `ord` starting from y = 0 everywhere
RECURSIVE PassFrom(_, _, _, _)
PassFrom(E, ord, k, y) ==
    IF k > N THEN y
    ELSE LET c == ord[k]
             preds == {e[1] : e \in {x \in E : x[2] = c}}
             RECURSIVE Sum(_)
             Sum(S) == IF S = {} THEN 0 ELSE LET x == CHOOSE z \in S : TRUE IN y[x] + Sum(S \ {x})
         IN PassFrom(E, ord, k + 1, [y EXCEPT ![c] = 1 + Sum(preds)])
Pass(E, ord) == PassFrom(E, ord, 1, [n \in Nodes |-> 0])
Residual(E, y, c) == y[c] - (1 + LET preds == {e[1] : e \in {x \in E : x[2] = c}}
                                      RECURSIVE Sum(_)
                                      Sum(S) == IF S = {} THEN 0 ELSE LET x == CHOOSE z \in S : TRUE IN y[x] + Sum(S \ {x})
                                  IN Sum(preds))

\* --- enumeration (two stages: the graph, then the declared order) and theorems on the spec ----------------
VARIABLES stage, E, decl
vars == <<stage, E, decl>>
Init == stage = 0 /\ E \in SUBSET AllEdges /\ decl = [i \in 1..N |-> i]
Choose == stage = 0 /\ stage' = 1 /\ decl' \in Perms /\ UNCHANGED E
Next == Choose

\* some valid order always exists
Exists == stage = 1 => \E ord \in Perms : ValidOrder(E, decl, ord)
\* acyclic: any valid order solves the model in one pass (all residuals zero), and the result does not depend on which
OnePassSolves == stage = 1 /\ Acyclic(E) =>
    \A ord \in Perms : ValidOrder(E, decl, ord) =>
        /\ \A c \in Nodes : Residual(E, Pass(E, ord), c) = 0
        /\ Pass(E, ord) = Pass(E, CHOOSE o \in Perms : ValidOrder(E, decl, o))
\* an order violating the first clause leaves a nonzero residual somewhere (the property is not vacuous)
BadOrderDetected == stage = 1 /\ Acyclic(E) =>
    \A ord \in Perms : (\E e \in E : Pos(ord, e[2]) < Pos(ord, e[1])) => \E c \in Nodes : Residual(E, Pass(E, ord), c) # 0

Export == stage = 1 => PrintT(<<"EXP", ToJson([n |-> N, edges |-> E, decl |-> decl, acyclic |-> Acyclic(E),
                                                y |-> IF Acyclic(E) THEN Pass(E, CHOOSE o \in Perms : ValidOrder(E, decl, o))
                                                      ELSE [n \in Nodes |-> 0]])>>)
=============================================================================
