------------------------------ MODULE RhsCache ------------------------------
(***************************************************************************)
(* The cache of linear solutions keyed on the right-hand side              *)
(* (openmdao/solvers/linear/linear_rhs_checker.py: LinearRHSChecker, as    *)
(* driven by DirectSolver.solve / ScipyKrylov.solve in rev mode).  C01:    *)
(* "regardless of ... linear-solver choice" includes the rhs_checking      *)
(* option; a wrong cache answer is a wrong column of the total jacobian.   *)
(*                                                                         *)
(* State: the deque of (rhs, solution) pairs, the compute_totals marker,   *)
(* the counter of compute_totals calls, which linearisation is current.    *)
(*   Solve(r, red)  zero skip / cache disabled / marker reset / scan the   *)
(*                  deque newest first for an equal, negated or parallel   *)
(*                  right-hand side / miss: solve and append               *)
(*   NewTotals      a new compute_totals call                              *)
(*   Relinearize    the jacobian changes; the solver clears the cache      *)
(* The solve operator of linearisation k is a LINEAR map S[k]; the answer  *)
(* of every Solve must be S[lin](r).                                       *)
(*                                                                         *)
(* A parallel right-hand side MAY be missed (the code compares             *)
(* |<r,c>| with |r||c| in floating point, tolerance 3e-16): the            *)
(* specification allows both, the answer is the same.                      *)
(***************************************************************************)
EXTENDS Integers, Sequences, FiniteSets, TLC

CONSTANTS K,            \* max_cache_entries
          CheckZero,    \* check_zero option
          ClearOnRelin, \* TRUE: the code's behaviour; FALSE only for the refutation run
          MaxTotals, MaxSolves

Vec == {<<a, b>> : a \in -2..2, b \in -2..2}
ZeroV == <<0, 0>>
\* two linear solve operators (inverse jacobians scaled to integers)
S(k, v) == IF k = 1 THEN <<v[1] + 2 * v[2], 3 * v[2] - v[1]>> ELSE <<2 * v[1] - v[2], v[1] + v[2]>>
NegV(v) == <<-v[1], -v[2]>>
Dot(u, v) == u[1] * v[1] + u[2] * v[2]
\* u parallel to v (Cauchy-Schwarz with equality), v # 0
Parallel(u, v) == Dot(u, v) * Dot(u, v) = Dot(u, u) * Dot(v, v) /\ v # ZeroV
\* rational scaling of a cached solution: sol * <u,c>/<c,c>; exact in integers for parallel small vectors
Scaled(sol, u, c) == <<(sol[1] * Dot(u, c)) \div Dot(c, c), (sol[2] * Dot(u, c)) \div Dot(c, c)>>
ScaleExact(sol, u, c) == (sol[1] * Dot(u, c)) % Dot(c, c) = 0 /\ (sol[2] * Dot(u, c)) % Dot(c, c) = 0

VARIABLES cache, marker, nct, lin, nsolve, last
vars == <<cache, marker, nct, lin, nsolve, last>>

Init == /\ cache = <<>> /\ marker = 0 /\ nct = 0 /\ lin = 1 /\ nsolve = 0
        /\ last = [r |-> ZeroV, ans |-> ZeroV, how |-> "init", lin |-> 1]

Append1(c, e) == IF K = 0 THEN c ELSE IF Len(c) < K THEN Append(c, e) ELSE Append(Tail(c), e)

\* what entry i offers for right-hand side r: "eq", "neg", "par" or "none"
Kind(e, r) == IF e.rhs = r THEN "eq" ELSE IF e.rhs = NegV(r) THEN "neg" ELSE IF Parallel(r, e.rhs) THEN "par" ELSE "none"
Offer(e, r) == CASE Kind(e, r) = "eq" -> e.sol
                 [] Kind(e, r) = "neg" -> NegV(e.sol)
                 [] OTHER -> Scaled(e.sol, r, e.rhs)

\* the entries the scan may stop at: the newest entry that MUST match (eq / neg) and every parallel entry newer than it
Stops(r) == LET must == {i \in 1..Len(cache) : Kind(cache[i], r) \in {"eq", "neg"}}
                top == IF must = {} THEN 0 ELSE CHOOSE i \in must : \A j \in must : j <= i
            IN {i \in 1..Len(cache) : i >= top /\ Kind(cache[i], r) # "none" /\ (i = top \/ Kind(cache[i], r) = "par")}
MustHit(r) == \E i \in 1..Len(cache) : Kind(cache[i], r) \in {"eq", "neg"}

Miss(r, how) == /\ cache' = Append1(cache, [rhs |-> r, sol |-> S(lin, r)])
                /\ last' = [r |-> r, ans |-> S(lin, r), how |-> how, lin |-> lin]

Solve(r, red) ==
    /\ nsolve < MaxSolves /\ nsolve' = nsolve + 1
    /\ UNCHANGED <<nct, lin>>
    /\ IF CheckZero /\ r = ZeroV
       THEN last' = [r |-> r, ans |-> ZeroV, how |-> "zero", lin |-> lin] /\ UNCHANGED <<cache, marker>>
       ELSE IF K = 0 \/ ~red
       THEN Miss(r, "nocheck") /\ UNCHANGED marker
       ELSE IF marker # nct
       THEN /\ marker' = nct
            /\ cache' = Append1(<<>>, [rhs |-> r, sol |-> S(lin, r)])
            /\ last' = [r |-> r, ans |-> S(lin, r), how |-> "reset", lin |-> lin]
       ELSE /\ UNCHANGED marker
            /\ \/ \E i \in Stops(r) : /\ last' = [r |-> r, ans |-> Offer(cache[i], r), how |-> Kind(cache[i], r), lin |-> lin]
                                      /\ UNCHANGED cache
               \/ ~MustHit(r) /\ Miss(r, "miss")

NewTotals == nct < MaxTotals /\ nct' = nct + 1 /\ UNCHANGED <<cache, marker, lin, nsolve, last>>

Relinearize == /\ lin' = 3 - lin
               /\ cache' = IF ClearOnRelin THEN <<>> ELSE cache
               /\ UNCHANGED <<marker, nct, nsolve, last>>

Next == \/ \E r \in Vec : \E red \in BOOLEAN : Solve(r, red)
        \/ NewTotals
        \/ Relinearize

\* --- properties -----------------------------------------------------------------------------------------
AnswerCorrect == last.how # "init" => last.ans = S(last.lin, last.r)
CacheSound == \A i \in 1..Len(cache) : cache[i].sol = S(lin, cache[i].rhs)
Bounded == Len(cache) <= K
\* the integer division in Scaled is exact whenever it is used
ScalingExact == \A i \in 1..Len(cache) : \A r \in Vec : Kind(cache[i], r) = "par" => ScaleExact(cache[i].sol, r, cache[i].rhs)
=============================================================================
