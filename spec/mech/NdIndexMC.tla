------------------------------ MODULE NdIndexMC ------------------------------
(***************************************************************************)
(* C05 - scenario enumeration over lib/NdIndex.tla (pattern 3: pure        *)
(* function, exact oracle).  Init fixes a coarse scenario (class, shape,   *)
(* flat_src, axis/form/kind), one Choose step picks the index terms, `out` *)
(* is the spec's result, the laws are invariants, Export prints one JSON   *)
(* record per scenario for the driver (harness/vf/drivers/c05.py).         *)
(*                                                                         *)
(* classes                                                                 *)
(*  single : ONE term from the full grammar on one axis - bare (non-tuple, *)
(*           axis 1) or as a tuple padded with full slices in front;       *)
(*           flat_src TRUE: the term addresses the flattened source        *)
(*  mixed  : tuples with one term per axis from a representative set,      *)
(*           shorter tuples, at most one ellipsis at every position        *)
(*  chain  : two indices applied one after the other (src_indices chains)  *)
(*  a2s    : all integer arrays of length <= 4 over -2..6 for Array2Slice  *)
(*  ext    : scenarios read from ExtFile (random larger shapes / indices)  *)
(***************************************************************************)
EXTENDS NdIndex, TLC, Json

CONSTANTS MaxExt,        \* largest extent of a source axis (3 quick, 4 thorough)
          SingleSel,     \* 1 / 2: small / large selection of rank-2 and rank-3 shapes that get the full single-term grammar
          MixLvl2,       \* size level (1 small, 2 large) of the representative per-axis term set, rank-2 sources
          MixLvl3,       \*   ... rank-3 sources
          MixMinExt3,    \* rank-3 sources: tuples with three terms only where every extent is >= this (1 = all shapes)
          EllZero,       \* TRUE: also tuples with as many terms as axes plus a (zero-width) ellipsis (extents <= 3)
          ExtFile,       \* "" or the path of an ndjson file with further scenarios written by the driver (seeded random larger
                         \* shapes / indices, a stored scenario to replay): {"c": "idx", "shape", "flat", "idx"},
                         \* {"c": "chain", "shape", "flat", "idx", "flat2", "idx2"} or {"c": "a2s", "arr"}; they are evaluated
                         \* and checked like the enumerated ones
          Classes        \* the scenario classes to enumerate, a subset of {"single", "mixed", "chain", "a2s", "ext"}

VARIABLES stage, scen, out
vars == <<stage, scen, out>>

\* rank-2 / rank-3 shapes that get the full single-term grammar (a TLC cfg cannot hold a set of tuples)
SingleR2 == IF SingleSel = 1 THEN {<<2, 3>>, <<3, 2>>} ELSE [1..2 -> 1..MaxExt]
SingleR3 == IF SingleSel = 1 THEN {<<2, 3, 2>>}
            ELSE {<<2, 3, 2>>, <<3, 2, 4>>, <<4, 3, 2>>, <<1, 4, 3>>, <<3, 1, 2>>, <<2, 2, 1>>, <<3, 3, 3>>, <<4, 4, 4>>}

\* --- grammar ----------------------------------------------------------------------------------------------
Shapes(r) == [1..r -> 1..MaxExt]
\* start/stop values: None and -n-1..n+1 (all of them for n <= 4; the boundary values for a large flattened extent)
Bnd(n)    == {x \in {-n - 1, -n, -n + 1, -2, -1, 0, 1, 2, n - 1, n, n + 1} : x >= -n - 1 /\ x <= n + 1}
Steps     == {NoneV, 1, -1, 2, -2}
Ints(n)   == {IntT(i) : i \in Bnd(n) \ {n + 1}}                          \* -n..n-1 and just outside
Slices(n) == {SliceT(a, b, s) : a \in Bnd(n) \cup {NoneV}, b \in Bnd(n) \cup {NoneV}, s \in Steps}
Ent(n)    == {x \in {-n, -n + 1, -2, -1, 0, 1, 2, n - 2, n - 1} : InR(x, n)}     \* valid entries (all for n <= 4)
Arrs(n, maxlen) == {ArrT(v) : v \in UNION {[1..L -> Ent(n)] : L \in 0..maxlen}}
\* 2-D arrays and 1-D arrays with an out-of-range entry
Others(n) == {Arr2T(<<<<0, -1>>, <<-1, 0>>>>), Arr2T(<<<<n - 1, 0>>, <<-n, -1>>>>), Arr2T(<<<<0>>, <<-1>>>>),
              Arr2T(<<<<-1, 0, 0>>>>), Arr2T(<<<<0, n>>, <<0, 0>>>>),
              ArrT(<<n>>), ArrT(<<0, -n - 1>>)}
KindSet(z, n) == CASE z = 1 -> Ints(n)
                   [] z = 2 -> {t \in Slices(n) : t.s \in {NoneV, 1}}
                   [] z = 3 -> {t \in Slices(n) : t.s = -1}
                   [] z = 4 -> {t \in Slices(n) : t.s \in {2, -2}}
                   [] z = 5 -> Arrs(n, IF n <= MaxExt THEN 3 ELSE 2)
                   [] z = 6 -> Others(n)

\* representative per-axis terms for mixing in tuples
Rep(n, lvl) ==
    {IntT(-1), FullSlice, SliceT(NoneV, NoneV, -1), SliceT(NoneV, -1, 2), ArrT(<<0, -1>>), ArrT(<<-1>>),
     Arr2T(<<<<0, -1>>, <<-1, 0>>>>)}
    \cup (IF lvl >= 2
          THEN {IntT(0), IntT(1 - n), SliceT(1, NoneV, NoneV), SliceT(-1, NoneV, -2), SliceT(-n, n, 1), SliceT(NoneV, 0, -1),
                ArrT(<<n - 1, 0, -n>>), Arr2T(<<<<0>>, <<-1>>>>)}
          ELSE {})

RECURSIVE SeqProd(_, _)
SeqProd(S, n) == IF n = 0 THEN {<<>>} ELSE {Append(p, x) : p \in SeqProd(S, n - 1), x \in S[n]}
\* e = 0: no ellipsis; e in 1..L+1: the ellipsis is the e-th element of the tuple
WithEll(ts, e) == IF e = 0 THEN ts ELSE SubSeq(ts, 1, e - 1) \o <<Ell>> \o SubSeq(ts, e, Len(ts))
\* the source axis that term j of L terms meets
AxisOf(j, L, e, r) == IF e = 0 \/ j < e THEN j ELSE r - L + j

\* chains: first and second index (the second one meets intermediate arrays of various shapes)
Chain1 == {FullSlice, SliceT(NoneV, NoneV, -1), SliceT(1, NoneV, NoneV), SliceT(NoneV, NoneV, 2), IntT(-1),
           ArrT(<<0, -1>>), ArrT(<<-1, 0, 0>>), Arr2T(<<<<0, -1>>, <<-1, 0>>>>),
           TupT(<<FullSlice, IntT(-1)>>), TupT(<<Ell, ArrT(<<-1, 0>>)>>), TupT(<<IntT(0), Ell>>),
           TupT(<<ArrT(<<0, -1>>), ArrT(<<-1, 0>>)>>), TupT(<<SliceT(NoneV, NoneV, -1), SliceT(NoneV, -1, NoneV)>>),
           TupT(<<Arr2T(<<<<0, -1>>, <<-1, 0>>>>)>>)}
Chain2 == Chain1 \cup {IntT(0), SliceT(-2, NoneV, NoneV), TupT(<<Ell>>), TupT(<<IntT(-1), IntT(0)>>)}
ChainShapes == {<<4>>, <<3, 2>>, <<2, 2, 2>>}

\* scenarios supplied by the driver (read once at start-up); dealt to ExtBuckets initial states
Ext == IF ExtFile = "" THEN <<>> ELSE ndJsonDeserialize(ExtFile)
ExtBuckets == 64

\* --- scenarios --------------------------------------------------------------------------------------------
B(c, shape, flat, x, y, z) == [c |-> c, shape |-> shape, flat |-> flat, x |-> x, y |-> y, z |-> z]
BaseAll ==
    \* single, rank 1: bare and 1-tuple, both flat settings
    {B("single", sh, f, 1, y, z) : sh \in Shapes(1), f \in BOOLEAN, y \in 0..1, z \in 1..6}
    \* single, rank >= 2, non-flat: axis x; bare only on axis 1
    \cup {b \in {B("single", sh, FALSE, x, y, z) : sh \in SingleR2 \cup SingleR3, x \in 1..3, y \in 0..1, z \in 1..6} :
             b.x <= Len(b.shape) /\ (b.y = 0 => b.x = 1)}
    \* single, rank >= 2, flattened source
    \cup {B("single", sh, TRUE, 1, y, z) : sh \in SingleR2 \cup SingleR3, y \in 0..1, z \in 1..6}
    \* mixed tuples: x = number of terms, y = ellipsis position (0 none)
    \cup {b \in {B("mixed", sh, f, x, y, 0) : sh \in Shapes(2) \cup Shapes(3), f \in BOOLEAN, x \in 0..3, y \in 0..4} :
             /\ b.x <= Len(b.shape) /\ b.y <= b.x + 1
             /\ (b.x = Len(b.shape) /\ b.y > 0 => EllZero /\ \A j \in 1..Len(b.shape) : b.shape[j] <= 3)
             /\ (b.x = 3 => \A j \in 1..3 : b.shape[j] >= MixMinExt3)
             /\ (b.flat => b.x <= 1 \/ (b.x = 2 /\ b.y = 0 /\ Len(b.shape) = 2))}
    \cup {B("chain", sh, f1, 0, 0, f2) : sh \in ChainShapes, f1 \in BOOLEAN, f2 \in 0..1}
    \cup {B("a2s", <<1>>, TRUE, L, a, 0) : L \in 1..4, a \in -2..6}
    \cup {B("a2s", <<1>>, TRUE, 0, 0, 0)}
    \cup {b \in {B("ext", <<1>>, TRUE, x, 0, 0) : x \in 1..ExtBuckets} : b.x <= Len(Ext)}

Base == {b \in BaseAll : b.c \in Classes}

Scen(b, idx) == [c |-> b.c, shape |-> b.shape, flat |-> b.flat, idx |-> idx]

SingleScens(b) ==
    LET sh == EffShape(b.shape, b.flat)
        n  == sh[b.x]
    IN {Scen(b, IF b.y = 0 THEN t ELSE TupT(Fulls(b.x - 1) \o <<t>>)) : t \in KindSet(b.z, n)}

MixedScens(b) ==
    LET r   == Len(b.shape)
        L   == b.x
        lvl == IF r = 2 THEN MixLvl2 ELSE MixLvl3
        S   == [j \in 1..L |-> Rep(b.shape[AxisOf(j, L, b.y, r)], IF b.flat THEN 2 ELSE lvl)]
    IN {Scen(b, TupT(WithEll(ts, b.y))) : ts \in SeqProd(S, L)}

ChainScens(b) ==
    {[c |-> "chain", shape |-> b.shape, flat |-> b.flat, idx |-> i1, flat2 |-> (b.z = 1), idx2 |-> i2] :
        i1 \in Chain1, i2 \in Chain2}

A2SScens(b) ==
    IF b.x = 0 THEN {[c |-> "a2s", arr |-> <<>>]}
    ELSE {[c |-> "a2s", arr |-> <<b.y>> \o v] : v \in [1..(b.x - 1) -> -2..6]}

ExtScens(b) ==
    {[c |-> "ext", id |-> t, e |-> Ext[t]] : t \in {u \in 1..Len(Ext) : u % ExtBuckets = b.x % ExtBuckets}}

\* sizes n for which an array is evaluated as a flat index: every entry is valid for them
A2SNs(arr) == LET S == {arr[j] : j \in 1..Len(arr)} \cup {-arr[j] - 1 : j \in 1..Len(arr)} \cup {0}
                  M == SetMax(S)
              IN <<M + 1, M + 2, M + 4>>

EvalCore(s) ==
    CASE s.c \in {"single", "mixed", "idx"} -> Indexed(s.idx, s.shape, s.flat)
      [] s.c = "chain" ->
            LET r1 == Indexed(s.idx, s.shape, s.flat)
                ch == Chain(<<[idx |-> s.idx, flat |-> s.flat], [idx |-> s.idx2, flat |-> s.flat2]>>, s.shape)
            IN [ok |-> ch.pos # Err, rs |-> ch.shape, pos |-> ch.pos, rs1 |-> r1.rs, pos1 |-> r1.pos]
      [] s.c = "a2s" ->
            LET ns == A2SNs(s.arr) IN
            [a2s |-> Array2Slice(s.arr), ns |-> ns,
             pa |-> [j \in 1..3 |-> Positions(ArrT(s.arr), <<ns[j]>>, TRUE)]]
Eval(s) == IF s.c = "ext" THEN EvalCore(s.e) ELSE EvalCore(s)

Init == stage = 0 /\ scen \in Base /\ out = <<>>
Choose == /\ stage = 0 /\ stage' = 1
          /\ \E s \in (CASE scen.c = "single" -> SingleScens(scen)
                         [] scen.c = "mixed" -> MixedScens(scen)
                         [] scen.c = "chain" -> ChainScens(scen)
                         [] scen.c = "a2s" -> A2SScens(scen)
                         [] scen.c = "ext" -> ExtScens(scen)) :
                scen' = s /\ out' = Eval(s)
Next == Choose

\* --- laws -------------------------------------------------------------------------------------------------
\* the scenario proper (a supplied scenario is wrapped together with its number)
Sc == IF scen.c = "ext" THEN scen.e ELSE scen
IsIdx == stage = 1 /\ Sc.c \in {"single", "mixed", "idx"}
\* as many positions as the result shape has elements; error marker in both or none
LenLaw == IsIdx => IF out.ok THEN Len(out.pos) = Size(out.rs) ELSE out.pos = Err /\ out.rs = Err
\* every position addresses an element of the source
RangeLaw == IsIdx /\ out.ok => \A j \in 1..Len(out.pos) : out.pos[j] >= 0 /\ out.pos[j] < Size(Sc.shape)
\* flat_src means: the same index on the flattened shape
FlatLaw == IsIdx /\ Sc.c # "mixed" /\ Sc.flat =>
             /\ Positions(Sc.idx, <<Size(Sc.shape)>>, FALSE) = out.pos
             /\ ResultShape(Sc.idx, <<Size(Sc.shape)>>, FALSE) = out.rs
\* a tuple of full slices (with or without an ellipsis), a bare full slice, a bare ellipsis: the identity
AllFull(idx) == LET ts == Terms(idx) IN \A p \in 1..Len(ts) : ts[p] = FullSlice \/ ts[p] = Ell
IdentityLaw == IsIdx /\ out.ok /\ AllFull(Sc.idx) =>
                 out.pos = Iota(Size(Sc.shape)) /\ out.rs = EffShape(Sc.shape, Sc.flat)
\* the operators Positions / ResultShape / Indexed agree (like FlatLaw not re-evaluated for the "mixed" class: cost)
ApiLaw == IsIdx /\ Sc.c # "mixed" => /\ Positions(Sc.idx, Sc.shape, Sc.flat) = out.pos
                   /\ ResultShape(Sc.idx, Sc.shape, Sc.flat) = out.rs
                   /\ out.ok = Valid(Sc.idx, Sc.shape, Sc.flat)
\* a permutation-free index (basic indexing) never selects an element twice
Basic(idx) == LET ts == Terms(idx) IN \A p \in 1..Len(ts) : ts[p].k \in {"int", "slice", "ell"}
InjectiveLaw == IsIdx /\ out.ok /\ Basic(Sc.idx) =>
                  \A i, j \in 1..Len(out.pos) : i # j => out.pos[i] # out.pos[j]
\* composition: Chain = ComposePositions of the two stages; same size as its shape; a subset of the first stage
ComposeLaw == stage = 1 /\ Sc.c = "chain" =>
    LET ok1 == out.pos1 # Err IN
    /\ out.ok => ok1
    /\ ok1 => ComposePositions(Sc.idx2, out.rs1, Sc.flat2, out.pos1) = out.pos
    /\ out.ok => /\ Len(out.pos) = Size(out.rs)
                 /\ \A j \in 1..Len(out.pos) : \E i \in 1..Len(out.pos1) : out.pos[j] = out.pos1[i]
    /\ ok1 /\ AllFull(Sc.idx2) /\ out.ok => out.pos = out.pos1
\* Array2Slice(arr) = s  =>  Positions(s, <<n>>, TRUE) = arr for every n large enough; NoSlice only when no slice can
A2SLaw == stage = 1 /\ Sc.c = "a2s" =>
    LET s == out.a2s  arr == Sc.arr IN
    IF s # NoSlice
    THEN \A j \in 1..3 : Positions(s, <<out.ns[j]>>, TRUE) = arr /\ out.pa[j] = arr
    ELSE \/ \E j \in 1..Len(arr) : arr[j] < 0
         \/ (Len(arr) >= 2 /\ (arr[2] = arr[1] \/ ~IsProgression(arr)))
\* ... and a slice selects a progression: its positions convert back to a slice selecting the same positions
SliceBackLaw == IsIdx /\ out.ok /\ Sc.idx.k = "slice" /\ Len(EffShape(Sc.shape, Sc.flat)) = 1 =>
    LET s == Array2Slice(out.pos) IN
    s # NoSlice /\ Positions(s, <<Size(Sc.shape)>>, TRUE) = out.pos

Export == stage = 1 => PrintT(<<"EXP", ToJson([s |-> scen, v |-> out])>>)
=============================================================================
