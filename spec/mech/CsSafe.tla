------------------------------- MODULE CsSafe -------------------------------
(***************************************************************************)
(* Complex-step-safe helpers (openmdao.utils.cs_safe) and the exactly      *)
(* rational identities of the jax smooth helpers (C30, partial).           *)
(*                                                                         *)
(* cs_safe: for a real point p and a perturbation direction dp the helper  *)
(* evaluated at p + i*h*dp must return  f(p) + i*h*Df(p)[dp].  The case    *)
(* table (signs, zero, axes, quadrants) and Df(p)[dp] are rational:        *)
(*   abs     : sign(x) dx ;  at the kink x = 0 a one-sided derivative,     *)
(*             i.e. +dx or -dx (both one-sided choices are accepted)       *)
(*   norm    : sum x_i dx_i / ||x||  along the axis, Pythagorean data      *)
(*   arctan2 : (x dy - y dx) / (x^2 + y^2)                                 *)
(* The real part f(p) is NumPy's value (compared in the harness).          *)
(*                                                                         *)
(* smooth helpers: tanh is an uninterpreted odd function except at the     *)
(* points where IEEE double gives an exact value: tanh(0) = 0 and          *)
(* tanh(t) = +-1 for |t| >= 32.  Everywhere else its value is the          *)
(* parameter +-q; an identity must hold for every q (law QIndependent).    *)
(* exp(-t) = 0 for t >= 800 (underflow) for the KS functions.              *)
(***************************************************************************)
EXTENDS Rat, Naturals, FiniteSets, TLC, Json

CONSTANTS Kinds          \* subset of {"abs", "norm", "arctan2", "smooth"}

RECURSIVE SumI(_, _)
SumI(F, n) == IF n = 0 THEN 0 ELSE F[n] + SumI(F, n - 1)
RECURSIVE SumN(_, _)
SumN(F, n) == IF n = 0 THEN Zero ELSE Add(F[n], SumN(F, n - 1))
ISqrt(n) == CHOOSE r \in 0..n : r * r = n

\* --- abs ------------------------------------------------------------------------------------------------
AbsRe(x) == Abs(x)
\* set of admissible derivatives
AbsD(x, dx) == IF x # 0 THEN {R(Sgn(x) * dx)} ELSE {R(dx), R(-dx)}

\* --- norm: data is a matrix (sequence of rows); axis "none" | 0 | 1; a vector is a 1 x n matrix with axis "none" ---
NormGroups(s) ==      \* the index sets <<r, c>> summed together, in output order
    LET nr == Len(s.x)
        nc == Len(s.x[1])
    IN CASE s.axis = "none" -> << {<<r, c>> : r \in 1..nr, c \in 1..nc} >>
         [] s.axis = "1" -> [r \in 1..nr |-> {<<r, c>> : c \in 1..nc}]
         [] s.axis = "0" -> [c \in 1..nc |-> {<<r, c>> : r \in 1..nr}]
RECURSIVE SumSet(_, _, _)
SumSet(S, A, Bm) == IF S = {} THEN 0 ELSE LET e == CHOOSE e \in S : TRUE IN A[e[1]][e[2]] * Bm[e[1]][e[2]] + SumSet(S \ {e}, A, Bm)
NormRe(s) == LET g == NormGroups(s) IN [k \in 1..Len(g) |-> ISqrt(SumSet(g[k], s.x, s.x))]
NormD(s) == LET g == NormGroups(s) IN [k \in 1..Len(g) |-> Q(SumSet(g[k], s.x, s.dx), ISqrt(SumSet(g[k], s.x, s.x)))]

\* --- arctan2 -------------------------------------------------------------------------------------------
At2D(y, x, dy, dx) == Q(x * dy - y * dx, x * x + y * y)
Quadrant(y, x) == CASE x > 0 /\ y > 0 -> "I" [] x < 0 /\ y > 0 -> "II" [] x < 0 /\ y < 0 -> "III" [] x > 0 /\ y < 0 -> "IV"
                    [] y = 0 /\ x > 0 -> "+x" [] y = 0 /\ x < 0 -> "-x" [] x = 0 /\ y > 0 -> "+y" [] x = 0 /\ y < 0 -> "-y"

\* --- smooth helpers with tanh uninterpreted off the exact points --------------------------------------------
TanhR(t, q) == IF t = Zero THEN Zero
               ELSE IF Ge(t, R(32)) THEN One
               ELSE IF Le(t, R(-32)) THEN R(-1)
               ELSE IF RSgn(t) > 0 THEN q ELSE Neg(q)
Exact(t) == t = Zero \/ Ge(t, R(32)) \/ Le(t, R(-32))
DTanhR(t, q) == LET th == TanhR(t, q) IN Sub(One, Mul(th, th))
\* args follow the Python signatures
Act(x, mu, z, a, b, q) == Add(Mul(Mul(Q(1, 2), Sub(b, a)), Add(One, TanhR(Div(Sub(x, z), mu), q))), a)
DAct(x, mu, z, a, b, q) == Div(Mul(Mul(Q(1, 2), Sub(b, a)), DTanhR(Div(Sub(x, z), mu), q)), mu)
SMax(x, y, mu, q) == LET g == Act(x, mu, y, Zero, One, q) IN Add(Mul(g, x), Mul(Sub(One, g), y))
SMin(x, y, mu, q) == LET g == Act(x, mu, y, Zero, One, q) IN Add(Mul(g, y), Mul(Sub(One, g), x))
DSMax(x, y, mu, q) == LET g == Act(x, mu, y, Zero, One, q)
                          dg == DAct(x, mu, y, Zero, One, q)
                      IN Add(Mul(dg, Sub(x, y)), g)
DSMin(x, y, mu, q) == LET g == Act(x, mu, y, Zero, One, q)
                          dg == DAct(x, mu, y, Zero, One, q)
                      IN Add(Mul(dg, Sub(y, x)), Sub(One, g))
SAbs(x, mu, q) == Mul(x, Act(x, mu, Zero, R(-1), One, q))
DSAbs(x, mu, q) == Add(Act(x, mu, Zero, R(-1), One, q), Mul(x, DAct(x, mu, Zero, R(-1), One, q)))
Floor(x) == R(x[1] \div x[2])
SRound(x, mu, q) == LET fl == Floor(x) IN Add(fl, Mul(Q(1, 2), Add(One, TanhR(Div(Sub(Sub(x, fl), Q(1, 2)), mu), q))))
DSRound(x, mu, q) == LET fl == Floor(x) IN Div(Mul(Q(1, 2), DTanhR(Div(Sub(Sub(x, fl), Q(1, 2)), mu), q)), mu)
\* KS: only a single element or entries separated by rho * diff >= 800 (every other exponential underflows to 0)
SeqMax(xs) == CHOOSE m \in {xs[i] : i \in 1..Len(xs)} : \A i \in 1..Len(xs) : Le(xs[i], m)
SeqMin(xs) == CHOOSE m \in {xs[i] : i \in 1..Len(xs)} : \A i \in 1..Len(xs) : Le(m, xs[i])
KsOk(xs, rho) == \A i, j \in 1..Len(xs) : i # j => Ge(Mul(rho, RAbs(Sub(xs[i], xs[j]))), R(800))

TermVal(t, q) ==
    LET a == t.args
    IN CASE t.fn = "act_tanh" -> Act(a[1], a[2], a[3], a[4], a[5], q)
         [] t.fn = "smooth_max" -> SMax(a[1], a[2], a[3], q)
         [] t.fn = "smooth_min" -> SMin(a[1], a[2], a[3], q)
         [] t.fn = "smooth_abs" -> SAbs(a[1], a[2], q)
         [] t.fn = "smooth_round" -> SRound(a[1], a[2], q)
         [] t.fn = "ks_max" -> SeqMax(Tail(a))
         [] t.fn = "ks_min" -> SeqMin(Tail(a))
TermD(t, q) ==       \* derivative w.r.t. the first argument
    LET a == t.args
    IN CASE t.fn = "act_tanh" -> DAct(a[1], a[2], a[3], a[4], a[5], q)
         [] t.fn = "smooth_max" -> DSMax(a[1], a[2], a[3], q)
         [] t.fn = "smooth_min" -> DSMin(a[1], a[2], a[3], q)
         [] t.fn = "smooth_abs" -> DSAbs(a[1], a[2], q)
         [] t.fn = "smooth_round" -> DSRound(a[1], a[2], q)
         [] OTHER -> NaN
\* the argument of tanh of a term (to decide whether the derivative is exactly rational)
TermT(t) ==
    LET a == t.args
    IN CASE t.fn = "act_tanh" -> Div(Sub(a[1], a[3]), a[2])
         [] t.fn \in {"smooth_max", "smooth_min"} -> Div(Sub(a[1], a[2]), a[3])
         [] t.fn = "smooth_abs" -> Div(a[1], a[2])
         [] t.fn = "smooth_round" -> Div(Sub(Sub(a[1], Floor(a[1])), Q(1, 2)), a[2])
         [] OTHER -> One
Comb(s, q) == SumN([k \in 1..Len(s.terms) |-> Mul(R(s.w[k]), TermVal(s.terms[k], q))], Len(s.terms))
QVals == {Q(1, 3), Q(1, 2), Q(-2, 5)}        \* arbitrary values of the uninterpreted tanh (also a non-monotone one)
SmoothOut(s) == LET q == Q(1, 3)
                IN [v |-> Comb(s, q),
                    d |-> IF Len(s.terms) = 1 /\ Exact(TermT(s.terms[1])) THEN TermD(s.terms[1], q) ELSE NaN]

T(fn, args) == [fn |-> fn, args |-> args]
Mus == {Q(1, 4), Q(1, 2)}
Zs == {R(-1), R(2)}
ABs == {<<R(-1), One>>, <<Zero, One>>, <<R(2), R(-3)>>}
Ds == {Q(1, 4), R(3)}
SM(id, terms, w) == [kind |-> "smooth", id |-> id, terms |-> terms, w |-> w]
SmoothScens ==
    LET far(mu) == Mul(R(32), mu)
    IN  {SM("act_mid", <<T("act_tanh", <<z, mu, z, ab[1], ab[2]>>)>>, <<1>>) : mu \in Mus, z \in Zs, ab \in ABs}
   \cup {SM("act_hi", <<T("act_tanh", <<Add(z, far(mu)), mu, z, ab[1], ab[2]>>)>>, <<1>>) : mu \in Mus, z \in Zs, ab \in ABs}
   \cup {SM("act_lo", <<T("act_tanh", <<Sub(z, far(mu)), mu, z, ab[1], ab[2]>>)>>, <<1>>) : mu \in Mus, z \in Zs, ab \in ABs}
   \cup {SM("act_pair", <<T("act_tanh", <<Add(z, d), mu, z, ab[1], ab[2]>>), T("act_tanh", <<Sub(z, d), mu, z, ab[1], ab[2]>>)>>,
            <<1, 1>>) : mu \in Mus, z \in Zs, ab \in ABs, d \in Ds}
   \cup {SM("max_equal", <<T(fn, <<z, z, mu>>)>>, <<1>>) : fn \in {"smooth_max", "smooth_min"}, mu \in Mus, z \in Zs}
   \cup {SM("max_sat", <<T(fn, <<Add(z, far(mu)), z, mu>>)>>, <<1>>) : fn \in {"smooth_max", "smooth_min"}, mu \in Mus, z \in Zs}
   \cup {SM("max_sat_rev", <<T(fn, <<z, Add(z, far(mu)), mu>>)>>, <<1>>) : fn \in {"smooth_max", "smooth_min"}, mu \in Mus, z \in Zs}
   \cup {SM("max_plus_min", <<T("smooth_max", <<z, Add(z, d), mu>>), T("smooth_min", <<z, Add(z, d), mu>>)>>, <<1, 1>>) :
            mu \in Mus, z \in Zs, d \in Ds}
   \cup {SM("max_sym", <<T(fn, <<z, Add(z, d), mu>>), T(fn, <<Add(z, d), z, mu>>)>>, <<1, -1>>) :
            fn \in {"smooth_max", "smooth_min"}, mu \in Mus, z \in Zs, d \in Ds}
   \cup {SM("abs_zero", <<T("smooth_abs", <<Zero, mu>>)>>, <<1>>) : mu \in Mus}
   \cup {SM("abs_sat", <<T("smooth_abs", <<Mul(R(sg), far(mu)), mu>>)>>, <<1>>) : mu \in Mus, sg \in {-1, 1, 2}}
   \cup {SM("abs_even", <<T("smooth_abs", <<d, mu>>), T("smooth_abs", <<Neg(d), mu>>)>>, <<1, -1>>) : mu \in Mus, d \in Ds}
   \cup {SM("round", <<T("smooth_round", <<Add(R(n), fr), mu>>)>>, <<1>>) :
            n \in {-2, 0, 3}, fr \in {Zero, Q(1, 4), Q(1, 2), Q(3, 4)}, mu \in {Q(1, 128), Q(1, 256)}}
   \cup {SM("ks_single", <<T(fn, <<R(100), z>>)>>, <<1>>) : fn \in {"ks_max", "ks_min"}, z \in Zs \cup {Q(-7, 2)}}
   \cup {SM("ks_separated", <<T(fn, <<R(100), z, Add(z, R(8)), Sub(z, R(9))>>)>>, <<1>>) : fn \in {"ks_max", "ks_min"}, z \in Zs}

\* --- enumeration -------------------------------------------------------------------------------------------
Xs == -2..2
Dirs == {-1, 0, 2}
NormData == { << <<3, 4>> >>, << <<-4, 3>> >>, << <<1, -2, 2>> >>, << <<2, 3, 6>> >>, << <<0, -5>> >>, << <<7>> >>, << <<-2>> >>,
              << <<3, 4>>, <<-12, 5>> >>, << <<1, 2>>, <<2, 4>> >>, << <<3, 0>>, <<4, 3>> >>, << <<2, -4>>, <<5, 6>> >>,
              << <<1, 2, 2>>, <<-2, 3, 6>> >> }
\* axes for which every group of the data is Pythagorean
PerfectSq(n) == \E r \in 0..n : r * r = n
AxesOf(x) == {ax \in {"none", "0", "1"} :
                 LET g == NormGroups([x |-> x, axis |-> ax])
                 IN \A k \in 1..Len(g) : LET ss == SumSet(g[k], x, x) IN ss > 0 /\ PerfectSq(ss)}
Base == (IF "abs" \in Kinds THEN {[kind |-> "abs", n |-> n] : n \in 1..3} ELSE {})
   \cup (IF "norm" \in Kinds THEN {[kind |-> "norm", x |-> x, axis |-> ax] : x \in NormData, ax \in {"none", "0", "1"}} ELSE {})
   \cup (IF "arctan2" \in Kinds THEN {[kind |-> "arctan2", y |-> y, x |-> x] : y \in Xs, x \in Xs} \ {[kind |-> "arctan2", y |-> 0, x |-> 0]} ELSE {})
   \cup (IF "smooth" \in Kinds THEN {[kind |-> "smooth", id |-> id] : id \in {sc.id : sc \in SmoothScens}} ELSE {})

VARIABLES stage, scen, out
vars == <<stage, scen, out>>
Init == stage = 0 /\ scen \in Base /\ out = <<>>
OutOf(s) == CASE s.kind = "abs" -> [re |-> [k \in 1..s.n |-> AbsRe(s.x[k])], d |-> [k \in 1..s.n |-> AbsD(s.x[k], s.dx[k])]]
              [] s.kind = "norm" -> [re |-> NormRe(s), d |-> NormD(s)]
              [] s.kind = "arctan2" -> [d |-> At2D(s.y, s.x, s.dy, s.dx), quadrant |-> Quadrant(s.y, s.x)]
              [] s.kind = "smooth" -> SmoothOut(s)
Choose ==
    /\ stage = 0 /\ stage' = 1
    /\ CASE scen.kind = "abs" ->
              \E x \in [1..scen.n -> Xs], dx \in [1..scen.n -> Dirs] :
                 /\ (scen.n = 3 => (x[1] = 0 /\ x[2] < 0 /\ x[3] > 0))      \* n = 3: one of each sign class per vector
                 /\ scen' = [kind |-> "abs", n |-> scen.n, x |-> x, dx |-> dx]
         [] scen.kind = "norm" ->
              /\ scen.axis \in AxesOf(scen.x)
              /\ \E dx \in [1..Len(scen.x) -> [1..Len(scen.x[1]) -> Dirs]] :
                    /\ (Len(scen.x) * Len(scen.x[1]) > 3 =>
                           \A r \in 1..Len(scen.x) : \A c \in 1..Len(scen.x[1]) : dx[r][c] # 0 \/ (r + c) % 2 = 0)
                    /\ scen' = [kind |-> "norm", x |-> scen.x, axis |-> scen.axis, dx |-> dx]
         [] scen.kind = "arctan2" ->
              \E dy \in {-1, 0, 1, 2}, dx \in {-1, 0, 1, 2} :
                 /\ <<dy, dx>> # <<0, 0>>
                 /\ scen' = [kind |-> "arctan2", y |-> scen.y, x |-> scen.x, dy |-> dy, dx |-> dx]
         [] scen.kind = "smooth" -> \E sc \in SmoothScens : sc.id = scen.id /\ scen' = sc
    /\ out' = OutOf(scen')
Next == Choose

\* --- laws -----------------------------------------------------------------------------------------------------
AbsLaw == (stage = 1 /\ scen.kind = "abs") =>
            \A k \in 1..scen.n :
               /\ out.re[k] >= 0 /\ out.re[k] * out.re[k] = scen.x[k] * scen.x[k]
               /\ out.d[k] = AbsD(-scen.x[k], -scen.dx[k])                        \* |x| is even
               /\ \A d \in out.d[k] : RAbs(d) = R(Abs(scen.dx[k]))
NormLaw == (stage = 1 /\ scen.kind = "norm") =>
             LET g == NormGroups(scen)
             IN \A k \in 1..Len(g) :
                   /\ out.re[k] > 0 /\ out.re[k] * out.re[k] = SumSet(g[k], scen.x, scen.x)
                   \* Euler (direction x gives the norm itself) and Cauchy-Schwarz
                   /\ Q(SumSet(g[k], scen.x, scen.x), out.re[k]) = R(out.re[k])
                   /\ Le(Mul(out.d[k], out.d[k]), R(SumSet(g[k], scen.dx, scen.dx)))
At2Law == (stage = 1 /\ scen.kind = "arctan2") =>
             /\ At2D(scen.y, scen.x, scen.y, scen.x) = Zero                          \* radial direction
             /\ At2D(scen.y, scen.x, scen.x, -scen.y) = One                          \* tangential direction
             /\ out.d = Neg(At2D(scen.x, scen.y, scen.dx, scen.dy))                  \* atan2(y,x) + atan2(x,y) is locally constant
             /\ out.d = At2D(2 * scen.y, 2 * scen.x, 2 * scen.dy, 2 * scen.dx)      \* homogeneity
QIndependent == (stage = 1 /\ scen.kind = "smooth") =>
                  /\ \A q \in QVals : Comb(scen, q) = out.v
                  /\ (Len(scen.terms) = 1 /\ Exact(TermT(scen.terms[1]))) => \A q \in QVals : TermD(scen.terms[1], q) = out.d
                  /\ \A k \in 1..Len(scen.terms) :
                        scen.terms[k].fn \in {"ks_max", "ks_min"} =>
                           KsOk(Tail(scen.terms[k].args), scen.terms[k].args[1])
Export == stage = 1 => PrintT(<<"EXP", ToJson([s |-> scen, v |-> out])>>)
=============================================================================
