------------------------------- MODULE CsSafe -------------------------------
(***************************************************************************)
(* Complex-step-safe helpers (openmdao.utils.cs_safe) and the exactly      *)
(* rational identities of the jax smooth helpers (C30, partial).           *)
(*                                                                         *)
(* cs_safe: for a real point p and a perturbation direction dp the helper  *)
(* evaluated at p + i*h*dp must return  f(p) + i*h*Df(p)[dp]  where        *)
(* Df(p)[dp] is the ONE-SIDED DIRECTIONAL derivative                       *)
(*        Df(p)[dp] = lim_{t -> 0+} (f(p + t dp) - f(p)) / t               *)
(* (the derivative where f is differentiable; at a kink the slope in the   *)
(* direction of the step - cs_safe.abs documents this as "sign(x.real) if  *)
(* x.real != 0 else sign(x.imag)").  All values are rational:              *)
(*   abs     : sign(x) dx ;  |dx| at the kink x = 0                        *)
(*   norm    : sum x_i dx_i / ||x||  along the axis (Pythagorean data);    *)
(*             ||dx|| for an all-zero group (the kink of the norm)         *)
(*   arctan2 : (x dy - y dx) / (x^2 + y^2)                                 *)
(* abs is positively homogeneous: the point may be scaled by 10^e (tiny    *)
(* real parts, e.g. smaller than the step) without changing Df.            *)
(* The real part f(p) is NumPy's value (compared in the harness).          *)
(*                                                                         *)
(* smooth helpers: tanh is an UNINTERPRETED odd function u(t) except at    *)
(* the points where IEEE double gives an exact value: tanh(0) = 0 and      *)
(* tanh(t) = +-1 for |t| >= 32; tanh'(t) = 1 - u(t)^2.  log-sum-exp of the *)
(* KS functions is an uninterpreted symmetric function of the scaled       *)
(* differences with exp(d) = 0 for d <= -800 (underflow).  An identity is  *)
(* exported only if it holds for every member of a family of such          *)
(* functions (law QIndependent); it then holds for tanh / log-sum-exp.     *)
(***************************************************************************)
EXTENDS Rat, Naturals, FiniteSets, TLC, Json

CONSTANTS Kinds,         \* subset of {"abs", "norm", "arctan2", "smooth"}
          Dirs,          \* perturbation directions of abs / norm, e.g. {-1, 0, 2}
          Scales         \* decimal exponents e of the scale 10^e of the abs points

\* values for the configuration file (which cannot express negative numbers): Dirs <- DirsQuick etc.
DirsQuick == {-1, 0, 2}
DirsThorough == -2..2
ScalesQuick == {0, -36, -41, -300}
ScalesThorough == {0, -36, -41, -300, -7, 30}

RECURSIVE SumI(_, _)
SumI(F, n) == IF n = 0 THEN 0 ELSE F[n] + SumI(F, n - 1)
RECURSIVE SumN(_, _)
SumN(F, n) == IF n = 0 THEN Zero ELSE Add(F[n], SumN(F, n - 1))
ISqrt(n) == CHOOSE r \in 0..n : r * r = n
PerfectSq(n) == \E r \in 0..n : r * r = n

\* --- abs ------------------------------------------------------------------------------------------------
AbsRe(x) == Abs(x)
\* one-sided directional derivative of |.| at x in direction dx
AbsD(x, dx) == IF x # 0 THEN R(Sgn(x) * dx) ELSE R(Abs(dx))

\* --- norm: data is a matrix (sequence of rows); axis "none" | 0 | 1; a vector is a 1 x n matrix with axis "none" ---
NormGroups(s) ==      \* the index sets <<r, c>> summed together, in output order
    LET nr == Len(s.x)
        nc == Len(s.x[1])
    IN CASE s.axis = "none" -> << {<<r, c>> : r \in 1..nr, c \in 1..nc} >>
         [] s.axis = "1" -> [r \in 1..nr |-> {<<r, c>> : c \in 1..nc}]
         [] s.axis = "0" -> [c \in 1..nc |-> {<<r, c>> : r \in 1..nr}]
RECURSIVE SumSet(_, _, _)
SumSet(S, A, Bm) == IF S = {} THEN 0 ELSE LET e == CHOOSE e \in S : TRUE IN A[e[1]][e[2]] * Bm[e[1]][e[2]] + SumSet(S \ {e}, A, Bm)
NormRe(s) == LET g == NormGroups(s) IN [k \in 1..Len(g) |-> ISqrt(SumSet(g[k], s.x, s.x))]
\* an all-zero group is the kink of the norm: the one-sided directional derivative is ||dx||
NormD(s) == LET g == NormGroups(s)
            IN [k \in 1..Len(g) |->
                  LET ss == SumSet(g[k], s.x, s.x)
                  IN IF ss = 0 THEN R(ISqrt(SumSet(g[k], s.dx, s.dx)))
                     ELSE Q(SumSet(g[k], s.x, s.dx), ISqrt(ss))]

\* --- arctan2 -------------------------------------------------------------------------------------------
At2D(y, x, dy, dx) == IF x = 0 /\ y = 0 THEN NaN ELSE Q(x * dy - y * dx, x * x + y * y)
Quadrant(y, x) == CASE x > 0 /\ y > 0 -> "I" [] x < 0 /\ y > 0 -> "II" [] x < 0 /\ y < 0 -> "III" [] x > 0 /\ y < 0 -> "IV"
                    [] y = 0 /\ x > 0 -> "+x" [] y = 0 /\ x < 0 -> "-x" [] x = 0 /\ y > 0 -> "+y" [] x = 0 /\ y < 0 -> "-y"
                    [] x = 0 /\ y = 0 -> "origin"

\* --- smooth helpers with tanh uninterpreted off the exact points --------------------------------------------
Fams == 1..3
\* a family of odd functions with values in (-1, 1): two increasing ones and a decreasing one
TanhU(t, j) == CASE j = 1 -> Div(t, Add(One, RAbs(t)))
                 [] j = 2 -> Div(t, Add(R(2), RAbs(t)))
                 [] j = 3 -> Div(Neg(t), Add(R(3), RAbs(t)))
TanhR(t, j) == IF t = Zero THEN Zero
               ELSE IF Ge(t, R(32)) THEN One
               ELSE IF Le(t, R(-32)) THEN R(-1)
               ELSE TanhU(t, j)
DTanhR(t, j) == LET th == TanhR(t, j) IN Sub(One, Mul(th, th))
\* args follow the Python signatures
Act(x, mu, z, a, b, j) == Add(Mul(Mul(Q(1, 2), Sub(b, a)), Add(One, TanhR(Div(Sub(x, z), mu), j))), a)
DAct(x, mu, z, a, b, j) == Div(Mul(Mul(Q(1, 2), Sub(b, a)), DTanhR(Div(Sub(x, z), mu), j)), mu)
SMax(x, y, mu, j) == LET g == Act(x, mu, y, Zero, One, j) IN Add(Mul(g, x), Mul(Sub(One, g), y))
SMin(x, y, mu, j) == LET g == Act(x, mu, y, Zero, One, j) IN Add(Mul(g, y), Mul(Sub(One, g), x))
\* derivatives w.r.t. the first (x) and the second (y) argument
DSMax(x, y, mu, j) == LET g == Act(x, mu, y, Zero, One, j)
                          dg == DAct(x, mu, y, Zero, One, j)
                      IN Add(Mul(dg, Sub(x, y)), g)
DSMaxY(x, y, mu, j) == LET g == Act(x, mu, y, Zero, One, j)
                           dg == DAct(x, mu, y, Zero, One, j)
                       IN Add(Mul(dg, Sub(y, x)), Sub(One, g))
DSMin(x, y, mu, j) == LET g == Act(x, mu, y, Zero, One, j)
                          dg == DAct(x, mu, y, Zero, One, j)
                      IN Add(Mul(dg, Sub(y, x)), Sub(One, g))
DSMinY(x, y, mu, j) == LET g == Act(x, mu, y, Zero, One, j)
                           dg == DAct(x, mu, y, Zero, One, j)
                       IN Add(Mul(dg, Sub(x, y)), g)
SAbs(x, mu, j) == Mul(x, Act(x, mu, Zero, R(-1), One, j))
DSAbs(x, mu, j) == Add(Act(x, mu, Zero, R(-1), One, j), Mul(x, DAct(x, mu, Zero, R(-1), One, j)))
Floor(x) == R(x[1] \div x[2])
SRound(x, mu, j) == LET fl == Floor(x) IN Add(fl, Mul(Q(1, 2), Add(One, TanhR(Div(Sub(Sub(x, fl), Q(1, 2)), mu), j))))
DSRound(x, mu, j) == LET fl == Floor(x) IN Div(Mul(Q(1, 2), DTanhR(Div(Sub(Sub(x, fl), Q(1, 2)), mu), j)), mu)
\* KS: max + LSE(rho (x - max)) / rho with LSE an uninterpreted symmetric function of the scaled differences,
\* LSE = 0 when only one exponential survives (a single element, or every other one underflows)
SeqMax(xs) == CHOOSE m \in {xs[i] : i \in 1..Len(xs)} : \A i \in 1..Len(xs) : Le(xs[i], m)
SeqMin(xs) == CHOOSE m \in {xs[i] : i \in 1..Len(xs)} : \A i \in 1..Len(xs) : Le(m, xs[i])
ExpU(d, j) == IF Le(d, R(-800)) THEN Zero ELSE Div(One, Add(R(j), RAbs(d)))          \* d <= 0; ExpU(0) = 1/j
LseU(D, j) == Sub(SumN([i \in 1..Len(D) |-> ExpU(D[i], j)], Len(D)), Q(1, j))
KsMax(xs, rho, j) == LET m == SeqMax(xs) IN Add(m, Div(LseU([i \in 1..Len(xs) |-> Mul(rho, Sub(xs[i], m))], j), rho))
KsMin(xs, rho, j) == LET m == SeqMin(xs) IN Sub(m, Div(LseU([i \in 1..Len(xs) |-> Mul(rho, Sub(m, xs[i]))], j), rho))
\* gradient of KS where it is exactly rational: every element is extremal or underflows -> 1/k on the k extremal ones
KsSharp(xs, rho, m) == \A i \in 1..Len(xs) : xs[i] = m \/ Ge(Mul(rho, RAbs(Sub(xs[i], m))), R(800))
KsGrad(xs, m) == LET k == Cardinality({i \in 1..Len(xs) : xs[i] = m}) IN [i \in 1..Len(xs) |-> IF xs[i] = m THEN Q(1, k) ELSE Zero]

\* a term: function, full argument list, number of arguments actually passed (the others take the Python defaults)
Defaults(fn) == CASE fn = "act_tanh" -> <<Zero, Q(1, 100), Zero, R(-1), One>>
                  [] fn \in {"smooth_max", "smooth_min"} -> <<Zero, Zero, Q(1, 100)>>
                  [] fn \in {"smooth_abs", "smooth_round"} -> <<Zero, Q(1, 100)>>
                  [] fn \in {"ks_max", "ks_min"} -> <<R(100)>>              \* args of a KS term: <<rho, x_1, ..., x_n>>
T(fn, a) == [fn |-> fn, args |-> a, given |-> Len(a)]
TD(fn, a) == [fn |-> fn, args |-> a \o SubSeq(Defaults(fn), Len(a) + 1, Len(Defaults(fn))), given |-> Len(a)]
KS(fn, rho, xs) == [fn |-> fn, args |-> <<rho>> \o xs, given |-> 1]
KSD(fn, xs) == [fn |-> fn, args |-> Defaults(fn) \o xs, given |-> 0]
IsKs(t) == t.fn \in {"ks_max", "ks_min"}

TermVal(t, j) ==
    LET a == t.args
    IN CASE t.fn = "act_tanh" -> Act(a[1], a[2], a[3], a[4], a[5], j)
         [] t.fn = "smooth_max" -> SMax(a[1], a[2], a[3], j)
         [] t.fn = "smooth_min" -> SMin(a[1], a[2], a[3], j)
         [] t.fn = "smooth_abs" -> SAbs(a[1], a[2], j)
         [] t.fn = "smooth_round" -> SRound(a[1], a[2], j)
         [] t.fn = "ks_max" -> KsMax(Tail(a), a[1], j)
         [] t.fn = "ks_min" -> KsMin(Tail(a), a[1], j)
TermD(t, j) ==       \* derivative w.r.t. the first argument
    LET a == t.args
    IN CASE t.fn = "act_tanh" -> DAct(a[1], a[2], a[3], a[4], a[5], j)
         [] t.fn = "smooth_max" -> DSMax(a[1], a[2], a[3], j)
         [] t.fn = "smooth_min" -> DSMin(a[1], a[2], a[3], j)
         [] t.fn = "smooth_abs" -> DSAbs(a[1], a[2], j)
         [] t.fn = "smooth_round" -> DSRound(a[1], a[2], j)
TermD2(t, j) ==      \* derivative w.r.t. the second argument (y of smooth_max / smooth_min)
    LET a == t.args
    IN CASE t.fn = "smooth_max" -> DSMaxY(a[1], a[2], a[3], j)
         [] t.fn = "smooth_min" -> DSMinY(a[1], a[2], a[3], j)
\* a scenario:  sum_k w[k] * term_k + k0  (value v);  with c # <<>> also its derivative along a parameter p with
\* d(arg1 of term k)/dp = c[k][1], d(arg2 of term k)/dp = c[k][2]  (value d)
Comb(s, j) == Add(s.k0, SumN([k \in 1..Len(s.terms) |-> Mul(s.w[k], TermVal(s.terms[k], j))], Len(s.terms)))
CombD(s, j) == SumN([k \in 1..Len(s.terms) |->
                       Mul(s.w[k], Add(IF s.c[k][1] = Zero THEN Zero ELSE Mul(s.c[k][1], TermD(s.terms[k], j)),
                                       IF s.c[k][2] = Zero THEN Zero ELSE Mul(s.c[k][2], TermD2(s.terms[k], j))))],
                 Len(s.terms))
HasKg(s) == /\ IsKs(s.terms[1])           \* the gradient of the FIRST term
            /\ LET a == s.terms[1].args
                   xs == Tail(a)
               IN KsSharp(xs, a[1], IF s.terms[1].fn = "ks_max" THEN SeqMax(xs) ELSE SeqMin(xs))
SmoothOut(s) == [v |-> Comb(s, 1),
                 d |-> IF s.c # <<>> THEN CombD(s, 1) ELSE NaN,
                 kg |-> IF HasKg(s)
                        THEN LET xs == Tail(s.terms[1].args)
                             IN KsGrad(xs, IF s.terms[1].fn = "ks_max" THEN SeqMax(xs) ELSE SeqMin(xs))
                        ELSE <<>>]

Mus == {Q(1, 4), Q(1, 2), Q(1, 1024)}
Zs == {R(-1), R(2)}
ABs == {<<R(-1), One>>, <<Zero, One>>, <<R(2), R(-3)>>}
Ds == {Q(1, 4), R(3)}
SmallX == {Q(1, 256), Q(-1, 64), R(3)}
MaxMin == {"smooth_max", "smooth_min"}
KsFns == {"ks_max", "ks_min"}
W1 == <<One>>
C1 == << <<One, Zero>> >>
SM(id, terms, w, k0, c) == [kind |-> "smooth", id |-> id, terms |-> terms, w |-> w, k0 |-> k0, c |-> c]
SmoothScens ==
    LET far(mu) == Mul(R(32), mu)
        P2 == <<One, One>>
        M2 == <<One, R(-1)>>
        cx == <<One, Zero>>
        cy == <<Zero, One>>
    IN  \* --- act_tanh: mid point, saturation, antisymmetric pair, shift / scale / affine laws, defaults
        {SM("act_mid", <<T("act_tanh", <<z, mu, z, ab[1], ab[2]>>)>>, W1, Zero, C1) : mu \in Mus, z \in Zs, ab \in ABs}
   \cup {SM("act_hi", <<T("act_tanh", <<Add(z, far(mu)), mu, z, ab[1], ab[2]>>)>>, W1, Zero, C1) : mu \in Mus, z \in Zs, ab \in ABs}
   \cup {SM("act_lo", <<T("act_tanh", <<Sub(z, far(mu)), mu, z, ab[1], ab[2]>>)>>, W1, Zero, C1) : mu \in Mus, z \in Zs, ab \in ABs}
   \cup {SM("act_pair", <<T("act_tanh", <<Add(z, d), mu, z, ab[1], ab[2]>>), T("act_tanh", <<Sub(z, d), mu, z, ab[1], ab[2]>>)>>,
            P2, Zero, <<cx, <<R(-1), Zero>> >>) : mu \in Mus \ {Q(1, 1024)}, z \in Zs, ab \in ABs, d \in Ds}
   \cup {SM("act_shift", <<T("act_tanh", <<Add(z, d), mu, z, ab[1], ab[2]>>), T("act_tanh", <<Add(Add(z, d), R(5)), mu, Add(z, R(5)), ab[1], ab[2]>>)>>,
            M2, Zero, <<cx, cx>>) : mu \in {Q(1, 4), Q(1, 2)}, z \in Zs, ab \in ABs, d \in Ds}
   \cup {SM("act_scale", <<T("act_tanh", <<Add(z, d), mu, z, ab[1], ab[2]>>),
                           T("act_tanh", <<Mul(R(2), Add(z, d)), Mul(R(2), mu), Mul(R(2), z), ab[1], ab[2]>>)>>,
            M2, Zero, <<cx, <<R(2), Zero>> >>) : mu \in {Q(1, 4), Q(1, 2)}, z \in Zs, ab \in ABs, d \in Ds}
   \cup {SM("act_affine", <<T("act_tanh", <<Add(z, d), mu, z, ab[1], ab[2]>>), T("act_tanh", <<Add(z, d), mu, z, Zero, One>>)>>,
            <<One, Sub(ab[1], ab[2])>>, Neg(ab[1]), <<cx, cx>>) : mu \in {Q(1, 4), Q(1, 2)}, z \in Zs, ab \in ABs, d \in Ds}
   \cup {SM("act_default", <<TD("act_tanh", SubSeq(<<x, Q(1, 100), Zero, R(-1), One>>, 1, n)), T("act_tanh", <<x, Q(1, 100), Zero, R(-1), One>>)>>,
            M2, Zero, <<cx, cx>>) : n \in {1, 3}, x \in {Q(1, 256), Q(-1, 128), One}}
   \cup {SM("act_default_exact", <<TD("act_tanh", <<x>>)>>, W1, Zero, C1) : x \in {Zero, One, R(-2)}}
        \* --- smooth_max / smooth_min
   \cup {SM("max_equal", <<T(fn, <<z, z, mu>>)>>, W1, Zero, <<c>>) : fn \in MaxMin, mu \in Mus, z \in Zs, c \in {cx, cy}}
   \cup {SM("max_sat", <<T(fn, <<Add(z, far(mu)), z, mu>>)>>, W1, Zero, <<c>>) : fn \in MaxMin, mu \in Mus, z \in Zs, c \in {cx, cy}}
   \cup {SM("max_sat_rev", <<T(fn, <<z, Add(z, far(mu)), mu>>)>>, W1, Zero, <<c>>) : fn \in MaxMin, mu \in Mus, z \in Zs, c \in {cx, cy}}
   \cup {SM("max_plus_min", <<T("smooth_max", <<z, Add(z, d), mu>>), T("smooth_min", <<z, Add(z, d), mu>>)>>, P2, Zero, <<c, c>>) :
            mu \in {Q(1, 4), Q(1, 2)}, z \in Zs, d \in Ds, c \in {cx, cy}}
   \cup {SM("max_sym", <<T(fn, <<z, Add(z, d), mu>>), T(fn, <<Add(z, d), z, mu>>)>>, M2, Zero, <<c, <<c[2], c[1]>> >>) :
            fn \in MaxMin, mu \in {Q(1, 4), Q(1, 2)}, z \in Zs, d \in Ds, c \in {cx, cy}}
   \cup {SM("max_shift", <<T(fn, <<z, Add(z, d), mu>>), T(fn, <<Add(z, R(5)), Add(Add(z, d), R(5)), mu>>)>>, M2, R(5), <<c, c>>) :
            fn \in MaxMin, mu \in {Q(1, 4), Q(1, 2)}, z \in Zs, d \in Ds, c \in {cx, cy}}
   \cup {SM("max_scale", <<T(fn, <<Mul(R(2), z), Mul(R(2), Add(z, d)), Mul(R(2), mu)>>), T(fn, <<z, Add(z, d), mu>>)>>, <<One, R(-2)>>, Zero,
            << <<Mul(R(2), c[1]), Mul(R(2), c[2])>>, c>>) : fn \in MaxMin, mu \in {Q(1, 4), Q(1, 2)}, z \in Zs, d \in Ds, c \in {cx, cy}}
   \cup {SM("max_neg_min", <<T("smooth_max", <<z, Add(z, d), mu>>), T("smooth_min", <<Neg(z), Neg(Add(z, d)), mu>>)>>, P2, Zero,
            <<c, <<Neg(c[1]), Neg(c[2])>> >>) : mu \in {Q(1, 4), Q(1, 2)}, z \in Zs, d \in Ds, c \in {cx, cy}}
        \* smooth_max(x, y, mu) = y + (x - y) act_tanh(x, mu, y, 0, 1)
   \cup {SM("max_via_act", <<T("smooth_max", <<x, y, mu>>), T("act_tanh", <<x, mu, y, Zero, One>>)>>, <<One, Sub(y, x)>>, Neg(y), <<>>) :
            mu \in {Q(1, 4), Q(1, 2)}, x \in Zs, y \in {Q(-5, 4), Q(7, 4)}}
   \cup {SM("max_default", <<TD(fn, <<x, y>>), T(fn, <<x, y, Q(1, 100)>>)>>, M2, Zero, <<c, c>>) :
            fn \in MaxMin, x \in {Q(1, 256), One}, y \in {Zero, Q(1, 128)}, c \in {cx, cy}}
        \* --- smooth_abs
   \cup {SM("abs_zero", <<T("smooth_abs", <<Zero, mu>>)>>, W1, Zero, C1) : mu \in Mus}
   \cup {SM("abs_sat", <<T("smooth_abs", <<Mul(R(sg), far(mu)), mu>>)>>, W1, Zero, C1) : mu \in Mus, sg \in {-1, 1, 2}}
   \cup {SM("abs_even", <<T("smooth_abs", <<d, mu>>), T("smooth_abs", <<Neg(d), mu>>)>>, M2, Zero, <<cx, <<R(-1), Zero>> >>) :
            mu \in {Q(1, 4), Q(1, 2)}, d \in Ds \cup SmallX}
   \cup {SM("abs_scale", <<T("smooth_abs", <<Mul(R(2), x), Mul(R(2), mu)>>), T("smooth_abs", <<x, mu>>)>>, <<One, R(-2)>>, Zero,
            << <<R(2), Zero>>, cx>>) : mu \in {Q(1, 128), Q(1, 4)}, x \in SmallX}
        \* smooth_abs(x, mu) = x act_tanh(x, mu, 0, -1, 1) = smooth_max(x, -x, 2 mu) = -smooth_min(x, -x, 2 mu)
   \cup {SM("abs_via_act", <<T("smooth_abs", <<x, mu>>), T("act_tanh", <<x, mu, Zero, R(-1), One>>)>>, <<One, Neg(x)>>, Zero, <<>>) :
            mu \in {Q(1, 128), Q(1, 4)}, x \in SmallX}
   \cup {SM("abs_via_max", <<T("smooth_abs", <<x, mu>>), T("smooth_max", <<x, Neg(x), Mul(R(2), mu)>>)>>, M2, Zero, <<cx, <<One, R(-1)>> >>) :
            mu \in {Q(1, 128), Q(1, 4)}, x \in SmallX}
   \cup {SM("abs_via_min", <<T("smooth_abs", <<x, mu>>), T("smooth_min", <<x, Neg(x), Mul(R(2), mu)>>)>>, P2, Zero, <<cx, <<One, R(-1)>> >>) :
            mu \in {Q(1, 128), Q(1, 4)}, x \in SmallX}
   \cup {SM("abs_default", <<TD("smooth_abs", <<x>>), T("smooth_abs", <<x, Q(1, 100)>>)>>, M2, Zero, <<cx, cx>>) : x \in SmallX}
   \cup {SM("abs_default_exact", <<TD("smooth_abs", <<x>>)>>, W1, Zero, C1) : x \in {Zero, One, R(-2)}}
        \* --- smooth_round
   \cup {SM("round", <<T("smooth_round", <<Add(R(n), fr), mu>>)>>, W1, Zero, C1) :
            n \in {-2, 0, 3}, fr \in {Zero, Q(1, 4), Q(1, 2), Q(3, 4)}, mu \in {Q(1, 128), Q(1, 256)}}
   \cup {SM("round_shift", <<T("smooth_round", <<Add(R(n), fr), mu>>), T("smooth_round", <<fr, mu>>)>>, M2, R(-n), <<cx, cx>>) :
            n \in {-2, 3}, fr \in {Q(1, 8), Q(3, 8), Q(5, 8)}, mu \in {Q(1, 4), Q(1, 16)}}
   \cup {SM("round_mirror", <<T("smooth_round", <<Add(Q(2 * n + 1, 2), fr), mu>>), T("smooth_round", <<Sub(Q(2 * n + 1, 2), fr), mu>>)>>,
            P2, R(-(2 * n + 1)), <<cx, <<R(-1), Zero>> >>) : n \in {-2, 0, 3}, fr \in {Q(1, 8), Q(3, 8)}, mu \in {Q(1, 4), Q(1, 16)}}
   \cup {SM("round_default", <<TD("smooth_round", <<x>>), T("smooth_round", <<x, Q(1, 100)>>)>>, M2, Zero, <<cx, cx>>) :
            x \in {Q(5, 8), Q(-11, 8), Q(33, 64)}}
        \* --- KS
   \cup {SM("ks_single", <<KS(fn, R(100), <<z>>)>>, W1, Zero, <<>>) : fn \in KsFns, z \in Zs \cup {Q(-7, 2)}}
   \cup {SM("ks_separated", <<KS(fn, R(100), <<z, Add(z, R(8)), Sub(z, R(9))>>)>>, W1, Zero, <<>>) : fn \in KsFns, z \in Zs}
        \* ties at the extremum: the value contains log(k)/rho (cancelled by the mirrored term), the gradient is 1/k
   \cup {SM("ks_tie_sharp", <<KS(fn, R(100), xs), KS(IF fn = "ks_max" THEN "ks_min" ELSE "ks_max", R(100), [i \in 1..Len(xs) |-> Neg(xs[i])])>>,
            P2, Zero, <<>>) : fn \in KsFns,
            xs \in {<<R(2), R(-9), R(13)>>, <<R(13), R(-9), R(-9)>>, <<R(13), R(-9), R(13)>>, <<Q(1, 2), Q(1, 2), Q(1, 2)>>}}
   \cup {SM("ks_tie", <<KS("ks_max", rho, <<z, z, z>>), KS("ks_min", rho, <<z, z, z>>)>>, P2, Mul(R(-2), z), <<>>) : rho \in {R(100), Q(1, 2)}, z \in Zs}
   \cup {SM("ks_shift", <<KS(fn, rho, <<z, Add(z, d), z>>), KS(fn, rho, <<Add(z, R(5)), Add(Add(z, d), R(5)), Add(z, R(5))>>)>>, M2, R(5), <<>>) :
            fn \in KsFns, rho \in {R(100), Q(1, 2)}, z \in Zs, d \in {Q(1, 256), Q(1, 4)}}
   \cup {SM("ks_neg", <<KS("ks_max", rho, <<z, Add(z, d), z>>), KS("ks_min", rho, <<Neg(z), Neg(Add(z, d)), Neg(z)>>)>>, P2, Zero, <<>>) :
            rho \in {R(100), Q(1, 2)}, z \in Zs, d \in {Q(1, 256), Q(1, 4)}}
   \cup {SM("ks_scale", <<KS(fn, Mul(Q(1, 2), rho), <<Mul(R(2), z), Mul(R(2), Add(z, d)), Mul(R(2), z)>>), KS(fn, rho, <<z, Add(z, d), z>>)>>, <<One, R(-2)>>, Zero, <<>>) :
            fn \in KsFns, rho \in {R(100), Q(1, 2)}, z \in Zs, d \in {Q(1, 256), Q(1, 4)}}
   \cup {SM("ks_perm", <<KS(fn, rho, <<z, Add(z, d), Sub(z, d)>>), KS(fn, rho, <<Sub(z, d), z, Add(z, d)>>)>>, M2, Zero, <<>>) :
            fn \in KsFns, rho \in {R(100), Q(1, 2)}, z \in Zs, d \in {Q(1, 256), Q(1, 4)}}
   \cup {SM("ks_default", <<KSD(fn, <<z, Add(z, d), z>>), KS(fn, R(100), <<z, Add(z, d), z>>)>>, M2, Zero, <<>>) :
            fn \in KsFns, z \in Zs, d \in {Q(1, 256), Q(1, 4)}}
   \cup {SM("ks_default_sharp", <<KSD(fn, <<z, Add(z, R(8)), Add(z, R(8))>>), KS(fn, R(100), <<z, Add(z, R(8)), Add(z, R(8))>>)>>, M2, Zero, <<>>) :
            fn \in KsFns, z \in Zs}

\* --- enumeration -------------------------------------------------------------------------------------------
Xs == -2..2
NormData == { << <<3, 4>> >>, << <<-4, 3>> >>, << <<1, -2, 2>> >>, << <<2, 3, 6>> >>, << <<0, -5>> >>, << <<7>> >>, << <<-2>> >>,
              << <<3, 4>>, <<-12, 5>> >>, << <<1, 2>>, <<2, 4>> >>, << <<3, 0>>, <<4, 3>> >>, << <<2, -4>>, <<5, 6>> >>,
              << <<1, 2, 2>>, <<-2, 3, 6>> >>,
              \* zeros: all-zero arrays and all-zero rows / columns
              << <<0>> >>, << <<0, 0>> >>, << <<0, 0, 0>> >>, << <<0, 0>>, <<3, 4>> >>, << <<0, 3>>, <<0, 4>> >>,
              << <<0, 0>>, <<0, 0>> >>, << <<0>>, <<0>> >> }
\* axes for which every group of the data is Pythagorean (possibly zero)
AxesOf(x) == {ax \in {"none", "0", "1"} :
                 LET g == NormGroups([x |-> x, axis |-> ax])
                 IN \A k \in 1..Len(g) : PerfectSq(SumSet(g[k], x, x))}
ZeroMat(x) == [r \in 1..Len(x) |-> [c \in 1..Len(x[1]) |-> 0]]
Base == (IF "abs" \in Kinds THEN {[kind |-> "abs", n |-> n, e |-> e] : n \in 1..3, e \in Scales} ELSE {})
   \cup (IF "norm" \in Kinds THEN {[kind |-> "norm", x |-> x, axis |-> ax] : x \in NormData, ax \in {"none", "0", "1"}} ELSE {})
   \cup (IF "arctan2" \in Kinds THEN {[kind |-> "arctan2", y |-> y, x |-> x] : y \in Xs, x \in Xs} ELSE {})
   \cup (IF "smooth" \in Kinds THEN {[kind |-> "smooth", id |-> id] : id \in {sc.id : sc \in SmoothScens}} ELSE {})

VARIABLES stage, scen, out
vars == <<stage, scen, out>>
Init == stage = 0 /\ scen \in Base /\ out = <<>>
OutOf(s) == CASE s.kind = "abs" -> [re |-> [k \in 1..s.n |-> AbsRe(s.x[k])], d |-> [k \in 1..s.n |-> AbsD(s.x[k], s.dx[k])]]
              [] s.kind = "norm" -> [re |-> NormRe(s), d |-> NormD(s)]
              [] s.kind = "arctan2" -> [d |-> At2D(s.y, s.x, s.dy, s.dx), quadrant |-> Quadrant(s.y, s.x)]
              [] s.kind = "smooth" -> SmoothOut(s)
Choose ==
    /\ stage = 0 /\ stage' = 1
    /\ CASE scen.kind = "abs" ->
              \E x \in [1..scen.n -> Xs], dx \in [1..scen.n -> Dirs] :
                 /\ (scen.n = 3 => (x[1] = 0 /\ x[2] < 0 /\ x[3] > 0))      \* n = 3: one of each sign class per vector
                 /\ scen' = [kind |-> "abs", n |-> scen.n, e |-> scen.e, x |-> x, dx |-> dx]
         [] scen.kind = "norm" ->
              /\ scen.axis \in AxesOf(scen.x)
              /\ \E dx \in [1..Len(scen.x) -> [1..Len(scen.x[1]) -> Dirs]] :
                    /\ \/ dx = ZeroMat(scen.x)                              \* real input
                       \/ Len(scen.x) * Len(scen.x[1]) <= 3
                       \/ \A r \in 1..Len(scen.x) : \A c \in 1..Len(scen.x[1]) : dx[r][c] # 0 \/ (r + c) % 2 = 0
                    \* at the kink (all-zero group) the directional derivative ||dx|| must be rational
                    /\ LET g == NormGroups(scen)
                       IN \A k \in 1..Len(g) : SumSet(g[k], scen.x, scen.x) = 0 => PerfectSq(SumSet(g[k], dx, dx))
                    /\ scen' = [kind |-> "norm", x |-> scen.x, axis |-> scen.axis, dx |-> dx]
         [] scen.kind = "arctan2" ->
              \E dy \in {-1, 0, 1, 2}, dx \in {-1, 0, 1, 2} :
                 \* the origin has no derivative: real arguments only
                 /\ (<<dy, dx>> = <<0, 0>>) <=> (scen.y = 0 /\ scen.x = 0)
                 /\ scen' = [kind |-> "arctan2", y |-> scen.y, x |-> scen.x, dy |-> dy, dx |-> dx]
         [] scen.kind = "smooth" -> \E sc \in SmoothScens : sc.id = scen.id /\ scen' = sc
    /\ out' = OutOf(scen')
Next == Choose

\* --- laws -----------------------------------------------------------------------------------------------------
AbsLaw == (stage = 1 /\ scen.kind = "abs") =>
            \A k \in 1..scen.n :
               LET x == scen.x[k]
                   dx == scen.dx[k]
               IN /\ out.re[k] >= 0 /\ out.re[k] * out.re[k] = x * x
                  /\ out.d[k] = AbsD(-x, -dx)                                     \* |x| is even
                  /\ RAbs(out.d[k]) = R(Abs(dx))
                  \* one-sided directional derivative: |.| is piecewise linear, so the difference quotient along dx is
                  \* exact as soon as the segment does not cross the kink (3|x| > |dx| for x # 0; from the kink itself)
                  /\ out.d[k] = R(Abs(3 * x + dx) - Abs(3 * x))
                  /\ out.d[k] = AbsD(7 * x, dx)                                   \* positive homogeneity: the scale is irrelevant
                  /\ (x = 0 => out.d[k][1] >= 0)
NormLaw == (stage = 1 /\ scen.kind = "norm") =>
             LET g == NormGroups(scen)
                 neg(m) == [r \in 1..Len(m) |-> [c \in 1..Len(m[1]) |-> -m[r][c]]]
             IN /\ \A k \in 1..Len(g) :
                      LET ss == SumSet(g[k], scen.x, scen.x)
                          dd == SumSet(g[k], scen.dx, scen.dx)
                      IN /\ out.re[k] >= 0 /\ out.re[k] * out.re[k] = ss
                         \* Euler (direction x gives the norm itself) and Cauchy-Schwarz
                         /\ ss > 0 => Q(ss, out.re[k]) = R(out.re[k])
                         /\ Le(Mul(out.d[k], out.d[k]), R(dd))
                         \* kink: the one-sided slope ||dx|| (>= 0, equality in Cauchy-Schwarz)
                         /\ ss = 0 => (out.d[k][1] >= 0 /\ Mul(out.d[k], out.d[k]) = R(dd))
                \* the norm is even
                /\ out.d = NormD([x |-> neg(scen.x), axis |-> scen.axis, dx |-> neg(scen.dx)])
At2Law == (stage = 1 /\ scen.kind = "arctan2") =>
             IF scen.y = 0 /\ scen.x = 0 THEN out.d = NaN /\ scen.dy = 0 /\ scen.dx = 0
             ELSE
             /\ At2D(scen.y, scen.x, scen.y, scen.x) = Zero                          \* radial direction
             /\ At2D(scen.y, scen.x, scen.x, -scen.y) = One                          \* tangential direction
             /\ out.d = Neg(At2D(scen.x, scen.y, scen.dx, scen.dy))                  \* atan2(y,x) + atan2(x,y) is locally constant
             /\ out.d = At2D(2 * scen.y, 2 * scen.x, 2 * scen.dy, 2 * scen.dx)      \* homogeneity
QIndependent == (stage = 1 /\ scen.kind = "smooth") =>
                  /\ \A j \in Fams : Comb(scen, j) = out.v
                  /\ scen.c # <<>> =>
                        /\ Len(scen.c) = Len(scen.terms)
                        /\ \A k \in 1..Len(scen.terms) :
                              /\ ~IsKs(scen.terms[k])
                              /\ scen.c[k][2] # Zero => scen.terms[k].fn \in MaxMin
                        /\ \A j \in Fams : CombD(scen, j) = out.d
                  /\ Len(scen.w) = Len(scen.terms)
                  \* omitted arguments are the documented defaults
                  /\ \A k \in 1..Len(scen.terms) :
                        LET t == scen.terms[k]
                            df == Defaults(t.fn)
                        IN IF IsKs(t) THEN t.given = 0 => t.args[1] = df[1]
                           ELSE /\ Len(t.args) = Len(df) /\ t.given >= 1
                                /\ \A i \in (t.given + 1)..Len(df) : t.args[i] = df[i]
                  \* KS gradient exported only where it is rational, and it sums to one
                  /\ out.kg # <<>> => SumN(out.kg, Len(out.kg)) = One
Export == stage = 1 => PrintT(<<"EXP", ToJson([s |-> scen, v |-> out])>>)
=============================================================================
