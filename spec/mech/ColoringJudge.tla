--------------------------- MODULE ColoringJudge ---------------------------
(***************************************************************************)
(* Validation of colorings computed by the real code against Coloring.tla  *)
(* (C03).  The harness calls openmdao.utils.coloring._compute_coloring on  *)
(* every enumerated sparsity pattern (modes fwd, rev, auto with the direct *)
(* and the substitution method) and writes, per distinct result, the       *)
(* pattern and the projection of the Coloring object (indices 1-based):    *)
(*   [nr, nc, P: <<r,c>>..., modes: <<"fwd"|"rev"|"auto", ...>>,            *)
(*    K: [fg: groups of columns, fnz: per column the rows read back,       *)
(*        rg: groups of rows,    rnz: per row the columns read back,       *)
(*        subs: <<[pos: <<r,c>>, sub: <<r,c>>...]...>> in application order],*)
(*    fs, rs: solves of the real single-direction colorings of P]          *)
(* `modes` lists every requested mode for which the code returned exactly  *)
(* this coloring of P (mode auto returns the fwd or rev coloring when the  *)
(* bidirectional one is not better), so that Valid is evaluated once.      *)
(* TLC evaluates the specification's predicates on each of them; one case  *)
(* per state so that the workers share the work.  Same state variables as  *)
(* the self-check of Coloring.tla: here `scen` is the case number.         *)
(***************************************************************************)
EXTENDS Coloring, Json, IOUtils

Cases == JsonDeserialize(IOEnv.C03_CASES)

\* JSON lists become sequences: groups and nz lists are sets in the specification
Problem(c) == [nr |-> c.nr, nc |-> c.nc, P |-> Range(c.P)]
Projected(c) == [fg |-> [k \in DOMAIN c.K.fg |-> Range(c.K.fg[k])],
                 fnz |-> [i \in DOMAIN c.K.fnz |-> Range(c.K.fnz[i])],
                 rg |-> [k \in DOMAIN c.K.rg |-> Range(c.K.rg[k])],
                 rnz |-> [i \in DOMAIN c.K.rnz |-> Range(c.K.rnz[i])],
                 subs |-> c.K.subs]

\* the code's own promise for mode "auto": the bidirectional coloring is kept only when it needs fewer solves than
\* the fwd coloring and not more than the rev coloring (fs, rs come from the real single-direction runs on P)
Fallback(c, K, mode) == mode = "auto" => Solves(K) <= c.fs /\ Solves(K) <= c.rs

Judge(c) ==
    LET S == Problem(c)
        K == Projected(c)
        wf == WellFormed(S, K)
    IN [wf |-> wf, valid |-> wf /\ Valid(S, K), solves |-> Solves(K),
        partition |-> [i \in DOMAIN c.modes |-> wf /\ Partition(S, K, c.modes[i])],
        noworse |-> [i \in DOMAIN c.modes |-> NoWorse(S, K, c.modes[i])],
        fallback |-> [i \in DOMAIN c.modes |-> Fallback(c, K, c.modes[i])],
        \* a substitution coloring that would also be valid without its subtraction steps carries useless ones
        needsubs |-> IF K.subs = <<>> THEN FALSE ELSE wf /\ ~Valid(S, [K EXCEPT !.subs = <<>>])]

JInit == stage = 0 /\ verdict = <<>> /\ scen \in 1..Len(Cases)
JNext == stage = 0 /\ stage' = 1 /\ verdict' = Judge(Cases[scen]) /\ UNCHANGED scen
JExport == stage = 1 => PrintT(<<"EXP", ToJson([tid |-> scen, v |-> verdict])>>)
=============================================================================
