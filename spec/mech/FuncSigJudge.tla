---------------------------- MODULE FuncSigJudge ----------------------------
(***************************************************************************)
(* C34: expected residuals / outputs and Jacobian blocks of a function or  *)
(* jax component with several inputs and outputs.                          *)
(*                                                                         *)
(* The harness composes a structure of FuncSig.tla (argument order, return *)
(* order, declaration order, shapes) with trees exported by Expr.tla and   *)
(* writes cases                                                            *)
(*   [sc    |-> structure,                                                 *)
(*    trees |-> [output |-> tree over x0, x1],                             *)
(*    bind  |-> [output |-> [x0 |-> argument, x1 |-> argument]],           *)
(*    form  |-> [output |-> "raw" | "lin"]]                                *)
(* to the file named by the environment variable C34_CASES.  This module   *)
(* derives, with the operators of Expr.tla, what the component has to      *)
(* deliver for each case:                                                  *)
(*   value of output s (residual of state s) = ResTree(c, s): the tree of  *)
(*       s with its variables renamed to the bound arguments ("raw"), or   *)
(*       s - that tree ("lin", implicit components only)                   *)
(*   sub-Jacobian (s, w) = D(ResTree(c, s), w)  for every argument w       *)
(*   the domain side-conditions of all of them (where to evaluate)         *)
(* everything by NAME: the orders in the structure must not matter.        *)
(* One case per state so that TLC's workers share the work.                *)
(***************************************************************************)
EXTENDS FuncSig, IOUtils

Cases == JsonDeserialize(IOEnv.C34_CASES)

\* rename the variables of a tree (m: record / function from variable names to argument names)
RECURSIVE Ren(_, _)
Ren(e, m) == CASE e.t = "var" -> IF e.f \in DOMAIN m THEN E!Var(m[e.f]) ELSE e
               [] e.t = "const" -> e
               [] e.t = "bin" -> [e EXCEPT !.c = <<Ren(e.c[1], m), Ren(e.c[2], m)>>]
               [] OTHER -> [e EXCEPT !.c = <<Ren(e.c[1], m)>>]

COuts(c) == SOuts(c.sc)
Args(c) == RangeOf(c.sc.sig)
Bound(c, s) == Ren(c.trees[s], c.bind[s])
ResTree(c, s) == IF c.sc.impl /\ c.form[s] = "lin" THEN E!Sub(E!Var(s), Bound(c, s)) ELSE Bound(c, s)
Block(c, s, w) == E!D(ResTree(c, s), w)
\* the value has the shape of the output: some argument it depends on has that shape (the others broadcast)
FullShape(c, s) == \E a \in E!Vars(ResTree(c, s)) : ShapeOf(c.sc, a) = c.sc.ysh

Legal(c) == /\ StructOK(c.sc)
            /\ DOMAIN c.trees = COuts(c) /\ DOMAIN c.bind = COuts(c) /\ DOMAIN c.form = COuts(c)
            /\ \A s \in COuts(c) :
                  /\ E!WF(c.trees[s])
                  /\ E!Vars(c.trees[s]) # {} /\ E!Vars(c.trees[s]) \subseteq TreeVars
                  /\ DOMAIN c.bind[s] = TreeVars
                  /\ \A v \in TreeVars : c.bind[s][v] \in Args(c)
                  /\ c.form[s] \in {"raw", "lin"}
                  /\ c.form[s] = "lin" => c.sc.impl
                  /\ FullShape(c, s)

\* core: what is compared by name;  v: the positional layout of FuncSig.tla (direction, column order) for the coverage
Core(c) == [res |-> [s \in COuts(c) |-> ResTree(c, s)],
            d |-> [s \in COuts(c) |-> [w \in Args(c) |-> Block(c, s, w)]],
            dom |-> [s \in COuts(c) |-> E!AllDom(ResTree(c, s))],
            vars |-> [s \in COuts(c) |-> E!Vars(ResTree(c, s))]]
Expect(c) == [core |-> Core(c), v |-> Derived(c.sc)]

\* --- one case per state -------------------------------------------------------------------------------
\* (co: case number, sc: <<>> then <<[legal |-> ..., x |-> <<Expect>> or <<>>]>>)
JInit == co \in 1..Len(Cases) /\ ao = <<>> /\ sc = <<>>
JNext == /\ sc = <<>>
         /\ LET c == Cases[co] IN
            IF Legal(c) THEN sc' = <<[legal |-> TRUE, x |-> <<Expect(c)>>]>>
                        ELSE sc' = <<[legal |-> FALSE, x |-> <<>>]>>
         /\ UNCHANGED <<co, ao>>
JDone == sc # <<>> /\ sc[1].legal
JC == Cases[co]
JX == sc[1].x[1].core

\* --- laws ---------------------------------------------------------------------------------------------
JWellFormed == JDone => \A s \in COuts(JC) :
                  /\ E!WF(JX.res[s])
                  /\ JX.vars[s] \subseteq Args(JC)
                  /\ \A w \in Args(JC) : E!WF(JX.d[s][w]) /\ E!Vars(JX.d[s][w]) \subseteq JX.vars[s]
                  /\ \A cn \in JX.dom[s] : E!WF(cn.e) /\ E!Vars(cn.e) \subseteq JX.vars[s]
\* a block is structurally zero exactly for the arguments the value does not depend on ... by construction of D;
\* the residual of a "lin" state has the identity minus the tree's derivative on its own block
JZeroLaw == JDone => \A s \in COuts(JC) : \A w \in Args(JC) :
                  w \notin JX.vars[s] => JX.d[s][w] = E!Const(0)
JLinLaw == JDone => \A s \in COuts(JC) :
                  (JC.sc.impl /\ JC.form[s] = "lin") =>
                      /\ s \in JX.vars[s]
                      /\ JX.d[s][s] = E!Sub(E!Const(1), E!D(Bound(JC, s), s))
                      /\ \A w \in JX.vars[s] \ {s} : JX.d[s][w] = E!Sub(E!Const(0), E!D(Bound(JC, s), w))
\* differentiation commutes with an injective renaming of the variables
JRenLaw == JDone => \A s \in COuts(JC) :
                  LET t == JC.trees[s]
                      m == JC.bind[s]
                      V == E!Vars(t)
                  IN (\A x, y \in V : x # y => m[x] # m[y]) =>
                        \A x \in V : E!D(Bound(JC, s), m[x]) = Ren(E!D(t, x), m)
\* the expectation never depends on the orders in the structure: the same case with the canonical orders
\* (inputs first, states last, everything in name order) has the same trees and blocks
Sorted(S) == CHOOSE p \in Perms(S) : \A i, j \in 1..Len(p) : i < j =>
                  (IF p[i] \in AllIns /\ p[j] \in AllIns THEN IndexOf(InPool, p[i]) < IndexOf(InPool, p[j])
                   ELSE IF p[i] \in AllOuts /\ p[j] \in AllOuts THEN IndexOf(OutPool, p[i]) < IndexOf(OutPool, p[j])
                   ELSE p[i] \in AllIns)
Canon(c) == [c EXCEPT !.sc.sig = Sorted(Args(c)), !.sc.ret = Sorted(COuts(c)), !.sc.decl = Sorted(COuts(c))]
JOrderLaw == JDone => LET k == Canon(JC) IN
                  /\ StructOK(k.sc)
                  /\ Core(k) = JX

JExport == sc # <<>> => PrintT(<<"EXP", ToJson([tid |-> co, legal |-> sc[1].legal, x |-> sc[1].x])>>)
=============================================================================
