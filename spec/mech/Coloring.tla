------------------------------ MODULE Coloring ------------------------------
(***************************************************************************)
(* Simultaneous-derivative coloring (openmdao/utils/coloring.py). C03.      *)
(*                                                                         *)
(* A sparsity pattern P is a set of <<row, col>> pairs over 1..nr x 1..nc. *)
(* A coloring K is what the framework stores in a Coloring object:         *)
(*   fg   sequence of sets of columns  (Coloring._fwd[0]; one linear solve *)
(*        / one perturbed run per element, seeded with the 0/1 indicator)  *)
(*   fnz  column -> set of rows that are read back for that column from    *)
(*        the compressed product of the column's color (Coloring._fwd[1])  *)
(*   rg, rnz  the same for rows (Coloring._rev)                            *)
(*   subs sequence of [pos, sub]: after all products have been scattered,  *)
(*        J[pos] -= SUM_{k in sub} J[k], one step after the other, on the  *)
(*        *current* J (Coloring._subtractions / _apply_subtractions; only   *)
(*        the substitution method of the bidirectional coloring makes any) *)
(*                                                                         *)
(* Values are GENERIC: the matrix entry at <<r,c>> in P is the formal      *)
(* symbol <<r,c>>; every number the framework handles is a formal sum of   *)
(* entries (a function P -> Int of coefficients).  Reconstruction is       *)
(* therefore judged for every matrix with the pattern at once: Valid means *)
(* that the recovered matrix is the generic matrix itself.                 *)
(*                                                                         *)
(* The specification is permissive: ANY K with Valid /\ Partition /\        *)
(* NoWorse is accepted; how the groups are found (greedy order, MNCO        *)
(* partition, direct or substitution adjacency) is deliberately left open. *)
(***************************************************************************)
EXTENDS Naturals, Integers, Sequences, FiniteSets, TLC

CONSTANTS SCR, SCC,     \* self-check enumeration (bottom of the module): every pattern of shape SCR x SCC ...
          SCLen         \* ... with every candidate coloring of at most SCLen colors (fwd + rev)

\* a problem S is [nr, nc, P]
Rows(S) == 1..S.nr
Cols(S) == 1..S.nc
Cells(S) == Rows(S) \X Cols(S)
Range(q) == {q[i] : i \in DOMAIN q}
Max(A) == CHOOSE m \in A : \A n \in A : n <= m
Min2(a, b) == IF a <= b THEN a ELSE b

\* --- formal sums of entries ------------------------------------------------------------------------
FZero(S) == [e \in S.P |-> 0]
FUnit(S, x) == [e \in S.P |-> IF e = x THEN 1 ELSE 0]
FAdd(a, b) == [e \in DOMAIN a |-> a[e] + b[e]]
FSub(a, b) == [e \in DOMAIN a |-> a[e] - b[e]]

\* --- Compress: what one solve returns -----------------------------------------------------------------
\* fwd color k: J . seed, seed = indicator of the columns of the group; element r of the product
FwdProduct(S, K, k, r) == [e \in S.P |-> IF e[1] = r /\ e[2] \in K.fg[k] THEN 1 ELSE 0]
\* rev color k: seed^T . J, seed = indicator of the rows of the group; element c of the product
RevProduct(S, K, k, c) == [e \in S.P |-> IF e[2] = c /\ e[1] \in K.rg[k] THEN 1 ELSE 0]

\* --- Recover -------------------------------------------------------------------------------------------
\* the colors that write cell x: the column (row) is in the group and the row (column) is in its nz list
FwdWriters(S, K, x) == {k \in DOMAIN K.fg : x[2] \in K.fg[k] /\ x[1] \in K.fnz[x[2]]}
RevWriters(S, K, x) == {k \in DOMAIN K.rg : x[1] \in K.rg[k] /\ x[2] \in K.rnz[x[1]]}
Covered(S, K, x) == FwdWriters(S, K, x) # {} \/ RevWriters(S, K, x) # {}

\* J starts as zero; all fwd colors are scattered in order, then all rev colors (the last writer of a cell wins;
\* under Partition there is at most one writer per direction)
Scatter(S, K) ==
    [x \in Cells(S) |->
        LET fw == FwdWriters(S, K, x)
            rw == RevWriters(S, K, x)
        IN IF rw # {} THEN RevProduct(S, K, Max(rw), x[2])
           ELSE IF fw # {} THEN FwdProduct(S, K, Max(fw), x[1])
           ELSE FZero(S)]

RECURSIVE SumAt(_, _, _, _)
SumAt(S, J, q, i) == IF i > Len(q) THEN FZero(S) ELSE FAdd(J[q[i]], SumAt(S, J, q, i + 1))

\* the subtraction steps, in the stored order, each one on the current J
RECURSIVE ApplySubs(_, _, _, _)
ApplySubs(S, J, subs, i) ==
    IF i > Len(subs) THEN J
    ELSE ApplySubs(S, [J EXCEPT ![subs[i].pos] = FSub(@, SumAt(S, J, subs[i].sub, 1))], subs, i + 1)

Recover(S, K) == ApplySubs(S, Scatter(S, K), K.subs, 1)

\* --- the predicates ---------------------------------------------------------------------------------------
WellFormed(S, K) ==
    /\ \A k \in DOMAIN K.fg : K.fg[k] \subseteq Cols(S)
    /\ \A k \in DOMAIN K.rg : K.rg[k] \subseteq Rows(S)
    /\ DOMAIN K.fnz = Cols(S) /\ \A c \in Cols(S) : K.fnz[c] \subseteq Rows(S)
    /\ DOMAIN K.rnz = Rows(S) /\ \A r \in Rows(S) : K.rnz[r] \subseteq Cols(S)
    /\ \A i \in DOMAIN K.subs : K.subs[i].pos \in Cells(S) /\ Range(K.subs[i].sub) \subseteq Cells(S)

\* every cell of the matrix is recovered exactly: entries of P as themselves, everything else as zero
Valid(S, K) ==
    LET R == Recover(S, K)
    IN \A x \in Cells(S) : R[x] = IF x \in S.P THEN FUnit(S, x) ELSE FZero(S)

Disjoint(g) == \A i, j \in DOMAIN g : i # j => g[i] \cap g[j] = {}
NonemptyCols(S) == {e[2] : e \in S.P}
NonemptyRows(S) == {e[1] : e \in S.P}

\* no column in two fwd colors, no row in two rev colors, every entry is read back from some color;
\* a single-direction coloring uses that direction only and puts every nonempty column (row) in a color
Partition(S, K, mode) ==
    /\ Disjoint(K.fg) /\ Disjoint(K.rg)
    /\ \A e \in S.P : Covered(S, K, e)
    /\ mode = "fwd" => K.rg = <<>> /\ NonemptyCols(S) \subseteq UNION Range(K.fg)
    /\ mode = "rev" => K.fg = <<>> /\ NonemptyRows(S) \subseteq UNION Range(K.rg)

\* linear solves (or perturbed runs) with the coloring against the uncolored computation of the mode
Solves(K) == Len(K.fg) + Len(K.rg)
Uncolored(S, mode) == CASE mode = "fwd" -> S.nc
                        [] mode = "rev" -> S.nr
                        [] OTHER -> Min2(S.nr, S.nc)
NoWorse(S, K, mode) == Solves(K) <= Uncolored(S, mode)

Verdict(S, K, mode) ==
    LET wf == WellFormed(S, K)
    IN [wf |-> wf,
        valid |-> wf /\ Valid(S, K),
        partition |-> wf /\ Partition(S, K, mode),
        noworse |-> NoWorse(S, K, mode),
        solves |-> Solves(K)]

\* --- an independent characterisation for colorings without subtraction steps (cross-check of Valid) ----------
\* classical structural orthogonality: the color that finally writes a cell contains, in that row (column), exactly
\* the cell's own entry - or nothing when the cell is outside P
ValidStruct(S, K) ==
    \A x \in Cells(S) :
        LET fw == FwdWriters(S, K, x)
            rw == RevWriters(S, K, x)
            own == IF x \in S.P THEN {x} ELSE {}
        IN IF rw # {} THEN {e \in S.P : e[2] = x[2] /\ e[1] \in K.rg[Max(rw)]} = own
           ELSE IF fw # {} THEN {e \in S.P : e[1] = x[1] /\ e[2] \in K.fg[Max(fw)]} = own
           ELSE own = {}

\* --- hand-written instances (evaluated at start-up) -------------------------------------------------------------
\* a 4x4 pattern with the coloring the substitution method of the real code returns for it (3 solves; the fwd
\* coloring needs 4); the third step uses the cell corrected by the first one, so the order is part of the coloring
ExS == [nr |-> 4, nc |-> 4,
        P |-> {<<1,1>>, <<1,3>>, <<1,4>>, <<2,1>>, <<2,2>>, <<3,1>>, <<4,2>>, <<4,3>>, <<4,4>>}]
ExK(subs) == [fg |-> <<{1,3}, {2,4}>>, fnz |-> <<{2,3}, {2}, {1}, {1}>>,
              rg |-> <<{1,4}>>, rnz |-> <<{1}, {}, {}, {2,3,4}>>, subs |-> subs]
ExS1 == [pos |-> <<1,3>>, sub |-> << <<1,1>> >>]
ExS2 == [pos |-> <<4,4>>, sub |-> << <<1,4>> >>]
ExS3 == [pos |-> <<4,3>>, sub |-> << <<1,3>> >>]
ASSUME Valid(ExS, ExK(<<ExS1, ExS2, ExS3>>)) /\ Partition(ExS, ExK(<<ExS1, ExS2, ExS3>>), "auto")
ASSUME NoWorse(ExS, ExK(<<ExS1, ExS2, ExS3>>), "auto")
ASSUME ~Valid(ExS, ExK(<<ExS3, ExS2, ExS1>>))        \* wrong order
ASSUME ~Valid(ExS, ExK(<<ExS1, ExS2>>))              \* a step missing
ASSUME ~Valid(ExS, ExK(<<>>))                        \* no steps: two cells hold sums of two entries
ASSUME ~ValidStruct(ExS, ExK(<<>>))
\* identity coloring (one column per color) is always valid, and never better than the uncolored computation
IdK(S) == [fg |-> [c \in Cols(S) |-> {c}], fnz |-> [c \in Cols(S) |-> {e[1] : e \in {p \in S.P : p[2] = c}}],
           rg |-> <<>>, rnz |-> [r \in Rows(S) |-> {}], subs |-> <<>>]
ASSUME Valid(ExS, IdK(ExS)) /\ Partition(ExS, IdK(ExS), "fwd") /\ NoWorse(ExS, IdK(ExS), "fwd")
ASSUME ~NoWorse([ExS EXCEPT !.nr = 3, !.P = @ \ {<<4,2>>, <<4,3>>, <<4,4>>}], IdK(ExS), "auto")

\* --- self-check: every pattern of shape SCR x SCC against every candidate coloring (no subtraction steps) -----------
\* Shows that Valid is not vacuous (PickInvalid is taken far more often than PickValid) and checks the laws below.
VARIABLES stage, scen, verdict
vars == <<stage, scen, verdict>>

SCShape(P) == [nr |-> SCR, nc |-> SCC, P |-> P]
GroupSeqs(U) == UNION {[1..n -> (SUBSET U) \ {{}}] : n \in 0..SCLen}
NoK == [fg |-> <<>>, fnz |-> [c \in 1..SCC |-> {}], rg |-> <<>>, rnz |-> [r \in 1..SCR |-> {}], subs |-> <<>>]

Init == /\ stage = 0 /\ verdict = <<>>
        /\ \E P \in SUBSET ((1..SCR) \X (1..SCC)) : scen = [S |-> SCShape(P), K |-> NoK, mode |-> "auto"]

\* one step chooses the coloring (at most SCLen colors in total; the nz list of a column or row that is in no color
\* is never read, so it is left empty), a second one only classifies it so that the action coverage shows how many
\* candidates were valid and how many were not
Pick ==
    /\ stage = 0 /\ stage' = 1
    /\ \E fg \in GroupSeqs(1..SCC), rg \in GroupSeqs(1..SCR) :
         /\ Len(fg) + Len(rg) <= SCLen
         /\ \E fnz \in [1..SCC -> SUBSET (1..SCR)], rnz \in [1..SCR -> SUBSET (1..SCC)] :
               /\ \A c \in (1..SCC) \ UNION Range(fg) : fnz[c] = {}
               /\ \A r \in (1..SCR) \ UNION Range(rg) : rnz[r] = {}
               /\ LET K == [fg |-> fg, fnz |-> fnz, rg |-> rg, rnz |-> rnz, subs |-> <<>>]
                  IN /\ scen' = [scen EXCEPT !.K = K]
                     /\ verdict' = Verdict(scen.S, K, "auto")
SeenValid == stage = 1 /\ verdict.valid /\ stage' = 2 /\ UNCHANGED <<scen, verdict>>
SeenInvalid == stage = 1 /\ ~verdict.valid /\ stage' = 2 /\ UNCHANGED <<scen, verdict>>
Next == Pick \/ SeenValid \/ SeenInvalid

\* laws (theorems of the definitions above; a failure is an error of this specification, not of the code)
ValidIsStructural == stage = 1 => (verdict.valid <=> ValidStruct(scen.S, scen.K))
ValidCovers == stage = 1 /\ verdict.valid => \A e \in scen.S.P : Covered(scen.S, scen.K, e)
\* a valid single-direction coloring needs at least as many colors as the fullest row has entries
MaxRowCount(S) == Max({Cardinality({e \in S.P : e[1] = r}) : r \in Rows(S)})
FwdLowerBound == stage = 1 /\ verdict.valid /\ scen.K.rg = <<>> => Len(scen.K.fg) >= MaxRowCount(scen.S)
=============================================================================
