----------------------------- MODULE Optimizer -----------------------------
(***************************************************************************)
(* What a constrained optimizer must return on a strictly convex QP. C21.  *)
(*                                                                         *)
(*   minimise  f(x) = sum_i (x_i - t_i)^2      x in R^N                    *)
(*   subject to the constraint  c = y[idx],  y = M x,                      *)
(*     lower_k <= c_k <= upper_k   (per element, either side may be absent)*)
(*     or  c_k = equals_k          (for the whole constraint)              *)
(*                                                                         *)
(* M is the identity ("id") or the unimodular upper bidiagonal matrix      *)
(* ("tri").  `idx` says which elements of y the constraint is declared on  *)
(* (the `indices=` argument of add_constraint) and in which order.         *)
(* All numbers are exact rationals (Rat.tla).  The feasibility of one      *)
(* element is the zero of Violation!Viol1 (the C22 definition).            *)
(*                                                                         *)
(* The optimum is DEFINED as the best feasible active-set candidate (for   *)
(* every choice of bounds held active, the minimiser of f on that affine   *)
(* subspace); the KKT sign conditions, the projection formula, and the     *)
(* independence of the driver scaling are LAWS checked by TLC.             *)
(***************************************************************************)
EXTENDS Rat, Naturals, FiniteSets, TLC, Json

CONSTANTS N             \* number of design variables = size of y (2 or 3)

VARIABLES stage, scen, out     \* stage 0: shape chosen; 1: targets chosen; 2: bounds chosen, out = the expected result
vars == <<stage, scen, out>>

\* Viol1, NoB, IneqPats, EqVals of the C22 specification (its variables are instantiated by ours)
V == INSTANCE Violation WITH MaxN <- N
NoB == V!NoB

TVals == {Q(-2, 1), One, Q(5, 1)}      \* below every bound / inside or on a bound / above every bound
Pats == V!IneqPats                      \* <<lower, upper>>: none, lower only (0|1), upper only (2|3), both
EqVals == V!EqVals

\* --- driver scaling: driver value = (model value + a) * s for the constraint (c), the design variable (x);
\*     the objective is multiplied by f > 0.  form = "ref" means declared through ref/ref0
\*     (s = 1/(ref - ref0), a = -ref0), which the harness does; the numbers here are the totals.
Sc(cs, ca, cf, xs, xa, xf, f) == [c |-> [s |-> cs, a |-> ca, form |-> cf], x |-> [s |-> xs, a |-> xa, form |-> xf], f |-> f]
Identity == Sc(One, Zero, "sa", One, Zero, "sa", One)
Scalings == {Identity,
             Sc(Q(2, 1), Zero, "sa", One, Zero, "sa", One),
             Sc(Q(1, 2), Q(3, 1), "sa", One, Zero, "sa", One),
             Sc(Q(1, 2), Q(-1, 1), "ref", One, Zero, "sa", One),          \* ref = 3, ref0 = 1
             Sc(Q(-1, 1), Zero, "sa", One, Zero, "sa", One),              \* negative scaler
             Sc(Q(-1, 2), Q(-1, 1), "ref", One, Zero, "sa", One),         \* ref = -1 < ref0 = 1
             Sc(One, Zero, "sa", Q(2, 1), Zero, "sa", One),               \* design variable scaler
             Sc(Q(-2, 1), One, "sa", Q(1, 2), One, "ref", Q(1, 2))}       \* all three; dv ref = 1, ref0 = -1
Scale(r, v) == Mul(Add(v, r.a), r.s)
Unscale(r, v) == Sub(Div(v, r.s), r.a)

\* --- the matrices ------------------------------------------------------------------------------
Idn == [i \in 1..N |-> [j \in 1..N |-> IF i = j THEN 1 ELSE 0]]
Tri == [i \in 1..N |-> [j \in 1..N |-> IF j = i \/ j = i + 1 THEN 1 ELSE 0]]
TriInv == [i \in 1..N |-> [j \in 1..N |-> IF j < i THEN 0 ELSE IF (j - i) % 2 = 0 THEN 1 ELSE -1]]
Mat(s) == IF s.m = "id" THEN Idn ELSE Tri
MatInv(s) == IF s.m = "id" THEN Idn ELSE TriInv
IDot(r, q) == LET RECURSIVE S(_)
                  S(j) == IF j = 0 THEN 0 ELSE r[j] * q[j] + S(j - 1)
              IN S(N)
ASSUME \A i, j \in 1..N : IDot(Tri[i], [k \in 1..N |-> TriInv[k][j]]) = Idn[i][j]

RowDot(r, x) == SumSeq([j \in 1..N |-> Mul(R(r[j]), x[j])])        \* integer row times rational vector
YOf(s, x) == [i \in 1..N |-> RowDot(Mat(s)[i], x)]
Obj(s, x) == SumSeq([i \in 1..N |-> Mul(Sub(x[i], s.t[i]), Sub(x[i], s.t[i]))])

\* --- bounds per element of y (an element not named by idx is unbounded; equality is lower = upper) ---
K(s) == Len(s.idx)
YB(s) == [i \in 1..N |->
            IF \E k \in 1..K(s) : s.idx[k] = i
            THEN LET k == CHOOSE k \in 1..K(s) : s.idx[k] = i
                 IN IF s.kind = "eq" THEN <<s.eq[k], s.eq[k]>> ELSE s.b[k]
            ELSE <<NoB, NoB>>]
Feasible1(y, bd) == V!Viol1(y, bd[1], bd[2]) = Zero
Feasible(s, x) == LET y == YOf(s, x)
                      yb == YB(s)
                  IN \A i \in 1..N : Feasible1(y[i], yb[i])

\* --- active-set candidates -----------------------------------------------------------------------
\* act[i] in {"f", "l", "u"}: y_i free / held at its lower / held at its upper bound.  The minimiser of f on
\* {x : (M x)_i = c_i, i active} is t - A^T (A A^T)^-1 (A t - c) with A the active rows of M.
Acts(yb) == {a \in [1..N -> {"f", "l", "u"}] :
                \A i \in 1..N : /\ a[i] = "l" => yb[i][1] # NoB
                                /\ a[i] = "u" => yb[i][2] # NoB /\ yb[i][2] # yb[i][1]}
Cand(s, yb, act) ==
    LET A == {i \in 1..N : act[i] # "f"}
        c == [i \in 1..N |-> IF act[i] = "l" THEN yb[i][1] ELSE IF act[i] = "u" THEN yb[i][2] ELSE Zero]
        M == Mat(s)
        k == Cardinality(A)
        res(i) == Sub(RowDot(M[i], s.t), c[i])
    IN CASE k = 0 -> s.t
         [] k = N -> [i \in 1..N |-> SumSeq([j \in 1..N |-> Mul(R(MatInv(s)[i][j]), c[j])])]
         [] k = 1 /\ N > 1 ->
              LET i == CHOOSE i \in A : TRUE
                  mu == Div(res(i), R(IDot(M[i], M[i])))
              IN [j \in 1..N |-> Sub(s.t[j], Mul(mu, R(M[i][j])))]
         [] OTHER ->      \* k = 2, N = 3: Cramer on the 2 x 2 Gram matrix
              LET i == CHOOSE i \in A : \A j \in A : i <= j
                  j == CHOOSE j \in A : j # i
                  a == IDot(M[i], M[i])
                  b == IDot(M[i], M[j])
                  d == IDot(M[j], M[j])
                  det == R(a * d - b * b)
                  mi == Div(Sub(Mul(R(d), res(i)), Mul(R(b), res(j))), det)
                  mj == Div(Sub(Mul(R(a), res(j)), Mul(R(b), res(i))), det)
              IN [l \in 1..N |-> Sub(Sub(s.t[l], Mul(mi, R(M[i][l]))), Mul(mj, R(M[j][l])))]
\* every active-set candidate with its constraint vector and objective value (computed once per scenario)
AllCands(s) == LET yb == YB(s) IN {LET x == Cand(s, yb, a) IN [x |-> x, y |-> YOf(s, x), f |-> Obj(s, x)] : a \in Acts(yb)}
FeasY(y, bds) == \A i \in 1..N : Feasible1(y[i], bds[i])
\* the points of least objective value among a set of candidates
Best(ps) == LET m == CHOOSE p \in ps : \A q \in ps : Le(p.f, q.f) IN {p \in ps : p.f = m.f}
\* The feasible set is never empty here (lower <= upper per element, M invertible) and f is strictly convex, so
\* the optimum is the feasible candidate of least objective value.  `ac` is kept so that the laws do not recompute it.
Result(s) == LET yb == YB(s)
                 ac == AllCands(s)
                 best == Best({p \in ac : FeasY(p.y, yb)})
                 p == CHOOSE p \in best : TRUE
             IN [x |-> p.x, y |-> p.y, f |-> p.f, yb |-> yb, ac |-> ac, nbest |-> Cardinality(best)]

\* --- scenario enumeration (three stages so that TLC's workers share the work of the last one) ---------------
IdxSets == IF N = 2 THEN {<<1, 2>>, <<2, 1>>, <<2>>} ELSE {<<1, 2, 3>>, <<3, 1, 2>>, <<3, 2>>}
Base == {[n |-> N, m |-> m, kind |-> kd, idx |-> ix,
          b |-> [k \in 1..Len(ix) |-> <<NoB, NoB>>], eq |-> [k \in 1..Len(ix) |-> Zero], t |-> [i \in 1..N |-> Zero]] :
            m \in {"id", "tri"}, kd \in {"ineq", "eq"}, ix \in IdxSets}
Init == stage = 0 /\ scen \in Base /\ out = <<>>
ChooseT == /\ stage = 0 /\ stage' = 1 /\ out' = out
           /\ \E t \in [1..N -> TVals] : scen' = [scen EXCEPT !.t = t]
ChooseB == /\ stage = 1 /\ stage' = 2
           /\ IF scen.kind = "ineq"
              THEN \E b \in [1..K(scen) -> Pats] : scen' = [scen EXCEPT !.b = b]
              ELSE \E e \in [1..K(scen) -> EqVals] : scen' = [scen EXCEPT !.eq = e]
           /\ out' = Result(scen')
Next == ChooseT \/ ChooseB
Done == stage = 2

\* --- laws ----------------------------------------------------------------------------------------
OptFeasible == Done => Feasible(scen, out.x) /\ FeasY(out.y, out.yb) /\ out.y = YOf(scen, out.x)
OptIsTarget == Done => (FeasY(YOf(scen, scen.t), out.yb) => out.x = scen.t)
OptUnique == Done => out.nbest = 1
\* y = x: the optimum is the projection of t on the box, element by element
Clamp(v, bd) == IF bd[1] # NoB /\ Lt(v, bd[1]) THEN bd[1] ELSE IF bd[2] # NoB /\ Gt(v, bd[2]) THEN bd[2] ELSE v
Projection == (Done /\ scen.m = "id") => out.x = [i \in 1..N |-> Clamp(scen.t[i], out.yb[i])]
\* KKT: grad f + M^T lam = 0 has the unique solution lam = -M^-T grad f; lam_i > 0 only on an active upper bound,
\* lam_i < 0 only on an active lower bound (an equality is both).  With convexity this characterises the optimum.
Lam(s, x) == LET g == [j \in 1..N |-> Mul(Q(2, 1), Sub(x[j], s.t[j]))]
             IN [i \in 1..N |-> Neg(SumSeq([j \in 1..N |-> Mul(R(MatInv(s)[j][i]), g[j])]))]
SignsOK(lam, y, bd) == /\ RSgn(lam) > 0 => bd[2] # NoB /\ y = bd[2]
                       /\ RSgn(lam) < 0 => bd[1] # NoB /\ y = bd[1]
IsKKT(s, p, bds) == FeasY(p.y, bds) /\ LET lam == Lam(s, p.x) IN \A i \in 1..N : SignsOK(lam[i], p.y[i], bds[i])
KKT == Done => IsKKT(scen, out, out.yb)
KKTOnlyAtOptimum == Done => \A p \in out.ac : IsKKT(scen, p, out.yb) => p.x = out.x

\* --- the same problem as the optimizer sees it (driver space), for every scaling record -------------------
\* Scaled bounds: the images of the bounds; a negative scaler exchanges the roles of lower and upper.
SB(sc, yb) == [i \in 1..N |->
                LET lo == yb[i][1]
                    up == yb[i][2]
                    slo == IF lo = NoB THEN NoB ELSE Scale(sc.c, lo)
                    sup == IF up = NoB THEN NoB ELSE Scale(sc.c, up)
                IN IF RSgn(sc.c.s) > 0 THEN <<slo, sup>> ELSE <<sup, slo>>]
SY(sc, y) == [i \in 1..N |-> Scale(sc.c, y[i])]
\* The candidates of the scaled problem hold a scaled bound active, i.e. y at the pre-image of a scaled bound: the
\* same points as `ac`.  Which of them are feasible is decided in driver space, the (positively) scaled objective
\* orders them as f does; the minimiser must be the model-space optimum, and the design vector must survive the
\* round trip through the design-variable scaling.
ScalingIndependent == Done => \A sc \in Scalings :
                         /\ RSgn(sc.f) > 0
                         /\ LET sb == SB(sc, out.yb)
                                fs == {p \in out.ac : FeasY(SY(sc, p.y), sb)}
                            IN fs # {} /\ {p.x : p \in Best(fs)} = {out.x}
                         /\ \A i \in 1..N : Unscale(sc.x, Scale(sc.x, out.x[i])) = out.x[i]
\* KKT in driver space: multipliers transform with f-scaler / c-scaler and meet the exchanged bounds
ScaledKKT == Done => \A sc \in Scalings :
                LET lam == Lam(scen, out.x)
                    sb == SB(sc, out.yb)
                IN \A i \in 1..N : SignsOK(Mul(lam[i], Div(sc.f, sc.c.s)), Scale(sc.c, out.y[i]), sb[i])
\* and without the exchange the negative scalers would not be harmless: some scenario separates the two readings
\* (checked as a vacuity guard by the harness: this "invariant" must be VIOLATED)
NoSwapSB(sc, yb) == [i \in 1..N |-> <<IF yb[i][1] = NoB THEN NoB ELSE Scale(sc.c, yb[i][1]),
                                      IF yb[i][2] = NoB THEN NoB ELSE Scale(sc.c, yb[i][2])>>]
SwapIrrelevant == Done => \A sc \in Scalings : FeasY(SY(sc, out.y), NoSwapSB(sc, out.yb))

\* --- export: the scaling never changes the expected result (law above), so a scenario is printed once -----
Export == Done => PrintT(<<"EXP", ToJson([s |-> scen, v |-> [x |-> out.x, y |-> out.y, yb |-> out.yb, f |-> out.f]])>>)
ExportScalings == (stage = 0 /\ scen = CHOOSE b \in Base : TRUE) => PrintT(<<"SCL", ToJson(Scalings)>>)
=============================================================================
