----------------------------- MODULE VectorMC -----------------------------
(* Layouts, checking and export configuration for Vector.tla (C33).         *)
(* harness/vf/drivers/c33.py builds these layouts as real components whose  *)
(* outputs carry ref0 = a0, ref = a0 + a1, res_ref = rr.                     *)
EXTENDS Vector, Json

V(n, shape) == [n |-> n, shape |-> shape]

\* flat size 5: a (2,)  b (1,)  c (2, 1);  negative a1 (ref < ref0) and negative res_ref, halves
LA == [name |-> "LA", vars |-> <<V("a", <<2>>), V("b", <<1>>), V("c", <<2, 1>>)>>,
       a0 |-> <<R(1), Zero, Q(-1, 2), Zero, R(3)>>,
       a1 |-> <<R(2), R(-4), Q(1, 2), R(2), R(-2)>>,
       rr |-> <<R(2), R(-4), Q(1, 2), R(4), R(1)>>]
\* flat size 5: a (1,)  b (1, 2)  c (2,);  a non-dyadic factor (5)
LB == [name |-> "LB", vars |-> <<V("a", <<1>>), V("b", <<1, 2>>), V("c", <<2>>)>>,
       a0 |-> <<R(-2), R(1), R(1), Zero, Q(1, 2)>>,
       a1 |-> <<R(5), R(2), R(-4), Q(1, 2), R(-1)>>,
       rr |-> <<Q(1, 2), R(4), R(-2), R(5), R(2)>>]

AllLayouts == <<LA, LB>>
ASSUME PrintT(<<"SCN", ToJson(AllLayouts)>>)
ASSUME \A i \in 1..Len(AllLayouts) : LayoutOK(AllLayouts[i])
ASSUME \A i \in 1..Len(AllLayouts) : \E v \in 1..3 : Len(AllLayouts[i].vars[v].shape) = 2
ASSUME \A i \in 1..Len(AllLayouts) : \E p \in 1..5 : Lt(AllLayouts[i].a1[p], Zero)

\* replay of one stored scenario: the generated module defines Script (a sequence of action records as exported in the
\* histories) and TLC recomputes the observables along exactly that history
C(e) == <<e.c, e.ci>>
Do(e) == CASE e.n = "set_val" -> SetValScalar(C(e))
           [] e.n = "set_val_arr" -> \E k \in 1..3 : ArrC(k, Len(x)) = <<e.arr, e.arri>> /\ SetValArr(k)
           [] e.n = "set_val_idx" -> SetValIdx(e.idx, C(e))
           [] e.n = "set_vec" -> SetVec(e.src)
           [] e.n = "iadd" -> IAdd(e.src)
           [] e.n = "isub" -> ISub(e.src)
           [] e.n = "iadd_const" -> IAddConst(C(e))
           [] e.n = "imul" -> IMul(C(e))
           [] e.n = "op_idx" -> OpIdx(e.op, e.idx, C(e))
           [] e.n = "imul_vec" -> IMulVec
           [] e.n = "add_scal_vec" -> AddScalVec(C(e), e.src)
           [] e.n = "set_name" -> SetName(e.var, e.via, e.whole, \E k \in DOMAIN e.valsi : e.valsi[k] # Zero)
           [] e.n = "set_var" -> SetVarIdx(e.var, e.idx, e.flat, e.ci # Zero)
           [] e.n = "scale_to_norm" -> ScaleToNorm(e.mode)
           [] e.n = "scale_to_phys" -> ScaleToPhys
           [] e.n = "cs_mode" -> CsSwitch(e.on)

\* the mode the history starts in (hist[1].cs is the mode AFTER the first action; only the switch changes the mode)
CS0 == IF hist = <<>> THEN cs ELSE IF hist[1].a.n = "cs_mode" THEN ~hist[1].a.on ELSE hist[1].cs
Export == Len(hist) = Depth => PrintT(<<"EXP", ToJson([ly |-> ly, kind |-> kind, fam |-> fam, alloc |-> alloc, cs0 |-> CS0, x0 |-> X0(N(L)),
                                                         xi0 |-> IF alloc THEN XI0(N(L)) ELSE Fill(N(L), Zero), y0 |-> y, yi0 |-> yi,
                                                         h |-> [k \in 1..Len(hist) |-> Observables(hist[k])]])>>)
=============================================================================
