------------------------------ MODULE CaseDBMC ------------------------------
(* Exhaustive configuration for CaseDB.tla (C18): every recorded run of      *)
(* 1-2 driver iterations x 0-3 solver cases per iteration, with/without a    *)
(* system case, a driver-derivatives row, a driver case, a final problem     *)
(* case.  Crash is enabled in every state of every run.                      *)
EXTENDS CaseDB

Rep(n, x) == [i \in 1..n |-> x]
Opt(b, x) == IF b THEN <<x>> ELSE <<>>

\* one driver iteration: solver iterations, then the system, then derivatives, then the driver case
Iter(ns, sys, der, drv) == Rep(ns, "solver_iterations") \o Opt(sys, "system_iterations")
                           \o Opt(der, "deriv") \o Opt(drv, "driver_iterations")

Mk(cases, nreq, dup) == [cases |-> cases, nupd |-> nreq, dup |-> dup,
                    nrows |-> <<"driver_metadata", "system_metadata", "solver_metadata", "system_metadata">>]

Count(bs) == Cardinality({i \in 1..Len(bs) : bs[i]})

ScriptSet ==
    {Mk(Iter(n1, sys, der, drv) \o (IF nd = 2 THEN Iter(n2, sys, der, drv) ELSE <<>>) \o Opt(prob, "problem_cases"),
        1 + Count(<<sys, n1 + n2 > 0, prob>>), prob /\ ~drv) :
        nd \in 1..2, n1 \in 0..3, n2 \in 0..3, sys \in BOOLEAN, der \in BOOLEAN, drv \in BOOLEAN, prob \in BOOLEAN}

AllScripts == ScriptSet

\* one small run for the deliberately broken variant (any run with a case shows the violation)
SmallScripts == {Mk(Iter(1, TRUE, FALSE, TRUE) \o Iter(1, TRUE, FALSE, TRUE) \o <<"problem_cases">>, 2, TRUE)}
=============================================================================
