------------------------------ MODULE OrderOps ------------------------------
(* Pure operators of Order.tla (execution order with auto_order, C32); n is a parameter so that the same
   definitions serve the exhaustive enumeration (Order.tla) and the judge of observed orders (OrderJudge.tla). *)
EXTENDS Naturals, Sequences, FiniteSets

NodesN(n) == 1..n
PermsN(n) == {p \in [1..n -> 1..n] : \A i, j \in 1..n : i # j => p[i] # p[j]}

RECURSIVE ReachFrom(_, _)
ReachFrom(E, S) == LET Nx == S \cup {e[2] : e \in {x \in E : x[1] \in S}} IN IF Nx = S THEN S ELSE ReachFrom(E, Nx)
Reaches(E, a, b) == b \in ReachFrom(E, {x[2] : x \in {e \in E : e[1] = a}})      \* path of length >= 1
SameScc(E, a, b) == a = b \/ (Reaches(E, a, b) /\ Reaches(E, b, a))
AcyclicN(n, E) == \A a \in 1..n : ~Reaches(E, a, a)

PosN(n, ord, x) == CHOOSE i \in 1..n : ord[i] = x

\* the property
ValidOrderN(n, E, decl, ord) ==
    /\ ord \in PermsN(n)
    /\ \A e \in E : ~SameScc(E, e[1], e[2]) => PosN(n, ord, e[1]) < PosN(n, ord, e[2])      \* across SCCs: producers first
    /\ \A a, b \in 1..n : (a # b /\ SameScc(E, a, b) /\ PosN(n, decl, a) < PosN(n, decl, b))  \* inside an SCC: declared order
                               => PosN(n, ord, a) < PosN(n, ord, b)
=============================================================================
