-------------------------------- MODULE DOE --------------------------------
(***************************************************************************)
(* Design-of-experiments generators (DOEDriver).  C23.                     *)
(*                                                                         *)
(* A design-variable set is a sequence of variables, each with 1-2         *)
(* elements and per-element integer bounds (given in the variable's        *)
(* declared driver units).  Flattened, the elements are the FACTORS of the *)
(* design.  A design is a sequence of points, a point is one value per     *)
(* factor.                                                                 *)
(*                                                                         *)
(* Part 1 (enumerated by TLC):  full factorial = exactly the Cartesian     *)
(* product of the per-factor level sets linspace(lower, upper, levels),    *)
(* each point once; levels an integer or a per-variable dictionary with    *)
(* "default" and the built-in default 2.  Exact rationals (Rat.tla).       *)
(* Part 2 (laws on designs):  InBounds, Latin-hypercube stratum law,       *)
(* reproducibility, level membership.                                      *)
(* Part 3 (judge):  the laws of part 2 applied to OBSERVED designs of the  *)
(* real generators, read from the file named by the environment variable   *)
(* DOE_OBS.                                                                *)
(***************************************************************************)
EXTENDS Rat, Naturals, FiniteSets, TLC, Json, IOUtils, SequencesExt

\* ------------------------------------------------------------------------------------------------
\* Design variables
\* ------------------------------------------------------------------------------------------------
\* [name, lo, up (per element, driver units), f, o]: driver-unit value = f * model value + o (declared units of the design
\* variable vs units of the model variable); the model must be evaluated at (value - o) / f
Cat == << [name |-> "a", lo |-> <<R(-1)>>, up |-> <<R(2)>>, f |-> R(1000), o |-> Zero],                 \* km -> m
          [name |-> "b", lo |-> <<Zero, Zero>>, up |-> <<One, One>>, f |-> One, o |-> Zero],            \* scalar bounds, 2 elements
          [name |-> "c", lo |-> <<R(-2), One>>, up |-> <<Zero, R(4)>>, f |-> One, o |-> Q(27315, 100)], \* array bounds, degC -> degK
          [name |-> "d", lo |-> <<Zero>>, up |-> <<R(3)>>, f |-> One, o |-> Zero],
          [name |-> "e", lo |-> <<R(-3), R(-3)>>, up |-> <<R(-1), R(5)>>, f |-> Q(5, 9), o |-> Q(-160, 9)] >>   \* degF -> degC
ModelVal(v, x) == Div(Sub(x, v.o), v.f)

\* levels: an integer, or a dictionary name -> levels with optional "default" (built-in default 2)
DfltLevels == 2
LevelsOf(lv, name) == IF lv.kind = "int" THEN lv.n
                      ELSE IF \E e \in lv.d : e[1] = name THEN (CHOOSE e \in lv.d : e[1] = name)[2]
                      ELSE IF \E e \in lv.d : e[1] = "default" THEN (CHOOSE e \in lv.d : e[1] = "default")[2]
                      ELSE DfltLevels

\* factors of a design-variable set dvs (sequence of catalogue records) under levels lv
RECURSIVE Factors(_, _)
Factors(dvs, lv) == IF dvs = <<>> THEN <<>>
                    ELSE LET v == Head(dvs)
                         IN [k \in 1..Len(v.lo) |-> [var |-> v.name, el |-> k, lo |-> v.lo[k], up |-> v.up[k],
                                                     L |-> LevelsOf(lv, v.name), v |-> v]] \o Factors(Tail(dvs), lv)

\* ------------------------------------------------------------------------------------------------
\* Part 1: full factorial
\* ------------------------------------------------------------------------------------------------
\* numpy.linspace(lo, up, L)[k], k in 0..L-1
Lin(lo, up, L, k) == IF L = 1 THEN lo ELSE Add(lo, Div(Mul(R(k), Sub(up, lo)), R(L - 1)))
LevelSet(f) == {Lin(f.lo, f.up, f.L, k) : k \in 0..(f.L - 1)}

RECURSIVE Prod(_)
Prod(fs) == IF fs = <<>> THEN {<<>>} ELSE {<<x>> \o t : x \in LevelSet(Head(fs)), t \in Prod(Tail(fs))}
FullFactorial(fs) == Prod(fs)

RECURSIVE NPoints(_)
NPoints(fs) == IF fs = <<>> THEN 1 ELSE Head(fs).L * NPoints(Tail(fs))
\* one enumeration of the product (first factor fastest, the order pyDOE uses; the law below is order-free)
Stride(fs, i) == NPoints(SubSeq(fs, 1, i - 1))
FFSeq(fs) == [t \in 1..NPoints(fs) |-> [i \in 1..Len(fs) |->
                 Lin(fs[i].lo, fs[i].up, fs[i].L, ((t - 1) \div Stride(fs, i)) % fs[i].L)]]

\* a design (sequence of points) enumerates a set of points: every point exactly once
Points(s) == {s[i] : i \in 1..Len(s)}
IsEnumeration(design, S) == Len(design) = Cardinality(S) /\ Points(design) = S

\* ------------------------------------------------------------------------------------------------
\* Part 2: laws on designs
\* ------------------------------------------------------------------------------------------------
InBounds(design, fs) == \A t \in 1..Len(design) : \A i \in 1..Len(fs) : Le(fs[i].lo, design[t][i]) /\ Le(design[t][i], fs[i].up)
OnLevels(design, fs) == \A t \in 1..Len(design) : \A i \in 1..Len(fs) : design[t][i] \in LevelSet(fs[i])

\* Latin hypercube with n samples: stratum k of [lo, up) is [lo + k w, lo + (k+1) w), w = (up - lo)/n
InStratum(x, lo, up, n, k) == LET w == Div(Sub(up, lo), R(n))
                              IN Le(Add(lo, Mul(R(k), w)), x) /\ Lt(x, Add(lo, Mul(R(k + 1), w)))
Stratum(x, lo, up, n) == CHOOSE k \in 0..(n - 1) : InStratum(x, lo, up, n, k)
HasStratum(x, lo, up, n) == \E k \in 0..(n - 1) : InStratum(x, lo, up, n, k)
\* strata: one sequence of stratum indices per sample; in every dimension the n samples occupy the n strata exactly once
IsLatin(strata, n, nd) == /\ Len(strata) = n
                          /\ \A d \in 1..nd : {strata[t][d] : t \in 1..n} = 0..(n - 1)
LatinLaw(design, fs, n) == /\ Len(design) = n
                           /\ \A t \in 1..n : \A i \in 1..Len(fs) : HasStratum(design[t][i], fs[i].lo, fs[i].up, n)
                           /\ IsLatin([t \in 1..n |-> [i \in 1..Len(fs) |-> Stratum(design[t][i], fs[i].lo, fs[i].up, n)]],
                                      n, Len(fs))
\* the same seed gives the same design
Reproduced(d1, d2) == d1 = d2

\* ------------------------------------------------------------------------------------------------
\* Scenario enumeration: design-variable sets = 1-3 catalogue variables in catalogue order x levels
\* ------------------------------------------------------------------------------------------------
CONSTANTS MaxVars       \* 1..3
VARIABLES stage, scen, out
vars == <<stage, scen, out>>

DvSets == {S \in SUBSET (1..Len(Cat)) : Cardinality(S) \in 1..MaxVars}
AsSeq(S) == LET idx == SetToSortSeq(S, LAMBDA x, y : x < y) IN [k \in 1..Len(idx) |-> Cat[idx[k]]]
LevelOpts(dvs) ==
    LET first == dvs[1].name
        last == dvs[Len(dvs)].name
    IN { [kind |-> "int", n |-> 1, d |-> {}], [kind |-> "int", n |-> 2, d |-> {}], [kind |-> "int", n |-> 3, d |-> {}],
         [kind |-> "dict", n |-> 0, d |-> {<<first, 3>>, <<"default", 2>>}],
         [kind |-> "dict", n |-> 0, d |-> {<<first, 3>>}],
         [kind |-> "dict", n |-> 0, d |-> {<<"default", 3>>, <<last, 2>>}],
         [kind |-> "dict", n |-> 0, d |-> {<<last, 4>>, <<"default", 1>>}] }

Expect(s) == LET fs == Factors(s.dvs, s.lv)
                 ff == FFSeq(fs)
             IN [nf |-> Len(fs), levels |-> [i \in 1..Len(fs) |-> fs[i].L], ff |-> ff,
                 ffm |-> [t \in 1..Len(ff) |-> [i \in 1..Len(fs) |-> ModelVal(fs[i].v, ff[t][i])]]]

Init == stage = 0 /\ out = <<>> /\ \E S \in DvSets : scen = [dvs |-> AsSeq(S)]
Choose == /\ stage = 0 /\ stage' = 1
          /\ \E lv \in LevelOpts(scen.dvs) : scen' = [dvs |-> scen.dvs, lv |-> lv]
          /\ out' = Expect(scen')
Next == Choose

\* --- laws of the full factorial (checked on every scenario) ---------------------------------------
FS == Factors(scen.dvs, scen.lv)
ProductLaw == stage = 1 =>
    LET fs == FS
        P == FullFactorial(fs)
    IN /\ Cardinality(P) = NPoints(fs)                                          \* size = product of the levels
       /\ IsEnumeration(out.ff, P)                                              \* the enumeration hits every point once
       /\ \A i \in 1..Len(fs) : Cardinality(LevelSet(fs[i])) = fs[i].L          \* levels are distinct
       /\ \A i \in 1..Len(fs) : \A x \in LevelSet(fs[i]) :                      \* every level equally often
              Cardinality({p \in P : p[i] = x}) * fs[i].L = Cardinality(P)
BoundsLaw == stage = 1 =>
    LET fs == FS
    IN /\ InBounds(out.ff, fs) /\ OnLevels(out.ff, fs)
       /\ \A i \in 1..Len(fs) : fs[i].lo \in LevelSet(fs[i]) /\ (fs[i].L > 1 => fs[i].up \in LevelSet(fs[i]))
       \* model-unit values map back to the design values
       /\ \A t \in 1..Len(out.ff) : \A i \in 1..Len(fs) : Add(Mul(fs[i].v.f, out.ffm[t][i]), fs[i].v.o) = out.ff[t][i]
LevelsLaw == stage = 1 =>
    \A i \in 1..Len(FS) :
        LET nm == FS[i].var
            lv == scen.lv
        IN FS[i].L = (IF lv.kind = "int" THEN lv.n
                      ELSE IF nm \in {e[1] : e \in lv.d} THEN (CHOOSE e \in lv.d : e[1] = nm)[2]
                      ELSE IF "default" \in {e[1] : e \in lv.d} THEN (CHOOSE e \in lv.d : e[1] = "default")[2] ELSE 2)
\* the Latin-hypercube laws on constructed designs: a "centred" design x[t][d] = lo + (perm_d[t] + 1/2) w is Latin for
\* every pair of permutations of the strata; moving one sample into another sample's stratum breaks the law; every
\* point of [lo, up) has exactly one stratum
Perms(n) == {p \in [1..n -> 0..(n - 1)] : \A a, b \in 1..n : a # b => p[a] # p[b]}
Centre(f, n, k) == Add(f.lo, Mul(Add(R(k), Q(1, 2)), Div(Sub(f.up, f.lo), R(n))))
LatinSelfCheck == (stage = 1 /\ scen.lv.kind = "int" /\ scen.lv.n = 2) =>
    LET fs == SubSeq(FS, 1, IF Len(FS) > 2 THEN 2 ELSE Len(FS))
        n == 3
    IN /\ \A pp \in [1..Len(fs) -> Perms(n)] :
            LET des == [t \in 1..n |-> [i \in 1..Len(fs) |-> Centre(fs[i], n, pp[i][t])]]
                bad == [des EXCEPT ![1] = des[2]]
            IN LatinLaw(des, fs, n) /\ InBounds(des, fs) /\ ~LatinLaw(bad, fs, n)
       /\ \A i \in 1..Len(fs) : \A m \in 0..11 :
            LET x == Add(fs[i].lo, Mul(Q(m, 12), Sub(fs[i].up, fs[i].lo)))
            IN Cardinality({k \in 0..(n - 1) : InStratum(x, fs[i].lo, fs[i].up, n, k)}) = 1 /\ Stratum(x, fs[i].lo, fs[i].up, n) = (m * n) \div 12
       /\ ~HasStratum(fs[1].up, fs[1].lo, fs[1].up, n)

Export == stage = 1 => PrintT(<<"EXP", ToJson([s |-> [vars |-> scen.dvs, lv |-> [kind |-> scen.lv.kind, n |-> scen.lv.n,
                                                                               d |-> SetToSeq(scen.lv.d)]],
                                               v |-> out])>>)

\* ------------------------------------------------------------------------------------------------
\* Part 3: judge of observed designs
\* ------------------------------------------------------------------------------------------------
\* Observed coordinates are IEEE doubles and do not fit TLC's 32-bit integers.  The harness therefore hands over, for
\* every coordinate x of every point, exact integer facts computed with exact rational arithmetic:
\*   sl = sign(x - lo), su = sign(up - x)                      (in-bounds comparison)
\*   k  = the stratum index floor((x - lo) / (up - lo) * n)    (only for Latin-hypercube designs, else -1)
\*   q  = floor((x - lo) / (up - lo) * 2^16)                   (quantised position, cross-checks k)
\*   r  = <<num, den>> when x is within 1e-9 of a rational with the level denominator, else <<0, 0>>
\*   b  = the 64-bit pattern of x as three integers            (bitwise reproducibility)
\* and the judge applies the laws of part 2 to them.
Obs == JsonDeserialize(IOEnv.DOE_OBS)
QRes == 65536

ObsInBounds(o) == \A t \in 1..Len(o.pts) : \A i \in 1..Len(o.pts[t]) : o.pts[t][i].sl >= 0 /\ o.pts[t][i].su >= 0
\* k is consistent with the quantised position: q <= pos * 2^16 < q + 1 and k <= pos * n < k + 1
ObsStrataConsistent(o) == \A t \in 1..Len(o.pts) : \A i \in 1..Len(o.pts[t]) :
                             LET c == o.pts[t][i]
                             IN /\ c.k \in 0..(o.n - 1)
                                /\ c.k * QRes < (c.q + 1) * o.n /\ c.q * o.n < (c.k + 1) * QRes
ObsLatin(o) == /\ ObsStrataConsistent(o)
               /\ IsLatin([t \in 1..Len(o.pts) |-> [i \in 1..Len(o.pts[t]) |-> o.pts[t][i].k]], o.n, o.nd)
\* every coordinate is one of the linspace levels of its factor (o.lo, o.up integers, o.lev levels per factor)
ObsOnLevels(o) == \A t \in 1..Len(o.pts) : \A i \in 1..Len(o.pts[t]) :
                     LET c == o.pts[t][i]
                     IN c.r[2] # 0 /\ Norm(c.r[1], c.r[2]) \in LevelSet([lo |-> R(o.lo[i]), up |-> R(o.up[i]), L |-> o.lev[i]])
ObsReproduced(o) == Reproduced([t \in 1..Len(o.pts) |-> [i \in 1..Len(o.pts[t]) |-> o.pts[t][i].b]], o.again)

Judge(o) == [inb |-> ObsInBounds(o),
             lhs |-> IF o.lhs THEN ObsLatin(o) ELSE TRUE,
             lev |-> IF Len(o.lev) > 0 THEN ObsOnLevels(o) ELSE TRUE,
             rep |-> IF o.seeded THEN ObsReproduced(o) ELSE TRUE,
             shape |-> Len(o.pts) = o.n /\ \A t \in 1..Len(o.pts) : Len(o.pts[t]) = o.nd]

JInit == stage = 0 /\ out = <<>> /\ scen \in 1..Len(Obs)
JNext == stage = 0 /\ stage' = 1 /\ out' = Judge(Obs[scen]) /\ UNCHANGED scen
JExport == stage = 1 => PrintT(<<"EXP", ToJson([tid |-> scen, v |-> out])>>)
=============================================================================
