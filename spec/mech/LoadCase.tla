------------------------------ MODULE LoadCase ------------------------------
(***************************************************************************)
(* Problem.load_case followed by get_val and run_model.  C19.              *)
(*                                                                         *)
(* State = the values of all outputs (the sources: the authoritative       *)
(* store, spec/sys/OMSetGet.tla) and of all inputs (the input vector), by  *)
(* absolute name.  Every input is a view of one source:                    *)
(*      View(out, n)[k] = fac[n] * out[src[n]][pos[n][k]] + off[n].        *)
(* A case is two partial functions: recorded inputs and recorded outputs.  *)
(*   LoadCase(c): core/problem.py - for every recorded input               *)
(*       model.set_val(abs_in, v): the input vector takes v AND the source *)
(*       takes the value back-converted at the input's positions; then     *)
(*       for every recorded output model.set_val(abs_out, v).              *)
(*       So   inp' = inp overridden by c.inp                               *)
(*            out' = (out with the inputs written back) overridden by c.out*)
(*   GetVal(n)            an output: out[n];  an input: its view of out    *)
(*   GetVec(n)            an input, from_src=False: inp[n]                 *)
(*   RunModel             out' = F(independent values of out), inp' = views*)
(* Laws (checked on the small instance below, and the ones the observed    *)
(* executions are judged by, see Judge):                                   *)
(*   Restored     after LoadCase(c): GetVal = c's value for every recorded *)
(*                output, GetVec = c's value for every recorded input      *)
(*   ViewRestored GetVal of a recorded input = c's value when the case is  *)
(*                consistent there (it was a view of its recorded source,  *)
(*                or its source is not in the case and nobody else writes  *)
(*                those positions)                                         *)
(*   OthersKept   unrecorded outputs that no recorded input writes through *)
(*                are unchanged                                            *)
(*   Reproduced   a case recorded at the end of a converged run that       *)
(*                determines every independent variable: RunModel after    *)
(*                LoadCase gives back every recorded output                *)
(***************************************************************************)
EXTENDS Rat, Naturals, Sequences, FiniteSets, TLC, Json, IOUtils

\* ------------------------------------------------------------------------------------------------- generic semantics
\* M: [src: input -> output name, pos: input -> sequence of 1-based positions, fac, off: input -> rational,
\*     indep: set of independent outputs]
View(M, out, n) == [k \in 1..Len(M.pos[n]) |-> Add(Mul(M.fac[n], out[M.src[n]][M.pos[n][k]]), M.off[n])]
Back(M, n, v) == Div(Sub(v, M.off[n]), M.fac[n])                 \* the source value an input value stands for
\* write input n's value v back into its source (later positions win, as an indexed assignment does)
WriteBack(M, out, n, v) ==
    LET s == M.src[n]
        hit(p) == {k \in 1..Len(M.pos[n]) : M.pos[n][k] = p}
    IN [out EXCEPT ![s] = [p \in 1..Len(out[s]) |->
                              IF hit(p) = {} THEN out[s][p]
                              ELSE Back(M, n, v[CHOOSE k \in hit(p) : \A j \in hit(p) : j <= k])]]
RECURSIVE WriteAll(_, _, _, _)
WriteAll(M, out, c, order) == IF Len(order) = 0 THEN out
                              ELSE WriteAll(M, WriteBack(M, out, order[1], c.inp[order[1]]), c, Tail(order))
\* st = [out, inp]; c = [inp, out: functions on the recorded names]; order: the recorded inputs in case order
Load(M, st, c, order) ==
    LET o1 == WriteAll(M, st.out, c, order)
    IN [out |-> [n \in DOMAIN st.out |-> IF n \in DOMAIN c.out THEN c.out[n] ELSE o1[n]],
        inp |-> [n \in DOMAIN st.inp |-> IF n \in DOMAIN c.inp THEN c.inp[n] ELSE st.inp[n]]]
\* the case determines source s: recorded as an output, or every entry written through recorded inputs
Covered(M, c, s, size) == \/ s \in DOMAIN c.out
                          \/ \A p \in 1..size : \E n \in DOMAIN c.inp : M.src[n] = s /\ \E k \in 1..Len(M.pos[n]) : M.pos[n][k] = p
\* the recorded input n agrees with the rest of the case (it is the view of what the loaded sources will hold)
ConsistentAt(M, st, c, order, n) == View(M, Load(M, st, c, order).out, n) = c.inp[n]

\* ------------------------------------------------------------------------------------------------- the small instance
\* x (2 entries, independent) --[positions 2,1; cm per m: *100 ... here *10]--> a ; y = a1 + 2 a2 ; b = y ; z = 3 b + 1
Outs == {"x", "y", "z"}
Ins == {"a", "b"}
MI == [src |-> [a |-> "x", b |-> "y"], pos |-> [a |-> <<2, 1>>, b |-> <<1>>],
       fac |-> [a |-> R(10), b |-> One], off |-> [a |-> Zero, b |-> R(5)], indep |-> {"x"}]
Size == [x |-> 2, y |-> 1, z |-> 1]
F(x) == LET a == View(MI, [x |-> x, y |-> <<Zero>>, z |-> <<Zero>>], "a")
            y == <<Add(a[1], Mul(R(2), a[2]))>>
            b == <<Add(y[1], R(5))>>
            z == <<Add(Mul(R(3), b[1]), One)>>
        IN [out |-> [x |-> x, y |-> y, z |-> z], inp |-> [a |-> a, b |-> b]]
XVals == {<<R(i), R(j)>> : i, j \in 0..2}
\* a state that is NOT a fixed point of the model: outputs of one run, inputs of another (a mid-solve case)
Mixed(x1, x2) == [out |-> F(x1).out, inp |-> F(x2).inp]
Project(st, ni, no) == [inp |-> [n \in ni |-> st.inp[n]], out |-> [n \in no |-> st.out[n]]]
Orders(S) == IF S = {} THEN {<<>>} ELSE IF Cardinality(S) = 1 THEN {<<CHOOSE n \in S : TRUE>>}
             ELSE {<<"a", "b">>, <<"b", "a">>}

VARIABLES st, prev, case, order, kind, phase
vars == <<st, prev, case, order, kind, phase>>

Fresh == {F(x) : x \in {<<R(1), R(1)>>, <<R(0), R(2)>>}}
         \cup {[out |-> [x |-> <<One, One>>, y |-> <<One>>, z |-> <<One>>], inp |-> [a |-> <<Zero, Zero>>, b |-> <<Zero>>]]}

Init == /\ st \in Fresh /\ prev = st /\ phase = "fresh"
        /\ case = [inp |-> <<>>, out |-> <<>>] /\ order = <<>> /\ kind = "none"
\* pick a recorded case (any subset of the names; final or mid-solve) and load it
DoLoad == /\ phase = "fresh"
          /\ \E ni \in SUBSET Ins, no \in SUBSET Outs, x1 \in XVals, x2 \in {<<R(1), R(2)>>, <<R(2), R(0)>>} :
             \E k \in {"final", "mid"} : \E ord \in Orders(ni) :
                LET src == IF k = "final" THEN F(x1) ELSE Mixed(x1, x2)
                    c == Project(src, ni, no)
                IN /\ (ni \cup no) # {}
                   /\ case' = c /\ order' = ord /\ kind' = k
                   /\ prev' = st
                   /\ st' = Load(MI, st, c, ord)
          /\ phase' = "loaded"
DoRun == /\ phase = "loaded"
         /\ st' = F(st.out["x"])
         /\ phase' = "ran"
         /\ UNCHANGED <<prev, case, order, kind>>
Next == DoLoad \/ DoRun

Restored == phase = "loaded" => /\ \A n \in DOMAIN case.out : st.out[n] = case.out[n]
                                /\ \A n \in DOMAIN case.inp : st.inp[n] = case.inp[n]
ViewRestored == phase = "loaded" =>
                   \A n \in DOMAIN case.inp : ConsistentAt(MI, prev, case, order, n) => View(MI, st.out, n) = case.inp[n]
\* a final case is consistent at every input whose source is recorded too
FinalConsistent == (phase = "loaded" /\ kind = "final") =>
                      \A n \in DOMAIN case.inp : (MI.src[n] \in DOMAIN case.out
                                                  \/ \A m \in DOMAIN case.inp : MI.src[m] = MI.src[n] => m = n)
                                                 => View(MI, st.out, n) = case.inp[n]
OthersKept == phase = "loaded" =>
                 \A s \in Outs : (s \notin DOMAIN case.out /\ ~\E n \in DOMAIN case.inp : MI.src[n] = s) => st.out[s] = prev.out[s]
Reproduced == (phase = "ran" /\ kind = "final" /\ \A s \in MI.indep : Covered(MI, case, s, Size[s])) =>
                 \A n \in DOMAIN case.out : st.out[n] = case.out[n]
\* non-theorems (refuted: they say why the preconditions above are needed)
MidReproduced == (phase = "ran" /\ \A s \in MI.indep : Covered(MI, case, s, Size[s])) => \A n \in DOMAIN case.out : st.out[n] = case.out[n]
UncoveredReproduced == (phase = "ran" /\ kind = "final") => \A n \in DOMAIN case.out : st.out[n] = case.out[n]
ViewAlways == phase = "loaded" => \A n \in DOMAIN case.inp : View(MI, st.out, n) = case.inp[n]

\* ------------------------------------------------------------------------------------------------- judging observed executions
\* One observation = one recorded case loaded into a fresh Problem of the same model description.  Float comparisons
\* are made by the harness (exact equality classes as ids, closeness as booleans); which law applies is decided here.
\* O: [M: [src, pos (1-based), indep, size], recin, recout: names in the case (recin in case order),
\*     final: the model state at the record equals the state at the end of the run,
\*     vars: sequence of [n, k: "inp"|"out", rec, abs, prom, vec: ids of the recorded value and of what get_val returns by
\*           absolute name / promoted name / from_src=False;  close, pclose: the default reads equal the recorded value
\*           up to round-off;  cons: the recorded input is consistent with the case (see ConsistentAt);
\*           runclose: after run_model the output equals the recorded value (1e-10)]]
Obs == JsonDeserialize(IOEnv.LC_OBS)
SetOf(q) == {q[k] : k \in 1..Len(q)}
CoveredObs(O, s) == \/ s \in SetOf(O.recout)
                    \/ \A p \in 1..O.M.size[s] : \E n \in SetOf(O.recin) : O.M.src[n] = s /\ \E k \in 1..Len(O.M.pos[n]) : O.M.pos[n][k] = p
Determined(O) == \A s \in SetOf(O.M.indep) : CoveredObs(O, s)
JudgeVar(O, v) ==
    IF v.k = "out"
    THEN IF v.abs # v.rec THEN "output-not-restored(absolute-name)"
         ELSE IF v.prom # v.rec THEN "output-not-restored(promoted-name)"
         ELSE IF O.final /\ Determined(O) /\ ~v.runclose THEN "run_model-does-not-reproduce-the-recorded-output"
         ELSE "ok"
    ELSE IF v.vec # v.rec THEN "input-not-restored(input-vector)"
         \* the default read goes through the source: it must give the recorded value wherever the case is consistent
         ELSE IF v.cons /\ ~v.close THEN "input-not-restored(absolute-name)"
         ELSE IF v.cons /\ ~v.pclose THEN "input-not-restored(promoted-name)"
         ELSE "ok"
Judge(O) == LET bad == SelectSeq(O.vars, LAMBDA v : JudgeVar(O, v) # "ok")
            IN [nbad |-> Len(bad), determined |-> Determined(O),
                bad |-> [k \in 1..(IF Len(bad) < 3 THEN Len(bad) ELSE 3) |-> [n |-> bad[k].n, why |-> JudgeVar(O, bad[k])]]]

VARIABLES tid, stage, verdict
jvars == <<tid, stage, verdict>>
\* (one module, two specifications: each leaves the other's variables alone)
JInit == /\ tid \in 1..Len(Obs) /\ stage = 0 /\ verdict = <<>>
         /\ st = 0 /\ prev = 0 /\ case = 0 /\ order = 0 /\ kind = 0 /\ phase = "judge"
JNext == stage = 0 /\ stage' = 1 /\ verdict' = Judge(Obs[tid]) /\ UNCHANGED <<tid, vars>>
MCInit == Init /\ tid = 0 /\ stage = 0 /\ verdict = <<>>
MCLoad == DoLoad /\ UNCHANGED jvars
MCRun == DoRun /\ UNCHANGED jvars
MCNext == MCLoad \/ MCRun
Export == stage = 1 => PrintT(<<"EXP", ToJson([tid |-> tid, v |-> verdict])>>)
=============================================================================
