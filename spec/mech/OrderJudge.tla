----------------------------- MODULE OrderJudge -----------------------------
(* TLC judges the orders chosen by the real code (C32): ValidOrderN of OrderOps.tla on observed orders. *)
EXTENDS OrderOps, TLC, Json, IOUtils
Obs == JsonDeserialize(IOEnv.OM_ORDERS)
VARIABLES tid, stage, verdict
ToSet(q) == {<<q[k][1], q[k][2]>> : k \in 1..Len(q)}
Judge(c) == ValidOrderN(c.n, ToSet(c.edges), c.decl, c.ord)
Init == tid \in 1..Len(Obs) /\ stage = 0 /\ verdict = FALSE
Next == stage = 0 /\ stage' = 1 /\ verdict' = Judge(Obs[tid]) /\ UNCHANGED tid
Export == stage = 1 => PrintT(<<"EXP", ToJson([tid |-> tid, v |-> verdict])>>)
=============================================================================
