CONSTANTS
  Scenarios <- AllScenarios
  MaxNest = 2
  MaxKw = 2
INIT Init
NEXT Next
VIEW View
INVARIANT ValuesValid
INVARIANT FramesValid
PROPERTY RejectLeaves
PROPERTY TempRestores
PROPERTY ReadOnlyFrozen
