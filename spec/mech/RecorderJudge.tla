--------------------------- MODULE RecorderJudge ---------------------------
(***************************************************************************)
(* Validation of observed recordings against Recorder.tla (C17, part b).   *)
(*                                                                         *)
(* One trace = one recorder file of one real run.  The harness logged      *)
(* every push and pop of the recording stack and every record_iteration    *)
(* call that reached this file (requester, coordinate, counter), folded    *)
(* into the events of the specification:                                   *)
(*    run(prefix, reset)           Problem.run_model / run_driver          *)
(*    enter(name, it, req)         _RecIteration.push                      *)
(*    exit(has, req, coord, cnt)   [record] + pop                          *)
(*    problem(has, name, cnt)      Problem.record                          *)
(* TLC replays them through StartRun / Enter / Exit / RecordProblem, one   *)
(* event per step; an event the specification does not allow (a case       *)
(* recorded although the requester is not attached or a no-record frame is *)
(* open, a missing case, a coordinate that is not the formatted stack, a   *)
(* counter that is not the previous one + 1, a system iteration number     *)
(* that is not its counter) ends the replay with the clause named.         *)
(* After the last event the answers of the REAL reader (list_sources,      *)
(* list_cases for every source / case x recurse x flat, get_case: name,    *)
(* source, counter, variable names per kind, get_case(<int>),               *)
(* list_source_vars) are judged                                            *)
(* against the True... operators on the specification's own log and the    *)
(* Selected variable sets (recording options, name sets of the model and   *)
(* the fnmatch table are part of the trace).                               *)
(***************************************************************************)
EXTENDS Recorder, Json, IOUtils

Traces == JsonDeserialize(IOEnv.REC_TRACES)

VARIABLES tid, l, verdict
vars == <<rvars, tid, l, verdict>>

T == Traces[tid]
Ev == T.ev[l]

Init == /\ tid \in 1..Len(Traces)
        /\ l = 1
        /\ verdict = [step |-> "ok"]
        /\ RInit(ToSet(Traces[tid].att), ToSet(Traces[tid].reqs))

Halt(why) == /\ verdict' = [step |-> why] /\ UNCHANGED rvars

StepRun == StartRun(Ev.prefix, Ev.reset) /\ UNCHANGED verdict
StepEnter ==
    IF Ev.req # "" /\ Ev.req \notin DOMAIN ictr THEN Halt("unknown-requester")
    ELSE IF IsSys(Ev.req) /\ Ev.it # ictr[Ev.req] THEN Halt("system-iteration-number-is-not-its-counter")
    ELSE Enter(Ev.name, Ev.it, Ev.req) /\ UNCHANGED verdict
StepExit ==
    IF Len(stack) = 0 THEN Halt("pop-on-empty-stack")
    ELSE IF Ev.has /\ ~WillRecord
         THEN Halt(IF norec > 0 THEN "recorded-under-a-no-record-frame" ELSE "recorded-by-a-requester-not-attached")
    ELSE IF ~Ev.has /\ WillRecord THEN Halt("case-missing")
    ELSE IF Ev.has /\ Ev.req # Last(stack).r THEN Halt("recorded-by-another-requester-than-the-frame's")
    ELSE IF Ev.has /\ Ev.coord # Coordinate THEN Halt("coordinate-is-not-the-formatted-stack")
    ELSE IF Ev.has /\ Ev.counter # counter + 1 THEN Halt("counter-not-incremented-by-one")
    ELSE Exit /\ UNCHANGED verdict
StepProblem ==
    IF Len(stack) # 0 THEN Halt("problem-case-inside-a-frame")
    ELSE IF Ev.has # ("problem" \in attached) THEN Halt("problem-case-presence")
    ELSE IF Ev.has /\ Ev.counter # counter + 1 THEN Halt("counter-not-incremented-by-one")
    ELSE RecordProblem(Ev.name) /\ UNCHANGED verdict

\* ---- the verdict on the reader's answers, once the whole stream is replayed
SetOf(q) == ToSet(q)
SeqOfSet(S) == LET RECURSIVE F(_)
                   F(X) == IF X = {} THEN <<>> ELSE LET x == CHOOSE y \in X : TRUE IN <<x>> \o F(X \ {x})
               IN F(S)
MatchT == [p \in DOMAIN T.match |-> ToSet(T.match[p])]
VarsOf(r) == LET v == T.vars[r]
             IN [outs |-> ToSet(v.outs), ins |-> ToSet(v.ins), resids |-> ToSet(v.resids), prom |-> v.prom,
                 pin |-> ToSet(v.pin), psrc |-> v.psrc, dvs |-> ToSet(v.dvs), objs |-> ToSet(v.objs), cons |-> ToSet(v.cons)]
SelOf(r) == Selected(MatchT, r, T.opts[r], VarsOf(r))

\* a wrong set of outputs that is exactly what the pinned record_iteration writes (nothing, unless record_outputs)
OutWhat(r, got) == IF r \in {"driver", "problem"} /\ got = SelDriverG(MatchT, T.opts[r], VarsOf(r), TRUE).out
                   THEN "outputs-need-record_outputs" ELSE "outputs"
\* get_case(<int>): the index-th case of the execution order (T.idx: [i, ans: answer as a one-element listing, cnt: Case.counter])
IdxBad(k) == LET g == T.idx[k]
                 e == TrueGetCaseIdx(log, g.i)
             IN ~(e.k = g.ans.k /\ e.v = g.ans.v /\ (e.k = "flat" => g.cnt = PyPos(Len(log), g.i)))
BadIdx == SelectSeq([k \in 1..Len(T.idx) |-> k], LAMBDA k : IdxBad(k))
BadQueries == SelectSeq([k \in 1..Len(T.q) |-> k],
                        LAMBDA k : LET q == T.q[k]
                                       e == TrueListCases(log, q.src, q.rec, q.flat)
                                   IN ~(e.k = q.ans.k /\ e.v = q.ans.v))
CaseBad(k) == LET c == T.cases[k]
                  s == SelOf(log[k].req)
              IN IF c.name # log[k].coord THEN "name"
                 ELSE IF c.source # PublicSource(log[k].req) THEN "source"
                 ELSE IF c.counter # k THEN "counter"
                 ELSE IF ToSet(c.out) # s.out THEN OutWhat(log[k].req, ToSet(c.out))
                 ELSE IF ToSet(c.inp) # s.inp THEN "inputs"
                 ELSE IF ToSet(c.res) # s.res THEN "residuals"
                 ELSE "ok"
BadCases == SelectSeq([k \in 1..Len(T.cases) |-> k], LAMBDA k : CaseBad(k) # "ok")
\* list_source_vars(source): the names in the first case of that source
SrcVarBad(k) == LET sv == T.srcvars[k]
                    idx == SourceIdx(log, sv.src)
                IN IF Len(idx) = 0 THEN (IF sv.inp = <<"ERROR:RuntimeError">> THEN "ok" ELSE "unknown-source")      \* 'Source not found
                   ELSE LET s == SelOf(log[idx[1]].req)
                        IN IF ToSet(sv.out) # s.out THEN OutWhat(log[idx[1]].req, ToSet(sv.out)) ELSE IF ToSet(sv.inp) # s.inp THEN "inputs"
                           ELSE IF ToSet(sv.res) # s.res THEN "residuals" ELSE "ok"
BadSrcVars == SelectSeq([k \in 1..Len(T.srcvars) |-> k], LAMBDA k : SrcVarBad(k) # "ok")

Final ==
    IF Len(stack) # 0 THEN [step |-> "stack-not-empty-at-the-end"]
    ELSE IF ~CounterIsIndex(log) THEN [step |-> "counter-is-not-the-index"]
    ELSE IF ~UniqueCoords(log) THEN [step |-> "duplicate-coordinates"]
    ELSE IF Len(T.cases) # Len(log) THEN [step |-> "number-of-cases", n |-> Len(log)]
    ELSE LET bq == BadQueries
             bc == BadCases
             bs == BadSrcVars
             bi == BadIdx
         IN [step |-> "done",
             ncases |-> Len(log),
             order |-> (T.all = Coords(log)),
             sources |-> (ToSet(T.sources) = TrueSources(log)),
             expsources |-> SeqOfSet(TrueSources(log)),
             badq |-> [j \in 1..(IF Len(bq) < 4 THEN Len(bq) ELSE 4) |->
                          [q |-> bq[j], exp |-> TrueListCases(log, T.q[bq[j]].src, T.q[bq[j]].rec, T.q[bq[j]].flat)]],
             nbadq |-> Len(bq),
             badc |-> [j \in 1..(IF Len(bc) < 4 THEN Len(bc) ELSE 4) |->
                          [c |-> bc[j], what |-> CaseBad(bc[j]), req |-> log[bc[j]].req,
                           out |-> SeqOfSet(SelOf(log[bc[j]].req).out), inp |-> SeqOfSet(SelOf(log[bc[j]].req).inp),
                           res |-> SeqOfSet(SelOf(log[bc[j]].req).res)]],
             nbadc |-> Len(bc),
             bads |-> [j \in 1..Len(bs) |-> [s |-> bs[j], what |-> SrcVarBad(bs[j])]],
             badi |-> [j \in 1..(IF Len(bi) < 4 THEN Len(bi) ELSE 4) |->
                          [g |-> bi[j], exp |-> TrueGetCaseIdx(log, T.idx[bi[j]].i), pos |-> PyPos(Len(log), T.idx[bi[j]].i)]],
             nbadi |-> Len(bi)]

Step == /\ verdict.step = "ok"
        /\ l <= Len(T.ev)
        /\ CASE Ev.e = "run" -> StepRun
             [] Ev.e = "enter" -> StepEnter
             [] Ev.e = "exit" -> StepExit
             [] Ev.e = "problem" -> StepProblem
        /\ l' = l + 1
        /\ UNCHANGED tid
Finish == /\ verdict.step = "ok"
          /\ l = Len(T.ev) + 1
          /\ verdict' = Final
          /\ l' = l + 1
          /\ UNCHANGED <<rvars, tid>>
Next == Step \/ Finish

Done == verdict.step # "ok"
Export == Done => PrintT(<<"EXP", ToJson([tid |-> tid, l |-> l, v |-> verdict])>>)
\* every accepted step keeps the file's invariants
FileOK == CounterMonotone(log) /\ (\A i \in 1..Len(log) : log[i].req \in attached)
=============================================================================
