----------------------------- MODULE UnitsJudge -----------------------------
(***************************************************************************)
(* The shipped unit library under the specification Units.tla.  C06.       *)
(*                                                                         *)
(* The harness parses openmdao/utils/unit_library.ini on its own (not via  *)
(* units.py) and writes, as JSON (path in the environment variable         *)
(* UNITS_CASES):                                                           *)
(*   base   the names of the base units (one dimension each),              *)
(*   layers the derived units in dependency layers (a unit only refers to   *)
(*          units of earlier layers), each unit either                      *)
(*            [name, kind |-> "expr", e |-> expression tree over earlier   *)
(*             units and numeric atoms]                                    *)
(*          or [name, kind |-> "off", base, fac |-> atom, off |-> atom],   *)
(*   cases  what to derive: single expressions, pairs, triples.            *)
(* No number enters TLC: numeric literals, pi and the prefixes are atoms.   *)
(* TLC builds the unit table with Units!Eval, then derives for every case  *)
(* the expected (pow, symbolic fac, off), compatibility, the symbolic      *)
(* conversion tuple and the law instances (round trip, transitivity,       *)
(* simplify, distribution).  The harness evaluates the symbolic factors    *)
(* numerically and compares with what units.py returns.                    *)
(***************************************************************************)
EXTENDS Units, Json, IOUtils, SequencesExt

Data == JsonDeserialize(IOEnv.UNITS_CASES)
Cases == Data.cases
Layers == Data.layers

BaseTable == [n \in {Data.base[i] : i \in 1..Len(Data.base)} |->
                 Base(CHOOSE i \in 1..Len(Data.base) : Data.base[i] = n)]
AtomF(a) == IF a = "1" THEN FOne ELSE FAtom(a)
DefUnit(T, d) == IF d.kind = "expr" THEN Eval(T, d.e)
                 ELSE IF d.base \in DOMAIN T THEN OffsetUnit(T[d.base], AtomF(d.fac), d.off) ELSE ErrU
RECURSIVE TableUpTo(_)
TableUpTo(k) == IF k = 0 THEN BaseTable
                ELSE LET T == TableUpTo(k - 1)
                         L == Layers[k]
                     IN [n \in {L[i].name : i \in 1..Len(L)} |->
                            DefUnit(T, L[CHOOSE i \in 1..Len(L) : L[i].name = n])] @@ T
Lib == TableUpTo(Len(Layers))
NDefs == LET RECURSIVE Cnt(_)
             Cnt(k) == IF k = 0 THEN 0 ELSE Len(Layers[k]) + Cnt(k - 1)
         IN Cnt(Len(Layers))

ASSUME Len(Data.base) = NDim
\* every unit of the library is well defined, and no name is defined twice
ASSUME \A n \in DOMAIN Lib : ~IsErr(Lib[n])
ASSUME Cardinality(DOMAIN Lib) = NDim + NDefs

\* --- output forms (ToJson needs string-keyed functions / sequences) -------------------------------
OffTerms(D) == LET s == SetToSeq(DOMAIN D)
               IN [k \in 1..Len(s) |-> [o |-> s[k][1], m |-> s[k][2], c |-> D[s[k]]]]
COut(c) == [ok |-> c.ok, fac |-> c.fac, off |-> OffTerms(c.off)]
UOut(u) == [err |-> IsErr(u), pow |-> u.pow, fac |-> u.fac, off |-> u.off]

JudgeUnit(e) ==
    LET u == Eval(Lib, e)
        N == NamesOf(e)
    IN [u |-> UOut(u),
        \* law instances on the concrete library (must all be TRUE; the harness treats FALSE as a machinery error)
        laws |-> IF IsErr(u) THEN TRUE
                 ELSE /\ Eval(Lib, Simplify(e)) = u
                      /\ u.fac = FProd(Lib, DOMAIN N, N)
                      /\ u.pow = PSum(Lib, DOMAIN N, N)
                      /\ Compatible(u, u)
                      /\ ConvTuple(u, u) = ConvId]

JudgePair(a, b) ==
    LET A == Eval(Lib, a)
        B == Eval(Lib, b)
        ab == ConvTuple(A, B)
        ba == ConvTuple(B, A)
    IN [a |-> UOut(A), b |-> UOut(B),
        compat |-> Compatible(A, B),
        ab |-> COut(ab), ba |-> COut(ba),
        laws |-> /\ Compatible(A, B) = Compatible(B, A)
                 /\ ab.ok = Compatible(A, B)
                 /\ ab.ok => Compose(ab, ba) = ConvId]

JudgeTriple(a, b, c) ==
    LET A == Eval(Lib, a)
        B == Eval(Lib, b)
        C == Eval(Lib, c)
        ab == ConvTuple(A, B)
        bc == ConvTuple(B, C)
        ac == ConvTuple(A, C)
    IN [a |-> UOut(A), b |-> UOut(B), c |-> UOut(C),
        ab |-> COut(ab), bc |-> COut(bc), ac |-> COut(ac),
        laws |-> /\ (Compatible(A, B) /\ Compatible(B, C)) => Compatible(A, C)
                 /\ (ab.ok /\ bc.ok) => Compose(ab, bc) = ac]

Judge(c) == CASE c.k = "unit" -> JudgeUnit(c.e)
              [] c.k = "pair" -> JudgePair(c.a, c.b)
              [] c.k = "tri" -> JudgeTriple(c.a, c.b, c.c)

\* the variables of Units.tla are re-used: scen = case number, out = verdict
JInit == stage = 0 /\ scen \in 1..Len(Cases) /\ out = <<>>
JNext == stage = 0 /\ stage' = 1 /\ out' = Judge(Cases[scen]) /\ UNCHANGED scen

JExport == stage = 1 => PrintT(<<"EXP", ToJson([tid |-> scen, v |-> out])>>)
\* the library table itself (printed once, from case 1)
JLib == (stage = 1 /\ scen = 1) => PrintT(<<"LIB", ToJson([n \in DOMAIN Lib |-> UOut(Lib[n])])>>)
=============================================================================
