----------------------------- MODULE Violation -----------------------------
(***************************************************************************)
(* Constraint violation as a driver reports it                             *)
(* (Driver.get_constraint_values(viol=True), used by find_feasible). C22.  *)
(* Per element: signed distance outside [lower, upper] or from `equals`,   *)
(* zero when satisfied; times the constraint's total scaler when driver    *)
(* scaling is requested.  All numbers are exact rationals (Rat.tla).       *)
(***************************************************************************)
EXTENDS Rat, Naturals, FiniteSets, TLC, Json

CONSTANTS MaxN          \* maximal number of elements of the constraint

NoB == <<0, 0>>         \* "no bound on this side" (re-uses the NaN encoding; never used in arithmetic)

GVals == {Q(-7, 2), Q(-2, 1), Zero, Q(1, 2), One, Q(5, 1)}
\* per-element bound patterns: <<lower, upper>>
IneqPats == {<<NoB, NoB>>, <<Zero, NoB>>, <<One, NoB>>, <<NoB, Q(2, 1)>>, <<NoB, Q(3, 1)>>,
             <<Zero, Q(2, 1)>>, <<One, Q(3, 1)>>,
             <<Q(-3, 1), Q(-1, 1)>>, <<NoB, Q(-1, 1)>>}       \* bounds below zero: a value just below the lower bound is
                                                              \* closer to it than the upper bound is to zero
EqVals == {Zero, One}
\* total (scaler, adder): scaled = (model + adder) * scaler ; ref/ref0 = (3, 1) is scaler 1/2, adder -1
Scalings == {[s |-> One, a |-> Zero], [s |-> Q(2, 1), a |-> Zero], [s |-> Q(-1, 1), a |-> Zero],
             [s |-> Q(1, 2), a |-> Q(3, 1)], [s |-> Q(1, 2), a |-> Q(-1, 1)]}

\* --- the definition ----------------------------------------------------------------------------
Viol1(g, lo, up) == IF lo # NoB /\ Lt(g, lo) THEN Sub(g, lo)
                    ELSE IF up # NoB /\ Gt(g, up) THEN Sub(g, up)
                    ELSE Zero

ViolPhys(s) == [i \in 1..s.n |-> IF s.kind = "eq" THEN Sub(s.g[i], s.eq[i]) ELSE Viol1(s.g[i], s.b[i][1], s.b[i][2])]
Viol(s) == IF s.ds THEN [i \in 1..s.n |-> Mul(s.sc.s, ViolPhys(s)[i])] ELSE ViolPhys(s)

\* --- the same quantity computed in the optimizer's space (what an optimizer would measure) ---------
Scale(sc, x) == Mul(Add(x, sc.a), sc.s)
\* a negative scaler swaps the roles of the bounds
ViolDriverSpace(s, i) ==
    LET lo == s.b[i][1]
        up == s.b[i][2]
        gs == Scale(s.sc, s.g[i])
        slo == IF lo = NoB THEN NoB ELSE Scale(s.sc, lo)
        sup == IF up = NoB THEN NoB ELSE Scale(s.sc, up)
    IN IF s.kind = "eq" THEN Sub(gs, Scale(s.sc, s.eq[i]))
       ELSE IF RSgn(s.sc.s) > 0 THEN Viol1(gs, slo, sup) ELSE Viol1(gs, sup, slo)

\* Scenario enumeration as a two-stage state machine so that TLC's workers share the work: the initial states fix
\* (n, kind, scaling, driver_scaling); the single step chooses values and bounds.
VARIABLES stage, scen, out
vars == <<stage, scen, out>>
Z(n) == [i \in 1..n |-> Zero]
NB(n) == [i \in 1..n |-> <<NoB, NoB>>]
Base == {[n |-> n, kind |-> k, g |-> Z(n), b |-> NB(n), eq |-> Z(n), sc |-> sc, ds |-> ds] :
            n \in 1..MaxN, k \in {"ineq", "eq"}, sc \in Scalings, ds \in BOOLEAN}
Init == stage = 0 /\ scen \in Base /\ out = Viol(scen)
Choose == /\ stage = 0 /\ stage' = 1
          /\ \E g \in [1..scen.n -> GVals] :
                IF scen.kind = "ineq"
                THEN \E b \in [1..scen.n -> IneqPats] : scen' = [scen EXCEPT !.g = g, !.b = b]
                ELSE \E e \in [1..scen.n -> EqVals] : scen' = [scen EXCEPT !.g = g, !.eq = e]
          /\ out' = Viol(scen')
Next == Choose

\* --- laws ----------------------------------------------------------------------------------------
Satisfied(s, i) == IF s.kind = "eq" THEN s.g[i] = s.eq[i]
                   ELSE (s.b[i][1] = NoB \/ Ge(s.g[i], s.b[i][1])) /\ (s.b[i][2] = NoB \/ Le(s.g[i], s.b[i][2]))
ZeroIffSatisfied == \A i \in 1..scen.n : (out[i] = Zero) <=> Satisfied(scen, i)
\* scaled violation = what the optimizer space measures
AgreesWithDriverSpace == scen.ds => \A i \in 1..scen.n : out[i] = ViolDriverSpace(scen, i)
\* sign: negative below the lower bound, positive above the upper bound (model units)
SignLaw == \A i \in 1..scen.n : LET v == ViolPhys(scen)[i] IN
              scen.kind = "ineq" =>
                 /\ (RSgn(v) < 0 <=> (scen.b[i][1] # NoB /\ Lt(scen.g[i], scen.b[i][1])))
                 /\ (RSgn(v) > 0 <=> (scen.b[i][2] # NoB /\ Gt(scen.g[i], scen.b[i][2])))
Export == stage = 1 => PrintT(<<"EXP", ToJson([s |-> scen, v |-> out])>>)
=============================================================================
