------------------------------- MODULE CaseDB -------------------------------
(***************************************************************************)
(* The SQLite case file written by SqliteRecorder                          *)
(* (openmdao/recorders/sqlite_recorder.py) and opened by SqliteCaseReader  *)
(* (sqlite_reader.py), at the grain of SQL statements.  Property C18:      *)
(* a recording survives a crash at any statement boundary as a consistent  *)
(* prefix.                                                                 *)
(*                                                                         *)
(*   durable  what is committed in the file (survives a crash)             *)
(*   txn      the uncommitted buffer of the connection (lost by a crash)   *)
(*                                                                         *)
(* Python's sqlite3 in its legacy transaction mode (isolation_level = ""): *)
(*   - an implicit BEGIN is issued before INSERT/UPDATE when no            *)
(*     transaction is open; DDL (CREATE) does not open one, so a CREATE    *)
(*     outside a transaction autocommits by itself, a CREATE inside an     *)
(*     open transaction is part of it;                                     *)
(*   - `with connection:` commits on exit (COMMIT).                        *)
(* SQLite's own atomic commit is trusted (not modelled): Commit moves the  *)
(* whole buffer to durable in one step, Crash discards the buffer.         *)
(*                                                                         *)
(* The first part of the module (pure operators on <<durable, txn>>) is    *)
(* shared with CaseDBTrace.tla, which drives the same operators from the   *)
(* statement stream observed on the real recorder.                         *)
(***************************************************************************)
EXTENDS Naturals, Sequences, FiniteSets, TLC

CaseTables == {"driver_iterations", "system_iterations", "solver_iterations", "problem_cases"}
MetaRowTables == {"driver_metadata", "system_metadata", "solver_metadata"}
\* every object _initialize_database creates, in the order of the code
DDL == <<"global_iterations", "driver_iterations", "driver_derivatives", "driv_iter_ind",
         "problem_cases", "prob_name_ind", "system_iterations", "sys_iter_ind",
         "solver_iterations", "solv_iter_ind", "metadata">>
DDLInTxn == <<"driver_metadata", "system_metadata", "solver_metadata">>   \* created after the metadata stub

NoCases == [t \in CaseTables |-> <<>>]

EmptyDB == [tables |-> {}, meta |-> "none", nmeta |-> 0, cases |-> NoCases, derivs |-> <<>>, glob |-> <<>>]
NoTxn == [open |-> FALSE, tables |-> {}, meta |-> "keep", nmeta |-> 0, cases |-> <<>>, derivs |-> <<>>, glob |-> <<>>]

\* ---- what a statement sees: committed state overlaid with the open transaction -----------
Visible(d, x, t) == t \in d.tables \cup x.tables
IdsOf(s, t) == LET f == SelectSeq(s, LAMBDA e : e[1] = t) IN [i \in 1..Len(f) |-> f[i][2]]
RowsOf(d, x, t) == d.cases[t] \o IdsOf(x.cases, t)
MetaOf(d, x) == IF x.meta = "keep" THEN d.meta ELSE x.meta

\* ---- statements (guards = SQLite would not raise; effects on <<durable, txn>>) -----------
CanCreate(d, x, t) == ~Visible(d, x, t)
DoCreateD(d, x, t) == IF x.open THEN d ELSE [d EXCEPT !.tables = @ \cup {t}]          \* autocommit DDL
DoCreateX(d, x, t) == IF x.open THEN [x EXCEPT !.tables = @ \cup {t}] ELSE x

CanBegin(x) == ~x.open
DoBegin(x) == [x EXCEPT !.open = TRUE]

\* INSERT INTO metadata(format_version, openmdao_version, abs2prom, prom2abs) VALUES(v, v, NULL, NULL)
CanInsertMetaStub(d, x) == x.open /\ Visible(d, x, "metadata") /\ MetaOf(d, x) = "none"
DoInsertMetaStub(x) == [x EXCEPT !.meta = "stub"]

\* UPDATE metadata SET abs2prom=?, prom2abs=?, abs2meta=?, var_settings=?, conns=?   (no WHERE: every row)
CanUpdateMeta(d, x) == x.open /\ Visible(d, x, "metadata")
DoUpdateMeta(d, x) == IF MetaOf(d, x) = "none" THEN x ELSE [x EXCEPT !.meta = "full"]

CanInsertMetaRow(d, x, t) == x.open /\ t \in MetaRowTables /\ Visible(d, x, t)
DoInsertMetaRow(x) == [x EXCEPT !.nmeta = @ + 1]

CanInsertCase(d, x, t) == x.open /\ t \in CaseTables /\ Visible(d, x, t)
DoInsertCase(x, t, id) == [x EXCEPT !.cases = Append(@, <<t, id>>)]

\* INSERT INTO global_iterations(record_type, rowid, source) VALUES(type of t, cursor.lastrowid, ...)
CanInsertGlobal(d, x, t) == x.open /\ t \in CaseTables /\ Visible(d, x, "global_iterations")
DoInsertGlobal(d, x, t) == [x EXCEPT !.glob = Append(@, <<t, Len(RowsOf(d, x, t))>>)]

CanInsertDeriv(d, x) == x.open /\ Visible(d, x, "driver_derivatives")
DoInsertDeriv(x, id) == [x EXCEPT !.derivs = Append(@, id)]

CanCommit(x) == x.open
DoCommit(d, x) == [tables |-> d.tables \cup x.tables,
                   meta |-> MetaOf(d, x),
                   nmeta |-> d.nmeta + x.nmeta,
                   cases |-> [t \in CaseTables |-> RowsOf(d, x, t)],
                   derivs |-> d.derivs \o x.derivs,
                   glob |-> d.glob \o x.glob]

\* ROLLBACK (`with connection:` left by an exception, e.g. the IntegrityError of a second record_viewer_data)
CanRollback(x) == x.open
NoCaseRows(x) == x.cases = <<>> /\ x.glob = <<>> /\ x.derivs = <<>>

\* ---- the reader -------------------------------------------------------------------------
\* SqliteCaseReader.__init__: `select * from global_iterations`; the metadata table must be in this file
\* (otherwise a <name>_meta file is looked for and IOError raised); _collect_metadata reads ONE row and
\* zlib-decompresses conns, var_settings, abs2prom, prom2abs, abs2meta (a NULL column raises TypeError, a
\* missing row raises TypeError on row['format_version']); then driver_/system_/solver_metadata are SELECTed.
CanOpen(d) == /\ "global_iterations" \in d.tables
              /\ "metadata" \in d.tables
              /\ d.meta = "full"
              /\ MetaRowTables \subseteq d.tables
\* list_cases() (_list_cases_recurse_flat): the four case tables are SELECTed, then every global row is
\* resolved as <table>_cases[rowid - 1]
CanList(d) == /\ CaseTables \subseteq d.tables
              /\ \A i \in 1..Len(d.glob) : d.glob[i][2] \in 1..Len(d.cases[d.glob[i][1]])
ListCases(d) == [i \in 1..Len(d.glob) |-> <<d.glob[i][1], d.cases[d.glob[i][1]][d.glob[i][2]]>>]

\* every case row has exactly one global row and every global row exactly one case row
OneToOne(d) == /\ \A t \in CaseTables : \A r \in 1..Len(d.cases[t]) :
                      Cardinality({i \in 1..Len(d.glob) : d.glob[i] = <<t, r>>}) = 1
               /\ \A i \in 1..Len(d.glob) : d.glob[i][2] \in 1..Len(d.cases[d.glob[i][1]])

IsPrefixOf(s, t) == Len(s) <= Len(t) /\ \A i \in 1..Len(s) : s[i] = t[i]

-----------------------------------------------------------------------------
(***************************************************************************)
(* The recorded run as a state machine.  A script is                       *)
(*   [cases |-> sequence of table names (or "deriv"), in execution order,  *)
(*    nupd  |-> number of recording requesters (one startup each),         *)
(*    nrows |-> sequence of metadata-row tables written after startup,     *)
(*    dup   |-> a second record_viewer_data: its INSERT fails on the       *)
(*              primary key and the transaction is rolled back]            *)
(* Program(s) is the statement sequence the recorder issues for it.        *)
(***************************************************************************)
CONSTANTS Scripts,    \* set of scripts
          Broken      \* TRUE: the (wrong) variant that commits between the case row and its global row

VARIABLES prog,       \* the statement sequence of the chosen script (fixed in Init)
          full,       \* the case sequence of the complete run, as list_cases() reports it (fixed in Init)
          pc,         \* next statement of the program
          durable, txn,
          started,    \* the first `startup` has completed (its UPDATE metadata is committed)
          ncommit,    \* number of record_iteration_* calls whose transaction has been committed
          crashed,
          reader      \* [st |-> "none" | "ok" | "raises", list |-> what list_cases() returns]

vars == <<prog, full, pc, durable, txn, started, ncommit, crashed, reader>>

St(op, t, id) == [op |-> op, t |-> t, id |-> id]
Txn1(st) == <<St("Begin", "", 0), st, St("Commit", "", 0)>>

RECURSIVE Flat(_)
Flat(ss) == IF ss = <<>> THEN <<>> ELSE Head(ss) \o Flat(Tail(ss))

CaseStmts(t, id) ==
    IF t = "deriv" THEN Txn1(St("InsertDeriv", "driver_derivatives", id))
    ELSE IF Broken
    THEN <<St("Begin", "", 0), St("InsertCase", t, id), St("Commit", "", 0),
           St("Begin", "", 0), St("InsertGlobal", t, id), St("Commit", "", 0)>>
    ELSE <<St("Begin", "", 0), St("InsertCase", t, id), St("InsertGlobal", t, id), St("Commit", "", 0)>>

Program(s) ==
       [i \in 1..Len(DDL) |-> St("Create", DDL[i], 0)]
    \o <<St("Begin", "", 0), St("InsertMetaStub", "metadata", 0)>>
    \o [i \in 1..Len(DDLInTxn) |-> St("Create", DDLInTxn[i], 0)]
    \o <<St("Commit", "", 0)>>
    \o Flat([i \in 1..s.nupd |-> Txn1(St("UpdateMeta", "metadata", 0))])
    \o Flat([i \in 1..Len(s.nrows) |-> Txn1(St("InsertMetaRow", s.nrows[i], 0))])
    \o (IF s.dup THEN <<St("Begin", "", 0), St("InsertMetaRow", "driver_metadata", 0), St("Rollback", "", 0)>> ELSE <<>>)
    \o Flat([i \in 1..Len(s.cases) |-> CaseStmts(s.cases[i], i)])

\* the case sequence of the complete run, as list_cases() reports it
FullOf(s) == LET idx == SelectSeq([i \in 1..Len(s.cases) |-> i], LAMBDA i : s.cases[i] # "deriv")
             IN [k \in 1..Len(idx) |-> <<s.cases[idx[k]], idx[k]>>]

Prog == prog
Full == full
Cur == Prog[pc]
Running == ~crashed /\ reader.st = "none" /\ pc <= Len(Prog)
At(op) == Running /\ Cur.op = op

Init == /\ \E s \in Scripts : prog = Program(s) /\ full = FullOf(s)
        /\ pc = 1
        /\ durable = EmptyDB
        /\ txn = NoTxn
        /\ started = FALSE
        /\ ncommit = 0
        /\ crashed = FALSE
        /\ reader = [st |-> "none", list |-> <<>>]

Same == UNCHANGED <<prog, full, started, ncommit, crashed, reader>>

CreateTables == /\ At("Create") /\ CanCreate(durable, txn, Cur.t)
                /\ durable' = DoCreateD(durable, txn, Cur.t) /\ txn' = DoCreateX(durable, txn, Cur.t)
                /\ pc' = pc + 1 /\ Same
Begin == /\ At("Begin") /\ CanBegin(txn)
         /\ txn' = DoBegin(txn) /\ pc' = pc + 1 /\ UNCHANGED durable /\ Same
InsertMetaStub == /\ At("InsertMetaStub") /\ CanInsertMetaStub(durable, txn)
                  /\ txn' = DoInsertMetaStub(txn) /\ pc' = pc + 1 /\ UNCHANGED durable /\ Same
UpdateMeta == /\ At("UpdateMeta") /\ CanUpdateMeta(durable, txn)
              /\ txn' = DoUpdateMeta(durable, txn) /\ pc' = pc + 1 /\ UNCHANGED durable /\ Same
InsertMetaRow == /\ At("InsertMetaRow") /\ CanInsertMetaRow(durable, txn, Cur.t)
                 /\ txn' = DoInsertMetaRow(txn) /\ pc' = pc + 1 /\ UNCHANGED durable /\ Same
InsertCase == /\ At("InsertCase") /\ CanInsertCase(durable, txn, Cur.t)
              /\ txn' = DoInsertCase(txn, Cur.t, Cur.id) /\ pc' = pc + 1 /\ UNCHANGED durable /\ Same
InsertGlobal == /\ At("InsertGlobal") /\ CanInsertGlobal(durable, txn, Cur.t)
                /\ txn' = DoInsertGlobal(durable, txn, Cur.t) /\ pc' = pc + 1 /\ UNCHANGED durable /\ Same
InsertDeriv == /\ At("InsertDeriv") /\ CanInsertDeriv(durable, txn)
               /\ txn' = DoInsertDeriv(txn, Cur.id) /\ pc' = pc + 1 /\ UNCHANGED durable /\ Same
Commit == /\ At("Commit") /\ CanCommit(txn)
          /\ durable' = DoCommit(durable, txn)
          /\ txn' = NoTxn
          /\ started' = (started \/ durable'.meta = "full")
          /\ ncommit' = ncommit + (IF txn.glob # <<>> THEN Len(txn.glob) ELSE 0)
          /\ pc' = pc + 1
          /\ UNCHANGED <<prog, full, crashed, reader>>

Rollback == /\ At("Rollback") /\ CanRollback(txn) /\ NoCaseRows(txn)
            /\ txn' = NoTxn /\ pc' = pc + 1 /\ UNCHANGED durable /\ Same

\* the process dies: enabled in EVERY state of the run (including before the first statement and after the last)
Crash == /\ ~crashed /\ reader.st = "none"
         /\ crashed' = TRUE
         /\ txn' = NoTxn
         /\ UNCHANGED <<prog, full, pc, durable, started, ncommit, reader>>

\* CaseReader(file) followed by list_cases(): after a crash, or after the complete run
Open == /\ reader.st = "none"
        /\ crashed \/ pc > Len(Prog)
        /\ reader' = IF CanOpen(durable) /\ CanList(durable)
                     THEN [st |-> "ok", list |-> ListCases(durable)]
                     ELSE [st |-> "raises", list |-> <<>>]
        /\ UNCHANGED <<prog, full, pc, durable, txn, started, ncommit, crashed>>

Next == \/ CreateTables \/ Begin \/ InsertMetaStub \/ UpdateMeta \/ InsertMetaRow
        \/ InsertCase \/ InsertGlobal \/ InsertDeriv \/ Commit \/ Rollback \/ Crash \/ Open

Spec == Init /\ [][Next]_vars

-----------------------------------------------------------------------------
\* Properties (C18)

\* the program never gets stuck on a guard (SQLite would have raised): every statement is executable in turn
Executable == Running =>
    CASE Cur.op = "Create" -> CanCreate(durable, txn, Cur.t)
      [] Cur.op = "Begin" -> CanBegin(txn)
      [] Cur.op = "InsertMetaStub" -> CanInsertMetaStub(durable, txn)
      [] Cur.op = "UpdateMeta" -> CanUpdateMeta(durable, txn)
      [] Cur.op = "InsertMetaRow" -> CanInsertMetaRow(durable, txn, Cur.t)
      [] Cur.op = "InsertCase" -> CanInsertCase(durable, txn, Cur.t)
      [] Cur.op = "InsertGlobal" -> CanInsertGlobal(durable, txn, Cur.t)
      [] Cur.op = "InsertDeriv" -> CanInsertDeriv(durable, txn)
      [] Cur.op = "Commit" -> CanCommit(txn)
      [] Cur.op = "Rollback" -> CanRollback(txn) /\ NoCaseRows(txn)
      [] OTHER -> FALSE

\* no state in which a case row is durable without its global row (or the reverse)
Atomicity == OneToOne(durable)

\* after a crash in a post-startup state the file opens and holds exactly a prefix of the complete run:
\* the cases whose recording call had completed
CrashPrefix == crashed /\ started /\ reader.st # "none" =>
                   /\ reader.st = "ok"
                   /\ IsPrefixOf(reader.list, Full)
                   /\ Len(reader.list) = ncommit
                   /\ OneToOne(durable)

\* the uncrashed run holds the whole sequence
CompleteRun == ~crashed /\ reader.st # "none" => reader.st = "ok" /\ reader.list = Full

\* NOT a theorem (kept to exhibit the pre-startup window): a crash before the first startup completed
\* leaves a file the reader can open.  TLC is expected to refute it.
PreStartupOpens == crashed /\ ~started /\ reader.st # "none" => reader.st = "ok"

\* NOT a theorem either: the same for the narrower window in which the database is fully initialised and the
\* metadata row is committed with NULL columns (between _initialize_database and the first UPDATE metadata)
StubWindowOpens == crashed /\ ~started /\ durable.meta = "stub" /\ reader.st # "none" => reader.st = "ok"

\* startup completes exactly when the metadata row is complete: from then on the file always opens
StartedOpens == started => CanOpen(durable) /\ CanList(durable)
=============================================================================
