------------------------------ MODULE FileWrap ------------------------------
(***************************************************************************)
(* Template based input files (openmdao/utils/file_wrap.py): the state of  *)
(* an InputFileGenerator and what its write operations must do to the      *)
(* file.  Property C29: a value written at a location is what a read of    *)
(* that location returns, and no other field of the file is disturbed.     *)
(*                                                                         *)
(* A file is a sequence of lines, a line a sequence of fields.  Fields     *)
(* hold opaque value ids (TLC cannot mix types; the Python values - ints,  *)
(* floats incl. inf/nan, strings - live on the harness side):              *)
(*    1, 2        the two anchor texts ("AAA", "BBB")                      *)
(*    11 .. 99    the other tokens of the template (all distinct)          *)
(*    101 .. 103  value slots: the values handed to transfer_*             *)
(* How a value is formatted into text and tokenised again is exactly what  *)
(* the spec abstracts from: the intended behaviour is that the text        *)
(* written for a value is one field that reads back as that value.         *)
(*                                                                         *)
(* The delimiter set of a scenario (delim) is likewise a parameter the     *)
(* operations do not depend on: whatever characters separate the fields,   *)
(* the field structure and every operation below are the same.             *)
(*                                                                         *)
(* Generator state: cur = the anchor line (1-based; 1 when no anchor is    *)
(* set, so that row offsets are then absolute), anch = an anchor is set.   *)
(* Rows given to the operations are offsets from cur and may be negative.  *)
(*                                                                         *)
(* Anchor search (mark_anchor), as documented and as pinned by the         *)
(* repository's own tests (test_templated_input_same_anchors,              *)
(* test_output_parse_same_anchors):                                        *)
(*   occurrence n > 0: the n-th line containing the anchor text, searching *)
(*     forward from the old anchor; with an anchor set the old anchor line *)
(*     itself is behind the search position ("only after the anchor"),     *)
(*     without one the search includes the first line;                     *)
(*   occurrence n < 0: the n-th line containing the text counted from the  *)
(*     END of the file whatever the old anchor; with an anchor set the     *)
(*     last line of the file is not a candidate (the tests pin this);      *)
(*   not found: the call is refused (RuntimeError) and nothing changes.    *)
(***************************************************************************)
EXTENDS Naturals, Integers, Sequences, FiniteSets, TLC

CONSTANTS Scenarios,   \* sequence of [file |-> template, delim |-> delimiter set id]
          MaxLen,      \* a line never grows beyond MaxLen fields (arrays longer than the template)
          MaxDepth,    \* number of operations per behaviour
          WrapRows     \* set of line counts (>= 2) of the wrapped (multi-line) arrays that are explored

AnchorIds == {1, 2}
Occs == {1, 2, -1, -2}
Slots == {101, 102, 103}

VARIABLES sc,      \* scenario index
          file,    \* Seq(Seq(id))
          cur,     \* anchor line
          anch,    \* BOOLEAN
          n,       \* operations so far
          last     \* what the last operation did (observation, not part of the generator state)

vars == <<sc, file, cur, anch, n, last>>

-----------------------------------------------------------------------------
\* reading
Read(f, c, row, field) == f[c + row][field]          \* relative to anchor line c
Exists(f, c, row, field) == (c + row) \in 1..Len(f) /\ field \in 1..Len(f[c + row])

Has(line, a) == \E j \in 1..Len(line) : line[j] = a
ARows(f, a) == {i \in 1..Len(f) : Has(f[i], a)}

\* what FileParser.transfer_array(r1, fs, r2, fe) returns (absolute lines): the fields fs.. of line r1,
\* every field of the lines in between, the fields ..fe of line r2 (fs..fe of the line when r1 = r2)
ReadArray(f, r1, r2, fs, fe) ==
    LET R[i \in (r1 - 1)..r2] ==
            IF i = r1 - 1 THEN <<>>
            ELSE R[i - 1] \o SubSeq(f[i], IF i = r1 THEN fs ELSE 1, IF i = r2 THEN fe ELSE Len(f[i]))
    IN R[r2]

NthUp(S, k) == IF Cardinality(S) < k THEN 0
               ELSE CHOOSE x \in S : Cardinality({y \in S : y < x}) = k - 1
NthDown(S, k) == IF Cardinality(S) < k THEN 0
                 ELSE CHOOSE x \in S : Cardinality({y \in S : y > x}) = k - 1

\* the line mark_anchor(a, occ) selects in file f from generator state (c, an); 0 = not found
MarkRow(f, c, an, a, occ) ==
    IF occ > 0
    THEN NthUp({i \in ARows(f, a) : IF an THEN i > c ELSE i >= c}, occ)
    ELSE NthDown({i \in ARows(f, a) : an => i < Len(f)}, -occ)

\* (anchor, occurrence) pairs with which a freshly opened reader of f reaches line r
Addr(f, r) == {p \in AnchorIds \X Occs : MarkRow(f, 1, FALSE, p[1], p[2]) = r}

-----------------------------------------------------------------------------
\* writing
\* fields fs..fe of the line take the leading values; values that do not fit are appended
Splice(line, fs, fe, vals) ==
    LET k == fe - fs + 1
        m == Len(line) + Len(vals) - k
    IN [j \in 1..m |-> IF j < fs THEN line[j]
                       ELSE IF j <= fe THEN vals[j - fs + 1]
                       ELSE IF j <= Len(line) THEN line[j]
                       ELSE vals[k + (j - Len(line))]]

\* arr: the arguments of a transfer_array call <<vals, first line, last line, fs, fe>> (absolute lines)
Obs(r, k, w, clr, an, occ) == [r |-> r, k |-> k, w |-> w, clr |-> clr, an |-> an, occ |-> occ, arr |-> <<>>]

Init == /\ sc \in 1..Len(Scenarios)
        /\ file = Scenarios[sc].file
        /\ cur = 1
        /\ anch = FALSE
        /\ n = 0
        /\ last = Obs("init", "Init", {}, 0, 0, 0)

Step == n < MaxDepth /\ n' = n + 1 /\ UNCHANGED sc

MarkAnchor(a, occ) ==
    /\ Step
    /\ LET r == MarkRow(file, cur, anch, a, occ)
       IN IF r = 0
          THEN /\ UNCHANGED <<file, cur, anch>>
               /\ last' = Obs("rejected", "MarkAnchor", {}, 0, a, occ)
          ELSE /\ cur' = r /\ anch' = TRUE /\ UNCHANGED file
               /\ last' = Obs("ok", "MarkAnchor", {}, 0, a, occ)

ResetAnchor ==
    /\ Step
    /\ cur' = 1 /\ anch' = FALSE /\ UNCHANGED file
    /\ last' = Obs("ok", "ResetAnchor", {}, 0, 0, 0)

TransferVar(v, row, f) ==
    /\ Step
    /\ Exists(file, cur, row, f)
    /\ file' = [file EXCEPT ![cur + row][f] = v]
    /\ UNCHANGED <<cur, anch>>
    /\ last' = Obs("ok", "TransferVar", {<<cur + row, f, v>>}, 0, 0, 0)

\* A one-dimensional array that may wrap over the lines rs..re (offsets from the anchor line; re = rs
\* is the plain single-line call, a larger re is the row_end argument): the values go, in order, to
\* the fields fs..end of line rs, to every field of the lines in between and to the fields 1..fe of
\* line re (fs..fe when rs = re).  FileParser.transfer_array(rs, fs, re, fe) reads exactly this
\* sequence of locations.  A line without fields (cleared) in the range holds no value.
\* An array longer than the location sequence is allowed where field fe ends line re (the surplus
\* values are appended there, so the array stays contiguous).  A shorter array is refused by the
\* generator and is not part of this specification.
ALo(i, r1, fs) == IF i = r1 THEN fs ELSE 1
AHi(f, i, r2, fe) == IF i = r2 THEN fe ELSE Len(f[i])
\* number of array locations on the lines r1..i-1 of f
ABefore(f, r1, r2, fs, fe) ==
    LET B[i \in r1..(r2 + 1)] ==
            IF i = r1 THEN 0 ELSE B[i - 1] + (AHi(f, i - 1, r2, fe) - ALo(i - 1, r1, fs) + 1)
    IN B
ACount(f, r1, r2, fs, fe) == ABefore(f, r1, r2, fs, fe)[r2 + 1]
\* the part of vals that belongs to line i (the last line also takes the surplus)
ASeg(f, vals, r1, r2, fs, fe, i) ==
    LET B == ABefore(f, r1, r2, fs, fe)
    IN SubSeq(vals, B[i] + 1, IF i = r2 THEN Len(vals) ELSE B[i + 1])

TransferArray(vals, rs, re, fs, fe) ==
    /\ Step
    /\ rs <= re
    /\ (cur + rs) \in 1..Len(file) /\ (cur + re) \in 1..Len(file)
    /\ LET r1 == cur + rs
           r2 == cur + re
           total == ACount(file, r1, r2, fs, fe)
       IN /\ 1 <= fs /\ fs <= Len(file[r1])
          /\ 1 <= fe /\ fe <= Len(file[r2])
          /\ (r1 = r2 => fs <= fe)
          /\ Len(vals) >= total
          /\ Len(vals) > total => (fe = Len(file[r2]) /\ Len(file[r2]) + Len(vals) - total <= MaxLen)
          /\ file' = [i \in 1..Len(file) |->
                        IF i \in r1..r2
                        THEN Splice(file[i], ALo(i, r1, fs), AHi(file, i, r2, fe),
                                    ASeg(file, vals, r1, r2, fs, fe, i))
                        ELSE file[i]]
          /\ last' = [Obs("ok", "TransferArray",
                          UNION {{<<i, ALo(i, r1, fs) + j - 1, ASeg(file, vals, r1, r2, fs, fe, i)[j]>> :
                                    j \in 1..Len(ASeg(file, vals, r1, r2, fs, fe, i))} : i \in r1..r2},
                          0, 0, 0) EXCEPT !.arr = <<vals, r1, r2, fs, fe>>]
    /\ UNCHANGED <<cur, anch>>

\* vals is a matrix (sequence of rows) of exactly (re-rs+1) x (fe-fs+1) values
Transfer2DArray(vals, rs, re, fs, fe) ==
    /\ Step
    /\ rs <= re /\ Len(vals) = re - rs + 1
    /\ 1 <= fs /\ fs <= fe
    /\ \A row \in rs..re : (cur + row) \in 1..Len(file) /\ fe <= Len(file[cur + row])
    /\ \A i \in 1..Len(vals) : Len(vals[i]) = fe - fs + 1
    /\ file' = [i \in 1..Len(file) |->
                  IF i - cur \in rs..re THEN Splice(file[i], fs, fe, vals[i - cur - rs + 1])
                  ELSE file[i]]
    /\ UNCHANGED <<cur, anch>>
    /\ last' = Obs("ok", "Transfer2DArray",
                   {<<cur + rs + i - 1, fs + j - 1, vals[i][j]>> : i \in 1..Len(vals), j \in 1..(fe - fs + 1)},
                   0, 0, 0)

ClearLine(row) ==
    /\ Step
    /\ (cur + row) \in 1..Len(file)
    /\ file' = [file EXCEPT ![cur + row] = <<>>]
    /\ UNCHANGED <<cur, anch>>
    /\ last' = Obs("ok", "ClearLine", {}, cur + row, 0, 0)

\* argument universes of the exhaustive exploration
Rows == -3..3
Fields == 1..MaxLen
Arrays == {<<101, 102>>, <<101, 102, 103>>}
Cyc(k) == [i \in 1..k |-> 101 + ((i - 1) % 3)]       \* 101, 102, 103, 101, ... (k values)
Matrix(nr, nc) == [i \in 1..nr |-> SubSeq(IF i = 1 THEN <<101, 102, 103, 101, 102>>
                                          ELSE IF i = 2 THEN <<103, 101, 102, 103, 101>>
                                          ELSE <<102, 103, 101, 102, 103>>, 1, nc)]

Next ==
    \/ \E a \in AnchorIds, occ \in Occs : MarkAnchor(a, occ)
    \/ ResetAnchor
    \/ \E v \in {101, 102}, row \in Rows, f \in Fields : TransferVar(v, row, f)
    \/ \E vals \in Arrays, row \in Rows, fs \in Fields, fe \in Fields : TransferArray(vals, row, row, fs, fe)
    \* wrapped arrays: as many values as there are locations, or one more (appended to the last line)
    \/ \E row \in Rows, nr \in WrapRows, fs \in Fields, fe \in Fields, extra \in 0..1 :
          /\ (cur + row) \in 1..Len(file) /\ (cur + row + nr - 1) \in 1..Len(file)
          /\ TransferArray(Cyc(ACount(file, cur + row, cur + row + nr - 1, fs, fe) + extra),
                           row, row + nr - 1, fs, fe)
    \/ \E rs \in Rows, nr \in 2..3, fs \in Fields, fe \in Fields :
          Transfer2DArray(Matrix(nr, fe - fs + 1), rs, rs + nr - 1, fs, fe)
    \/ \E row \in Rows : ClearLine(row)

Spec == Init /\ [][Next]_vars

-----------------------------------------------------------------------------
\* Properties (C29)

TypeOK == /\ cur \in 1..Len(file)
          /\ (~anch => cur = 1)
          /\ Len(file) = Len(Scenarios[sc].file)
          /\ \A i \in 1..Len(file) : Len(file[i]) <= MaxLen

\* a read of a written location (absolute, and relative to the anchor that addressed the write)
\* returns the value written
ReadBack ==
    [][last'.r = "ok" =>
         \A x \in last'.w : /\ Exists(file', 0, x[1], x[2])
                            /\ Read(file', 0, x[1], x[2]) = x[3]
                            /\ Read(file', cur, x[1] - cur, x[2]) = x[3]]_vars

\* a wrapped or plain array is read back, as a whole and in order, by the reader's transfer_array with the
\* same rows and fields (the last field moved by the number of appended values)
ArrayReadBack ==
    [][last'.k = "TransferArray" /\ last'.r = "ok" =>
         LET vals == last'.arr[1]
             r1 == last'.arr[2]
             r2 == last'.arr[3]
             fs == last'.arr[4]
             fe == last'.arr[5]
             surplus == Len(vals) - ACount(file, r1, r2, fs, fe)
         IN /\ surplus >= 0
            /\ ReadArray(file', r1, r2, fs, fe + surplus) = vals
            /\ Cardinality(last'.w) = Len(vals)]_vars

\* every field that was not addressed still holds what it held; lines keep their number and
\* (apart from appended array values and a cleared line) their length
OthersUnchanged ==
    [][/\ Len(file') = Len(file)
       /\ \A i \in 1..Len(file) :
            LET wr == {x \in last'.w : x[1] = i}
            IN IF last'.clr = i THEN file'[i] = <<>>
               ELSE /\ Len(file'[i]) = Len(file[i]) + Cardinality({x \in wr : x[2] > Len(file[i])})
                    /\ \A j \in 1..Len(file[i]) :
                         (~\E x \in wr : x[2] = j) => file'[i][j] = file[i][j]]_vars

\* no operation writes two values to one location
WritesWellFormed ==
    [][\A x \in last'.w, y \in last'.w : (x[1] = y[1] /\ x[2] = y[2]) => x = y]_vars

\* anchor addressing: the selected line contains the text; a positive occurrence counts the
\* matching lines from the search position forward, a negative one from the end of the file
AnchorSemantic ==
    [][last'.k = "MarkAnchor" /\ last'.r = "ok" =>
         LET a == last'.an
             occ == last'.occ
             lo == IF anch THEN cur + 1 ELSE cur
             hi == IF anch THEN Len(file) - 1 ELSE Len(file)
         IN /\ anch' /\ Has(file[cur'], a)
            /\ occ > 0 => cur' >= lo /\ Cardinality({i \in ARows(file, a) : lo <= i /\ i < cur'}) = occ - 1
            /\ occ < 0 => cur' <= hi /\ Cardinality({i \in ARows(file, a) : cur' < i /\ i <= hi}) = -occ - 1
    ]_vars

\* a refused mark_anchor happens exactly when there are not enough matching lines, and changes nothing
RejectLeaves ==
    [][last'.r = "rejected" => /\ UNCHANGED <<file, cur, anch>>
                               /\ MarkRow(file, cur, anch, last'.an, last'.occ) = 0]_vars

\* only mark_anchor / reset_anchor move the anchor; writes never do
AnchorStable == [][last'.k \notin {"MarkAnchor", "ResetAnchor"} => UNCHANGED <<cur, anch>>]_vars

\* a fresh reader that marks one of the Addr pairs stands on the generator's anchor line
AddrSound == \A p \in Addr(file, cur) : Has(file[cur], p[1])
=============================================================================
