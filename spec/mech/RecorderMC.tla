----------------------------- MODULE RecorderMC -----------------------------
(***************************************************************************)
(* Exhaustive check of the reader's algorithms against the nesting         *)
(* semantics over every bounded run tree (C17, part a).                    *)
(*                                                                         *)
(* The run: [mode "driver": <= MaxDrv driver iterations, each one root     *)
(* solve, optionally followed by a _compute_totals frame that may contain  *)
(* a (not recorded) root solve - approximated totals] or [mode "model":    *)
(* <= MaxDrv run_model calls];  a root solve = 1..MaxSol iterations of the *)
(* root nonlinear solver, each running subsystem s1 (a group with its own  *)
(* solver, 1..MaxSub iterations) and s2 (a component) and then a           *)
(* _run_apply frame;  Problem.record between runs.                         *)
(* Iteration numbers are rendered through Nums, a strictly increasing      *)
(* sequence chosen in Init from NumSeqs (e.g. 0,1,10,11,12,100,...): a     *)
(* run whose counters pass through 1 and 10 contains these cases, so the   *)
(* decimal-prefix situation "|1" vs "|10" occurs at every level without    *)
(* enumerating ten iterations.                                             *)
(* The recorder is attached to a subset of the seven requesters chosen in  *)
(* Init from AttachSets.  Properties are evaluated whenever the stack is   *)
(* empty (a reader opens the file between runs).                           *)
(***************************************************************************)
EXTENDS Recorder

CONSTANTS MaxDrv, MaxSol, MaxSub, MaxProb,
          AttachSets,     \* set of sets of requester labels
          NumSeqs,        \* set of strictly increasing sequences of naturals (length >= MaxDrv * MaxSol + 1)
          Modes,          \* subset of {"driver", "model"}
          WinAdj          \* 0 = the code; 1 / -1: the deliberately broken window (must be refuted)

Reqs == {"problem", "driver", "sys:", "sys:s1", "sys:s2", "nl:", "nl:s1"}

\* values for the configuration files (cfg files cannot hold tuples): CONSTANT NumSeqs <- NumSeqsDef ...
NumSeqsDef == {<<0, 1, 2, 3, 4, 5, 6, 7>>,                    \* plain counting
               <<1, 10, 11, 12, 100, 101, 110, 111>>,         \* 1 | 10..12 | 100.. : every decimal-prefix collision
               <<8, 9, 10, 11, 19, 20, 99, 100>>}             \* 9 -> 10, 99 -> 100
AttachAll == {Reqs}
AttachQuick == {Reqs, {"driver", "sys:s1", "nl:s1"}, {"driver", "nl:", "sys:s2"}, {"sys:", "nl:"}, {"problem", "nl:s1"},
                {"driver"}, {"sys:s1"}, {"driver", "sys:", "sys:s1", "sys:s2"}}
AttachEvery == SUBSET Reqs \ {{}}

VARIABLES pcs,      \* parallel to stack: progress of each open frame
          mode, nums, nprob
vars == <<rvars, pcs, mode, nums, nprob>>

Num(k) == nums[k + 1]
DriverName == "Driver"
RootNL == "NonlinearBlockGS"
SubNL == "NewtonSolver"

Init == /\ \E a \in AttachSets : RInit(a, Reqs)
        /\ pcs = <<>>
        /\ mode \in Modes
        /\ nums \in NumSeqs
        /\ nprob = 0

Top == Last(stack)
TopPc == Last(pcs)
SetTopPc(v) == [pcs EXCEPT ![Len(pcs)] = v]
\* push a child: the parent's progress becomes ppc, the child starts at 0
Push(name, it, req, ppc) == /\ Enter(name, it, req)
                            /\ pcs' = Append(IF Len(pcs) = 0 THEN pcs ELSE SetTopPc(ppc), 0)
                            /\ UNCHANGED <<mode, nums, nprob>>
Pop == /\ Exit
       /\ pcs' = SubSeq(pcs, 1, Len(pcs) - 1)
       /\ UNCHANGED <<mode, nums, nprob>>

\* ---- top level
DriverBegin == /\ stack = <<>> /\ mode = "driver" /\ ictr["driver"] < MaxDrv
               /\ Push(DriverName, Num(ictr["driver"]), "driver", 0)
ModelBegin == /\ stack = <<>> /\ mode = "model" /\ ictr["sys:"] < MaxDrv
              /\ Push("root._solve_nonlinear", Num(ictr["sys:"]), "sys:", 0)
ProblemRecord == /\ stack = <<>> /\ nprob < MaxProb
                 /\ RecordProblem("final" \o ToString(nprob))
                 /\ nprob' = nprob + 1
                 /\ UNCHANGED <<pcs, mode, nums>>
\* ---- inside a driver iteration: root solve, then optionally _compute_totals, then the end of the iteration
DriverIter == /\ Len(stack) > 0 /\ Top.r = "driver"
              /\ \/ TopPc = 0 /\ Push("root._solve_nonlinear", Num(ictr["sys:"]), "sys:", 1)
                 \/ TopPc = 1 /\ Push("_compute_totals", 0, "", 2)
                 \/ TopPc \in {1, 2} /\ Pop
Totals == /\ Len(stack) > 0 /\ Top.n = "_compute_totals"
          /\ \/ TopPc = 0 /\ Push("root._solve_nonlinear", Num(ictr["sys:"]), "sys:", 1)      \* approximated totals
             \/ Pop
\* ---- a group solve: 1..max iterations of its nonlinear solver
RootSolve == /\ Len(stack) > 0 /\ Top.r = "sys:"
             /\ \/ TopPc < MaxSol /\ Push(RootNL, Num(TopPc), "nl:", TopPc + 1)
                \/ TopPc >= 1 /\ Pop
RootIter == /\ Len(stack) > 0 /\ Top.r = "nl:"
            /\ \/ TopPc = 0 /\ Push("s1._solve_nonlinear", Num(ictr["sys:s1"]), "sys:s1", 1)
               \/ TopPc = 1 /\ Push("s2._solve_nonlinear", Num(ictr["sys:s2"]), "sys:s2", 2)
               \/ TopPc = 2 /\ Push("_run_apply", 0, "", 3)
               \/ TopPc = 3 /\ Pop
RunApply == Len(stack) > 0 /\ Top.n = "_run_apply" /\ Pop
SubSolve == /\ Len(stack) > 0 /\ Top.r = "sys:s1"
            /\ \/ TopPc < MaxSub /\ Push(SubNL, Num(TopPc), "nl:s1", TopPc + 1)
               \/ TopPc >= 1 /\ Pop
SubIter == Len(stack) > 0 /\ Top.r = "nl:s1" /\ Pop
Leaf == Len(stack) > 0 /\ Top.r = "sys:s2" /\ Pop

Next == DriverBegin \/ ModelBegin \/ ProblemRecord \/ DriverIter \/ Totals \/ RootSolve \/ RootIter \/ RunApply
        \/ SubSolve \/ SubIter \/ Leaf

\* ---- the properties, on every file a reader can open between runs
Quiescent == stack = <<>>
TypeOK == /\ Len(pcs) = Len(stack) /\ Len(opened) = Len(stack) /\ norec \in 0..2
          /\ norec = Cardinality({k \in 1..Len(stack) : stack[k].n \in NoRecNames})
CounterOK == CounterIsIndex(log) /\ CounterMonotone(log) /\ counter = Len(log)
Unique == UniqueCoords(log)
NoRecRule == \A i \in 1..Len(log) : log[i].req \in attached          \* and nothing is recorded under a norec frame:
NoRecFrames == [][(Len(log') > Len(log)) => norec = 0]_vars
Order == Quiescent => OrderIsExecution(log)
Descendants == Quiescent => \A i \in 1..Len(log) : log[i].req # "problem" =>
                               RdFlatW(log, log[i].coord, WinAdj) = FlatAns(Coords(Desc(log, i)))
Sources == Quiescent => SourcesExact(log)
SourceLists == Quiescent => SourceListsExact(log)
\* the two places where the code is NOT what the property states (refuted by TLC; see c17.py):
Nested == Quiescent => NestedExact(log)
CoordPlain == Quiescent => CoordNoRecurse(log)

\* state space without the history in `log` would not be smaller (counter, ictr determine it), no VIEW needed
=============================================================================
