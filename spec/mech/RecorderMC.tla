----------------------------- MODULE RecorderMC -----------------------------
(***************************************************************************)
(* Exhaustive check of the reader's algorithms against the nesting         *)
(* semantics over every bounded run tree (C17, part a).                    *)
(*                                                                         *)
(* The run: [mode "driver": <= MaxDrv driver iterations, each one root     *)
(* solve, optionally followed by a _compute_totals frame that may contain  *)
(* a (not recorded) root solve - approximated totals] or [mode "model":    *)
(* <= MaxDrv run_model calls];  a root solve = 1..MaxSol iterations of the *)
(* root nonlinear solver (one under _compute_totals), each running         *)
(* subsystem s1 (a group with its own solver; 1..MaxSub iterations, the    *)
(* number fixed per run) and s2 (a component) and then a _run_apply frame; *)
(* Problem.record between runs.                                            *)
(* Iteration numbers are rendered through Nums, a strictly increasing      *)
(* sequence chosen in Init from NumSeqs (e.g. 0,1,10,11,12,100,...): a     *)
(* run whose counters pass through 1 and 10 contains these cases, so the   *)
(* decimal-prefix situation "|1" vs "|10" occurs at every level without    *)
(* enumerating ten iterations.                                             *)
(* The recorder is attached to a subset of the seven requesters; Init      *)
(* takes (attachment, mode, numbering) from Configs.  Properties are evaluated whenever the stack is   *)
(* empty (a reader opens the file between runs).                           *)
(***************************************************************************)
EXTENDS Recorder, Integers

CONSTANTS MaxDrv, MaxSol, MaxSub, MaxProb,
          Configs,        \* set of [att: set of requester labels, mode: "driver" | "model", nums: strictly increasing
                          \* sequence of naturals of length >= MaxDrv * MaxSol + 1]
          WinAdj,         \* 0 = the code; 1 / -1: the deliberately broken window (must be refuted)
          S1              \* name of the sub-group ("s1"; "rootsub": a name that merely STARTS with "root")
\* (Fix, the set of reader repairs assumed by the transcription, is a constant of Recorder.tla)

SYS1 == "sys:" \o S1
NL1 == "nl:" \o S1
Reqs == {"problem", "driver", "sys:", SYS1, "sys:s2", "nl:", NL1}

\* values for the configuration files (cfg files cannot hold tuples): CONSTANT Configs <- ConfigsQuick
MinusOne == -1                                        \* WinAdj <- MinusOne (cfg files have no negative numbers)
Plain == <<0, 1, 2, 3, 4, 5, 6, 7>>
Dec == <<1, 10, 11, 12, 100, 101, 110, 111>>          \* 1 | 10..12 | 100.. : every decimal-prefix collision
Nine == <<8, 9, 10, 11, 19, 20, 99, 100>>             \* 9 -> 10, 99 -> 100
Cfg(a, m, n) == [att |-> a, mode |-> m, nums |-> n]
ConfigsQuick == {Cfg(Reqs, "driver", Dec), Cfg(Reqs, "model", Nine),
                 Cfg({"driver", SYS1, NL1}, "driver", Dec),        \* root and its solver not recorded
                 Cfg({"driver", "nl:", "sys:s2"}, "driver", Nine),
                 Cfg({"sys:", "nl:", "problem"}, "model", Dec),
                 Cfg({"problem", NL1, "sys:s2"}, "driver", Plain),
                 Cfg({"driver", "sys:", SYS1, "sys:s2"}, "driver", Dec),
                 Cfg({"nl:", NL1}, "model", Dec)}
\* get_case(<int>) on files that hold problem cases, with and without driver cases
ConfigsIdx == {Cfg(Reqs, "driver", Dec), Cfg({"problem", "sys:", NL1}, "model", Plain), Cfg({"problem", "driver"}, "driver", Plain)}
ConfigsRefute == {Cfg({"driver", SYS1, NL1}, "driver", Dec), Cfg({"nl:", NL1}, "model", Dec)}
ConfigsAll == {Cfg(a, "driver", Dec) : a \in SUBSET Reqs \ {{}}}
              \cup {Cfg(a, "model", n) : a \in {Reqs, {"sys:", NL1}, {"nl:", SYS1, "problem"}}, n \in {Plain, Dec, Nine}}
              \cup {Cfg(a, "driver", n) : a \in {Reqs, {"driver", SYS1}, {"driver", NL1, "sys:s2"}}, n \in {Plain, Nine}}

VARIABLES pcs,      \* parallel to stack: progress of each open frame
          mode, nums, nsub, nprob
vars == <<rvars, pcs, mode, nums, nsub, nprob>>

Num(k) == nums[k + 1]
DriverName == "Driver"
RootNL == "NonlinearBlockGS"
SubNL == "NewtonSolver"

Init == /\ \E c \in Configs : RInit(c.att, Reqs) /\ mode = c.mode /\ nums = c.nums
        /\ pcs = <<>>
        /\ nsub \in 1..MaxSub          \* iterations of the sub-solver per solve of s1 (fixed for the run)
        /\ nprob = 0

Top == Last(stack)
TopPc == Last(pcs)
SetTopPc(v) == [pcs EXCEPT ![Len(pcs)] = v]
\* push a child: the parent's progress becomes ppc, the child starts at 0
Push(name, it, req, ppc) == /\ Enter(name, it, req)
                            /\ pcs' = Append(IF Len(pcs) = 0 THEN pcs ELSE SetTopPc(ppc), 0)
                            /\ UNCHANGED <<mode, nums, nsub, nprob>>
Pop == /\ Exit
       /\ pcs' = SubSeq(pcs, 1, Len(pcs) - 1)
       /\ UNCHANGED <<mode, nums, nsub, nprob>>

\* ---- top level
DriverBegin == /\ stack = <<>> /\ mode = "driver" /\ ictr["driver"] < MaxDrv
               /\ Push(DriverName, Num(ictr["driver"]), "driver", 0)
ModelBegin == /\ stack = <<>> /\ mode = "model" /\ ictr["sys:"] < MaxDrv
              /\ Push("root._solve_nonlinear", Num(ictr["sys:"]), "sys:", 0)
ProblemRecord == /\ stack = <<>> /\ nprob < MaxProb
                 /\ RecordProblem("final" \o ToString(nprob))
                 /\ nprob' = nprob + 1
                 /\ UNCHANGED <<pcs, mode, nums, nsub>>
\* ---- inside a driver iteration: root solve, then optionally _compute_totals, then the end of the iteration
DriverIter == /\ Len(stack) > 0 /\ Top.r = "driver"
              /\ \/ TopPc = 0 /\ Push("root._solve_nonlinear", Num(ictr["sys:"]), "sys:", 1)
                 \/ TopPc = 1 /\ Push("_compute_totals", 0, "", 2)
                 \/ TopPc \in {1, 2} /\ Pop
Totals == /\ Len(stack) > 0 /\ Top.n = "_compute_totals"
          /\ \/ TopPc = 0 /\ Push("root._solve_nonlinear", Num(ictr["sys:"]), "sys:", 1)      \* approximated totals
             \/ Pop
\* ---- a group solve: 1..max iterations of its nonlinear solver
RootSolve == /\ Len(stack) > 0 /\ Top.r = "sys:"
             /\ \/ TopPc < (IF norec > 0 THEN 1 ELSE MaxSol) /\ Push(RootNL, Num(TopPc), "nl:", TopPc + 1)
                \/ TopPc >= 1 /\ Pop
RootIter == /\ Len(stack) > 0 /\ Top.r = "nl:"
            /\ \/ TopPc = 0 /\ Push(S1 \o "._solve_nonlinear", Num(ictr[SYS1]), SYS1, 1)
               \/ TopPc = 1 /\ Push("s2._solve_nonlinear", Num(ictr["sys:s2"]), "sys:s2", 2)
               \/ TopPc = 2 /\ Push("_run_apply", 0, "", 3)
               \/ TopPc = 3 /\ Pop
RunApply == Len(stack) > 0 /\ Top.n = "_run_apply" /\ Pop
SubSolve == /\ Len(stack) > 0 /\ Top.r = SYS1
            /\ \/ TopPc < nsub /\ Push(SubNL, Num(TopPc), NL1, TopPc + 1)
               \/ TopPc = nsub /\ Pop
SubIter == Len(stack) > 0 /\ Top.r = NL1 /\ Pop
Leaf == Len(stack) > 0 /\ Top.r = "sys:s2" /\ Pop

Next == DriverBegin \/ ModelBegin \/ ProblemRecord \/ DriverIter \/ Totals \/ RootSolve \/ RootIter \/ RunApply
        \/ SubSolve \/ SubIter \/ Leaf

\* ---- the properties, on every file a reader can open between runs
Quiescent == stack = <<>>
TypeOK == /\ Len(pcs) = Len(stack) /\ Len(opened) = Len(stack) /\ norec \in 0..2
          /\ norec = Cardinality({k \in 1..Len(stack) : stack[k].n \in NoRecNames})
CounterOK == CounterIsIndex(log) /\ CounterMonotone(log) /\ counter = Len(log)
Unique == Quiescent => UniqueCoords(log)
NoRecRule == \A i \in 1..Len(log) : log[i].req \in attached          \* and nothing is recorded under a norec frame:
NoRecFrames == [][(Len(log') > Len(log)) => norec = 0]_vars
Order == Quiescent => OrderIsExecution(log)
Descendants == Quiescent => \A i \in 1..Len(log) : log[i].req # "problem" =>
                               RdFlatW(log, log[i].coord, WinAdj) = FlatAns(Coords(Desc(log, i)))
Sources == Quiescent => SourcesExact(log)
SourceLists == Quiescent => SourceListsExact(log)
\* get_case(i) for every index in and just outside the range (holds with Fix = {"getcase"}, refuted without)
Indexed == Quiescent => IndexedExact(log)
\* the two places where the code is NOT what the property states (refuted by TLC; see c17.py):
Nested == Quiescent => NestedExact(log)
CoordPlain == Quiescent => CoordNoRecurse(log)

\* state space without the history in `log` would not be smaller (counter, ictr determine it), no VIEW needed
=============================================================================
