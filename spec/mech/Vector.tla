------------------------------- MODULE Vector -------------------------------
(***************************************************************************)
(* OpenMDAO's vector (openmdao/vectors/vector.py, default_vector.py) as    *)
(* what it claims to be: a flat NumPy array plus a layout of named slices. *)
(* Property C33.  The specification IS the NumPy semantics of the          *)
(* operations, on exact rationals (Rat.tla):                               *)
(*                                                                         *)
(*   set_val(c) / set_val(arr) / set_val(c, idxs)   x[:] = c, x[idxs] = c  *)
(*   set_vec(v)            x[:] = v                                        *)
(*   x += v, x -= v, x *= c, x *= v (elementwise), x += c                  *)
(*   add_scal_vec(c, v)    x += c * v                                      *)
(*   x[name] = value, set_var(name, value, idxs, flat)                     *)
(*                         only the slice of `name` changes, C order       *)
(*   dot(v) = sum x_i v_i,  get_norm()^2 = dot(x, x)                       *)
(*   x[name]               the slice of `name`, reshaped                   *)
(*                                                                         *)
(* Scaling.  Every entry has an output scaling phys = a0 + a1 * norm       *)
(* (a0 = ref0, a1 = ref - ref0, a1 may be negative) and a residual scaling *)
(* phys = rr * norm (rr = res_ref).  Four kinds of root vector:            *)
(*   nl_out  nonlinear outputs     scaler a1, adder a0                     *)
(*   nl_res  nonlinear residuals   scaler rr, adder 0                      *)
(*   ln_out  linear outputs        scaler a1, no adder                     *)
(*   ln_res  linear residuals      scaler rr, no adder                     *)
(*   scale_to_norm('fwd'): x := (x - adder) / scaler                       *)
(*   scale_to_phys('fwd'): x := x * scaler + adder                         *)
(* In reverse mode a linear vector holds the DUAL quantity, which scales   *)
(* the other way round (what default_vector.py does):                      *)
(*   scale_to_norm('rev'): x := x * scaler                                 *)
(*   scale_to_phys('rev'): x := x / scaler                                 *)
(* ScaleRoundTrip: to_phys(mode) after to_norm(mode) is the identity, and  *)
(* the other way round.                                                    *)
(*                                                                         *)
(* Complex-step mode.  A vector allocated complex (`alloc`) stores TWO     *)
(* planes: x (real parts) and xi (imaginary parts).                        *)
(* Vector.set_complex_step_mode(active) only says which array the vector   *)
(* IS (the "visible array", what asarray() and x[name] return):            *)
(*   in the mode        the complex array   x + i xi                       *)
(*   out of the mode    the real array      x   (xi stays in the storage,  *)
(*                      hidden, and is seen again when the mode is         *)
(*                      switched on: the switch itself changes no data)    *)
(* Two classes of operation:                                               *)
(*  ARITHMETIC (+=, -=, *=, iadd/isub/imul with idxs, add_scal_vec, += c,  *)
(*   scale_to_norm/phys, a write through the array returned by x[name])    *)
(*   is the NumPy operation on the visible array, the operand being the    *)
(*   visible array of the other vector: complex arithmetic on both planes  *)
(*   in the mode; out of the mode the real plane only, xi untouched.       *)
(*  SET (set_val, set_vec, x[name] = v, set_var) is the NumPy assignment   *)
(*   storage[idxs] = value on the STORAGE in and out of the mode: the      *)
(*   addressed entries become the value, so their imaginary part becomes   *)
(*   that of the value - zero for real data.  For set_val / set_vec this   *)
(*   is documented in default_vector.py ("we use _data here specifically   *)
(*   so that imaginary part will get properly reset, e.g. when the array   *)
(*   is zeroed out"); for set_var / __setitem__ out of the mode the code   *)
(*   (vector.py: vinfo.view[idxs()] = value, vinfo.flat[..] = value.flat)  *)
(*   is the only definition and is transcribed here.                       *)
(* dot() and get_norm() are np.dot / np.linalg.norm of the visible arrays  *)
(* (code transcribed; the docstring of dot speaks of "the real parts", in  *)
(* the mode the code returns the bilinear complex product, which is what   *)
(* NumPy's dot is): dot = sum x_k v_k without conjugation, norm^2 =        *)
(* sum |x_k|^2.  Complex operands are only used in the mode (NumPy rejects *)
(* complex += into a real array).  The scaling factors are real, so the    *)
(* round trip and the dual pairing hold plane by plane.                    *)
(***************************************************************************)
EXTENDS Rat, Naturals, FiniteSets, TLC

Nd == INSTANCE NdIndex

CONSTANTS Layouts,     \* sequence of layout records (VectorMC)
          Depth,       \* bound on the length of a history
          DepthC,      \* the same for vectors that are allocated complex
          Record       \* TRUE: the history carries the observables after every action (export); FALSE: only the actions

Kinds == {"nl_out", "nl_res", "ln_out", "ln_res"}
\* a scalar operand is a pair <<re, im>> of rationals; complex operands exist in complex-step mode only
Re(c) == <<c, Zero>>
Scalars == {Re(R(-2)), Re(Zero), Re(R(3))}
CScalars == {<<R(1), R(2)>>, <<Zero, R(-1)>>}           \* 1+2j, -1j

\* ---- layout geometry ---------------------------------------------------------------------------------------------
RECURSIVE SizeTo(_, _)
SizeTo(vars, m) == IF m = 0 THEN 0 ELSE Nd!Size(vars[m].shape) + SizeTo(vars, m - 1)
Start(Ly, v) == SizeTo(Ly.vars, v - 1)                  \* 0-based start of variable v
VSize(Ly, v) == Nd!Size(Ly.vars[v].shape)
N(Ly) == SizeTo(Ly.vars, Len(Ly.vars))
InVar(Ly, v, p) == p > Start(Ly, v) /\ p <= Start(Ly, v) + VSize(Ly, v)       \* p is a 1-based position

\* ---- NumPy semantics on the flat data ----------------------------------------------------------------------------
Fill(n, c) == [i \in 1..n |-> c]
\* positions: sequence of 0-based positions (C order of the selection); vals: the values assigned, same length
Assign(x, pos, vals) ==
    [p \in 1..Len(x) |-> IF \E k \in 1..Len(pos) : pos[k] + 1 = p
                         THEN vals[CHOOSE k \in 1..Len(pos) : pos[k] + 1 = p /\ \A k2 \in (k + 1)..Len(pos) : pos[k2] + 1 # p]
                         ELSE x[p]]
VMul(u, v) == [i \in DOMAIN u |-> Mul(u[i], v[i])]
\* complex arrays are pairs <<real plane, imaginary plane>>
CFill(n, c) == <<Fill(n, c[1]), Fill(n, c[2])>>
CAddV(u, v) == <<VAdd(u[1], v[1]), VAdd(u[2], v[2])>>
CSubV(u, v) == <<VSub(u[1], v[1]), VSub(u[2], v[2])>>
CMulV(u, v) == <<[i \in DOMAIN u[1] |-> Sub(Mul(u[1][i], v[1][i]), Mul(u[2][i], v[2][i]))],
                 [i \in DOMAIN u[1] |-> Add(Mul(u[1][i], v[2][i]), Mul(u[2][i], v[1][i]))]>>
CScaleV(c, u) == <<[i \in DOMAIN u[1] |-> Sub(Mul(c[1], u[1][i]), Mul(c[2], u[2][i]))],
                   [i \in DOMAIN u[1] |-> Add(Mul(c[1], u[2][i]), Mul(c[2], u[1][i]))]>>
CAssign(u, pos, w) == <<Assign(u[1], pos, w[1]), Assign(u[2], pos, w[2])>>
CPick(u, pos) == <<[k \in 1..Len(pos) |-> u[1][pos[k] + 1]], [k \in 1..Len(pos) |-> u[2][pos[k] + 1]]>>
\* sum u_k v_k (as Dot of Rat.tla, written as a loop over the index: cheaper for TLC)
RECURSIVE DotTo(_, _, _)
DotTo(u, v, n) == IF n = 0 THEN Zero ELSE Add(DotTo(u, v, n - 1), Mul(u[n], v[n]))
VDot(u, v) == DotTo(u, v, Len(u))
\* np.dot of two complex arrays: bilinear, no conjugation
CDotP(ur, ui, vr, vi) == <<Sub(VDot(ur, vr), VDot(ui, vi)), Add(VDot(ur, vi), VDot(ui, vr))>>
CDot(u, v) == CDotP(u[1], u[2], v[1], v[2])
\* np.linalg.norm(u)^2 = sum |u_k|^2
CNorm2(u) == Add(VDot(u[1], u[1]), VDot(u[2], u[2]))
VarView(Ly, x, v) == [k \in 1..VSize(Ly, v) |-> x[Start(Ly, v) + k]]
AllViews(Ly, x) == [v \in 1..Len(Ly.vars) |-> VarView(Ly, x, v)]

\* ---- scaling -----------------------------------------------------------------------------------------------------
Scaler(Ly, kind) == IF kind \in {"nl_out", "ln_out"} THEN Ly.a1 ELSE Ly.rr
Adder(Ly, kind) == IF kind = "nl_out" THEN Ly.a0 ELSE Fill(N(Ly), Zero)
Linear(kind) == kind \in {"ln_out", "ln_res"}
ToNorm(Ly, kind, mode, x) ==
    IF mode = "fwd" THEN [i \in DOMAIN x |-> Div(Sub(x[i], Adder(Ly, kind)[i]), Scaler(Ly, kind)[i])]
    ELSE [i \in DOMAIN x |-> Mul(x[i], Scaler(Ly, kind)[i])]
ToPhys(Ly, kind, mode, x) ==
    IF mode = "fwd" THEN [i \in DOMAIN x |-> Add(Mul(x[i], Scaler(Ly, kind)[i]), Adder(Ly, kind)[i])]
    ELSE [i \in DOMAIN x |-> Div(x[i], Scaler(Ly, kind)[i])]
\* the scaling factors are real: in complex-step mode the imaginary plane is divided / multiplied by the scaler, the
\* adder acts on the real plane only
ToNormI(Ly, kind, mode, xi) ==
    IF mode = "fwd" THEN [i \in DOMAIN xi |-> Div(xi[i], Scaler(Ly, kind)[i])]
    ELSE [i \in DOMAIN xi |-> Mul(xi[i], Scaler(Ly, kind)[i])]
ToPhysI(Ly, kind, mode, xi) ==
    IF mode = "fwd" THEN [i \in DOMAIN xi |-> Mul(xi[i], Scaler(Ly, kind)[i])]
    ELSE [i \in DOMAIN xi |-> Div(xi[i], Scaler(Ly, kind)[i])]
ModesOf(kind) == IF Linear(kind) THEN {"fwd", "rev"} ELSE {"fwd"}

\* ---- numbers -----------------------------------------------------------------------------------------------------
X0(n) == [i \in 1..n |-> R(((i * 3) % 7) - 2)]         \* the vector under test starts as  1 4 0 3 -1 ...
Y0(n) == [i \in 1..n |-> R(((i * 2) % 5) - 2)]         \* the second vector                 0 2 -1 1 -2 ...
Arr(k, n) == IF k = 1 THEN [i \in 1..n |-> R(i)] ELSE [i \in 1..n |-> R(5 - 2 * i)]
XI0(n) == [i \in 1..n |-> R(((i * 5) % 7) - 3)]        \* imaginary planes left by an earlier complex step   2 0 -2 3 1 ...
YI0(n) == [i \in 1..n |-> R(((i * 4) % 5) - 2)]        \*                                                     2 1 0 -1 -2 ...
\* set_val(array): k = 1, 2 real arrays, k = 3 a complex array (complex-step mode only)
ArrC(k, n) == IF k = 3 THEN <<Arr(1, n), Arr(2, n)>> ELSE <<Arr(k, n), Fill(n, Zero)>>
\* magnitudes are kept small enough for TLC's 32-bit integers: products are only formed from tame vectors
Tame(x) == \A i \in DOMAIN x : Abs(x[i][1]) <= 1000 /\ x[i][2] <= 8
NoVal == <<0, 0>>

\* ---- the state machine -------------------------------------------------------------------------------------------
VARIABLES ly, kind,     \* layout index, vector kind (fixed along a behaviour)
          alloc,        \* the vectors are allocated complex (fixed along a behaviour)
          x, xi,        \* the storage of the vector under test: real plane, imaginary plane (all zero unless alloc)
          y, yi,        \* the storage of the second vector (never written)
          cs,           \* complex-step mode (of both vectors: a System switches all its vectors together)
          st,           \* "phys", "norm_fwd" or "norm_rev"
          fam,          \* the alphabet the history is drawn from (fixed along a behaviour): "all", "solver", "cs"/"cs2"
          hist
vars == <<ly, kind, alloc, x, xi, y, yi, cs, st, fam, hist>>

L == Layouts[ly]
ZeroV == TLCEval(Fill(Len(x), Zero))
\* the array the vector IS at the moment (asarray()): complex in the mode, the real plane out of it
VisOf(m, re, im) == IF m THEN <<re, im>> ELSE <<re, ZeroV>>
Vis == VisOf(cs, x, xi)
VisY == VisOf(cs, y, yi)
TameC(u) == Tame(u[1]) /\ Tame(u[2])

\* what the history records after an action: the action, the mode the vector is in after it and the storage (both
\* planes).  The observables the implementation is compared with (named views of both planes, dot / norm of the visible
\* arrays) are functions of these; Observables() derives them when a history is exported.
Obs(a, nx, nxi, m) == IF Record THEN [a |-> TLCEval(a), cs |-> m, data |-> nx, datai |-> nxi] ELSE [a |-> TLCEval(a)]
Observables(e) ==
    LET re == TLCEval(e.data)
        im == TLCEval(IF e.cs THEN e.datai ELSE ZeroV)
        yim == TLCEval(IF e.cs THEN yi ELSE ZeroV)
        tame == Tame(re) /\ Tame(im)
    IN
    [a |-> e.a, cs |-> e.cs, data |-> e.data, datai |-> e.datai, views |-> AllViews(L, e.data), viewsi |-> AllViews(L, e.datai),
     dot |-> IF tame THEN CDot(<<re, im>>, <<y, yim>>) ELSE <<NoVal, NoVal>>,
     dself |-> IF tame THEN CDot(<<re, im>>, <<re, im>>) ELSE <<NoVal, NoVal>>,
     nrm2 |-> IF tame THEN CNorm2(<<re, im>>) ELSE NoVal]

\* a vector that is allocated complex starts with the imaginary plane an earlier complex step has left in the storage
\* (the driver writes x0 + i xi0 in the mode) and may start in the mode
Init == /\ ly \in 1..Len(Layouts) /\ kind \in Kinds /\ alloc \in BOOLEAN
        /\ x = TLCEval(X0(N(Layouts[ly]))) /\ y = TLCEval(Y0(N(Layouts[ly])))
        /\ xi = TLCEval(IF alloc THEN XI0(N(Layouts[ly])) ELSE Fill(N(Layouts[ly]), Zero))
        /\ yi = TLCEval(IF alloc THEN YI0(N(Layouts[ly])) ELSE Fill(N(Layouts[ly]), Zero))
        /\ cs \in (IF alloc THEN BOOLEAN ELSE {FALSE})
        /\ st = "phys" /\ hist = <<>>
        /\ fam \in {"all", "solver", "cs", "cs2"}
        /\ (fam \in {"cs", "cs2"} => alloc) /\ (fam = "solver" => ~cs)
InitAll == Init /\ fam = "all"

Bound == Len(hist) < (IF alloc THEN DepthC ELSE Depth)
\* (TLCEval: the planes are evaluated once, not element by element every time a later expression looks at them)
Step(a, nx, nxi) == LET ex == TLCEval(nx)
                        exi == TLCEval(nxi)
                    IN /\ x' = ex /\ xi' = exi /\ hist' = Append(hist, Obs(a, ex, exi, cs))
                       /\ UNCHANGED <<ly, kind, alloc, y, yi, cs, st, fam>>
\* SET: NumPy assignment on the storage - w is the complex array the storage becomes
StepSet(a, w) == LET ew == TLCEval(w) IN Step(a, ew[1], ew[2])
\* ARITHMETIC: NumPy in-place operation on the visible array - w is the complex array the visible array becomes; out of
\* the mode everything is real (w[2] is zero) and the hidden imaginary plane stays
StepArith(a, w) == LET ew == TLCEval(w) IN Step(a, ew[1], IF cs THEN ew[2] ELSE xi)
Other(src) == IF src = "self" THEN Vis ELSE VisY
Sto == <<x, xi>>
\* operands: real ones always, complex ones in the mode
ScalarsNow == Scalars \cup (IF cs THEN CScalars ELSE {})
OkScalar(c) == c[2] = Zero \/ cs

SetValScalar(c) == Bound /\ OkScalar(c) /\ StepSet([n |-> "set_val", c |-> c[1], ci |-> c[2]], CFill(Len(x), c))
SetValArr(k) == Bound /\ (k = 3 => cs)
                /\ StepSet([n |-> "set_val_arr", arr |-> TLCEval(ArrC(k, Len(x))[1]), arri |-> TLCEval(ArrC(k, Len(x))[2])], ArrC(k, Len(x)))
SetValIdx(ix, c) ==
    /\ Bound /\ OkScalar(c) /\ Nd!Valid(ix, <<Len(x)>>, TRUE)
    /\ LET pos == Nd!Positions(ix, <<Len(x)>>, TRUE)
       IN StepSet([n |-> "set_val_idx", idx |-> ix, c |-> c[1], ci |-> c[2]], CAssign(Sto, pos, CFill(Len(pos), c)))
\* set_vec(v) is set_val(v.asarray()): the storage becomes the visible array of v (out of the mode: a real array, so
\* x.set_vec(x) clears the hidden plane)
SetVec(src) == Bound /\ StepSet([n |-> "set_vec", src |-> src], Other(src))
IAdd(src) == Bound /\ TameC(Sto) /\ StepArith([n |-> "iadd", src |-> src], CAddV(Vis, Other(src)))
ISub(src) == Bound /\ TameC(Sto) /\ StepArith([n |-> "isub", src |-> src], CSubV(Vis, Other(src)))
IAddConst(c) == Bound /\ OkScalar(c) /\ TameC(Sto) /\ StepArith([n |-> "iadd_const", c |-> c[1], ci |-> c[2]], CAddV(Vis, CFill(Len(x), c)))
IMul(c) == Bound /\ OkScalar(c) /\ TameC(Sto) /\ StepArith([n |-> "imul", c |-> c[1], ci |-> c[2]], CScaleV(c, Vis))
IMulVec == Bound /\ TameC(Sto) /\ StepArith([n |-> "imul_vec", src |-> "y"], CMulV(Vis, VisY))
AddScalVec(c, src) == Bound /\ OkScalar(c) /\ TameC(Sto)
                      /\ StepArith([n |-> "add_scal_vec", src |-> src, c |-> c[1], ci |-> c[2]], CAddV(Vis, CScaleV(c, Other(src))))
\* iadd / isub / imul restricted to `idxs` (a flat NumPy index): only the addressed entries change
OpIdx(op, ix, c) ==
    /\ Bound /\ OkScalar(c) /\ TameC(Sto) /\ Nd!Valid(ix, <<Len(x)>>, TRUE)
    /\ LET pos == Nd!Positions(ix, <<Len(x)>>, TRUE)
           old == TLCEval(CPick(Vis, pos))
           cc == TLCEval(CFill(Len(pos), c))
           new == CASE op = "iadd" -> CAddV(old, cc)
                    [] op = "isub" -> CSubV(old, cc)
                    [] OTHER -> CMulV(old, cc)
       IN StepArith([n |-> "op_idx", op |-> op, idx |-> ix, c |-> c[1], ci |-> c[2]], CAssign(Vis, pos, new))

\* Vector.set_complex_step_mode: changes which array the vector is, never the storage
CsSwitch(on) ==
    /\ Bound /\ alloc /\ cs # on
    /\ cs' = on
    /\ hist' = Append(hist, Obs([n |-> "cs_mode", on |-> on], x, xi, on))
    /\ UNCHANGED <<ly, kind, alloc, x, xi, y, yi, st, fam>>

NVars == 3          \* every layout has three variables
FlatIdx == {Nd!IntT(0), Nd!IntT(-1), Nd!SliceT(1, 3, Nd!NoneV), Nd!SliceT(Nd!NoneV, Nd!NoneV, 2), Nd!ArrT(<<2, 0>>)}
Idx1 == {<<Nd!IntT(0), FALSE>>, <<Nd!IntT(-1), FALSE>>, <<Nd!SliceT(Nd!NoneV, Nd!NoneV, -1), FALSE>>, <<Nd!ArrT(<<0>>), TRUE>>}
Idx2 == {<<Nd!TupT(<<Nd!IntT(-1), Nd!IntT(0)>>), FALSE>>, <<Nd!TupT(<<Nd!FullSlice, Nd!IntT(0)>>), FALSE>>,
         <<Nd!TupT(<<Nd!IntT(0), Nd!FullSlice>>), FALSE>>, <<Nd!IntT(1), TRUE>>, <<Nd!IntT(-1), TRUE>>}
AllVarIdx == Idx1 \cup Idx2
VarIdx(v) == IF Len(L.vars[v].shape) = 1 THEN Idx1 ELSE Idx2

\* named writes: whole variable (scalar broadcast or an array of the variable's shape; cplx: a complex value, in the mode
\* only), through __setitem__ (SET: the storage of the variable becomes the value, imaginary part included) or through
\* the array returned by __getitem__ (which must be a view of the visible array: out of the mode the real plane only)
SetName(v, via, whole, cplx) ==
    /\ Bound /\ (cplx => cs)
    /\ LET n == VSize(L, v)
           vals == IF whole = "scalar" THEN Fill(n, R(7)) ELSE [k \in 1..n |-> R(10 * v + k)]
           valsi == IF ~cplx THEN Fill(n, Zero) ELSE IF whole = "scalar" THEN Fill(n, R(-3)) ELSE [k \in 1..n |-> R(k)]
           pos == [k \in 1..n |-> Start(L, v) + k - 1]
           a == [n |-> "set_name", var |-> v, via |-> via, whole |-> whole, vals |-> TLCEval(vals), valsi |-> TLCEval(valsi)]
       IN IF via = "setitem" THEN StepSet(a, CAssign(Sto, pos, <<vals, valsi>>))
          ELSE StepArith(a, CAssign(Vis, pos, <<vals, valsi>>))
\* set_var(name, c, idxs, flat): NumPy index into the variable (its shape, or flattened); a SET
SetVarIdx(v, ix, flat, cplx) ==
    /\ Bound /\ (cplx => cs) /\ <<ix, flat>> \in VarIdx(v) /\ Nd!Valid(ix, L.vars[v].shape, flat)
    /\ LET pos == Nd!Positions(ix, L.vars[v].shape, flat)
           gpos == [k \in 1..Len(pos) |-> Start(L, v) + pos[k]]
           c == <<R(9), IF cplx THEN R(4) ELSE Zero>>
       IN /\ Len(pos) > 0
          /\ StepSet([n |-> "set_var", var |-> v, idx |-> ix, flat |-> flat, c |-> c[1], ci |-> c[2]], CAssign(Sto, gpos, CFill(Len(pos), c)))

StMode == IF st = "norm_rev" THEN "rev" ELSE "fwd"
\* scaling is arithmetic on the visible array with real factors
ScaleToNorm(mode) ==
    /\ Bound /\ TameC(Sto) /\ st = "phys" /\ mode \in ModesOf(kind)
    /\ st' = IF mode = "fwd" THEN "norm_fwd" ELSE "norm_rev"
    /\ x' = TLCEval(ToNorm(L, kind, mode, x))
    /\ xi' = IF cs THEN TLCEval(ToNormI(L, kind, mode, xi)) ELSE xi
    /\ hist' = Append(hist, Obs([n |-> "scale_to_norm", mode |-> mode], x', xi', cs))
    /\ UNCHANGED <<ly, kind, alloc, y, yi, cs, fam>>
ScaleToPhys ==
    /\ Bound /\ TameC(Sto) /\ st # "phys"
    /\ st' = "phys"
    /\ x' = TLCEval(ToPhys(L, kind, StMode, x))
    /\ xi' = IF cs THEN TLCEval(ToPhysI(L, kind, StMode, xi)) ELSE xi
    /\ hist' = Append(hist, Obs([n |-> "scale_to_phys", mode |-> StMode], x', xi', cs))
    /\ UNCHANGED <<ly, kind, alloc, y, yi, cs, fam>>

\* Three alphabets (variable fam, fixed along a behaviour).  The guard is placed inside every disjunct so that TLC sees one
\* action per disjunct (the simulator draws an action first, then one of its successors).
\* family "all": every action with every operand
FamA == fam = "all"
NextAll == \/ \E c \in ScalarsNow : FamA /\ SetValScalar(c)
           \/ \E k \in 1..3 : FamA /\ SetValArr(k)
           \/ \E ix \in FlatIdx, c \in {Re(R(7)), <<R(7), R(-5)>>} : FamA /\ SetValIdx(ix, c)
           \/ \E src \in {"y", "self"} : FamA /\ SetVec(src)
           \/ \E src \in {"y", "self"} : FamA /\ (IAdd(src) \/ ISub(src))
           \/ \E c \in {Re(R(3)), <<R(3), R(1)>>} : FamA /\ IAddConst(c)
           \/ \E c \in ScalarsNow : FamA /\ IMul(c)
           \/ \E op \in {"iadd", "isub", "imul"}, ix \in FlatIdx, c \in {Re(R(-2)), Re(R(3)), <<R(1), R(2)>>} : FamA /\ OpIdx(op, ix, c)
           \/ FamA /\ IMulVec
           \/ \E c \in ScalarsNow, src \in {"y", "self"} : FamA /\ AddScalVec(c, src)
           \/ \E v \in 1..NVars, via \in {"setitem", "view"}, whole \in {"scalar", "array"}, cplx \in BOOLEAN : FamA /\ SetName(v, via, whole, cplx)
           \/ \E v \in 1..NVars, p \in AllVarIdx, cplx \in BOOLEAN : FamA /\ SetVarIdx(v, p[1], p[2], cplx)
           \/ \E mode \in {"fwd", "rev"} : FamA /\ ScaleToNorm(mode)
           \/ FamA /\ ScaleToPhys
           \/ \E on \in BOOLEAN : FamA /\ CsSwitch(on)

\* the sub-alphabet a solver uses around a scaling (family "solver", a subset of the actions of NextAll); random
\* histories over it cross the phys/norm boundary in both directions often
InPhys == st = "phys"
InNorm == st # "phys"
FamS == fam = "solver"
NextSolver == \/ \E k \in 1..2 : FamS /\ InPhys /\ SetValArr(k)
              \/ FamS /\ InPhys /\ IAdd("y")
              \/ FamS /\ InPhys /\ ISub("y")
              \/ \E c \in {Re(R(-2)), Re(R(3))} : FamS /\ InPhys /\ IMul(c)
              \/ \E v \in 1..NVars : FamS /\ InPhys /\ SetName(v, "setitem", "array", FALSE)
              \/ \E mode \in {"fwd", "rev"} : FamS /\ ScaleToNorm(mode)
              \/ FamS /\ InNorm /\ IAdd("y")
              \/ FamS /\ InNorm /\ IMul(Re(R(3)))
              \/ FamS /\ InNorm /\ AddScalVec(Re(R(-2)), "y")
              \/ FamS /\ InNorm /\ SetName(3, "view", "scalar", FALSE)
              \/ FamS /\ ScaleToPhys

\* the sub-alphabet of a complex step (families "cs", "cs2", a subset of the actions of NextAll): the mode is switched
\* on and off, complex values are written and combined in the mode, real data are set / combined out of it while the
\* imaginary plane of the last step is still in the storage
FamC == fam \in {"cs", "cs2"}
NextCS == \/ \E on \in BOOLEAN : FamC /\ CsSwitch(on)
          \/ FamC /\ cs /\ SetValArr(3)
          \/ cs /\ \E c \in CScalars : FamC /\ (SetValScalar(c) \/ IMul(c) \/ AddScalVec(c, "y"))
          \/ cs /\ \E ix \in FlatIdx : FamC /\ (SetValIdx(ix, <<R(7), R(-5)>>) \/ OpIdx("imul", ix, <<R(1), R(2)>>) \/ OpIdx("iadd", ix, <<R(1), R(2)>>))
          \/ FamC /\ cs /\ IAddConst(<<R(3), R(1)>>)
          \/ cs /\ \E v \in 1..NVars, via \in {"setitem", "view"}, whole \in {"scalar", "array"} : FamC /\ SetName(v, via, whole, TRUE)
          \/ cs /\ \E v \in 1..NVars, p \in AllVarIdx : FamC /\ SetVarIdx(v, p[1], p[2], TRUE)
          \/ FamC /\ IMulVec
          \/ \E src \in {"y", "self"} : FamC /\ (IAdd(src) \/ ISub(src) \/ SetVec(src))
          \/ \E k \in 1..2 : FamC /\ SetValArr(k)
          \/ FamC /\ SetValScalar(Re(Zero))
          \/ \E ix \in FlatIdx : FamC /\ (SetValIdx(ix, Re(R(7))) \/ OpIdx("imul", ix, Re(R(3))))
          \/ FamC /\ (IMul(Re(R(3))) \/ IAddConst(Re(R(3))) \/ AddScalVec(Re(R(-2)), "y"))
          \/ \E v \in 1..NVars, via \in {"setitem", "view"}, whole \in {"scalar", "array"} : FamC /\ SetName(v, via, whole, FALSE)
          \/ \E v \in 1..NVars, p \in AllVarIdx : FamC /\ SetVarIdx(v, p[1], p[2], FALSE)
          \/ \E mode \in {"fwd", "rev"} : FamC /\ ScaleToNorm(mode)
          \/ FamC /\ ScaleToPhys

Next == NextAll \/ NextSolver \/ NextCS

Spec == Init /\ [][Next]_vars

\* ---- properties --------------------------------------------------------------------------------------------------
TypeOK == /\ Len(x) = N(L) /\ Len(y) = N(L) /\ Len(xi) = N(L) /\ Len(yi) = N(L)
          /\ \A i \in DOMAIN x : IsRat(x[i]) /\ IsRat(xi[i])
          /\ (cs => alloc)
          /\ (~alloc => xi = ZeroV /\ yi = ZeroV)
LayoutOK(Ly) == /\ Len(Ly.vars) = NVars /\ Len(Ly.a0) = N(Ly) /\ Len(Ly.a1) = N(Ly) /\ Len(Ly.rr) = N(Ly)
                /\ \A i \in 1..N(Ly) : Ly.a1[i] # Zero /\ Ly.rr[i] # Zero
\* the named views tile the data: concatenated in layout order they ARE the data (both planes)
RECURSIVE Concat(_, _)
Concat(ss, m) == IF m = 0 THEN <<>> ELSE Concat(ss, m - 1) \o ss[m]
ViewsTile == Concat(AllViews(L, x), Len(L.vars)) = x /\ Concat(AllViews(L, xi), Len(L.vars)) = xi
\* scaling to solver units and back returns the original data, in every mode the kind has, and the other way round;
\* in complex-step mode for both planes
ScaleRoundTrip == TameC(Sto) => \A mode \in ModesOf(kind) : /\ ToPhys(L, kind, mode, TLCEval(ToNorm(L, kind, mode, x))) = x
                                                              /\ ToNorm(L, kind, mode, TLCEval(ToPhys(L, kind, mode, x))) = x
                                                              /\ alloc => /\ ToPhysI(L, kind, mode, TLCEval(ToNormI(L, kind, mode, xi))) = xi
                                                                          /\ ToNormI(L, kind, mode, TLCEval(ToPhysI(L, kind, mode, xi))) = xi
\* the reverse-mode scaling is the dual of the forward one: the pairing of a primal and a dual vector does not depend
\* on the units it is taken in (the pairing is dot(): of the real arrays out of complex-step mode, the complex bilinear
\* one in the mode)
DualPairing == TameC(Sto) /\ Linear(kind) =>
                   LET nx == TLCEval(ToNorm(L, kind, "fwd", x))
                       ny == TLCEval(ToNorm(L, kind, "rev", y))
                   IN IF ~cs THEN VDot(nx, ny) = VDot(x, y)
                      ELSE CDotP(nx, TLCEval(ToNormI(L, kind, "fwd", xi)), ny, TLCEval(ToNormI(L, kind, "rev", yi))) = CDotP(x, xi, y, yi)
\* a named write changes nothing outside the variable's slice, in either plane
NamedWriteFrame ==
    [][\A v \in 1..Len(L.vars) :
          (Len(hist') > Len(hist) /\ hist'[Len(hist')].a.n \in {"set_name", "set_var"} /\ hist'[Len(hist')].a.var = v)
              => \A p \in 1..Len(x) : ~InVar(L, v, p) => x'[p] = x[p] /\ xi'[p] = xi[p]]_vars
\* norm^2 of the visible array is non-negative and zero only for the zero array; out of the mode it is dot(x, x)
NormLaw == TameC(Sto) => LET n2 == IF cs THEN Add(VDot(x, x), VDot(xi, xi)) ELSE VDot(x, x)
                         IN /\ Ge(n2, Zero)
                            /\ (n2 = Zero <=> \A i \in DOMAIN x : x[i] = Zero /\ (cs => xi[i] = Zero))
                            /\ n2 = CNorm2(Vis)
                            /\ (~cs => CDot(Vis, Vis) = <<n2, Zero>>)
\* the second vector is never written
OtherUntouched == [][y' = y /\ yi' = yi]_vars
\* out of complex-step mode the hidden imaginary plane is changed by SET operations only, and only to zero (real data
\* are assigned); switching the mode never changes the storage
HiddenPlane ==
    [][(~cs /\ Len(hist') > Len(hist)) =>
          LET a == hist'[Len(hist')].a
          IN /\ (a.n \notin {"set_val", "set_val_arr", "set_val_idx", "set_vec", "set_name", "set_var"} => xi' = xi)
             /\ \A p \in 1..Len(x) : xi'[p] = xi[p] \/ xi'[p] = Zero]_vars
ModeSwitchFrame == [][cs' # cs => x' = x /\ xi' = xi]_vars
\* a vector that is not allocated complex never has an imaginary part (TypeOK) and is never in the mode

View == <<ly, kind, alloc, x, xi, cs, st, Len(hist)>>
=============================================================================
