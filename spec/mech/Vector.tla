------------------------------- MODULE Vector -------------------------------
(***************************************************************************)
(* OpenMDAO's vector (openmdao/vectors/vector.py, default_vector.py) as    *)
(* what it claims to be: a flat NumPy array plus a layout of named slices. *)
(* Property C33.  The specification IS the NumPy semantics of the          *)
(* operations, on exact rationals (Rat.tla):                               *)
(*                                                                         *)
(*   set_val(c) / set_val(arr) / set_val(c, idxs)   x[:] = c, x[idxs] = c  *)
(*   set_vec(v)            x[:] = v                                        *)
(*   x += v, x -= v, x *= c, x *= v (elementwise), x += c                  *)
(*   add_scal_vec(c, v)    x += c * v                                      *)
(*   x[name] = value, set_var(name, value, idxs, flat)                     *)
(*                         only the slice of `name` changes, C order       *)
(*   dot(v) = sum x_i v_i,  get_norm()^2 = dot(x, x)                       *)
(*   x[name]               the slice of `name`, reshaped                   *)
(*                                                                         *)
(* Scaling.  Every entry has an output scaling phys = a0 + a1 * norm       *)
(* (a0 = ref0, a1 = ref - ref0, a1 may be negative) and a residual scaling *)
(* phys = rr * norm (rr = res_ref).  Four kinds of root vector:            *)
(*   nl_out  nonlinear outputs     scaler a1, adder a0                     *)
(*   nl_res  nonlinear residuals   scaler rr, adder 0                      *)
(*   ln_out  linear outputs        scaler a1, no adder                     *)
(*   ln_res  linear residuals      scaler rr, no adder                     *)
(*   scale_to_norm('fwd'): x := (x - adder) / scaler                       *)
(*   scale_to_phys('fwd'): x := x * scaler + adder                         *)
(* In reverse mode a linear vector holds the DUAL quantity, which scales   *)
(* the other way round (what default_vector.py does):                      *)
(*   scale_to_norm('rev'): x := x * scaler                                 *)
(*   scale_to_phys('rev'): x := x / scaler                                 *)
(* ScaleRoundTrip: to_phys(mode) after to_norm(mode) is the identity, and  *)
(* the other way round.                                                    *)
(***************************************************************************)
EXTENDS Rat, Naturals, FiniteSets, TLC

Nd == INSTANCE NdIndex

CONSTANTS Layouts,     \* sequence of layout records (VectorMC)
          Depth,       \* bound on the length of a history
          Record       \* TRUE: the history carries the observables after every action (export); FALSE: only the actions

Kinds == {"nl_out", "nl_res", "ln_out", "ln_res"}
Scalars == {R(-2), Zero, R(3)}

\* ---- layout geometry ---------------------------------------------------------------------------------------------
RECURSIVE SizeTo(_, _)
SizeTo(vars, m) == IF m = 0 THEN 0 ELSE Nd!Size(vars[m].shape) + SizeTo(vars, m - 1)
Start(Ly, v) == SizeTo(Ly.vars, v - 1)                  \* 0-based start of variable v
VSize(Ly, v) == Nd!Size(Ly.vars[v].shape)
N(Ly) == SizeTo(Ly.vars, Len(Ly.vars))
InVar(Ly, v, p) == p > Start(Ly, v) /\ p <= Start(Ly, v) + VSize(Ly, v)       \* p is a 1-based position

\* ---- NumPy semantics on the flat data ----------------------------------------------------------------------------
Fill(n, c) == [i \in 1..n |-> c]
\* positions: sequence of 0-based positions (C order of the selection); vals: the values assigned, same length
Assign(x, pos, vals) ==
    [p \in 1..Len(x) |-> IF \E k \in 1..Len(pos) : pos[k] + 1 = p
                         THEN vals[CHOOSE k \in 1..Len(pos) : pos[k] + 1 = p /\ \A k2 \in (k + 1)..Len(pos) : pos[k2] + 1 # p]
                         ELSE x[p]]
VMul(u, v) == [i \in DOMAIN u |-> Mul(u[i], v[i])]
VarView(Ly, x, v) == [k \in 1..VSize(Ly, v) |-> x[Start(Ly, v) + k]]
AllViews(Ly, x) == [v \in 1..Len(Ly.vars) |-> VarView(Ly, x, v)]

\* ---- scaling -----------------------------------------------------------------------------------------------------
Scaler(Ly, kind) == IF kind \in {"nl_out", "ln_out"} THEN Ly.a1 ELSE Ly.rr
Adder(Ly, kind) == IF kind = "nl_out" THEN Ly.a0 ELSE Fill(N(Ly), Zero)
Linear(kind) == kind \in {"ln_out", "ln_res"}
ToNorm(Ly, kind, mode, x) ==
    IF mode = "fwd" THEN [i \in DOMAIN x |-> Div(Sub(x[i], Adder(Ly, kind)[i]), Scaler(Ly, kind)[i])]
    ELSE [i \in DOMAIN x |-> Mul(x[i], Scaler(Ly, kind)[i])]
ToPhys(Ly, kind, mode, x) ==
    IF mode = "fwd" THEN [i \in DOMAIN x |-> Add(Mul(x[i], Scaler(Ly, kind)[i]), Adder(Ly, kind)[i])]
    ELSE [i \in DOMAIN x |-> Div(x[i], Scaler(Ly, kind)[i])]
ModesOf(kind) == IF Linear(kind) THEN {"fwd", "rev"} ELSE {"fwd"}

\* ---- numbers -----------------------------------------------------------------------------------------------------
X0(n) == [i \in 1..n |-> R(((i * 3) % 7) - 2)]         \* the vector under test starts as  1 4 0 3 -1 ...
Y0(n) == [i \in 1..n |-> R(((i * 2) % 5) - 2)]         \* the second vector                 0 2 -1 1 -2 ...
Arr(k, n) == IF k = 1 THEN [i \in 1..n |-> R(i)] ELSE [i \in 1..n |-> R(5 - 2 * i)]
\* magnitudes are kept small enough for TLC's 32-bit integers: products are only formed from tame vectors
Tame(x) == \A i \in DOMAIN x : Abs(x[i][1]) <= 1000 /\ x[i][2] <= 8
NoVal == <<0, 0>>

\* ---- the state machine -------------------------------------------------------------------------------------------
VARIABLES ly, kind,     \* layout index, vector kind (fixed along a behaviour)
          x,            \* the flat data of the vector under test
          y,            \* the flat data of the second vector (never written)
          st,           \* "phys", "norm_fwd" or "norm_rev"
          hist
vars == <<ly, kind, x, y, st, hist>>

L == Layouts[ly]

Obs(a, nx) == IF Record
              THEN [a |-> a, data |-> nx, views |-> AllViews(L, nx),
                    dot |-> IF Tame(nx) THEN Dot(nx, y) ELSE NoVal,
                    nrm2 |-> IF Tame(nx) THEN Dot(nx, nx) ELSE NoVal]
              ELSE [a |-> a]

Init == /\ ly \in 1..Len(Layouts) /\ kind \in Kinds
        /\ x = X0(N(Layouts[ly])) /\ y = Y0(N(Layouts[ly]))
        /\ st = "phys" /\ hist = <<>>

Bound == Len(hist) < Depth
Step(a, nx) == /\ x' = nx /\ hist' = Append(hist, Obs(a, nx)) /\ UNCHANGED <<ly, kind, y, st>>
Other(src) == IF src = "self" THEN x ELSE y

SetValScalar(c) == Bound /\ Step([n |-> "set_val", c |-> c], Fill(Len(x), c))
SetValArr(k) == Bound /\ Step([n |-> "set_val_arr", arr |-> Arr(k, Len(x))], Arr(k, Len(x)))
SetValIdx(ix, c) ==
    /\ Bound /\ Nd!Valid(ix, <<Len(x)>>, TRUE)
    /\ LET pos == Nd!Positions(ix, <<Len(x)>>, TRUE)
       IN Step([n |-> "set_val_idx", idx |-> ix, c |-> c], Assign(x, pos, Fill(Len(pos), c)))
SetVec(src) == Bound /\ Step([n |-> "set_vec", src |-> src], Other(src))
IAdd(src) == Bound /\ Tame(x) /\ Step([n |-> "iadd", src |-> src], VAdd(x, Other(src)))
ISub(src) == Bound /\ Tame(x) /\ Step([n |-> "isub", src |-> src], VSub(x, Other(src)))
IAddConst(c) == Bound /\ Tame(x) /\ Step([n |-> "iadd_const", c |-> c], [i \in DOMAIN x |-> Add(x[i], c)])
IMul(c) == Bound /\ Tame(x) /\ Step([n |-> "imul", c |-> c], VScale(c, x))
IMulVec == Bound /\ Tame(x) /\ Step([n |-> "imul_vec", src |-> "y"], VMul(x, y))
AddScalVec(c, src) == Bound /\ Tame(x) /\ Step([n |-> "add_scal_vec", c |-> c, src |-> src], VAdd(x, VScale(c, Other(src))))
\* iadd / isub / imul restricted to `idxs` (a flat NumPy index): only the addressed entries change
OpIdx(op, ix, c) ==
    /\ Bound /\ Tame(x) /\ Nd!Valid(ix, <<Len(x)>>, TRUE)
    /\ LET pos == Nd!Positions(ix, <<Len(x)>>, TRUE)
           new == [k \in 1..Len(pos) |-> CASE op = "iadd" -> Add(x[pos[k] + 1], c)
                                            [] op = "isub" -> Sub(x[pos[k] + 1], c)
                                            [] OTHER -> Mul(x[pos[k] + 1], c)]
       IN Step([n |-> "op_idx", op |-> op, idx |-> ix, c |-> c], Assign(x, pos, new))

NVars == 3          \* every layout has three variables
FlatIdx == {Nd!IntT(0), Nd!IntT(-1), Nd!SliceT(1, 3, Nd!NoneV), Nd!SliceT(Nd!NoneV, Nd!NoneV, 2), Nd!ArrT(<<2, 0>>)}
Idx1 == {<<Nd!IntT(0), FALSE>>, <<Nd!IntT(-1), FALSE>>, <<Nd!SliceT(Nd!NoneV, Nd!NoneV, -1), FALSE>>, <<Nd!ArrT(<<0>>), TRUE>>}
Idx2 == {<<Nd!TupT(<<Nd!IntT(-1), Nd!IntT(0)>>), FALSE>>, <<Nd!TupT(<<Nd!FullSlice, Nd!IntT(0)>>), FALSE>>,
         <<Nd!TupT(<<Nd!IntT(0), Nd!FullSlice>>), FALSE>>, <<Nd!IntT(1), TRUE>>, <<Nd!IntT(-1), TRUE>>}
AllVarIdx == Idx1 \cup Idx2
VarIdx(v) == IF Len(L.vars[v].shape) = 1 THEN Idx1 ELSE Idx2

\* named writes: whole variable (scalar broadcast or an array of the variable's shape), through __setitem__ or through
\* the array returned by __getitem__ (which must be a view of the data)
SetName(v, via, whole) ==
    /\ Bound
    /\ LET n == VSize(L, v)
           vals == IF whole = "scalar" THEN Fill(n, R(7)) ELSE [k \in 1..n |-> R(10 * v + k)]
           pos == [k \in 1..n |-> Start(L, v) + k - 1]
       IN Step([n |-> "set_name", var |-> v, via |-> via, whole |-> whole, vals |-> vals], Assign(x, pos, vals))
\* set_var(name, c, idxs, flat): NumPy index into the variable (its shape, or flattened)
SetVarIdx(v, ix, flat) ==
    /\ Bound /\ <<ix, flat>> \in VarIdx(v) /\ Nd!Valid(ix, L.vars[v].shape, flat)
    /\ LET pos == Nd!Positions(ix, L.vars[v].shape, flat)
           gpos == [k \in 1..Len(pos) |-> Start(L, v) + pos[k]]
       IN /\ Len(pos) > 0
          /\ Step([n |-> "set_var", var |-> v, idx |-> ix, flat |-> flat, c |-> R(9)], Assign(x, gpos, Fill(Len(pos), R(9))))

StMode == IF st = "norm_rev" THEN "rev" ELSE "fwd"
ScaleToNorm(mode) ==
    /\ Bound /\ Tame(x) /\ st = "phys" /\ mode \in ModesOf(kind)
    /\ st' = IF mode = "fwd" THEN "norm_fwd" ELSE "norm_rev"
    /\ x' = ToNorm(L, kind, mode, x)
    /\ hist' = Append(hist, Obs([n |-> "scale_to_norm", mode |-> mode], x'))
    /\ UNCHANGED <<ly, kind, y>>
ScaleToPhys ==
    /\ Bound /\ Tame(x) /\ st # "phys"
    /\ st' = "phys"
    /\ x' = ToPhys(L, kind, StMode, x)
    /\ hist' = Append(hist, Obs([n |-> "scale_to_phys", mode |-> StMode], x'))
    /\ UNCHANGED <<ly, kind, y>>

Next == \/ \E c \in Scalars : SetValScalar(c)
        \/ \E k \in 1..2 : SetValArr(k)
        \/ \E ix \in FlatIdx : SetValIdx(ix, R(7))
        \/ SetVec("y")
        \/ \E src \in {"y", "self"} : IAdd(src) \/ ISub(src)
        \/ IAddConst(R(3))
        \/ \E c \in Scalars : IMul(c)
        \/ \E op \in {"iadd", "isub", "imul"}, ix \in FlatIdx, c \in {R(-2), R(3)} : OpIdx(op, ix, c)
        \/ IMulVec
        \/ \E c \in Scalars, src \in {"y", "self"} : AddScalVec(c, src)
        \/ \E v \in 1..NVars, via \in {"setitem", "view"}, whole \in {"scalar", "array"} : SetName(v, via, whole)
        \/ \E v \in 1..NVars, p \in AllVarIdx : SetVarIdx(v, p[1], p[2])
        \/ \E mode \in {"fwd", "rev"} : ScaleToNorm(mode)
        \/ ScaleToPhys

\* the sub-alphabet a solver uses around a scaling (every behaviour of NextSolver is a behaviour of Next); random
\* histories over it cross the phys/norm boundary in both directions often
InPhys == st = "phys"
InNorm == st # "phys"
NextSolver == \/ \E k \in 1..2 : InPhys /\ SetValArr(k)
              \/ InPhys /\ IAdd("y")
              \/ InPhys /\ ISub("y")
              \/ \E c \in {R(-2), R(3)} : InPhys /\ IMul(c)
              \/ \E v \in 1..NVars : InPhys /\ SetName(v, "setitem", "array")
              \/ \E mode \in {"fwd", "rev"} : ScaleToNorm(mode)
              \/ InNorm /\ IAdd("y")
              \/ InNorm /\ IMul(R(3))
              \/ InNorm /\ AddScalVec(R(-2), "y")
              \/ InNorm /\ SetName(3, "view", "scalar")
              \/ ScaleToPhys

Spec == Init /\ [][Next]_vars

\* ---- properties --------------------------------------------------------------------------------------------------
TypeOK == /\ Len(x) = N(L) /\ Len(y) = N(L)
          /\ \A i \in DOMAIN x : IsRat(x[i])
LayoutOK(Ly) == /\ Len(Ly.vars) = NVars /\ Len(Ly.a0) = N(Ly) /\ Len(Ly.a1) = N(Ly) /\ Len(Ly.rr) = N(Ly)
                /\ \A i \in 1..N(Ly) : Ly.a1[i] # Zero /\ Ly.rr[i] # Zero
\* the named views tile the data: concatenated in layout order they ARE the data
RECURSIVE Concat(_, _)
Concat(ss, m) == IF m = 0 THEN <<>> ELSE Concat(ss, m - 1) \o ss[m]
ViewsTile == Concat(AllViews(L, x), Len(L.vars)) = x
\* scaling to solver units and back returns the original data, in every mode the kind has, and the other way round
ScaleRoundTrip == Tame(x) => \A mode \in ModesOf(kind) : /\ ToPhys(L, kind, mode, ToNorm(L, kind, mode, x)) = x
                                                           /\ ToNorm(L, kind, mode, ToPhys(L, kind, mode, x)) = x
\* the reverse-mode scaling is the dual of the forward one: the pairing of a primal and a dual vector does not depend
\* on the units it is taken in
DualPairing == Tame(x) /\ Linear(kind) => Dot(ToNorm(L, kind, "fwd", x), ToNorm(L, kind, "rev", y)) = Dot(x, y)
\* a named write changes nothing outside the variable's slice
NamedWriteFrame ==
    [][\A v \in 1..Len(L.vars) :
          (Len(hist') > Len(hist) /\ hist'[Len(hist')].a.n \in {"set_name", "set_var"} /\ hist'[Len(hist')].a.var = v)
              => \A p \in 1..Len(x) : ~InVar(L, v, p) => x'[p] = x[p]]_vars
\* norm^2 is the dot product with itself and is non-negative
NormLaw == Tame(x) => Ge(Dot(x, x), Zero) /\ (Dot(x, x) = Zero <=> \A i \in DOMAIN x : x[i] = Zero)
\* the second vector is never written
OtherUntouched == [][y' = y]_vars

View == <<ly, kind, x, st, Len(hist)>>
=============================================================================
