------------------------------ MODULE Surrogate ------------------------------
(***************************************************************************)
(* Surrogate models and the unstructured meta-model component (C28,        *)
(* partial).  Four parts, chosen in Init:                                  *)
(*  "rs"     ResponseSurface: an integer quadratic in 1-2 variables (1-2   *)
(*           outputs) trained on a product lattice with >= 3 nodes per     *)
(*           axis is reproduced everywhere: exact value and gradient at    *)
(*           off-lattice dyadic points (also outside the lattice).         *)
(*  "lookup" interpolating surrogates (nearest-neighbour linear, weighted, *)
(*           rbf; Kriging with zero / default nugget): the law             *)
(*           Predict(train_x[i]) = train_y[i].  Predict is otherwise       *)
(*           uninterpreted.                                                *)
(*  "plumb"  MetaModelUnStructuredComp: inputs of sizes ins[i], outputs of *)
(*           sizes outs[o], vec_size rows.  Output o, row r, component k = *)
(*           f[o][k](z_r), z_r = the row's inputs concatenated; partial    *)
(*           block (o,r,k ; i,r',l) = [r = r'] * d f[o][k] / d z[off_i+l]. *)
(*           f are integer quadratics (what a ResponseSurface reproduces); *)
(*           M is the index map saying which entry of which surrogate's    *)
(*           linearize() every entry of the dense Jacobian must forward.   *)
(*  "dq"     query points for the difference-quotient relation between     *)
(*           linearize and predict of the non-polynomial surrogates (a     *)
(*           relation on observed numbers, judged in the harness).         *)
(***************************************************************************)
EXTENDS Rat, Naturals, FiniteSets, TLC, Json

CONSTANTS Parts,     \* subset of {"rs", "lookup", "plumb", "dq"}
          NSeeds     \* seeds per option set

RECURSIVE SumN(_, _)
SumN(F, n) == IF n = 0 THEN Zero ELSE Add(F[n], SumN(F, n - 1))
RECURSIVE SumI(_, _)
SumI(F, n) == IF n = 0 THEN 0 ELSE F[n] + SumI(F, n - 1)

CV == <<-2, 1, 3, 0, -1, 2, 1>>
Coef(sd, k) == CV[((sd * sd + 3 * k * sd + 2 * k) % 7) + 1]

\* --- quadratics in D <= 3 variables, coefficient order of ResponseSurface: 1, z_1..z_D, z_i z_j (i <= j, row-wise) ------
PairSeq(D) == CASE D = 1 -> << <<1, 1>> >>
                [] D = 2 -> << <<1, 1>>, <<1, 2>>, <<2, 2>> >>
                [] D = 3 -> << <<1, 1>>, <<1, 2>>, <<1, 3>>, <<2, 2>>, <<2, 3>>, <<3, 3>> >>
NT(D) == ((D + 1) * (D + 2)) \div 2
Eval(c, D, z) ==
    LET ps == PairSeq(D)
    IN Add(Add(R(c[1]), SumN([j \in 1..D |-> Mul(R(c[1 + j]), z[j])], D)),
           SumN([p \in 1..Len(ps) |-> Mul(R(c[1 + D + p]), Mul(z[ps[p][1]], z[ps[p][2]]))], Len(ps)))
Grad(c, D, z, m) ==
    LET ps == PairSeq(D)
    IN Add(R(c[1 + m]),
           SumN([p \in 1..Len(ps) |->
                   Mul(R(c[1 + D + p]), Add(IF ps[p][1] = m THEN z[ps[p][2]] ELSE Zero,
                                            IF ps[p][2] = m THEN z[ps[p][1]] ELSE Zero))], Len(ps)))
CoefVec(sd, D) == [t \in 1..NT(D) |-> Coef(sd, t)]

\* --- part "rs" ------------------------------------------------------------------------------------------------
Lat1 == {<< <<-2, -1, 0, 1, 2>> >>, << <<0, 1, 3, 4>> >>}
Lat2 == {<< <<-2, -1, 0, 1, 2>>, <<-1, 0, 1, 2>> >>, << <<0, 1, 3>>, <<-2, 0, 1>> >>}
Q1 == {<<-9>>, <<-3>>, <<1>>, <<6>>, <<10>>}                             \* numerators over 4
Q2 == {<<-3, 1>>, <<1, 6>>, <<5, -2>>, <<-9, 7>>, <<2, 2>>, <<0, -5>>}
RsBase == {[part |-> "rs", nv |-> 1, axes |-> a] : a \in Lat1} \cup {[part |-> "rs", nv |-> 2, axes |-> a] : a \in Lat2}
RsPoint(s) == [j \in 1..s.nv |-> Q(s.q[j], s.qd)]
RsOut(s) == [f |-> [o \in 1..Len(s.c) |-> Eval(s.c[o], s.nv, RsPoint(s))],
             g |-> [o \in 1..Len(s.c) |-> [m \in 1..s.nv |-> Grad(s.c[o], s.nv, RsPoint(s), m)]]]

\* --- part "lookup" / "dq" -----------------------------------------------------------------------------------------
Surs == {"nn_linear", "nn_weighted", "nn_rbf", "kriging0", "kriging"}
PointSets == { << <<-3>>, <<-1>>, <<0>>, <<2>>, <<4>>, <<5>> >>,
               << <<0>>, <<1>>, <<2>>, <<3>>, <<4>>, <<5>>, <<6>> >>,
               << <<0, 0>>, <<1, 0>>, <<0, 1>>, <<2, 2>>, <<3, 1>>, <<1, 3>>, <<4, 4>> >>,
               << <<-2, 1>>, <<-1, -2>>, <<0, 2>>, <<1, -1>>, <<2, 3>>, <<3, 0>> >>,
               << <<0, 0>>, <<0, 1>>, <<0, 2>>, <<1, 0>>, <<1, 1>>, <<1, 2>>, <<2, 0>>, <<2, 1>>, <<2, 2>> >> }
TrainY(sd, i, o, p) == p[1] * p[1] - 2 * p[Len(p)] + Coef(sd, i + 2 * o) + o
LookupBase == {[part |-> "lookup", sur |-> su, pts |-> ps] : su \in Surs, ps \in PointSets}
DqBase == {[part |-> "dq", sur |-> su, pts |-> ps] : su \in Surs, ps \in PointSets}
\* query points over 4 strictly inside the bounding box, never a training point and never equidistant (in the
\* coordinates scaled to the unit box, which the nearest-neighbour interpolators use) from two training points: there
\* the neighbour set changes and the interpolant has a kink or a jump, so no derivative exists
DqQueries(ps) ==
    LET D == Len(ps[1])
        lo(j) == CHOOSE m \in {ps[i][j] : i \in 1..Len(ps)} : \A i \in 1..Len(ps) : m <= ps[i][j]
        hi(j) == CHOOSE m \in {ps[i][j] : i \in 1..Len(ps)} : \A i \in 1..Len(ps) : m >= ps[i][j]
        rng(j) == {n \in (4 * lo(j) + 1)..(4 * hi(j) - 1) : n % 4 \in {1, 3} /\ (n \div 4) % 2 = 0}
        wt(j) == IF D = 1 THEN 1 ELSE (hi(3 - j) - lo(3 - j)) * (hi(3 - j) - lo(3 - j))
        d2(q, i) == SumI([j \in 1..D |-> wt(j) * (q[j] - 4 * ps[i][j]) * (q[j] - 4 * ps[i][j])], D)
        notie(q) == \A a, b \in 1..Len(ps) : a < b => d2(q, a) # d2(q, b)
    IN IF D = 1 THEN {q \in {<<n>> : n \in rng(1)} : notie(q)}
       ELSE {q \in rng(1) \X rng(2) : (q[1] + q[2]) % 8 \in {2, 4} /\ notie(q)}

\* --- part "plumb" ----------------------------------------------------------------------------------------------
InsSet == {<<1>>, <<2>>, <<1, 1>>, <<1, 2>>}
OutsSet == {<<1>>, <<1, 1>>, <<2>>, <<2, 1>>}
PlumbBase == {[part |-> "plumb", ins |-> i, outs |-> o, vec |-> v, sur |-> su] :
                 i \in InsSet, o \in OutsSet, v \in 1..3, su \in {"rs_default", "rs_each", "nn_rs", "rs_nn"}}
PlumbOk(b) == (b.sur \in {"nn_rs", "rs_nn"}) => (Len(b.outs) = 2 /\ b.vec <= 2)
Dim(s) == SumI(s.ins, Len(s.ins))
OffIn(s, i) == SumI([k \in 1..i - 1 |-> s.ins[k]], i - 1)
OffOut(s, o) == SumI([k \in 1..o - 1 |-> s.outs[k]], o - 1) * s.vec
\* flat point of row r: inputs concatenated
ZRow(s, r) == [j \in 1..Dim(s) |-> Q(s.z[r][j], 2)]
NRows(s) == s.vec * SumI(s.outs, Len(s.outs))
NCols(s) == s.vec * Dim(s)
\* decode a dense row / column index (1-based) -> <<o, r, k>> / <<i, r, l>> (output-major, then row, then component)
RowOf(s, x) == LET o == CHOOSE o \in 1..Len(s.outs) : OffOut(s, o) < x /\ x <= OffOut(s, o) + s.vec * s.outs[o]
                   y == x - OffOut(s, o) - 1
               IN <<o, (y \div s.outs[o]) + 1, (y % s.outs[o]) + 1>>
ColOf(s, x) == LET i == CHOOSE i \in 1..Len(s.ins) : s.vec * OffIn(s, i) < x /\ x <= s.vec * (OffIn(s, i) + s.ins[i])
                   y == x - s.vec * OffIn(s, i) - 1
               IN <<i, (y \div s.ins[i]) + 1, (y % s.ins[i]) + 1>>
PlumbOut(s) ==
    LET D == Dim(s)
    IN [y |-> [x \in 1..NRows(s) |-> LET rk == RowOf(s, x) IN Eval(s.c[rk[1]][rk[3]], D, ZRow(s, rk[2]))],
        J |-> [x \in 1..NRows(s) |-> [w \in 1..NCols(s) |->
                  LET rk == RowOf(s, x)
                      cl == ColOf(s, w)
                  IN IF rk[2] # cl[2] THEN Zero ELSE Grad(s.c[rk[1]][rk[3]], D, ZRow(s, rk[2]), OffIn(s, cl[1]) + cl[3])]],
        \* which number must be forwarded: <<output, row, component of the surrogate's result, flat input column>>, <<0,0,0,0>> = zero
        M |-> [x \in 1..NRows(s) |-> [w \in 1..NCols(s) |->
                  LET rk == RowOf(s, x)
                      cl == ColOf(s, w)
                  IN IF rk[2] # cl[2] THEN <<0, 0, 0, 0>> ELSE <<rk[1], rk[2], rk[3], OffIn(s, cl[1]) + cl[3]>>]],
        rs |-> [o \in 1..Len(s.outs) |-> ~((s.sur = "nn_rs" /\ o = 1) \/ (s.sur = "rs_nn" /\ o = Len(s.outs)))]]

\* --- enumeration ---------------------------------------------------------------------------------------------
Base == (IF "rs" \in Parts THEN RsBase ELSE {}) \cup (IF "lookup" \in Parts THEN LookupBase ELSE {})
   \cup (IF "plumb" \in Parts THEN {b \in PlumbBase : PlumbOk(b)} ELSE {}) \cup (IF "dq" \in Parts THEN DqBase ELSE {})
VARIABLES stage, scen, out
vars == <<stage, scen, out>>
Init == stage = 0 /\ scen \in Base /\ out = <<>>
OutOf(s) == CASE s.part = "rs" -> RsOut(s)
              [] s.part = "lookup" -> [pred |-> s.ys]            \* Predict(train_x[i]) = train_y[i]
              [] s.part = "plumb" -> PlumbOut(s)
              [] s.part = "dq" -> [h |-> Q(1, 1000000), tol |-> Q(1, 10000)]
Choose ==
    /\ stage = 0 /\ stage' = 1
    /\ CASE scen.part = "rs" /\ scen.nv = 1 ->
              \E c \in [1..3 -> {-2, 0, 1, 3}], q \in Q1 :
                 scen' = [part |-> "rs", nv |-> 1, axes |-> scen.axes, c |-> <<c>>, q |-> q, qd |-> 4]
         [] scen.part = "rs" /\ scen.nv = 2 ->
              \E sd \in 1..3 * NSeeds, q \in Q2 :
                 scen' = [part |-> "rs", nv |-> 2, axes |-> scen.axes,
                          c |-> <<CoefVec(sd, 2), [t \in 1..6 |-> Coef(sd + 5, t + 1)]>>, q |-> q, qd |-> 4]
         [] scen.part = "lookup" ->
              \E sd \in 1..NSeeds, nout \in 1..2 :
                 scen' = [part |-> "lookup", sur |-> scen.sur, pts |-> scen.pts, sd |-> sd,
                          ys |-> [i \in 1..Len(scen.pts) |-> [o \in 1..nout |-> TrainY(sd, i, o, scen.pts[i])]]]
         [] scen.part = "dq" ->
              \E sd \in 1..NSeeds, q \in DqQueries(scen.pts) :
                 scen' = [part |-> "dq", sur |-> scen.sur, pts |-> scen.pts, sd |-> sd, q |-> q, qd |-> 4,
                          ys |-> [i \in 1..Len(scen.pts) |-> <<TrainY(sd, i, 1, scen.pts[i])>>]]
         [] scen.part = "plumb" ->
              \E sd \in 1..NSeeds :
                 scen' = [part |-> "plumb", ins |-> scen.ins, outs |-> scen.outs, vec |-> scen.vec, sur |-> scen.sur, sd |-> sd,
                          c |-> [o \in 1..Len(scen.outs) |-> [k \in 1..scen.outs[o] |-> CoefVec(sd + 2 * o + k, Dim(scen))]],
                          z |-> [r \in 1..scen.vec |-> [j \in 1..Dim(scen) |-> ((sd * 5 + r * 3 + j * 4 + r * j) % 7) - 3]],
                          lat |-> <<-2, -1, 0, 1, 2>>]
    /\ out' = OutOf(scen')
Next == Choose

\* --- laws -----------------------------------------------------------------------------------------------------
Bump(z, m, d) == [z EXCEPT ![m] = Add(@, R(d))]
RsLaw == (stage = 1 /\ scen.part = "rs") =>
           /\ \A j \in 1..scen.nv : Len(scen.axes[j]) >= 3 /\ \A a, b \in 1..Len(scen.axes[j]) : a < b => scen.axes[j][a] < scen.axes[j][b]
           /\ \A o \in 1..Len(scen.c) : \A m \in 1..scen.nv :
                 out.g[o][m] = Mul(Q(1, 2), Sub(Eval(scen.c[o], scen.nv, Bump(RsPoint(scen), m, 1)),
                                                 Eval(scen.c[o], scen.nv, Bump(RsPoint(scen), m, -1))))
LookupLaw == (stage = 1 /\ scen.part = "lookup") =>
               /\ \A i, j \in 1..Len(scen.pts) : i # j => scen.pts[i] # scen.pts[j]            \* a function of the input
               /\ Len(scen.pts) >= 5                                                           \* weighted / rbf need 5 neighbours
               /\ \A i \in 1..Len(scen.pts) : out.pred[i] = scen.ys[i]
DqLaw == (stage = 1 /\ scen.part = "dq") =>
           \A i \in 1..Len(scen.pts) : \E j \in 1..Len(scen.q) : 4 * scen.pts[i][j] # scen.q[j]
PlumbLaw == (stage = 1 /\ scen.part = "plumb") =>
              LET D == Dim(scen)
              IN /\ \A x \in 1..NRows(scen) : \A w \in 1..NCols(scen) :
                      LET rk == RowOf(scen, x)
                          cl == ColOf(scen, w)
                          m == OffIn(scen, cl[1]) + cl[3]
                          zr == ZRow(scen, cl[2])
                      IN \* the dense entry is the exact central difference of the output w.r.t. that input element
                         out.J[x][w] = IF rk[2] # cl[2] THEN Zero
                                       ELSE Mul(Q(1, 2), Sub(Eval(scen.c[rk[1]][rk[3]], D, Bump(zr, m, 1)),
                                                             Eval(scen.c[rk[1]][rk[3]], D, Bump(zr, m, -1))))
                 \* row and column decoding are bijections onto the index triples
                 /\ Cardinality({RowOf(scen, x) : x \in 1..NRows(scen)}) = NRows(scen)
                 /\ Cardinality({ColOf(scen, w) : w \in 1..NCols(scen)}) = NCols(scen)
Export == stage = 1 => PrintT(<<"EXP", ToJson([s |-> scen, v |-> out])>>)
=============================================================================
