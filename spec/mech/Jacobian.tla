------------------------------ MODULE Jacobian ------------------------------
(***************************************************************************)
(* The Jacobian of a system as ONE linear operator, and the storage        *)
(* formats OpenMDAO keeps it in (openmdao/jacobians, openmdao/matrices).   *)
(* Property C11: every format denotes the same operator.                   *)
(*                                                                         *)
(* A layout is an independent source (component 0) and two components      *)
(* with outputs and inputs of sizes 1..3.  Every input is connected to an  *)
(* output, possibly through src_indices (NumPy semantics: 0-based,         *)
(* negative entries count from the end, an entry may be repeated) and      *)
(* with a unit conversion factor (1 or 1000).  A sub-Jacobian d(of)/d(wrt) *)
(* is stated by its component in one of six kinds                          *)
(*    dense | rc (rows/cols) | diag | coo | csr | csc                      *)
(* as a list of entries <<r, c>> (0-based) with one integer value each;    *)
(* an entry listed twice (coo, rc) contributes twice.                      *)
(*                                                                         *)
(*   Asm(values) = SUM over sub-Jacobians and entries of                   *)
(*                 factor * value  placed at  (row of `of`, column of the  *)
(*                 SOURCE position the input column reads)                 *)
(*               - identity on the outputs of explicit components.         *)
(*                                                                         *)
(* Two input columns that read the same source position therefore          *)
(* ACCUMULATE, and so do two sub-Jacobians that meet in one cell.          *)
(*                                                                         *)
(* State: the values the components currently return (`inst`, the index    *)
(* of a value set; 0 = the declared values), the dtype flag `cplx`, and    *)
(* one representation per format, each updated by Linearize with the rule  *)
(* the format uses (coo: overwrite the slots; csc/csr: ZERO the compressed *)
(* data, then add through the slot->position map; dense: overwrite in      *)
(* place when no cell is hit twice, else densify the coo data; matrix-free *)
(* dictionary: keep the values, apply sub-Jacobian by sub-Jacobian around  *)
(* the transfers).  Actions: Linearize(q), SetComplex(b), Apply(mode, sd). *)
(***************************************************************************)
EXTENDS Integers, Sequences, FiniteSets, TLC

CONSTANTS Layouts,      \* sequence of layout records (see JacobianMC)
          NQ,           \* value sets 1..NQ can be installed by Linearize (0 = declared values)
          Depth         \* bound on the length of a history

Formats == {"coo", "csc", "csr", "dense", "dict"}
Modes == {"fwd", "rev"}
Seeds == 1..4           \* 1, 2: real vectors; 3, 4: vectors with an imaginary part (complex mode only)

\* ---- numbers (harness/vf/drivers/c11.py uses the same formulas) ------------------------------------------------
Val(q, s, k) == LET v == 1 + ((7 * s + 3 * k + 5 * q) % 7) IN IF (s + k + q) % 2 = 1 THEN -v ELSE v
V1(n) == [j \in 1..n |-> ((5 * j) % 7) - 3]
V2(n) == [j \in 1..n |-> ((3 * j) % 5) - 2]
Z(n) == [j \in 1..n |-> 0]
SeedRe(sd, n) == IF sd \in {1, 3} THEN V1(n) ELSE V2(n)
SeedIm(sd, n) == CASE sd = 3 -> V2(n) [] sd = 4 -> V1(n) [] OTHER -> Z(n)

RECURSIVE ISum(_)
ISum(s) == IF s = <<>> THEN 0 ELSE s[1] + ISum(Tail(s))
RECURSIVE Flatten(_)
Flatten(ss) == IF ss = <<>> THEN <<>> ELSE ss[1] \o Flatten(Tail(ss))

\* ---- layout geometry ---------------------------------------------------------------------------------------------
Off(L, i) == ISum([m \in 1..(i - 1) |-> L.outs[m].sz])         \* 0-based start of output i in the output vector
N(L) == Off(L, Len(L.outs) + 1)
WrtSize(L, sub) == IF sub.wrt.k = "in" THEN L.ins[sub.wrt.i].sz ELSE L.outs[sub.wrt.i].sz
Pat(L, sub) ==
    LET nr == L.outs[sub.of].sz
        nc == WrtSize(L, sub)
    IN CASE sub.kind = "dense" -> [k \in 1..(nr * nc) |-> <<(k - 1) \div nc, (k - 1) % nc>>]
         [] sub.kind = "diag" -> [k \in 1..nr |-> <<k - 1, k - 1>>]
         [] OTHER -> sub.pat
\* NumPy index normalisation
NormIdx(i, n) == IF i < 0 THEN i + n ELSE i
\* source position (0-based, inside the source variable) read by column c of an input
SrcPos(L, inp, c) == IF inp.idx = <<>> THEN c ELSE NormIdx(inp.idx[c + 1], L.outs[inp.src].sz)
\* global (1-based) column of local column c of a sub-Jacobian
ColOf(L, sub, c) == IF sub.wrt.k = "out" THEN Off(L, sub.wrt.i) + c + 1
                    ELSE Off(L, L.ins[sub.wrt.i].src) + SrcPos(L, L.ins[sub.wrt.i], c) + 1
FacOf(L, sub) == IF sub.wrt.k = "in" THEN L.ins[sub.wrt.i].fac ELSE 1
Explicit(L, i) == L.outs[i].c \notin L.impl

\* the slots of the operator: one per stated entry, one per output row of an explicit component (s = 0)
Slots(L) ==
    Flatten([i \in 1..Len(L.outs) |->
                IF Explicit(L, i) THEN [j \in 1..L.outs[i].sz |-> [r |-> Off(L, i) + j, c |-> Off(L, i) + j, s |-> 0, k |-> j, f |-> 1]]
                ELSE <<>>])
    \o Flatten([s \in 1..Len(L.subs) |->
                LET sub == L.subs[s]
                    pat == Pat(L, sub)
                IN [k \in 1..Len(pat) |-> [r |-> Off(L, sub.of) + pat[k][1] + 1, c |-> ColOf(L, sub, pat[k][2]),
                                           s |-> s, k |-> k, f |-> FacOf(L, sub)]]])
SlotVal(t, q) == IF t.s = 0 THEN -1 ELSE t.f * Val(q, t.s, t.k)

\* ---- the operator ------------------------------------------------------------------------------------------------
Asm(L, q) ==
    LET T == Slots(L)
        n == N(L)
    IN [i \in 1..n |-> [j \in 1..n |-> ISum([t \in 1..Len(T) |-> IF T[t].r = i /\ T[t].c = j THEN SlotVal(T[t], q) ELSE 0])]]

MatVec(A, v) == [i \in 1..Len(A) |-> ISum([j \in 1..Len(v) |-> A[i][j] * v[j]])]
MatTVec(A, v) == [j \in 1..Len(v) |-> ISum([i \in 1..Len(A) |-> A[i][j] * v[i]])]
RefProd(L, q, mode, v) == IF mode = "fwd" THEN MatVec(Asm(L, q), v) ELSE MatTVec(Asm(L, q), v)

\* ---- the formats -------------------------------------------------------------------------------------------------
Cells(L) == {<<Slots(L)[t].r, Slots(L)[t].c>> : t \in 1..Len(Slots(L))}
HasRepeats(L) == Cardinality(Cells(L)) < Len(Slots(L))
\* rank of a cell in column-major (csc) / row-major (csr) order of the distinct cells
CscRank(L, r, c) == 1 + Cardinality({p \in Cells(L) : p[2] < c \/ (p[2] = c /\ p[1] < r)})
CsrRank(L, r, c) == 1 + Cardinality({p \in Cells(L) : p[1] < r \/ (p[1] = r /\ p[2] < c)})
CscCell(L, m) == CHOOSE p \in Cells(L) : CscRank(L, p[1], p[2]) = m
CsrCell(L, m) == CHOOSE p \in Cells(L) : CsrRank(L, p[1], p[2]) = m

\* add the slot values one after the other into compressed data (np.add.at / += through the slot->position map)
Rank(Ly, order, r, c) == IF order = "csc" THEN CscRank(Ly, r, c) ELSE CsrRank(Ly, r, c)
RECURSIVE AddSlots(_, _, _, _, _, _)
AddSlots(data, Ly, order, T, t, q) ==
    IF t > Len(T) THEN data
    ELSE AddSlots([data EXCEPT ![Rank(Ly, order, T[t].r, T[t].c)] = @ + SlotVal(T[t], q)], Ly, order, T, t + 1, q)

RECURSIVE PutSlots(_, _, _, _)       \* overwrite cells of a dense array, slot after slot (last writer wins)
PutSlots(A, T, t, q) ==
    IF t > Len(T) THEN A ELSE PutSlots([A EXCEPT ![T[t].r][T[t].c] = SlotVal(T[t], q)], T, t + 1, q)

Zeros(m) == [i \in 1..m |-> 0]
ZeroMat(n) == [i \in 1..n |-> Zeros(n)]

\* the update rules: old representation -> representation after Linearize(q)
Update(L, fmt, old, q) ==
    LET T == Slots(L)
        nc == Cardinality(Cells(L))
    IN CASE fmt = "coo" -> [t \in 1..Len(T) |-> SlotVal(T[t], q)]
         [] fmt = "csc" -> AddSlots(Zeros(nc), L, "csc", T, 1, q)
         [] fmt = "csr" -> AddSlots(Zeros(nc), L, "csr", T, 1, q)
         [] fmt = "dense" -> IF HasRepeats(L)
                             THEN \* coo data, densified: repeated cells are summed
                                  [i \in 1..N(L) |-> [j \in 1..N(L) |->
                                      ISum([t \in 1..Len(T) |-> IF T[t].r = i /\ T[t].c = j THEN SlotVal(T[t], q) ELSE 0])]]
                             ELSE PutSlots(old, T, 1, q)          \* in place; cells outside the pattern are never written
         [] fmt = "dict" -> q

Initial(L, fmt) == IF fmt = "dense" /\ ~HasRepeats(L) THEN PutSlots(ZeroMat(N(L)), Slots(L), 1, 0)
                   ELSE Update(L, fmt, <<>>, 0)

\* what a representation denotes, as a dense matrix
Denotation(L, fmt, rep) ==
    LET T == Slots(L)
        n == N(L)
    IN CASE fmt = "coo" -> [i \in 1..n |-> [j \in 1..n |-> ISum([t \in 1..Len(T) |-> IF T[t].r = i /\ T[t].c = j THEN rep[t] ELSE 0])]]
         [] fmt = "csc" -> [i \in 1..n |-> [j \in 1..n |-> IF <<i, j>> \in Cells(L) THEN rep[CscRank(L, i, j)] ELSE 0]]
         [] fmt = "csr" -> [i \in 1..n |-> [j \in 1..n |-> IF <<i, j>> \in Cells(L) THEN rep[CsrRank(L, i, j)] ELSE 0]]
         [] fmt = "dense" -> rep
         [] fmt = "dict" -> Asm(L, rep)

\* products computed the way the format computes them
\* matrix-free: transfer (gather with factor), then every component applies its own sub-Jacobians and -I
DictFwd(L, q, v) ==
    LET din(inp, c) == inp.fac * v[Off(L, inp.src) + SrcPos(L, inp, c) + 1]
        Row(i, j) ==    \* residual entry j (0-based) of output i
            (IF Explicit(L, i) THEN -v[Off(L, i) + j + 1] ELSE 0)
            + ISum([s \in 1..Len(L.subs) |->
                     LET sub == L.subs[s]
                         pat == Pat(L, sub)
                     IN IF sub.of # i THEN 0
                        ELSE ISum([k \in 1..Len(pat) |->
                                   IF pat[k][1] # j THEN 0
                                   ELSE Val(q, s, k) * (IF sub.wrt.k = "in" THEN din(L.ins[sub.wrt.i], pat[k][2])
                                                        ELSE v[Off(L, sub.wrt.i) + pat[k][2] + 1])])])
    IN Flatten([i \in 1..Len(L.outs) |-> [j \in 1..L.outs[i].sz |-> Row(i, j - 1)]])

\* reverse: every component adds J^T r into its d_inputs / d_outputs, then the reverse transfer scatter-ADDS the
\* d_inputs (times the factor) into the source positions
DictRev(L, q, v) ==
    LET Din(ii, c) ==    \* d_input entry c (0-based) of input ii
            ISum([s \in 1..Len(L.subs) |->
                   LET sub == L.subs[s]
                       pat == Pat(L, sub)
                   IN IF sub.wrt.k # "in" \/ sub.wrt.i # ii THEN 0
                      ELSE ISum([k \in 1..Len(pat) |-> IF pat[k][2] # c THEN 0
                                                       ELSE Val(q, s, k) * v[Off(L, sub.of) + pat[k][1] + 1]])])
        Own(i, j) ==     \* what the component itself adds to output entry j (0-based) of output i
            (IF Explicit(L, i) THEN -v[Off(L, i) + j + 1] ELSE 0)
            + ISum([s \in 1..Len(L.subs) |->
                     LET sub == L.subs[s]
                         pat == Pat(L, sub)
                     IN IF sub.wrt.k # "out" \/ sub.wrt.i # i THEN 0
                        ELSE ISum([k \in 1..Len(pat) |-> IF pat[k][2] # j THEN 0
                                                         ELSE Val(q, s, k) * v[Off(L, sub.of) + pat[k][1] + 1]])])
        Scatter(i, j) ==
            ISum([ii \in 1..Len(L.ins) |->
                   LET inp == L.ins[ii]
                   IN IF inp.src # i THEN 0
                      ELSE ISum([c \in 1..inp.sz |-> IF SrcPos(L, inp, c - 1) = j THEN inp.fac * Din(ii, c - 1) ELSE 0])])
    IN Flatten([i \in 1..Len(L.outs) |-> [j \in 1..L.outs[i].sz |-> Own(i, j - 1) + Scatter(i, j - 1)]])

Prod(L, fmt, rep, mode, v) ==
    LET T == Slots(L)
        n == N(L)
        nc == Cardinality(Cells(L))
    IN CASE fmt = "coo" ->
              IF mode = "fwd" THEN [i \in 1..n |-> ISum([t \in 1..Len(T) |-> IF T[t].r = i THEN rep[t] * v[T[t].c] ELSE 0])]
              ELSE [j \in 1..n |-> ISum([t \in 1..Len(T) |-> IF T[t].c = j THEN rep[t] * v[T[t].r] ELSE 0])]
         [] fmt = "csc" ->
              IF mode = "fwd" THEN [i \in 1..n |-> ISum([m \in 1..nc |-> IF CscCell(L, m)[1] = i THEN rep[m] * v[CscCell(L, m)[2]] ELSE 0])]
              ELSE [j \in 1..n |-> ISum([m \in 1..nc |-> IF CscCell(L, m)[2] = j THEN rep[m] * v[CscCell(L, m)[1]] ELSE 0])]
         [] fmt = "csr" ->
              IF mode = "fwd" THEN [i \in 1..n |-> ISum([m \in 1..nc |-> IF CsrCell(L, m)[1] = i THEN rep[m] * v[CsrCell(L, m)[2]] ELSE 0])]
              ELSE [j \in 1..n |-> ISum([m \in 1..nc |-> IF CsrCell(L, m)[2] = j THEN rep[m] * v[CsrCell(L, m)[1]] ELSE 0])]
         [] fmt = "dense" -> IF mode = "fwd" THEN MatVec(rep, v) ELSE MatTVec(rep, v)
         [] fmt = "dict" -> IF mode = "fwd" THEN DictFwd(L, rep, v) ELSE DictRev(L, rep, v)

\* ---- the state machine -------------------------------------------------------------------------------------------
VARIABLES ly,       \* index of the layout
          inst,     \* value set the components return / that the last Linearize installed (0 = declared values)
          cplx,     \* TRUE while the vectors (and therefore the matrices after the next Linearize) are complex
          lin,      \* a Linearize has happened
          fresh,    \* a Linearize has happened since the last dtype switch (products are only taken then)
          mats,     \* format -> representation
          hist      \* the history, with the exact expectation after every action
vars == <<ly, inst, cplx, lin, fresh, mats, hist>>

L == Layouts[ly]

Init == /\ ly \in 1..Len(Layouts)
        /\ inst = 0 /\ cplx = FALSE /\ lin = FALSE /\ fresh = FALSE
        /\ mats = [f \in Formats |-> Initial(Layouts[ly], f)]
        /\ hist = <<>>

Linearize(q) ==
    /\ inst' = q /\ lin' = TRUE /\ fresh' = TRUE
    /\ mats' = [f \in Formats |-> Update(L, f, mats[f], q)]          \* the dtype of the data follows cplx; values are real
    /\ hist' = Append(hist, [a |-> "Linearize", q |-> q, asm |-> Asm(L, q)])
    /\ UNCHANGED <<ly, cplx>>

SetComplex(b) ==
    /\ b # cplx
    /\ cplx' = b /\ fresh' = FALSE
    /\ hist' = Append(hist, [a |-> "SetComplex", b |-> b])
    /\ UNCHANGED <<ly, inst, lin, mats>>

\* the product of a complex vector is the complex-linear extension: real and imaginary parts separately
Apply(mode, sd) ==
    /\ lin /\ fresh
    /\ sd \in {3, 4} => cplx
    /\ hist' = Append(hist, [a |-> "Apply", mode |-> mode, sd |-> sd,
                             re |-> RefProd(L, inst, mode, SeedRe(sd, N(L))),
                             im |-> RefProd(L, inst, mode, SeedIm(sd, N(L)))])
    /\ UNCHANGED <<ly, inst, cplx, lin, fresh, mats>>

Next == /\ Len(hist) < Depth
        /\ \/ \E q \in 1..NQ : Linearize(q)
           \/ \E b \in BOOLEAN : SetComplex(b)
           \/ \E mode \in Modes, sd \in Seeds : Apply(mode, sd)

Spec == Init /\ [][Next]_vars

\* ---- properties ----------------------------------------------------------------------------------------------------
\* every format denotes the operator assembled from the LATEST values (nothing of an earlier linearisation is left)
Denotes == \A f \in Formats : Denotation(L, f, mats[f]) = Asm(L, inst)
\* every format computes the same products, forward and transposed, on every seed (real and imaginary parts)
FormatsAgree ==
    \A f \in Formats, mode \in Modes, sd \in Seeds :
        /\ Prod(L, f, mats[f], mode, SeedRe(sd, N(L))) = RefProd(L, inst, mode, SeedRe(sd, N(L)))
        /\ Prod(L, f, mats[f], mode, SeedIm(sd, N(L))) = RefProd(L, inst, mode, SeedIm(sd, N(L)))
\* forward and reverse are adjoint:  u . (A v) = (A^T u) . v
Dot(u, v) == ISum([i \in 1..Len(u) |-> u[i] * v[i]])
Adjoint == LET n == N(L) IN Dot(V1(n), RefProd(L, inst, "fwd", V2(n))) = Dot(RefProd(L, inst, "rev", V1(n)), V2(n))
\* duplicates and repeated source positions are really present in the layouts that claim them
TypeOK == /\ inst \in 0..NQ /\ cplx \in BOOLEAN
          /\ \A s \in 1..Len(L.subs) : \A k \in 1..Len(Pat(L, L.subs[s])) :
                LET e == Pat(L, L.subs[s])[k] IN e[1] \in 0..(L.outs[L.subs[s].of].sz - 1) /\ e[2] \in 0..(WrtSize(L, L.subs[s]) - 1)
          /\ \A i \in 1..Len(L.ins) : L.ins[i].idx # <<>> => Len(L.ins[i].idx) = L.ins[i].sz

View == <<ly, inst, cplx, lin, fresh, mats>>
=============================================================================
