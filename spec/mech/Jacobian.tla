------------------------------ MODULE Jacobian ------------------------------
(***************************************************************************)
(* The Jacobian of a system as ONE linear operator, and the storage        *)
(* formats OpenMDAO keeps it in (openmdao/jacobians, openmdao/matrices).   *)
(* Property C11: every format denotes the same operator.                   *)
(*                                                                         *)
(* A layout is an independent source (component 0) and two components      *)
(* with outputs and inputs of sizes 1..3.  Every input is connected to an  *)
(* output, possibly through src_indices (NumPy semantics: 0-based,         *)
(* negative entries count from the end, an entry may be repeated) and      *)
(* with a unit conversion factor (1 or 1000).  A sub-Jacobian d(of)/d(wrt) *)
(* is stated by its component in one of six kinds                          *)
(*    dense | rc (rows/cols) | diag | coo | csr | csc                      *)
(* as a list of entries <<r, c>> (0-based) with one integer value each;    *)
(* an entry listed twice (coo, rc) contributes twice.                      *)
(*                                                                         *)
(*   Asm(values) = SUM over sub-Jacobians and entries of                   *)
(*                 factor * value  placed at  (row of `of`, column of the  *)
(*                 SOURCE position the input column reads)                 *)
(*               - identity on the outputs of explicit components.         *)
(*                                                                         *)
(* Two input columns that read the same source position therefore          *)
(* ACCUMULATE, and so do two sub-Jacobians that meet in one cell.          *)
(*                                                                         *)
(* State: the values the components currently return (`inst`, the index    *)
(* of a value set; 0 = the declared values), the dtype flag `cplx`, and    *)
(* one representation per format, each updated by Linearize with the rule  *)
(* the format uses (coo: overwrite the slots; csc/csr: ZERO the compressed *)
(* data, then add through the slot->position map; dense: overwrite in      *)
(* place when no cell is hit twice, else densify the coo data; matrix-free *)
(* dictionary: keep the values, apply sub-Jacobian by sub-Jacobian around  *)
(* the transfers).  Actions: Linearize(q), SetComplex(b), Apply(mode, sd). *)
(***************************************************************************)
EXTENDS Integers, Sequences, FiniteSets, TLC

CONSTANTS Layouts,      \* sequence of layout records (see JacobianMC)
          NQ,           \* value sets 1..NQ can be installed by Linearize (0 = declared values)
          Depth         \* bound on the length of a history

Formats == {"coo", "csc", "csr", "dense", "dict"}
Modes == {"fwd", "rev"}
Seeds == 1..4           \* 1, 2: real vectors; 3, 4: vectors with an imaginary part (complex mode only)

\* ---- numbers (harness/vf/drivers/c11.py uses the same formulas) ------------------------------------------------
Val(q, s, k) == LET v == 1 + ((7 * s + 3 * k + 5 * q) % 7) IN IF (s + k + q) % 2 = 1 THEN -v ELSE v
V1(n) == [j \in 1..n |-> ((5 * j) % 7) - 3]
V2(n) == [j \in 1..n |-> ((3 * j) % 5) - 2]
Z(n) == [j \in 1..n |-> 0]
SeedRe(sd, n) == IF sd \in {1, 3} THEN V1(n) ELSE V2(n)
SeedIm(sd, n) == CASE sd = 3 -> V2(n) [] sd = 4 -> V1(n) [] OTHER -> Z(n)

RECURSIVE ISumTo(_, _)
ISumTo(s, m) == IF m = 0 THEN 0 ELSE s[m] + ISumTo(s, m - 1)
ISum(s) == ISumTo(s, Len(s))
RECURSIVE Flatten(_)
Flatten(ss) == IF ss = <<>> THEN <<>> ELSE ss[1] \o Flatten(Tail(ss))

\* ---- layout geometry ---------------------------------------------------------------------------------------------
Off(L, i) == ISum([m \in 1..(i - 1) |-> L.outs[m].sz])         \* 0-based start of output i in the output vector
N(L) == Off(L, Len(L.outs) + 1)
WrtSize(L, sub) == IF sub.wrt.k = "in" THEN L.ins[sub.wrt.i].sz ELSE L.outs[sub.wrt.i].sz
Pat(L, sub) ==
    LET nr == L.outs[sub.of].sz
        nc == WrtSize(L, sub)
    IN CASE sub.kind = "dense" -> [k \in 1..(nr * nc) |-> <<(k - 1) \div nc, (k - 1) % nc>>]
         [] sub.kind = "diag" -> [k \in 1..nr |-> <<k - 1, k - 1>>]
         [] OTHER -> sub.pat
\* NumPy index normalisation
NormIdx(i, n) == IF i < 0 THEN i + n ELSE i
\* source position (0-based, inside the source variable) read by column c of an input
SrcPos(L, inp, c) == IF inp.idx = <<>> THEN c ELSE NormIdx(inp.idx[c + 1], L.outs[inp.src].sz)
\* global (1-based) column of local column c of a sub-Jacobian
ColOf(L, sub, c) == IF sub.wrt.k = "out" THEN Off(L, sub.wrt.i) + c + 1
                    ELSE Off(L, L.ins[sub.wrt.i].src) + SrcPos(L, L.ins[sub.wrt.i], c) + 1
FacOf(L, sub) == IF sub.wrt.k = "in" THEN L.ins[sub.wrt.i].fac ELSE 1
Explicit(L, i) == L.outs[i].c \notin L.impl

\* the slots of the operator: one per stated entry, one per output row of an explicit component (s = 0)
Slots(L) ==
    Flatten([i \in 1..Len(L.outs) |->
                IF Explicit(L, i) THEN [j \in 1..L.outs[i].sz |-> [r |-> Off(L, i) + j, c |-> Off(L, i) + j, s |-> 0, k |-> j, f |-> 1]]
                ELSE <<>>])
    \o Flatten([s \in 1..Len(L.subs) |->
                LET sub == L.subs[s]
                    pat == Pat(L, sub)
                IN [k \in 1..Len(pat) |-> [r |-> Off(L, sub.of) + pat[k][1] + 1, c |-> ColOf(L, sub, pat[k][2]),
                                           s |-> s, k |-> k, f |-> FacOf(L, sub)]]])
SlotVal(t, q) == IF t.s = 0 THEN -1 ELSE t.f * Val(q, t.s, t.k)

\* ---- the geometry of a layout, computed once (TLC does not memoise operators) ---------------------------------------
\* T: the slots; cscRank / csrRank: slot -> position in the compressed data (rank of its cell among the DISTINCT cells in
\* column-major / row-major order); cscCell / csrCell: position -> cell
Compile(L) ==
    LET T == Slots(L)
        cells == {<<T[t].r, T[t].c>> : t \in 1..Len(T)}
        cscR == [p \in cells |-> 1 + Cardinality({x \in cells : x[2] < p[2] \/ (x[2] = p[2] /\ x[1] < p[1])})]
        csrR == [p \in cells |-> 1 + Cardinality({x \in cells : x[1] < p[1] \/ (x[1] = p[1] /\ x[2] < p[2])})]
    IN [n |-> N(L), T |-> T, nc |-> Cardinality(cells), rep |-> Cardinality(cells) < Len(T),
        pos |-> [t \in 1..Len(T) |-> <<T[t].r, T[t].c>>],
        cscRank |-> [t \in 1..Len(T) |-> cscR[<<T[t].r, T[t].c>>]],
        csrRank |-> [t \in 1..Len(T) |-> csrR[<<T[t].r, T[t].c>>]],
        cscCell |-> [m \in 1..Cardinality(cells) |-> CHOOSE p \in cells : cscR[p] = m],
        csrCell |-> [m \in 1..Cardinality(cells) |-> CHOOSE p \in cells : csrR[p] = m]]

\* ---- the operator ------------------------------------------------------------------------------------------------
\* sum of values per cell: val[m] is added at cell pos[m], for every m
RECURSIVE AccCells(_, _, _, _)
AccCells(A, pos, val, m) == IF m = 0 THEN A ELSE AccCells([A EXCEPT ![pos[m][1]][pos[m][2]] = @ + val[m]], pos, val, m - 1)
SumCells(pos, n, val) == AccCells([i \in 1..n |-> [j \in 1..n |-> 0]], pos, val, Len(pos))
Asm(G, q) == SumCells(G.pos, G.n, [t \in 1..Len(G.T) |-> SlotVal(G.T[t], q)])

MatVec(A, v) == [i \in 1..Len(A) |-> ISum([j \in 1..Len(v) |-> A[i][j] * v[j]])]
MatTVec(A, v) == [j \in 1..Len(v) |-> ISum([i \in 1..Len(A) |-> A[i][j] * v[i]])]
Times(A, mode, v) == IF mode = "fwd" THEN MatVec(A, v) ELSE MatTVec(A, v)

\* ---- the formats -------------------------------------------------------------------------------------------------
\* add the slot values one after the other into compressed data through the slot->position map (np.add.at / +=)
RECURSIVE AddSlots(_, _, _, _, _)
AddSlots(data, T, rank, t, q) ==
    IF t > Len(T) THEN data
    ELSE AddSlots([data EXCEPT ![rank[t]] = @ + SlotVal(T[t], q)], T, rank, t + 1, q)

RECURSIVE PutSlots(_, _, _, _)       \* overwrite cells of a dense array, slot after slot
PutSlots(A, T, t, q) ==
    IF t > Len(T) THEN A ELSE PutSlots([A EXCEPT ![T[t].r][T[t].c] = SlotVal(T[t], q)], T, t + 1, q)

Zeros(m) == [i \in 1..m |-> 0]
ZeroMat(n) == [i \in 1..n |-> Zeros(n)]

\* the update rules: old representation -> representation after Linearize(q)
Update(G, fmt, old, q) ==
    CASE fmt = "coo" -> [t \in 1..Len(G.T) |-> SlotVal(G.T[t], q)]                  \* every slot overwritten
      [] fmt = "csc" -> AddSlots(Zeros(G.nc), G.T, G.cscRank, 1, q)                  \* ZEROED, then accumulated
      [] fmt = "csr" -> AddSlots(Zeros(G.nc), G.T, G.csrRank, 1, q)
      [] fmt = "dense" -> IF G.rep
                          THEN Asm(G, q)                     \* coo data densified: repeated cells are summed
                          ELSE PutSlots(old, G.T, 1, q)      \* in place; cells outside the pattern are never written
      [] fmt = "dict" -> q

Initial(G, fmt) == Update(G, fmt, ZeroMat(G.n), 0)

\* what a representation denotes, as a dense matrix
Denotation(G, fmt, rep) ==
    CASE fmt = "coo" -> SumCells(G.pos, G.n, rep)
      [] fmt = "csc" -> SumCells(G.cscCell, G.n, rep)
      [] fmt = "csr" -> SumCells(G.csrCell, G.n, rep)
      [] fmt = "dense" -> rep
      [] fmt = "dict" -> Asm(G, rep)

\* products computed the way the format computes them
\* matrix-free: transfer (gather with factor), then every component applies its own sub-Jacobians and -I
DictFwd(L, q, v) ==
    LET din(inp, c) == inp.fac * v[Off(L, inp.src) + SrcPos(L, inp, c) + 1]
        Row(i, j) ==    \* residual entry j (0-based) of output i
            (IF Explicit(L, i) THEN -v[Off(L, i) + j + 1] ELSE 0)
            + ISum([s \in 1..Len(L.subs) |->
                     LET sub == L.subs[s]
                         pat == Pat(L, sub)
                     IN IF sub.of # i THEN 0
                        ELSE ISum([k \in 1..Len(pat) |->
                                   IF pat[k][1] # j THEN 0
                                   ELSE Val(q, s, k) * (IF sub.wrt.k = "in" THEN din(L.ins[sub.wrt.i], pat[k][2])
                                                        ELSE v[Off(L, sub.wrt.i) + pat[k][2] + 1])])])
    IN Flatten([i \in 1..Len(L.outs) |-> [j \in 1..L.outs[i].sz |-> Row(i, j - 1)]])

\* reverse: every component adds J^T r into its d_inputs / d_outputs, then the reverse transfer scatter-ADDS the
\* d_inputs (times the factor) into the source positions
DictRev(L, q, v) ==
    LET Din(ii, c) ==    \* d_input entry c (0-based) of input ii
            ISum([s \in 1..Len(L.subs) |->
                   LET sub == L.subs[s]
                       pat == Pat(L, sub)
                   IN IF sub.wrt.k # "in" \/ sub.wrt.i # ii THEN 0
                      ELSE ISum([k \in 1..Len(pat) |-> IF pat[k][2] # c THEN 0
                                                       ELSE Val(q, s, k) * v[Off(L, sub.of) + pat[k][1] + 1]])])
        Own(i, j) ==     \* what the component itself adds to output entry j (0-based) of output i
            (IF Explicit(L, i) THEN -v[Off(L, i) + j + 1] ELSE 0)
            + ISum([s \in 1..Len(L.subs) |->
                     LET sub == L.subs[s]
                         pat == Pat(L, sub)
                     IN IF sub.wrt.k # "out" \/ sub.wrt.i # i THEN 0
                        ELSE ISum([k \in 1..Len(pat) |-> IF pat[k][2] # j THEN 0
                                                         ELSE Val(q, s, k) * v[Off(L, sub.of) + pat[k][1] + 1]])])
        Scatter(i, j) ==
            ISum([ii \in 1..Len(L.ins) |->
                   LET inp == L.ins[ii]
                   IN IF inp.src # i THEN 0
                      ELSE ISum([c \in 1..inp.sz |-> IF SrcPos(L, inp, c - 1) = j THEN inp.fac * Din(ii, c - 1) ELSE 0])])
    IN Flatten([i \in 1..Len(L.outs) |-> [j \in 1..L.outs[i].sz |-> Own(i, j - 1) + Scatter(i, j - 1)]])

Prod(L, G, fmt, rep, mode, v) ==
    LET T == G.T
        n == G.n
    IN CASE fmt = "coo" ->
              IF mode = "fwd" THEN [i \in 1..n |-> ISum([t \in 1..Len(T) |-> IF T[t].r = i THEN rep[t] * v[T[t].c] ELSE 0])]
              ELSE [j \in 1..n |-> ISum([t \in 1..Len(T) |-> IF T[t].c = j THEN rep[t] * v[T[t].r] ELSE 0])]
         [] fmt = "csc" ->
              IF mode = "fwd" THEN [i \in 1..n |-> ISum([m \in 1..G.nc |-> IF G.cscCell[m][1] = i THEN rep[m] * v[G.cscCell[m][2]] ELSE 0])]
              ELSE [j \in 1..n |-> ISum([m \in 1..G.nc |-> IF G.cscCell[m][2] = j THEN rep[m] * v[G.cscCell[m][1]] ELSE 0])]
         [] fmt = "csr" ->
              IF mode = "fwd" THEN [i \in 1..n |-> ISum([m \in 1..G.nc |-> IF G.csrCell[m][1] = i THEN rep[m] * v[G.csrCell[m][2]] ELSE 0])]
              ELSE [j \in 1..n |-> ISum([m \in 1..G.nc |-> IF G.csrCell[m][2] = j THEN rep[m] * v[G.csrCell[m][1]] ELSE 0])]
         [] fmt = "dense" -> Times(rep, mode, v)
         [] fmt = "dict" -> IF mode = "fwd" THEN DictFwd(L, rep, v) ELSE DictRev(L, rep, v)

\* ---- the state machine -------------------------------------------------------------------------------------------
VARIABLES ly,       \* index of the layout
          geo,      \* its compiled geometry (constant along a behaviour)
          inst,     \* value set the components return / that the last Linearize installed (0 = declared values)
          cplx,     \* TRUE while the vectors (and therefore the matrices after the next Linearize) are complex
          lin,      \* a Linearize has happened
          fresh,    \* a Linearize has happened since the last dtype switch (products are only taken then)
          mats,     \* format -> representation
          hist      \* the history, with the exact expectation after every action
vars == <<ly, geo, inst, cplx, lin, fresh, mats, hist>>

L == Layouts[ly]

Init == /\ ly \in 1..Len(Layouts)
        /\ geo = Compile(Layouts[ly])
        /\ inst = 0 /\ cplx = FALSE /\ lin = FALSE /\ fresh = FALSE
        /\ mats = [f \in Formats |-> Initial(geo, f)]
        /\ hist = <<>>

Bound == Len(hist) < Depth

Linearize(q) ==
    /\ Bound
    /\ inst' = q /\ lin' = TRUE /\ fresh' = TRUE
    /\ mats' = [f \in Formats |-> Update(geo, f, mats[f], q)]          \* the dtype of the data follows cplx; values are real
    /\ hist' = Append(hist, [a |-> "Linearize", q |-> q, asm |-> Asm(geo, q)])
    /\ UNCHANGED <<ly, geo, cplx>>

SetComplex(b) ==
    /\ Bound
    /\ b # cplx
    /\ cplx' = b /\ fresh' = FALSE
    /\ hist' = Append(hist, [a |-> "SetComplex", b |-> b])
    /\ UNCHANGED <<ly, geo, inst, lin, mats>>

\* the product of a complex vector is the complex-linear extension: real and imaginary parts separately
Apply(mode, sd) ==
    /\ Bound
    /\ lin /\ fresh
    /\ sd \in {3, 4} => cplx
    /\ LET A == Asm(geo, inst)
       IN hist' = Append(hist, [a |-> "Apply", mode |-> mode, sd |-> sd,
                                re |-> Times(A, mode, SeedRe(sd, geo.n)), im |-> Times(A, mode, SeedIm(sd, geo.n))])
    /\ UNCHANGED <<ly, geo, inst, cplx, lin, fresh, mats>>

Next == \/ \E q \in 1..NQ : Linearize(q)
        \/ \E b \in BOOLEAN : SetComplex(b)
        \/ \E mode \in Modes, sd \in Seeds : Apply(mode, sd)

Spec == Init /\ [][Next]_vars

\* ---- properties ----------------------------------------------------------------------------------------------------
\* every format denotes the operator assembled from the LATEST values (nothing of an earlier linearisation is left)
Denotes == LET A == Asm(geo, inst) IN \A f \in Formats : Denotation(geo, f, mats[f]) = A
\* every format computes the same products, forward and transposed, on both seed vectors (the real and imaginary
\* parts of every seed are one of them or zero)
FormatsAgree ==
    LET A == Asm(geo, inst)
    IN \A f \in Formats, mode \in Modes, v \in {V1(geo.n), V2(geo.n)} : Prod(L, geo, f, mats[f], mode, v) = Times(A, mode, v)
\* forward and reverse are adjoint:  u . (A v) = (A^T u) . v
Dot(u, v) == ISum([i \in 1..Len(u) |-> u[i] * v[i]])
Adjoint == LET n == geo.n
               A == Asm(geo, inst)
           IN Dot(V1(n), Times(A, "fwd", V2(n))) = Dot(Times(A, "rev", V1(n)), V2(n))
TypeOK == /\ inst \in 0..NQ /\ cplx \in BOOLEAN
          /\ \A s \in 1..Len(L.subs) : \A k \in 1..Len(Pat(L, L.subs[s])) :
                LET e == Pat(L, L.subs[s])[k] IN e[1] \in 0..(L.outs[L.subs[s].of].sz - 1) /\ e[2] \in 0..(WrtSize(L, L.subs[s]) - 1)
          /\ \A i \in 1..Len(L.ins) : L.ins[i].idx # <<>> => Len(L.ins[i].idx) = L.ins[i].sz

View == <<ly, inst, cplx, lin, fresh, mats>>
=============================================================================
