CONSTANTS
  Configs <- MCConfigs
  NormVals <- MCNormVals
  FirstVals <- MCFirstVals
  MaxIters = {0, 1, 2}
  CsVals = {TRUE, FALSE}
  Kinds = {"newton", "broyden", "nlbgs", "nlbj", "lnbgs", "lnbj"}
INIT Init
NEXT Next
VIEW View
INVARIANT IterBound
INVARIANT FailIffNotMet
INVARIANT RaiseIffFail
INVARIANT SuccessSound
INVARIANT StopJustified
PROPERTY StopsAtFirst
