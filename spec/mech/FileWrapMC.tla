---------------------------- MODULE FileWrapMC ----------------------------
(* Exhaustive configuration + edge export for FileWrap.tla (C29).          *)
EXTENDS FileWrap, Json

\* 4 lines x 3 fields; anchor 1 on the first and on the LAST line, anchor 2 in between
TmplA == << <<1, 11, 12>>, <<13, 14, 15>>, <<2, 16, 17>>, <<1, 18, 19>> >>
\* 3 lines x 4 fields; anchor 1 mid-line, and a line holding both anchors
TmplB == << <<21, 1, 22, 23>>, <<24, 25, 26, 27>>, <<2, 28, 1, 29>> >>

AllScenarios == << [file |-> TmplB, delim |-> 2], [file |-> TmplA, delim |-> 1],
                   [file |-> TmplA, delim |-> 2], [file |-> TmplB, delim |-> 1] >>
\* quick tier: each template once, each delimiter set once
TwoScenarios == SubSeq(AllScenarios, 1, 2)
\* thorough tier, third operation: one template
DeepScenarios == SubSeq(AllScenarios, 1, 1)
\* delimiter sets 3 and 4 contain characters that are special in a regular-expression character class
\* (']' and '-'); the specification does not depend on the delimiter set, the generator must not either
DelimScenarios == << [file |-> TmplA, delim |-> 3], [file |-> TmplB, delim |-> 4] >>
DelimScenariosAll == DelimScenarios \o << [file |-> TmplB, delim |-> 3], [file |-> TmplA, delim |-> 4] >>
\* (sc indexes Scenarios, the sequence that the configuration substitutes; it is printed as SCN)

\* line counts of the wrapped arrays: quick tier two lines, thorough tier two and three
WrapNone == {}
WrapQuick == {2}
WrapAll == {2, 3}

ASSUME PrintT(<<"SCN", ToJson(Scenarios)>>)
\* anchor 1 occurs twice, anchor 2 once, in every template; template tokens are distinct
ASSUME \A i \in 1..Len(AllScenarios \o DelimScenariosAll) :
          LET f == (AllScenarios \o DelimScenariosAll)[i].file
          IN /\ Cardinality(ARows(f, 1)) = 2 /\ Cardinality(ARows(f, 2)) = 1
             /\ \A r \in 1..Len(f), s \in 1..Len(f) : \A j \in 1..Len(f[r]), k \in 1..Len(f[s]) :
                   (f[r][j] = f[s][k] /\ f[r][j] > 2) => (r = s /\ j = k)

Proj(f, c, a) == [file |-> f, cur |-> c, anch |-> a]
Out(a) == PrintT(<<"EXP", ToJson([sc |-> sc, f |-> Proj(file, cur, anch), a |-> a,
                                  t |-> Proj(file', cur', anch'),
                                  r |-> [r |-> last'.r, w |-> last'.w, clr |-> last'.clr,
                                         addr |-> Addr(file', cur')]])>>)

XNext ==
    \/ \E a \in AnchorIds, occ \in Occs : MarkAnchor(a, occ) /\ Out([n |-> "MarkAnchor", a |-> a, occ |-> occ])
    \/ ResetAnchor /\ Out([n |-> "ResetAnchor"])
    \/ \E v \in {101, 102}, row \in Rows, f \in Fields :
          TransferVar(v, row, f) /\ Out([n |-> "TransferVar", v |-> v, row |-> row, f |-> f])
    \/ \E vals \in Arrays, row \in Rows, fs \in Fields, fe \in Fields :
          TransferArray(vals, row, row, fs, fe)
          /\ Out([n |-> "TransferArray", vals |-> vals, row |-> row, re |-> row, fs |-> fs, fe |-> fe])
    \/ \E row \in Rows, nr \in WrapRows, fs \in Fields, fe \in Fields, extra \in 0..1 :
          /\ (cur + row) \in 1..Len(file) /\ (cur + row + nr - 1) \in 1..Len(file)
          /\ LET vals == Cyc(ACount(file, cur + row, cur + row + nr - 1, fs, fe) + extra)
             IN /\ TransferArray(vals, row, row + nr - 1, fs, fe)
                /\ Out([n |-> "TransferArray", vals |-> vals, row |-> row, re |-> row + nr - 1,
                        fs |-> fs, fe |-> fe])
    \/ \E rs \in Rows, nr \in 2..3, fs \in Fields, fe \in Fields :
          /\ Transfer2DArray(Matrix(nr, fe - fs + 1), rs, rs + nr - 1, fs, fe)
          /\ Out([n |-> "Transfer2DArray", vals |-> Matrix(nr, fe - fs + 1), rs |-> rs, re |-> rs + nr - 1,
                  fs |-> fs, fe |-> fe])
    \/ \E row \in Rows : ClearLine(row) /\ Out([n |-> "ClearLine", row |-> row])

ExportInit == TLCGet("level") = 1 => PrintT(<<"INI", ToJson([sc |-> sc, f |-> Proj(file, cur, anch)])>>)

\* `last` only reports what the previous operation did; it is not part of the generator's state
View == <<sc, file, cur, anch, n>>
=============================================================================
