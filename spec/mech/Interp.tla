------------------------------- MODULE Interp -------------------------------
(***************************************************************************)
(* Table interpolation on a regular grid (InterpND, MetaModelStructuredComp,*)
(* SplineComp).  C15, C16.                                                  *)
(*                                                                          *)
(* A scenario is a grid (one strictly increasing integer sequence per axis, *)
(* coordinates in -4..4, any sign pattern), a table that is an integer      *)
(* polynomial of one of the classes the table methods reproduce             *)
(*    lin  : multilinear          (degree <= 1 in every coordinate)         *)
(*    quad : tensor quadratic     (degree <= 2 in every coordinate)         *)
(*    cub  : tensor cubic         (degree <= 3 in every coordinate)         *)
(* evaluated on the grid, a query point whose coordinates are dyadic        *)
(* rationals X[i]/R (R = 4, or 2 in three dimensions) and the extrapolate   *)
(* flag.  What a method that reproduces the class must return is then an    *)
(* exact rational:  Outcome = IF ~extrapolate /\ point outside the grid     *)
(* THEN error ELSE f(x);  derivative = grad f(x);  for slinear the weights  *)
(* d value / d table entry are the tensor hat functions.                    *)
(*                                                                          *)
(* All polynomial arithmetic is done in integers over the common            *)
(* denominator R^(dim*deg) and normalised once (Rat.tla); TLC integers are  *)
(* 32 bit and overflow aborts the run, so a result is exact or absent.      *)
(***************************************************************************)
EXTENDS Rat, Naturals, FiniteSets, TLC, Json

CONSTANTS Dims,          \* set of table dimensions to enumerate (subset of 1..3)
          NPoly,         \* number of polynomials per (dimension, class)
          AllGrids1D,    \* BOOLEAN: dimension 1 ranges over every grid (else the representative ones)
          NRep,          \* number of representative grids per axis used in 2-D (pairs = NRep^2)
          NRep3,         \* number of representative 3-D grids
          FullPos2D,     \* BOOLEAN: quarter points of every cell in 2-D (else first/last cell only)
          InteriorOnly,  \* BOOLEAN: only interior dyadic points (C16)
          ExFull,        \* BOOLEAN: extrapolate=TRUE scenarios use every position (else boundary / outside / one midpoint)
          ExSet,         \* subset of BOOLEAN: values of the extrapolate flag
          HistPos,       \* BOOLEAN: two query positions per axis only (base scenarios of the query histories)
          BKind          \* "none" | "node" | "mid": a second query point B of the same scenario (InterpHist.tla)

Coords == -4..4
Classes == {"lin", "quad", "cub"}
Degree(cls) == CASE cls = "lin" -> 1 [] cls = "quad" -> 2 [] cls = "cub" -> 3

RECURSIVE Pow(_, _)
Pow(b, e) == IF e = 0 THEN 1 ELSE b * Pow(b, e - 1)
RECURSIVE SumTo(_, _)       \* F[1] + ... + F[n]
SumTo(F, n) == IF n = 0 THEN 0 ELSE F[n] + SumTo(F, n - 1)
RECURSIVE ProdTo(_, _)      \* F[1] * ... * F[n]
ProdTo(F, n) == IF n = 0 THEN 1 ELSE F[n] * ProdTo(F, n - 1)

\* --- grids -----------------------------------------------------------------------------------------
SetMin(S) == CHOOSE m \in S : \A y \in S : m <= y
RECURSIVE SortedSeq(_)
SortedSeq(S) == IF S = {} THEN <<>> ELSE LET m == SetMin(S) IN <<m>> \o SortedSeq(S \ {m})
\* every strictly increasing sequence of 3..5 coordinates (336 grids)
AllGrids == {SortedSeq(S) : S \in {T \in SUBSET Coords : Cardinality(T) \in 3..5}}
\* representative grids for the multi-dimensional products: every sign pattern, even and uneven spacing
RepSeq == << <<-4, -3, -1>>,            \* all negative, uneven, 3 points
             <<-3, -1, 0, 2, 4>>,       \* straddles 0 with a node at 0, uneven, 5 points
             <<-4, -2, -1, 0>>,         \* ends at 0
             <<1, 2, 3, 4>>,            \* all positive, uniform
             <<-4, -3, -2, -1>>,        \* all negative, uniform, 4 points
             <<0, 1, 3, 4>>,            \* starts at 0
             <<-2, 1, 3>>,              \* straddles 0, 0 is not a node, 3 points
             <<-4, -3, -2, -1, 0>> >>   \* 5 points ending at 0
Rep(k) == {RepSeq[i] : i \in 1..k}
Rep3 == << << <<-4, -3, -2, -1>>, <<-3, -1, 0, 2, 4>>, <<0, 1, 3, 4>> >>,
           << <<-4, -2, -1, 0>>, <<1, 2, 3, 4>>, <<-4, -3, -1>> >>,
           << <<-2, -1, 1, 3>>, <<-4, -3, -2, -1>>, <<-4, -2, -1, 0>> >> >>
GridTuples(dim) == CASE dim = 1 -> {<<a>> : a \in (IF AllGrids1D THEN AllGrids ELSE Rep(NRep))}
                     [] dim = 2 -> {<<a, b>> : a \in Rep(NRep), b \in Rep(NRep)}
                     [] dim = 3 -> {Rep3[i] : i \in 1..NRep3}
StrictlyIncreasing(g) == \A i \in 1..Len(g) - 1 : g[i] < g[i + 1]
\* evenly spaced axis.  On evenly spaced axes Akima's interpolant also reproduces the tensor QUADRATICS (inside the
\* grid): the segment slopes of a parabola form an arithmetic progression, which the end continuation m_0 = 2 m_1 - m_2
\* extends, so both weights of a node slope are equal and the slope is the mean of the adjacent segment slopes - the
\* derivative of the parabola at the node (law AkQuadLaw below checks this on the definition).
Uniform(g) == \A i \in 1..Len(g) - 2 : g[i + 1] - g[i] = g[i + 2] - g[i + 1]

\* --- polynomials -----------------------------------------------------------------------------------
\* coefficient k of a polynomial of per-axis degree d in `dim` variables multiplies
\* prod_i x_i^Exp(k, i, d); axis 1 varies fastest.  (Exponent tuples are padded to three axes; an axis
\* beyond `dim` always has exponent 0.)
Exp(k, i, d) == CASE i = 1 -> (k - 1) % (d + 1)
                  [] i = 2 -> ((k - 1) \div (d + 1)) % (d + 1)
                  [] i = 3 -> ((k - 1) \div ((d + 1) * (d + 1))) % (d + 1)
CVals == <<1, -2, 2, -1, 1, 2, -1>>
Coef(p, k, K) == IF k = K THEN (IF p % 2 = 1 THEN 1 ELSE -2)      \* the top term never vanishes
                 ELSE CVals[((k * k * k + 2 * k * p + 3 * p) % 7) + 1]

\* <<x^e * r^(d-e) : e = 0..3>> (0 beyond the degree): the scaled powers of one coordinate x/r
PowVec(x, r, d) == <<Pow(r, d),
                     IF d >= 1 THEN x * Pow(r, d - 1) ELSE 0,
                     IF d >= 2 THEN x * x * Pow(r, d - 2) ELSE 0,
                     IF d >= 3 THEN x * x * x ELSE 0>>
\* <<e * x^(e-1) * r^(d-e) : e = 0..3>>: the scaled powers of the derivative
DPowVec(x, r, d) == <<0,
                      IF d >= 1 THEN Pow(r, d - 1) ELSE 0,
                      IF d >= 2 THEN 2 * x * Pow(r, d - 2) ELSE 0,
                      IF d >= 3 THEN 3 * x * x ELSE 0>>
Pad == <<1, 0, 0, 0>>
PV(s, X, i) == IF i <= s.dim THEN PowVec(X[i], s.R, s.deg) ELSE Pad
DPV(s, X, i) == IF i <= s.dim THEN DPowVec(X[i], s.R, s.deg) ELSE Pad
\* sum_k c[k] * a[e1(k)] * b[e2(k)] * c3[e3(k)] for per-axis power vectors a, b, c3
Contract(s, a, b, c3) == SumTo([k \in 1..Len(s.c) |-> s.c[k] * a[Exp(k, 1, s.deg) + 1] * b[Exp(k, 2, s.deg) + 1]
                                                             * c3[Exp(k, 3, s.deg) + 1]], Len(s.c))
\* integer numerator of f(X/R) over the denominator R^(dim*deg)
EvalN(s, X) == Contract(s, PV(s, X, 1), PV(s, X, 2), PV(s, X, 3))
Value(s, X) == Q(EvalN(s, X), Pow(s.R, s.dim * s.deg))
\* integer numerator of (d f / d x_j)(X/R) over the denominator R^(dim*deg - 1)
DerivN(s, X, j) == Contract(s, IF j = 1 THEN DPV(s, X, 1) ELSE PV(s, X, 1),
                               IF j = 2 THEN DPV(s, X, 2) ELSE PV(s, X, 2),
                               IF j = 3 THEN DPV(s, X, 3) ELSE PV(s, X, 3))
Deriv(s, X) == [j \in 1..s.dim |-> Q(DerivN(s, X, j), Pow(s.R, s.dim * s.deg - 1))]
\* the table entry at node indices <<i1, i2, i3>> (padded with 1): plain integer evaluation at the grid coordinates
NodePow(s, i, ix) == IF i <= s.dim THEN LET x == s.g[i][ix] IN <<1, x, x * x, x * x * x>> ELSE Pad
TableAt(s, idx) == Contract(s, NodePow(s, 1, idx[1]), NodePow(s, 2, idx[2]), NodePow(s, 3, idx[3]))

\* --- query points ----------------------------------------------------------------------------------
\* scaled coordinate R*x of a position on the axis with grid g
XOf(g, rs, pos) ==
    CASE pos.kd = "node" -> rs * g[pos.ix]
      [] pos.kd = "mid" -> (rs \div 2) * (g[pos.ix] + g[pos.ix + 1])
      [] pos.kd = "q1" -> 3 * g[pos.ix] + g[pos.ix + 1]           \* R = 4
      [] pos.kd = "q3" -> g[pos.ix] + 3 * g[pos.ix + 1]           \* R = 4
      [] pos.kd = "below" -> rs * g[1] - 1                         \* 1/R below the first node
      [] pos.kd = "above" -> rs * g[Len(g)] + 1                    \* 1/R above the last node
PosAxis(g, rs, full, reduced) ==
    LET n == Len(g)
        nodes == {[kd |-> "node", ix |-> j] : j \in 1..n}          \* includes both boundaries (ix = 1, n)
        mids == {[kd |-> "mid", ix |-> j] : j \in 1..n - 1}
        qs == IF rs # 4 THEN {}
              ELSE IF full THEN {[kd |-> q, ix |-> j] : q \in {"q1", "q3"}, j \in 1..n - 1}
              ELSE {[kd |-> "q1", ix |-> 1], [kd |-> "q3", ix |-> n - 1]}
        outs == {[kd |-> "below", ix |-> 0], [kd |-> "above", ix |-> 0]}
        all == IF InteriorOnly THEN mids \cup qs ELSE nodes \cup mids \cup qs \cup outs
    IN IF HistPos THEN {[kd |-> "mid", ix |-> 1], [kd |-> IF rs = 4 THEN "q3" ELSE "mid", ix |-> n - 1]}
       ELSE IF reduced THEN all \cap ({[kd |-> "node", ix |-> 1], [kd |-> "node", ix |-> n], [kd |-> "mid", ix |-> 1]} \cup outs)
       ELSE all
PosTuples(s) ==
    LET P(i) == PosAxis(s.g[i], s.R, s.dim = 1 \/ FullPos2D, s.ex /\ ~ExFull)
        \* HistPos: the point lies in the first cell of every axis or in the last cell of every axis
        same(a, b) == ~HistPos \/ (a.ix = 1 <=> b.ix = 1)
    IN CASE s.dim = 1 -> {<<a>> : a \in P(1)}
         [] s.dim = 2 -> {t \in {<<a, b>> : a \in P(1), b \in P(2)} : same(t[1], t[2])}
         [] s.dim = 3 -> {t \in {<<a, b, c>> : a \in P(1), b \in P(2), c \in P(3)} : same(t[1], t[2]) /\ same(t[1], t[3])}

InGrid(s, X) == \A i \in 1..s.dim : s.R * s.g[i][1] <= X[i] /\ X[i] <= s.R * s.g[i][Len(s.g[i])]

\* --- slinear: hat-function weights -----------------------------------------------------------------
\* cell [g[k], g[k+1]] used by piecewise-linear interpolation (first / last cell when extrapolating)
CellOf(g, rs, x) == LET n == Len(g)
                    IN IF x < rs * g[1] THEN 1
                       ELSE IF x >= rs * g[n] THEN n - 1
                       ELSE CHOOSE k \in 1..n - 1 : rs * g[k] <= x /\ x < rs * g[k + 1]
HatDen(g, rs, x) == LET k == CellOf(g, rs, x) IN rs * (g[k + 1] - g[k])
\* numerators of the weights of nodes 1..5 over HatDen (0 for nodes that do not exist)
HatNum(g, rs, x) == LET k == CellOf(g, rs, x)
                        h(j) == IF j = k THEN rs * g[k + 1] - x ELSE IF j = k + 1 THEN x - rs * g[k] ELSE 0
                    IN <<h(1), h(2), h(3), h(4), h(5)>>
Hat(s, X) == [i \in 1..s.dim |-> LET hn == HatNum(s.g[i], s.R, X[i])
                                     hd == HatDen(s.g[i], s.R, X[i])
                                 IN [j \in 1..Len(s.g[i]) |-> Q(hn[j], hd)]]

\* --- a second query point B of the same scenario (histories of queries on one object: InterpHist.tla) --
\* "node": the second node of every axis (exact for every method);  "mid": the midpoint of the last cell of
\* every axis, of the first cell where the point A lies in the last one (another cell than A on every axis)
BPosOf(s) == [i \in 1..s.dim |->
                 IF BKind = "node" THEN [kd |-> "node", ix |-> 2]
                 ELSE LET n == Len(s.g[i])
                      IN [kd |-> "mid", ix |-> IF s.pos[i].kd # "node" /\ s.pos[i].ix = n - 1 THEN 1 ELSE n - 1]]
BXOf(s) == LET bp == BPosOf(s) IN [i \in 1..s.dim |-> XOf(s.g[i], s.R, bp[i])]

\* --- expected observable ---------------------------------------------------------------------------
Out(s) == LET inb == InGrid(s, s.X)
              err == ~s.ex /\ ~inb
          IN [err |-> err, inb |-> inb,
              interior |-> \A i \in 1..s.dim : s.pos[i].kd \in {"mid", "q1", "q3"},
              uni |-> \A i \in 1..s.dim : Uniform(s.g[i]),
              v |-> IF err THEN NaN ELSE Value(s, s.X),
              d |-> IF err THEN <<>> ELSE Deriv(s, s.X),
              w |-> IF err \/ s.cls # "lin" THEN <<>> ELSE Hat(s, s.X),
              b |-> IF BKind = "none" THEN <<>>
                    ELSE LET bx == BXOf(s) IN [pos |-> BPosOf(s), X |-> bx, v |-> Value(s, bx), d |-> Deriv(s, bx)]]

\* --- scenario enumeration: Init fixes (dimension, class, polynomial, extrapolate, grid); the single
\* Choose step picks the query point, so that TLC's workers share the evaluation work -------------------
VARIABLES stage, scen, out
vars == <<stage, scen, out>>

Mk(dim, cls, p, ex, g) ==
    LET d == Degree(cls)
        res == IF dim = 3 THEN 2 ELSE 4
        K == Pow(d + 1, dim)
    IN [dim |-> dim, cls |-> cls, deg |-> d, p |-> p, R |-> res, g |-> g,
        c |-> [k \in 1..K |-> Coef(p, k, K)], ex |-> ex,
        pos |-> [i \in 1..dim |-> [kd |-> "node", ix |-> 1]],
        X |-> [i \in 1..dim |-> res * g[i][1]]]
BaseOf(dims) == UNION {{Mk(dim, cls, p, ex, g) : cls \in Classes, p \in 1..NPoly, ex \in ExSet, g \in GridTuples(dim)} :
                       dim \in dims}
Init == stage = 0 /\ scen \in BaseOf(Dims) /\ out = Out(scen)
Choose == /\ stage = 0 /\ stage' = 1
          /\ \E ps \in PosTuples(scen) :
                scen' = [scen EXCEPT !.pos = ps, !.X = [i \in 1..scen.dim |-> XOf(scen.g[i], scen.R, ps[i])]]
          /\ out' = Out(scen')
Next == Choose

\* --- laws ------------------------------------------------------------------------------------------
GridsOk == \A i \in 1..scen.dim : StrictlyIncreasing(scen.g[i]) /\ Len(scen.g[i]) \in 3..5
                                   /\ \A j \in 1..Len(scen.g[i]) : scen.g[i][j] \in Coords
Outside(s) == \E i \in 1..s.dim : s.pos[i].kd \in {"below", "above"}
\* an error exactly for points outside the grid with extrapolation off
ErrorIff == /\ out.inb <=> ~Outside(scen)
            /\ out.err <=> (~scen.ex /\ Outside(scen))
\* exact on nodes: at a node the expected value is the table entry
NodeLaw == (\A i \in 1..scen.dim : scen.pos[i].kd = "node") =>
               /\ ~out.err
               /\ out.v = R(TableAt(scen, [i \in 1..scen.dim |-> scen.pos[i].ix]))
\* the derivative is the derivative of the value: the 4-point central difference (exact up to degree 4 along
\* the axis) of the value with step 1/R (1-D and 2-D; in 3-D the cubic stencil does not fit in 32 bits)
Shift(X, j, t) == [X EXCEPT ![j] = @ + t]
StencilN(s, X, j) == EvalN(s, Shift(X, j, -2)) - 8 * EvalN(s, Shift(X, j, -1))
                     + 8 * EvalN(s, Shift(X, j, 1)) - EvalN(s, Shift(X, j, 2))
DerivLaw == (~out.err /\ scen.dim <= 2) =>
               \A j \in 1..scen.dim : out.d[j] = Q(StencilN(scen, scen.X, j), 12 * Pow(scen.R, scen.dim * scen.deg - 1))
\* slinear: value = sum_k w_k * T_k over the whole table, sum_k w_k = 1, and inside the grid w >= 0
NAx(s, i) == IF i <= s.dim THEN Len(s.g[i]) ELSE 1
NNodes(s) == NAx(s, 1) * NAx(s, 2) * NAx(s, 3)
NodeIdx(s, m) == <<((m - 1) % NAx(s, 1)) + 1,
                   (((m - 1) \div NAx(s, 1)) % NAx(s, 2)) + 1,
                   (((m - 1) \div (NAx(s, 1) * NAx(s, 2))) % NAx(s, 3)) + 1>>
HatLaw == (~out.err /\ scen.cls = "lin") =>
            LET s == scen
                HN(i) == IF i <= s.dim THEN HatNum(s.g[i], s.R, s.X[i]) ELSE <<1, 0, 0, 0, 0>>
                hn == <<HN(1), HN(2), HN(3)>>
                HD(i) == IF i <= s.dim THEN HatDen(s.g[i], s.R, s.X[i]) ELSE 1
                hd == HD(1) * HD(2) * HD(3)
                n == NNodes(s)
                idx == [m \in 1..n |-> NodeIdx(s, m)]
                W(m) == hn[1][idx[m][1]] * hn[2][idx[m][2]] * hn[3][idx[m][3]]
            IN /\ Q(SumTo([m \in 1..n |-> W(m) * TableAt(s, idx[m])], n), hd) = out.v
               /\ SumTo([m \in 1..n |-> W(m)], n) = hd
               /\ out.inb => \A i \in 1..s.dim : \A j \in 1..5 : hn[i][j] >= 0
               /\ \A i \in 1..s.dim : \A j \in 1..Len(s.g[i]) : out.w[i][j] = Q(hn[i][j], HD(i))
\* the second point lies in the grid; with BKind = "mid" in another cell than an interior point A on every axis
BLaw == (BKind # "none" /\ stage = 1) =>
            /\ InGrid(scen, out.b.X)
            /\ out.interior => \A i \in 1..scen.dim : out.b.X[i] # scen.X[i]
            /\ (BKind = "mid" /\ out.interior) =>
                   \A i \in 1..scen.dim : CellOf(scen.g[i], scen.R, out.b.X[i]) # CellOf(scen.g[i], scen.R, scen.X[i])
            /\ (BKind = "node") => out.b.v = R(TableAt(scen, [i \in 1..3 |-> 2]))
Export == stage = 1 => PrintT(<<"EXP", ToJson([s |-> scen, o |-> out])>>)
(***************************************************************************)
(* Akima's interpolant (1970) on a 1-D grid with the documented smoothing  *)
(* of the absolute value (option delta_x > 0: |a| is replaced by           *)
(* a^2/(2 delta) + delta/2 for |a| < delta), C16.  The interpolant is not  *)
(* linear in the table values, so the derivative with respect to them is   *)
(* defined here the only way a derivative can be: by differentiating the   *)
(* definition.  Every quantity is a dual number  [v |-> value, d |-> the   *)
(* vector of its derivatives with respect to the table values T_1..T_n],   *)
(* all exact rationals; the arithmetic below is the sum / product /        *)
(* quotient rule.                                                          *)
(*   segment slopes  m_j = (T_{j+1} - T_j)/(g_{j+1} - g_j), continued      *)
(*     beyond both ends by  m_0 = 2 m_1 - m_2,  m_{-1} = 2 m_0 - m_1  etc. *)
(*   node slope  b_i = (|m_{i+1} - m_i| m_{i-1} + |m_{i-1} - m_{i-2}| m_i) *)
(*                     / (|m_{i+1} - m_i| + |m_{i-1} - m_{i-2}|)           *)
(*   cell i, t = x - g_i, h = g_{i+1} - g_i:                               *)
(*     y = T_i + b_i t + (3 m_i - 2 b_i - b_{i+1}) t^2/h                   *)
(*             + (b_i + b_{i+1} - 2 m_i) t^3/h^2                           *)
(* With delta > 0 no denominator vanishes.                                 *)
(***************************************************************************)
CONSTANTS AkMod, AkRem     \* table perturbations e with AkHash(e) % AkMod = AkRem % AkMod   (AkMod = 1: all)

DVar(n, j, c) == [v |-> c, d |-> [k \in 1..n |-> IF k = j THEN One ELSE Zero]]
DAdd(a, b) == [v |-> Add(a.v, b.v), d |-> [k \in DOMAIN a.d |-> Add(a.d[k], b.d[k])]]
DSub(a, b) == [v |-> Sub(a.v, b.v), d |-> [k \in DOMAIN a.d |-> Sub(a.d[k], b.d[k])]]
DScale(c, a) == [v |-> Mul(c, a.v), d |-> [k \in DOMAIN a.d |-> Mul(c, a.d[k])]]
DMul(a, b) == [v |-> Mul(a.v, b.v), d |-> [k \in DOMAIN a.d |-> Add(Mul(a.v, b.d[k]), Mul(b.v, a.d[k]))]]
DDiv(a, b) == [v |-> Div(a.v, b.v),
               d |-> [k \in DOMAIN a.d |-> Div(Sub(Mul(a.d[k], b.v), Mul(a.v, b.d[k])), Mul(b.v, b.v))]]
\* the smoothed absolute value and its derivative
Rounded(a, dl) == Lt(a.v, dl) /\ Gt(a.v, Neg(dl))
DAbsS(a, dl) == IF ~Rounded(a, dl) THEN (IF a.v[1] >= 0 THEN a ELSE DScale(R(-1), a))
                ELSE [v |-> Add(Div(Mul(a.v, a.v), Mul(R(2), dl)), Div(dl, R(2))),
                      d |-> [k \in DOMAIN a.d |-> Div(Mul(a.v, a.d[k]), dl)]]

AkGrids == << <<-4, -3, -1, 0, 2, 3>>,          \* 6 points, spacings 1 and 2: one cell with all five slopes from data
              <<-3, -2, -1, 0, 1, 2>>,          \* 6 points, uniform
              <<-4, -2, -1, 0>>,                \* 4 points (the minimum): every cell uses a continued slope
              <<0, 1, 3, 4, 6>>,                \* 5 points
              <<-4, -3, -2, 0, 1, 3, 4>> >>     \* 7 points
\* delta_x = 1/2, 1 and (uniform grid only: the numerators stay below 2^31) 2
AkDeltas(gi) == {<<1, 2>>, <<1, 1>>} \cup (IF gi = 2 THEN {<<2, 1>>} ELSE {})

\* the spline of scenario s (grid g, integer table T, delta = dl) in cell s.cell at the scaled coordinate s.X (R = 4)
Akima(s) ==
    LET g == s.g
        n == Len(g)
        dl == Q(s.dl[1], s.dl[2])
        TD == [j \in 1..n |-> DVar(n, j, R(s.T[j]))]
        seg == [j \in 1..n - 1 |-> DScale(Q(1, g[j + 1] - g[j]), DSub(TD[j + 1], TD[j]))]
        M0 == DSub(DScale(R(2), seg[1]), seg[2])
        Mm1 == DSub(DScale(R(2), M0), seg[1])
        Mn == DSub(DScale(R(2), seg[n - 1]), seg[n - 2])
        Mn1 == DSub(DScale(R(2), Mn), seg[n - 1])
        MM(j) == CASE j = -1 -> Mm1 [] j = 0 -> M0 [] j = n -> Mn [] j = n + 1 -> Mn1 [] OTHER -> seg[j]
        i == s.cell
        m1 == MM(i - 2)
        m2 == MM(i - 1)
        m3 == MM(i)
        m4 == MM(i + 1)
        m5 == MM(i + 2)
        a2 == DSub(m4, m3)
        a31 == DSub(m2, m1)
        a32 == DSub(m5, m4)
        a4 == DSub(m3, m2)
        w2 == DAbsS(a2, dl)
        w31 == DAbsS(a31, dl)
        w32 == DAbsS(a32, dl)
        w4 == DAbsS(a4, dl)
        b == DDiv(DAdd(DMul(m2, w2), DMul(m3, w31)), DAdd(w2, w31))
        bp == DDiv(DAdd(DMul(m3, w32), DMul(m4, w4)), DAdd(w32, w4))
        h == R(g[i + 1] - g[i])
        c == DScale(Inv(h), DSub(DSub(DScale(R(3), m3), DScale(R(2), b)), bp))
        d == DScale(Inv(Mul(h, h)), DSub(DAdd(b, bp), DScale(R(2), m3)))
        t == Q(s.X - 4 * g[i], 4)
        t2 == Mul(t, t)
        t3 == Mul(t2, t)
        y == DAdd(DAdd(TD[i], DScale(t, b)), DAdd(DScale(t2, c), DScale(t3, d)))
    IN [v |-> y.v,
        dx |-> Add(b.v, Add(Mul(R(2), Mul(c.v, t)), Mul(R(3), Mul(d.v, t2)))),
        dT |-> y.d,
        \* number of weights taken in the rounded section with a nonzero argument (where the smoothing matters)
        rounded |-> Cardinality({k \in 1..4 : LET a == <<a2, a31, a32, a4>>[k] IN Rounded(a, dl) /\ a.v # Zero}),
        b |-> <<b.v, bp.v>>]

AkHash(e) == SumTo([j \in 1..Len(e) |-> (j * j + 3) * (e[j] + 2)], Len(e))
\* table: the line 2 x (tq = 1: the parabola 2 x + x^2) through the nodes, each value moved by e_j in {-1, 0, 1}
AkMk(gi, dl, e, tq, cell, X) ==
    [fam |-> "akima", gi |-> gi, g |-> AkGrids[gi], dl |-> dl, e |-> e, tq |-> tq,
     T |-> [j \in 1..Len(e) |-> 2 * AkGrids[gi][j] + tq * AkGrids[gi][j] * AkGrids[gi][j] + e[j]], cell |-> cell, X |-> X]
InitAk == /\ stage = 0
          /\ \E gi \in 1..Len(AkGrids) : \E dl \in AkDeltas(gi) :
                scen = AkMk(gi, dl, [j \in 1..Len(AkGrids[gi]) |-> 0], 0, 1, 2 * (AkGrids[gi][1] + AkGrids[gi][2]))
          /\ out = Akima(scen)
ChooseAk == /\ stage = 0 /\ stage' = 1
            /\ \E e \in [1..Len(scen.g) -> {-1, 0, 1}], tq \in {0, 1}, cell \in 1..Len(scen.g) - 1,
                  kd \in {"mid", "q1", "q3"} :
                  \* the parabola: unperturbed only (the reproduction law), on every grid
                  /\ IF tq = 1 THEN \A j \in 1..Len(scen.g) : e[j] = 0 ELSE AkHash(e) % AkMod = AkRem % AkMod
                  /\ scen' = AkMk(scen.gi, scen.dl, e, tq, cell, XOf(scen.g, 4, [kd |-> kd, ix |-> cell]))
            /\ out' = Akima(scen')
NextAk == ChooseAk

\* laws of the definition: adding a constant to the table adds it to the value (the derivatives sum to 1); adding the
\* line a x adds a x (the derivatives weighted with the nodes give x): the weights only see slope differences
AkLaw == LET n == Len(scen.g)
         IN /\ SumSeq(out.dT) = One
            /\ SumSeq([k \in 1..n |-> Mul(R(scen.g[k]), out.dT[k])]) = Q(scen.X, 4)
            \* an unperturbed table is the line itself
            /\ (scen.tq = 0 /\ \A j \in 1..n : scen.e[j] = 0) => (out.v = Q(2 * scen.X, 4) /\ out.dx = R(2))
\* on an evenly spaced grid the parabola is reproduced as well, in every cell (whatever delta_x: equal arguments get
\* equal weights) - and on the other grids it is not (the claim is not vacuous)
AkQuadLaw == (scen.tq = 1) =>
                LET exact == out.v = Q(8 * scen.X + scen.X * scen.X, 16) /\ out.dx = Q(4 + scen.X, 2)
                IN Uniform(scen.g) => exact
ExportAk == stage = 1 => PrintT(<<"AK", ToJson([s |-> scen, o |-> out])>>)
=============================================================================
