----------------------------- MODULE LineSearch -----------------------------
(***************************************************************************)
(* One Newton iteration filtered by a bounds-enforcing line search         *)
(* (openmdao/solvers/linesearch/backtracking.py: BoundsEnforceLS and       *)
(* ArmijoGoldsteinLS with bound_enforcement in {vector, scalar, wall}).    *)
(* C10.  Everything is stated in PHYSICAL units: the declared lower/upper  *)
(* bounds, the point u0 the iteration starts from (inside the bounds), the *)
(* full Newton step st.  The solver itself works in the scaled space       *)
(* x |-> (x - ref0)/(ref - ref0); ScaledSpaceAgrees states what that needs *)
(* (the bounds' image, endpoints swapped when ref < ref0) for the scaled   *)
(* computation to be the physical one.  Exact rationals (Rat.tla).         *)
(*                                                                         *)
(* A line search started with step length a0 (BoundsEnforceLS: a0 = 1)     *)
(* first moves to the trial point t = u0 + a0*st, then enforces the bounds *)
(* with one of three kernels.  A kernel produces a path  al |-> P(al)      *)
(* (al = step length); P(a0) is the enforced trial point, and              *)
(* ArmijoGoldsteinLS backtracks along P with al = a0, a0*rho, a0*rho^2 ..  *)
(*   vector : the whole step is shortened by one common factor, the        *)
(*            largest beta in [0, a0] with u0 + beta*st inside all bounds; *)
(*            P(al) = u0 + al*(beta/a0)*st                                 *)
(*   scalar : each entry of t is clipped to its own bounds, and the path   *)
(*            is the straight line from u0 through the clipped point:      *)
(*            P(al) = u0 + (al/a0)*(Clip(t) - u0)                          *)
(*   wall   : entries of t that violate a bound are set to that bound and  *)
(*            stay there ("follow the wall"); the others keep their full   *)
(*            Newton step: P(al)[i] = Clip(t[i]) if t[i] violates,         *)
(*            u0[i] + al*st[i] otherwise.                                  *)
(* BoundsEnforceLS returns P(1).  ArmijoGoldsteinLS (Armijo rule, residual *)
(* r(u) = u - (u0 + st), unscaled residuals) returns P(a0*rho^j) for the   *)
(* first j in 0..MaxIter-1 with |r(P(al))| <= (1 - c*al)*|r(u0)|, else     *)
(* j = MaxIter-1 (the implementation's first loop pass re-evaluates a0).   *)
(***************************************************************************)
EXTENDS Rat, Naturals, FiniteSets, TLC, Json

CONSTANTS MaxN,          \* vector lengths 1..MaxN
          Tier,          \* "quick" | "thorough" : which value sets the length-2 scenarios draw from
          Methods,       \* subset of {"vector", "scalar", "wall"}
          CNum, CDen,    \* Armijo slope parameter c = CNum/CDen
          RhoNum, RhoDen,\* contraction factor rho
          MaxIter        \* ArmijoGoldsteinLS maxiter (at most MaxIter-1 contractions)

NoB == <<0, 0>>          \* "no bound on this side" (NaN encoding, never used in arithmetic)
C1 == Q(CNum, CDen)
Rho == Q(RhoNum, RhoDen)
Two == Q(2, 1)

\* --- value sets -------------------------------------------------------------------------------
\* bound patterns <<lower, upper>>
PatsFull == {<<NoB, NoB>>, <<Zero, NoB>>, <<One, NoB>>, <<NoB, One>>, <<NoB, Two>>,
             <<Zero, Two>>, <<Zero, One>>, <<One, Two>>, <<One, One>>}
PatsQ2 == {<<NoB, NoB>>, <<One, NoB>>, <<Zero, Two>>}
PatsT2 == {<<NoB, NoB>>, <<Zero, NoB>>, <<One, NoB>>, <<NoB, One>>, <<NoB, Two>>, <<Zero, Two>>}
\* scalings <<ref, ref0>> : identity, positive with offset, negative, negative with offset, positive fraction
ScalFull == {<<One, Zero>>, <<Two, One>>, <<Q(-1, 1), Zero>>, <<One, Q(3, 1)>>, <<Q(1, 2), Zero>>}
ScalQ2 == {<<One, Zero>>, <<Two, One>>, <<One, Q(3, 1)>>}
U0s == {0, 1, 2}
StepsFull == -3..3
StepsQ2 == {-3, -1, 0, 2}
StepsT2 == {-3, -1, 0, 1, 2}
\* <<class, initial step length a0>>
ModesFull == {<<"BE", One>>, <<"AG", One>>, <<"AG", Q(1, 2)>>}

Pats(n) == IF n = 1 THEN PatsFull ELSE IF Tier = "quick" THEN PatsQ2 ELSE PatsT2
Scals(n) == IF n = 1 \/ Tier # "quick" THEN ScalFull ELSE ScalQ2
Steps(n) == IF n = 1 THEN StepsFull ELSE IF Tier = "quick" THEN StepsQ2 ELSE StepsT2
Modes(n) == IF n = 1 \/ Tier # "quick" THEN ModesFull ELSE {<<"BE", One>>, <<"AG", One>>}

\* --- bounds -----------------------------------------------------------------------------------
HasLo(b) == b[1] # NoB
HasUp(b) == b[2] # NoB
\* (IF rather than a disjunction: TLC would split a disjunction inside an action into duplicate successors)
Within(x, b) == (IF HasLo(b) THEN Ge(x, b[1]) ELSE TRUE) /\ (IF HasUp(b) THEN Le(x, b[2]) ELSE TRUE)
Outside(x, b) == ~Within(x, b)
Clip(x, b) == IF HasLo(b) /\ Lt(x, b[1]) THEN b[1] ELSE IF HasUp(b) /\ Gt(x, b[2]) THEN b[2] ELSE x

\* --- the three kernels: the path al |-> P(al) -------------------------------------------------
\* largest multiple of the step d that keeps x inside b (x is inside): Inf when d does not head for a bound
BetaMax(x, d, b) == IF RSgn(d) > 0 /\ HasUp(b) THEN Div(Sub(b[2], x), d)
                    ELSE IF RSgn(d) < 0 /\ HasLo(b) THEN Div(Sub(b[1], x), d)
                    ELSE Inf
Beta(n, a0, u0, st, b) ==
    LET cands == {a0} \cup ({BetaMax(u0[i], st[i], b[i]) : i \in 1..n} \ {Inf})
    IN CHOOSE x \in cands : \A y \in cands : Le(x, y)

Trial(a0, u0, st, i) == Add(u0[i], Mul(a0, st[i]))

Path(n, m, a0, u0, st, b, al) ==
    CASE m = "vector" -> LET f == Div(Beta(n, a0, u0, st, b), a0)
                         IN [i \in 1..n |-> Add(u0[i], Mul(al, Mul(f, st[i])))]
      [] m = "scalar" -> [i \in 1..n |-> Add(u0[i], Mul(Div(al, a0), Sub(Clip(Trial(a0, u0, st, i), b[i]), u0[i])))]
      [] m = "wall"   -> [i \in 1..n |-> IF Outside(Trial(a0, u0, st, i), b[i])
                                          THEN Clip(Trial(a0, u0, st, i), b[i])
                                          ELSE Add(u0[i], Mul(al, st[i]))]

\* --- Armijo backtracking ----------------------------------------------------------------------
RECURSIVE RPow(_, _)
RPow(x, k) == IF k = 0 THEN One ELSE Mul(x, RPow(x, k - 1))
Sq(x) == Mul(x, x)
Norm2(v) == SumSeq([i \in DOMAIN v |-> Sq(v[i])])

PathS(s, al) == Path(s.n, s.m, s.a0, s.u0, s.st, s.b, al)
Alpha(s, j) == Mul(s.a0, RPow(Rho, j))
\* squared residual norm at P(al); the residual at u0 is -st
Phi2(s, al) == Norm2([i \in 1..s.n |-> Sub(Sub(PathS(s, al)[i], s.u0[i]), s.st[i])])
Phi02(s) == IF Norm2(s.st) = Zero THEN One ELSE Norm2(s.st)        \* the code replaces a zero norm by 1
Bar2(s, al) == Mul(Phi02(s), Sq(Sub(One, Mul(C1, al))))             \* ((1 - c*al)*phi0)^2 ; 1 - c*al > 0
Accept(s, al) == Le(Phi2(s, al), Bar2(s, al))
Tie(s, al) == Phi2(s, al) = Bar2(s, al)
RECURSIVE Backtracks(_, _)
Backtracks(s, j) == IF j >= MaxIter - 1 \/ Accept(s, Alpha(s, j)) THEN j ELSE Backtracks(s, j + 1)

\* --- the result of the iteration ----------------------------------------------------------------
\* u: new point (physical); al: accepted step length; nb: contractions; exact: no Armijo test that decided
\* the outcome was an exact tie (a tie is decided by floating-point rounding in the implementation)
Result(s) ==
    IF s.c = "BE" THEN [u |-> PathS(s, One), al |-> One, nb |-> 0, exact |-> TRUE]
    ELSE LET j == Backtracks(s, 0)
         IN [u |-> PathS(s, Alpha(s, j)), al |-> Alpha(s, j), nb |-> j,
             exact |-> \A k \in 0..j : k >= MaxIter - 1 \/ ~Tie(s, Alpha(s, k))]

\* --- the same computation in the solver's scaled space ------------------------------------------
ScaleX(x, sc) == Div(Sub(x, sc[2]), Sub(sc[1], sc[2]))
ScaleD(d, sc) == Div(d, Sub(sc[1], sc[2]))
UnscaleX(y, sc) == Add(sc[2], Mul(y, Sub(sc[1], sc[2])))
\* what _setup_solvers must produce: the image of [lower, upper]; a negative ref - ref0 reverses the order
ScaleB(b, sc) == LET l == IF HasLo(b) THEN ScaleX(b[1], sc) ELSE NoB
                     u == IF HasUp(b) THEN ScaleX(b[2], sc) ELSE NoB
                 IN IF Lt(sc[1], sc[2]) THEN <<u, l>> ELSE <<l, u>>
PathScaled(s, al) ==
    LET y == Path(s.n, s.m, s.a0, [i \in 1..s.n |-> ScaleX(s.u0[i], s.sc[i])],
                  [i \in 1..s.n |-> ScaleD(s.st[i], s.sc[i])], [i \in 1..s.n |-> ScaleB(s.b[i], s.sc[i])], al)
    IN [i \in 1..s.n |-> UnscaleX(y[i], s.sc[i])]

\* --- scenario enumeration (two stages so that TLC's workers share the work) ---------------------
\* Init fixes what one Problem instance fixes: length, method, class/a0, per-entry bounds and scaling;
\* the single step chooses the starting point (inside the bounds) and the Newton step.
VARIABLES stage, scen, out
vars == <<stage, scen, out>>
Z(n) == [i \in 1..n |-> Zero]
Entries(n) == Pats(n) \X Scals(n)
Base == UNION {{[n |-> n, m |-> m, c |-> md[1], a0 |-> md[2],
                 b |-> [i \in 1..n |-> e[i][1]], sc |-> [i \in 1..n |-> e[i][2]], u0 |-> Z(n), st |-> Z(n)] :
                  m \in Methods, md \in Modes(n), e \in [1..n -> Entries(n)]} : n \in 1..MaxN}
NoOut(s) == [u |-> s.u0, al |-> One, nb |-> 0, exact |-> TRUE]
Init == stage = 0 /\ scen \in Base /\ out = NoOut(scen)
Choose == /\ stage = 0 /\ stage' = 1
          /\ \E v \in [1..scen.n -> U0s \X Steps(scen.n)] :
                /\ \A i \in 1..scen.n : Within(R(v[i][1]), scen.b[i])
                /\ scen' = [scen EXCEPT !.u0 = [i \in 1..scen.n |-> R(v[i][1])],
                                        !.st = [i \in 1..scen.n |-> R(v[i][2])]]
          /\ out' = Result(scen')
Next == Choose

\* --- the property ---------------------------------------------------------------------------------
InBounds == stage = 1 => \A i \in 1..scen.n : Within(out.u[i], scen.b[i])
AlongStep == stage = 1 => \A i \in 1..scen.n :
                LET d == Sub(out.u[i], scen.u0[i])
                    st == scen.st[i]
                IN CASE RSgn(st) = 0 -> d = Zero
                     [] RSgn(st) > 0 -> Ge(d, Zero) /\ Le(d, st)
                     [] RSgn(st) < 0 -> Le(d, Zero) /\ Ge(d, st)
\* --- further laws of the kernels -------------------------------------------------------------------
\* the scaled-space computation with correctly mapped bounds is the physical computation (checked at the enforced
\* trial point, at the accepted step length and at one further step length)
ScaledSpaceAgrees == stage = 1 => \A al \in {scen.a0, out.al, Alpha(scen, MaxIter)} : PathScaled(scen, al) = PathS(scen, al)
\* vector enforcement keeps the direction: the move is one common multiple of the step
VectorParallel == (stage = 1 /\ scen.m = "vector") =>
                     \A i, k \in 1..scen.n : Mul(Sub(out.u[i], scen.u0[i]), scen.st[k]) = Mul(Sub(out.u[k], scen.u0[k]), scen.st[i])
\* BoundsEnforceLS goes as far as the bounds allow: scalar/wall give the clipped full step; vector stops short of the
\* full step only with an entry on the bound it was heading for
BEMaximal == (stage = 1 /\ scen.c = "BE") =>
                IF scen.m = "vector"
                THEN \/ \A i \in 1..scen.n : out.u[i] = Add(scen.u0[i], scen.st[i])
                     \/ \E i \in 1..scen.n : \/ RSgn(scen.st[i]) > 0 /\ HasUp(scen.b[i]) /\ out.u[i] = scen.b[i][2]
                                             \/ RSgn(scen.st[i]) < 0 /\ HasLo(scen.b[i]) /\ out.u[i] = scen.b[i][1]
                ELSE \A i \in 1..scen.n : out.u[i] = Clip(Add(scen.u0[i], scen.st[i]), scen.b[i])
\* backtracking bookkeeping
AGBookkeeping == stage = 1 => /\ out.nb \in 0..(IF MaxIter > 0 THEN MaxIter - 1 ELSE 0)
                              /\ out.al = Alpha(scen, out.nb)
                              /\ (scen.c = "AG" /\ out.nb < MaxIter - 1) => Accept(scen, out.al)

Export == stage = 1 => PrintT(<<"EXP", ToJson([s |-> scen, v |-> out])>>)
=============================================================================
