------------------------------ MODULE StockComps ------------------------------
(***************************************************************************)
(* The ten stock math components (C26): for each component the formula    *)
(* its options describe and the exact Jacobian, transcribed over exact     *)
(* rationals (Rat.tla).                                                    *)
(*                                                                         *)
(* A scenario is  [kind, o (options), ucfg (units configuration),          *)
(*                 f (unit factor of every input: value seen by the        *)
(*                    component = f * value of the connected source),      *)
(*                 x (integer source values, one flat C-order sequence per *)
(*                    input)].                                             *)
(* out = [y |-> flat outputs, J |-> d y / d (source values), dense, the    *)
(*        columns are the inputs concatenated in order].                   *)
(* BalanceComp is specified in residual form (y is the residual, J the     *)
(* partials of the residual); LinearSystemComp by x = A^-1 b computed with *)
(* the adjugate (laws: A x = b, A dx/db = I, dR/dx * dx/din + dR/din = 0)  *)
(* and additionally the residual-form partials P.                          *)
(*                                                                         *)
(* Laws checked by TLC on every scenario:                                  *)
(*   CentralDiffLaw  J column = (F(x+e) - F(x-e))/2  (exact for formulas   *)
(*                   of degree <= 2 in every single coordinate)            *)
(*   QuotientLaw     EQ/Balance d/d rhs against the quotient rule          *)
(*   MuxLaw          the Mux index map is a bijection onto the output whose   *)
(*                   shape has the new axis at the (normalised) position;  *)
(*                   closed-form map = multi-index map                     *)
(*   AddSubLaw       every term is counted: the coefficients of the inputs *)
(*                   add up to the sum of the factors (repeated names)     *)
(*   CrossLaw        c.a = c.b = 0, skew-symmetry of the blocks            *)
(*   PolarLaw        a.b = (|a+b|^2 - |a-b|^2)/4                           *)
(*   MagLaw          mag^2 = sum x^2, J.x = mag, sum J^2 = f^2             *)
(*   LinSysLaw       see above                                             *)
(*   SplineLaw       hat weights: partition of unity, reproduce p          *)
(***************************************************************************)
EXTENDS Rat, Naturals, FiniteSets, TLC, Json

CONSTANTS Kinds,      \* subset of AllKinds
          MaxVec,     \* vec_size ranges over 1..MaxVec
          NSeeds,     \* input value sets per option set
          Full        \* BOOLEAN: FALSE drops some option combinations of AddSubtractComp (quick tier)

AllKinds == {"addsub", "mux", "dot", "cross", "matvec", "vecmag", "eq", "balance", "linsys", "spline"}

RECURSIVE SumN(_, _)        \* F[1] + ... + F[n]  (rationals)
SumN(F, n) == IF n = 0 THEN Zero ELSE Add(F[n], SumN(F, n - 1))
RECURSIVE SumI(_, _)        \* integers
SumI(F, n) == IF n = 0 THEN 0 ELSE F[n] + SumI(F, n - 1)
RECURSIVE ProdI(_)
ProdI(s) == IF s = <<>> THEN 1 ELSE Head(s) * ProdI(Tail(s))

\* --- seeded integer inputs, unit factors -----------------------------------------------------------
Val(sd, i, q) == ((7 * sd + 5 * i + 3 * q + i * q * sd) % 9) - 4        \* -4..4
NZ(v) == IF v = 0 THEN 5 ELSE v

\* unit factor of input i: the component variable is declared in km ("km") or m ("m"), the source in the other unit
UF(kind, ucfg, i) ==
    IF ucfg = "none" THEN One
    ELSE IF kind \in {"eq", "balance"}
         THEN (IF ucfg = "km" THEN (IF i = 1 THEN Q(1, 1000) ELSE One)      \* lhs: m -> km
                              ELSE (IF i = 2 THEN Q(1000, 1) ELSE One))     \* rhs: km -> m
    ELSE IF ucfg = "km" THEN (IF i % 2 = 1 THEN Q(1, 1000) ELSE One)
    ELSE (IF i % 2 = 1 THEN Q(1000, 1) ELSE One)

XR(s) == [i \in 1..Len(s.x) |-> [q \in 1..Len(s.x[i]) |-> R(s.x[i][q])]]
V(s, xr, i, q) == Mul(s.f[i], xr[i][q])          \* value the component sees

\* --- AddSubtractComp -------------------------------------------------------------------------------
\* An equation is a list of TERMS: term t adds  sf[t] * (input map[t]);  map = <<1, .., nin>> when every name is
\* given once, e.g. <<1, 2, 1>> for input_names ['a1', 'a2', 'a1'] (a repeated name is counted once per occurrence:
\* the component accepts it and says so in a warning).  The second equation lists the names in reverse order with
\* the same factor list.
ASnt(o) == Len(o.sf)
ASin(o, e, t) == IF e = 1 THEN o.map[t] ELSE o.map[ASnt(o) + 1 - t]          \* the input term t of equation e refers to
\* coefficient of input i in equation e: the factors of all its occurrences
ASco(o, e, i) == SumI([t \in 1..ASnt(o) |-> IF ASin(o, e, t) = i THEN o.sf[t] ELSE 0], ASnt(o))
ASn(o) == o.vec * o.len
YAddSub(s, xr) ==
    LET o == s.o
        n == ASn(o)
    IN [r \in 1..(IF o.two THEN 2 * n ELSE n) |->
          LET e == IF r <= n THEN 1 ELSE 2
              p == IF r <= n THEN r ELSE r - n
          IN SumN([t \in 1..ASnt(o) |-> Mul(R(o.sf[t]), V(s, xr, ASin(o, e, t), p))], ASnt(o))]       \* term by term
JAddSub(s, r, i, q) ==
    LET o == s.o
        n == ASn(o)
        e == IF r <= n THEN 1 ELSE 2
        p == IF r <= n THEN r ELSE r - n
    IN IF p = q THEN Mul(R(ASco(o, e, i)), s.f[i]) ELSE Zero

\* --- MuxComp: np.stack(inputs, axis) as a map (input i, flat position q) -> flat output position -------
\* a negative axis counts from the end of the OUTPUT's dimensions (numpy): -1 = last axis of the result
MuxAx(o) == IF o.axis < 0 THEN o.axis + Len(o.shp) + 1 ELSE o.axis
\* shape of the output: the n inputs are stacked along a new axis at position MuxAx
MuxOutShape(o) == LET a == MuxAx(o)
                  IN [k \in 1..Len(o.shp) + 1 |-> IF k <= a THEN o.shp[k] ELSE IF k = a + 1 THEN o.n ELSE o.shp[k - 1]]
MuxSize(o) == ProdI(o.shp)
MuxPos(o, i, q) ==
    LET ax == MuxAx(o)
    IN IF Len(o.shp) = 1
       THEN (IF ax = 0 THEN (i - 1) * o.shp[1] + q ELSE (q - 1) * o.n + i)
       ELSE LET s2 == o.shp[2]
                j == (q - 1) \div s2
                k == (q - 1) % s2
            IN CASE ax = 0 -> (i - 1) * MuxSize(o) + q
                 [] ax = 1 -> (j * o.n + (i - 1)) * s2 + k + 1
                 [] ax = 2 -> (j * s2 + k) * o.n + i
\* the same map from the multi-indices: the output index is the input's index with (i - 1) inserted at MuxAx
RECURSIVE FlatIx(_, _)          \* C-order flat position (0-based) of a 0-based multi-index in a shape
FlatIx(shape, ix) == IF Len(shape) = 0 THEN 0
                     ELSE FlatIx(SubSeq(shape, 1, Len(shape) - 1), SubSeq(ix, 1, Len(ix) - 1)) * shape[Len(shape)] + ix[Len(ix)]
RECURSIVE Unflat(_, _)
Unflat(shape, p) == IF Len(shape) = 0 THEN <<>>
                    ELSE Append(Unflat(SubSeq(shape, 1, Len(shape) - 1), p \div shape[Len(shape)]), p % shape[Len(shape)])
MuxPosNd(o, i, q) ==
    LET a == MuxAx(o)
        ix == Unflat(o.shp, q - 1)
        ox == [k \in 1..Len(o.shp) + 1 |-> IF k <= a THEN ix[k] ELSE IF k = a + 1 THEN i - 1 ELSE ix[k - 1]]
    IN FlatIx(MuxOutShape(o), ox) + 1
MuxDom(o) == (1..o.n) \X (1..MuxSize(o))
YMux(s, xr) ==
    LET o == s.o
    IN [p \in 1..o.n * MuxSize(o) |->
          LET iq == CHOOSE a \in MuxDom(o) : MuxPos(o, a[1], a[2]) = p IN V(s, xr, iq[1], iq[2])]
JMux(s, r, i, q) == IF MuxPos(s.o, i, q) = r THEN s.f[i] ELSE Zero
MuxBijection(o) ==
    /\ MuxAx(o) \in 0..Len(o.shp) /\ ProdI(MuxOutShape(o)) = o.n * MuxSize(o)
    /\ \A a \in MuxDom(o) : MuxPos(o, a[1], a[2]) \in 1..o.n * MuxSize(o)
    /\ \A a \in MuxDom(o) : MuxPos(o, a[1], a[2]) = MuxPosNd(o, a[1], a[2])
    /\ \A a, b \in MuxDom(o) : MuxPos(o, a[1], a[2]) = MuxPos(o, b[1], b[2]) => a = b

\* --- DotProductComp / CrossProductComp (same = TRUE: one input is used for both operands) ----------------
OpB(s) == IF s.o.same THEN 1 ELSE 2
YDot(s, xr) ==
    LET o == s.o
    IN [n \in 1..o.vec |->
          SumN([l \in 1..o.len |-> Mul(V(s, xr, 1, (n - 1) * o.len + l), V(s, xr, OpB(s), (n - 1) * o.len + l))], o.len)]
JDot(s, r, i, q) ==
    LET o == s.o
        n == (q - 1) \div o.len + 1
        xr == XR(s)
    IN IF n # r THEN Zero
       ELSE IF o.same THEN Mul(R(2), Mul(s.f[1], V(s, xr, 1, q)))
       ELSE Mul(s.f[i], V(s, xr, 3 - i, q))

Cr(a, b) == <<Sub(Mul(a[2], b[3]), Mul(a[3], b[2])),
              Sub(Mul(a[3], b[1]), Mul(a[1], b[3])),
              Sub(Mul(a[1], b[2]), Mul(a[2], b[1]))>>
\* the skew matrix [v]x : [v]x w = v x w
Skew(v, r, c) == CASE r = c -> Zero
                   [] r = 1 /\ c = 2 -> Neg(v[3])
                   [] r = 1 /\ c = 3 -> v[2]
                   [] r = 2 /\ c = 1 -> v[3]
                   [] r = 2 /\ c = 3 -> Neg(v[1])
                   [] r = 3 /\ c = 1 -> Neg(v[2])
                   [] r = 3 /\ c = 2 -> v[1]
Row3(s, xr, i, n) == [k \in 1..3 |-> V(s, xr, i, (n - 1) * 3 + k)]
YCross(s, xr) ==
    [r \in 1..3 * s.o.vec |->
        LET n == (r - 1) \div 3 + 1
            k == ((r - 1) % 3) + 1
        IN Cr(Row3(s, xr, 1, n), Row3(s, xr, OpB(s), n))[k]]
JCross(s, r, i, q) ==
    LET n == (r - 1) \div 3 + 1
        k == ((r - 1) % 3) + 1
        m == (q - 1) \div 3 + 1
        c == ((q - 1) % 3) + 1
        xr == XR(s)
    IN IF n # m \/ s.o.same THEN Zero                  \* a x a = 0 identically
       ELSE IF i = 1 THEN Mul(s.f[1], Neg(Skew(Row3(s, xr, 2, n), k, c)))
       ELSE Mul(s.f[2], Skew(Row3(s, xr, 1, n), k, c))

\* --- MatrixVectorProductComp: b[k] = A[k] x[k] --------------------------------------------------------
YMatVec(s, xr) ==
    LET o == s.o
    IN [r \in 1..o.vec * o.nr |->
          LET k == (r - 1) \div o.nr
              i == (r - 1) % o.nr
          IN SumN([j \in 1..o.nc |-> Mul(V(s, xr, 1, (k * o.nr + i) * o.nc + j), V(s, xr, 2, k * o.nc + j))], o.nc)]
JMatVec(s, r, inp, q) ==
    LET o == s.o
        k == (r - 1) \div o.nr
        i == (r - 1) % o.nr
        xr == XR(s)
    IN IF inp = 1
       THEN LET kk == (q - 1) \div (o.nr * o.nc)
                ii == ((q - 1) \div o.nc) % o.nr
                jj == (q - 1) % o.nc
            IN IF kk = k /\ ii = i THEN Mul(s.f[1], V(s, xr, 2, k * o.nc + jj + 1)) ELSE Zero
       ELSE LET kk == (q - 1) \div o.nc
                jj == (q - 1) % o.nc
            IN IF kk = k THEN Mul(s.f[2], V(s, xr, 1, (k * o.nr + i) * o.nc + jj + 1)) ELSE Zero

\* --- VectorMagnitudeComp on Pythagorean rows -----------------------------------------------------------
ISqrt(n) == CHOOSE r \in 0..n : r * r = n          \* fails (TLC error) when n is not a perfect square
PyRows(len) == CASE len = 1 -> << <<3>>, <<-2>>, <<1>>, <<-4>> >>
                 [] len = 2 -> << <<3, 4>>, <<-4, 3>>, <<5, -12>>, <<0, 2>>, <<-8, -6>> >>
                 [] len = 3 -> << <<1, 2, 2>>, <<2, -3, 6>>, <<-2, -1, 2>>, <<4, 4, -7>>, <<1, 4, 8>>, <<2, -6, 9>>, <<0, -3, 4>> >>
RowSq(s, n) == SumI([l \in 1..s.o.len |-> s.x[1][(n - 1) * s.o.len + l] * s.x[1][(n - 1) * s.o.len + l]], s.o.len)
YVecMag(s) == [n \in 1..s.o.vec |-> Mul(s.f[1], R(ISqrt(RowSq(s, n))))]
JVecMag(s, r, i, q) ==
    LET n == (q - 1) \div s.o.len + 1
    IN IF n # r THEN Zero ELSE Mul(s.f[1], Q(s.x[1][q], ISqrt(RowSq(s, r))))

\* --- EQConstraintComp (output) and BalanceComp (residual): (mult*lhs - rhs) * sf(rhs) ------------------------
\* sf(r) = 1/|r| for |r| >= 2, 1/(r^2/4 + 1) for |r| < 2 (normalize), 1 otherwise
Sf(r) == IF Lt(RAbs(r), R(2)) THEN Inv(Add(Mul(Q(1, 4), Mul(r, r)), One)) ELSE Inv(RAbs(r))
DSf(r) == IF Lt(RAbs(r), R(2))
          THEN LET d == Add(Mul(Q(1, 4), Mul(r, r)), One) IN Div(Mul(Q(-1, 2), r), Mul(d, d))
          ELSE Div(R(-RSgn(r)), Mul(r, r))
EqM(s, xr, p) == IF ~s.o.use_mult THEN One
                 ELSE IF s.o.multsrc = "ivc" THEN V(s, xr, 3, p) ELSE R(s.o.mult_val)
EqN(s, xr, p) == Sub(Mul(EqM(s, xr, p), V(s, xr, 1, p)), V(s, xr, 2, p))
EqS(s, xr, p) == IF s.o.normalize THEN Sf(V(s, xr, 2, p)) ELSE One
EqDS(s, xr, p) == IF s.o.normalize THEN DSf(V(s, xr, 2, p)) ELSE Zero
YEq(s, xr) == [p \in 1..s.o.n |-> Mul(EqN(s, xr, p), EqS(s, xr, p))]
JEq(s, r, i, q) ==
    LET xr == XR(s)
    IN IF r # q THEN Zero
       ELSE CASE i = 1 -> Mul(s.f[1], Mul(EqM(s, xr, r), EqS(s, xr, r)))
              [] i = 2 -> Mul(s.f[2], Sub(Mul(EqN(s, xr, r), EqDS(s, xr, r)), EqS(s, xr, r)))
              [] i = 3 -> Mul(V(s, xr, 1, r), EqS(s, xr, r))
\* the same derivative by the quotient rule on y = N / D(rhs)
FNorm(r) == IF Lt(RAbs(r), R(2)) THEN Add(Mul(Q(1, 4), Mul(r, r)), One) ELSE RAbs(r)
DFNorm(r) == IF Lt(RAbs(r), R(2)) THEN Mul(Q(1, 2), r) ELSE R(RSgn(r))
QuotRhs(s, p) ==
    LET xr == XR(s)
        r == V(s, xr, 2, p)
        d == IF s.o.normalize THEN FNorm(r) ELSE One
        dd == IF s.o.normalize THEN DFNorm(r) ELSE Zero
    IN Mul(s.f[2], Div(Sub(Neg(d), Mul(EqN(s, xr, p), dd)), Mul(d, d)))

\* --- LinearSystemComp: A x = b, integer A with det in {1,-1,2,-2} ------------------------------------------
Minor(M, a, b) == [r \in 1..Len(M) - 1 |-> [c \in 1..Len(M) - 1 |-> M[IF r < a THEN r ELSE r + 1][IF c < b THEN c ELSE c + 1]]]
RECURSIVE Det(_)
Det(M) == IF Len(M) = 1 THEN M[1][1]
          ELSE SumI([j \in 1..Len(M) |-> (IF j % 2 = 1 THEN 1 ELSE -1) * M[1][j] * Det(Minor(M, 1, j))], Len(M))
MInv(M) == LET n == Len(M)
               d == Det(M)
           IN IF n = 1 THEN << <<Q(1, d)>> >>
              ELSE [i \in 1..n |-> [j \in 1..n |-> Q((IF (i + j) % 2 = 0 THEN 1 ELSE -1) * Det(Minor(M, j, i)), d)]]
LsMats(n) == CASE n = 1 -> << << <<1>> >>, << <<-1>> >>, << <<2>> >> >>
               [] n = 2 -> << << <<1, 1>>, <<0, 1>> >>, << <<2, 1>>, <<1, 1>> >>, << <<1, -2>>, <<1, -1>> >>,
                              << <<0, 1>>, <<1, 0>> >>, << <<3, 1>>, <<1, 1>> >> >>
               [] n = 3 -> << << <<1, 1, 0>>, <<0, 1, 1>>, <<0, 0, 1>> >>, << <<0, 1, 0>>, <<1, 0, 2>>, <<0, 1, 1>> >>,
                              << <<2, 1, 1>>, <<1, 1, 1>>, <<1, 1, 2>> >>, << <<1, 2, 0>>, <<0, 1, 0>>, <<1, 0, 2>> >> >>
LsA(s, k) == LET n == s.o.size
                 kk == IF s.o.vecA THEN k ELSE 1
             IN [i \in 1..n |-> [j \in 1..n |-> s.x[1][((kk - 1) * n + (i - 1)) * n + j]]]
LsB(s, k) == [i \in 1..s.o.size |-> R(s.x[2][(k - 1) * s.o.size + i])]
LsX(s, k) == LET ai == MInv(LsA(s, k)) IN [i \in 1..s.o.size |-> Dot(ai[i], LsB(s, k))]
YLinSys(s) == [r \in 1..s.o.vec * s.o.size |-> LsX(s, (r - 1) \div s.o.size + 1)[((r - 1) % s.o.size) + 1]]
JLinSys(s, r, inp, q) ==
    LET n == s.o.size
        k == (r - 1) \div n + 1
        i == ((r - 1) % n) + 1
        ai == MInv(LsA(s, k))
    IN IF inp = 1
       THEN LET kk == (q - 1) \div (n * n) + 1
                ii == (((q - 1) \div n) % n) + 1
                jj == ((q - 1) % n) + 1
            IN IF s.o.vecA /\ kk # k THEN Zero ELSE Neg(Mul(ai[i][ii], LsX(s, k)[jj]))
       ELSE LET kk == (q - 1) \div n + 1
                jj == ((q - 1) % n) + 1
            IN IF kk = k THEN ai[i][jj] ELSE Zero
\* residual-form partials of R = A x - b: columns = A, b, x
PLinSys(s) ==
    LET n == s.o.size
        na == Len(s.x[1])
        nb == Len(s.x[2])
    IN [r \in 1..nb |->
          LET k == (r - 1) \div n + 1
              i == ((r - 1) % n) + 1
          IN [c \in 1..na + 2 * nb |->
                IF c <= na
                THEN LET q == c
                         kk == (q - 1) \div (n * n) + 1
                         ii == (((q - 1) \div n) % n) + 1
                         jj == ((q - 1) % n) + 1
                     IN IF (s.o.vecA => kk = k) /\ ii = i THEN LsX(s, k)[jj] ELSE Zero
                ELSE IF c <= na + nb THEN (IF c - na = r THEN R(-1) ELSE Zero)
                ELSE LET q == c - na - nb
                         kk == (q - 1) \div n + 1
                         jj == ((q - 1) % n) + 1
                     IN IF kk = k THEN R(LsA(s, k)[i][jj]) ELSE Zero]]

\* --- SplineComp on a table that is a polynomial of degree <= 1 per vec row -----------------------------------------
\* query points are xi[t]/rr; hat-function weights of piecewise-linear interpolation
SpCell(g, rr, x) == LET n == Len(g)
                    IN IF x >= rr * g[n] THEN n - 1 ELSE CHOOSE k \in 1..n - 1 : rr * g[k] <= x /\ x < rr * g[k + 1]
Hat(g, rr, x, j) == LET k == SpCell(g, rr, x)
                        den == rr * (g[k + 1] - g[k])
                    IN IF j = k THEN Q(rr * g[k + 1] - x, den) ELSE IF j = k + 1 THEN Q(x - rr * g[k], den) ELSE Zero
SpP(s, v, xnum, den) == Add(R(s.o.c[v][1]), Mul(R(s.o.c[v][2]), Q(xnum, den)))      \* p_v(xnum/den)
YSpline(s, xr) ==
    LET o == s.o
        ni == Len(o.xi)
        ncp == Len(o.g)
    IN [r \in 1..o.vec * ni |->
          LET v == (r - 1) \div ni + 1
              t == ((r - 1) % ni) + 1
          IN SumN([j \in 1..ncp |-> Mul(Hat(o.g, o.rr, o.xi[t], j), V(s, xr, 1, (v - 1) * ncp + j))], ncp)]
JSpline(s, r, i, q) ==
    LET o == s.o
        ni == Len(o.xi)
        ncp == Len(o.g)
        v == (r - 1) \div ni + 1
        t == ((r - 1) % ni) + 1
        vv == (q - 1) \div ncp + 1
        j == ((q - 1) % ncp) + 1
    IN IF v # vv THEN Zero ELSE Mul(s.f[1], Hat(o.g, o.rr, o.xi[t], j))

\* --- dispatch ----------------------------------------------------------------------------------------
Y(s, xr) == CASE s.kind = "addsub" -> YAddSub(s, xr)
              [] s.kind = "mux" -> YMux(s, xr)
              [] s.kind = "dot" -> YDot(s, xr)
              [] s.kind = "cross" -> YCross(s, xr)
              [] s.kind = "matvec" -> YMatVec(s, xr)
              [] s.kind = "vecmag" -> YVecMag(s)
              [] s.kind \in {"eq", "balance"} -> YEq(s, xr)
              [] s.kind = "linsys" -> YLinSys(s)
              [] s.kind = "spline" -> YSpline(s, xr)
JE(s, r, i, q) == CASE s.kind = "addsub" -> JAddSub(s, r, i, q)
                    [] s.kind = "mux" -> JMux(s, r, i, q)
                    [] s.kind = "dot" -> JDot(s, r, i, q)
                    [] s.kind = "cross" -> JCross(s, r, i, q)
                    [] s.kind = "matvec" -> JMatVec(s, r, i, q)
                    [] s.kind = "vecmag" -> JVecMag(s, r, i, q)
                    [] s.kind \in {"eq", "balance"} -> JEq(s, r, i, q)
                    [] s.kind = "linsys" -> JLinSys(s, r, i, q)
                    [] s.kind = "spline" -> JSpline(s, r, i, q)
NIn(s) == Len(s.x)
Off(s, i) == SumI([k \in 1..i - 1 |-> Len(s.x[k])], i - 1)
NC(s) == Off(s, NIn(s) + 1)
InOf(s, c) == CHOOSE i \in 1..NIn(s) : Off(s, i) < c /\ c <= Off(s, i) + Len(s.x[i])
Jac(s, ny) == [r \in 1..ny |-> [c \in 1..NC(s) |-> LET i == InOf(s, c) IN JE(s, r, i, c - Off(s, i))]]
Out(s) == LET y == Y(s, XR(s))
          IN IF s.kind = "linsys" THEN [y |-> y, J |-> Jac(s, Len(y)), P |-> PLinSys(s)]
             ELSE IF s.kind = "mux" THEN [y |-> y, J |-> Jac(s, Len(y)), sh |-> MuxOutShape(s.o)]
             ELSE [y |-> y, J |-> Jac(s, Len(y))]

\* --- scenario enumeration ----------------------------------------------------------------------------
Vecs == 1..MaxVec
UCfgs == {"none", "km", "m"}
SFs == {-2, 1, 3}
B(k, o, u) == [kind |-> k, o |-> o, ucfg |-> u, sd |-> 0, x |-> <<>>, f |-> <<>>]
\* AddSubtractComp with a name given more than once: <<number of distinct inputs, term -> input, factors>>
DupCfgs == {<<2, <<1, 2, 1>>, <<1, -2, 3>>>>, <<2, <<1, 2, 1>>, <<3, 1, 1>>>>, <<2, <<1, 1, 2>>, <<-2, 3, 1>>>>,
            <<2, <<2, 1, 1>>, <<1, 3, 3>>>>, <<1, <<1, 1>>, <<1, 3>>>>, <<1, <<1, 1>>, <<-2, 1>>>>}
MultCfgs == {<<FALSE, "none", 1>>, <<TRUE, "ivc", 3>>, <<TRUE, "default", -2>>, <<TRUE, "default", 3>>}
EqShapes == {<<1>>, <<3>>, <<2, 2>>}
SpGrids == {<<-3, -1, 0, 2, 4>>, <<1, 2, 3, 4, 6>>, <<-4, -3, -2, 0, 1>>}
SetMin(S) == CHOOSE m \in S : \A y \in S : m <= y
RECURSIVE SortedSeq(_)
SortedSeq(S) == IF S = {} THEN <<>> ELSE LET m == SetMin(S) IN <<m>> \o SortedSeq(S \ {m})
\* query points over rr = 4: nodes except the last, cell midpoints, quarter points of the first and last cell
SpXi(g) == LET n == Len(g)
           IN SortedSeq({4 * g[j] : j \in 1..n - 1} \cup {2 * (g[j] + g[j + 1]) : j \in 1..n - 1}
                        \cup {3 * g[1] + g[2], g[n - 1] + 3 * g[n]})
BaseOf(k) ==
    CASE k = "addsub" -> {B(k, [nin |-> Len(sf), sf |-> sf, map |-> [t \in 1..Len(sf) |-> t], vec |-> v, len |-> l, two |-> tw], u) :
                             sf \in (SFs \X SFs) \cup (SFs \X SFs \X SFs), v \in Vecs, l \in 1..2, tw \in BOOLEAN, u \in UCfgs}
                         \cup {B(k, [nin |-> dc[1], sf |-> dc[3], map |-> dc[2], vec |-> v, len |-> l, two |-> tw], u) :
                                  dc \in DupCfgs, v \in Vecs, l \in 1..2, tw \in BOOLEAN, u \in UCfgs}
      [] k = "mux" -> {B(k, [n |-> v, shp |-> sa[1], axis |-> sa[2]], u) :
                          v \in Vecs, u \in UCfgs,
                          sa \in ({<<1>>, <<2>>, <<3>>} \X {0, 1, -1, -2}) \cup ({<<2, 2>>, <<2, 3>>} \X {0, 1, 2, -1, -2, -3})}
      [] k = "dot" -> {B(k, [vec |-> v, len |-> l, same |-> sm], u) : v \in Vecs, l \in 1..3, sm \in BOOLEAN, u \in UCfgs}
      [] k = "cross" -> {B(k, [vec |-> v, same |-> sm], u) : v \in Vecs, sm \in BOOLEAN, u \in UCfgs}
      [] k = "matvec" -> {B(k, [vec |-> v, nr |-> sh[1], nc |-> sh[2]], u) :
                             v \in Vecs, u \in UCfgs, sh \in {<<1, 1>>, <<2, 2>>, <<2, 3>>, <<3, 2>>, <<3, 1>>, <<1, 3>>}}
      [] k = "vecmag" -> {B(k, [vec |-> v, len |-> l], u) : v \in Vecs, l \in 1..3, u \in UCfgs}
      [] k = "eq" -> {B(k, [shape |-> sh, n |-> ProdI(sh), use_mult |-> mc[1], multsrc |-> mc[2], mult_val |-> mc[3],
                           normalize |-> nz], u) : sh \in EqShapes, mc \in MultCfgs, nz \in BOOLEAN, u \in UCfgs}
      [] k = "balance" -> {B(k, [shape |-> sh, n |-> ProdI(sh), use_mult |-> mc[1], multsrc |-> mc[2], mult_val |-> mc[3],
                                normalize |-> nz, route |-> rt, uroute |-> ur], u) :
                              sh \in EqShapes, mc \in MultCfgs, nz \in BOOLEAN, u \in UCfgs, rt \in {"init", "add"},
                              ur \in {"eq_units", "kwargs"}}
      [] k = "linsys" -> {B(k, [size |-> n, vec |-> v, vecA |-> va], "none") : n \in 1..3, v \in Vecs, va \in BOOLEAN}
      [] k = "spline" -> {B(k, [method |-> m, g |-> g, xi |-> SpXi(g), rr |-> 4, vec |-> v, c |-> <<>>], u) :
                             m \in {"slinear", "lagrange2", "lagrange3", "akima", "cubic"}, g \in SpGrids,
                             v \in {1, 2} \cap Vecs, u \in {"none", "km"}}
\* option sets that differ only in an option that has no effect are dropped
Sensible(b) == /\ (b.kind = "balance" /\ b.ucfg = "none") => b.o.uroute = "eq_units"
               /\ (b.kind = "addsub" /\ ~Full) => (b.ucfg = "none" \/ (b.o.len = 1 /\ ~b.o.two))
               /\ (b.kind = "linsys" /\ b.o.vec = 1) => ~b.o.vecA
Base == {b \in UNION {BaseOf(k) : k \in Kinds} : Sensible(b)}

InSizes(b) ==
    LET o == b.o
    IN CASE b.kind = "addsub" -> [i \in 1..o.nin |-> o.vec * o.len]
         [] b.kind = "mux" -> [i \in 1..o.n |-> MuxSize(o)]
         [] b.kind = "dot" -> [i \in 1..(IF o.same THEN 1 ELSE 2) |-> o.vec * o.len]
         [] b.kind = "cross" -> [i \in 1..(IF o.same THEN 1 ELSE 2) |-> o.vec * 3]
         [] b.kind = "matvec" -> <<o.vec * o.nr * o.nc, o.vec * o.nc>>
         [] b.kind = "vecmag" -> <<o.vec * o.len>>
         [] b.kind \in {"eq", "balance"} -> [i \in 1..(IF o.multsrc = "ivc" THEN 3 ELSE 2) |-> o.n]
         [] b.kind = "linsys" -> <<(IF o.vecA THEN o.vec ELSE 1) * o.size * o.size, o.vec * o.size>>
         [] b.kind = "spline" -> <<o.vec * Len(o.g)>>
RhsVals == <<-3, -2, -1, 0, 1, 2, 4>>
SpC(sd, v) == <<Val(sd, v, 1), NZ(Val(sd, v, 2))>>
InVal(b, sd, i, q) ==
    LET o == b.o
    IN CASE b.kind = "vecmag" ->
              LET rows == PyRows(o.len)
                  n == (q - 1) \div o.len + 1
                  l == ((q - 1) % o.len) + 1
              IN rows[((sd + 2 * n) % Len(rows)) + 1][l]
         [] b.kind \in {"eq", "balance"} ->
              (IF i = 2 THEN RhsVals[((3 * sd + 2 * q) % 7) + 1] ELSE IF i = 3 THEN NZ(Val(sd, i, q)) ELSE Val(sd, i, q))
         [] b.kind = "linsys" ->
              (IF i = 1 THEN LET n == o.size
                                 ms == LsMats(n)
                                 k == (q - 1) \div (n * n)
                                 ii == (((q - 1) \div n) % n) + 1
                                 jj == ((q - 1) % n) + 1
                             IN ms[((sd + k) % Len(ms)) + 1][ii][jj]
               ELSE Val(sd, i, q))
         [] b.kind = "spline" ->
              LET ncp == Len(o.g)
                  v == (q - 1) \div ncp + 1
                  j == ((q - 1) % ncp) + 1
                  c == SpC(sd, v)
              IN c[1] + c[2] * o.g[j]
         [] OTHER -> Val(sd, i, q)
Fill(b, sd) ==
    LET sizes == InSizes(b)
        bb == IF b.kind = "spline" THEN [b EXCEPT !.o.c = [v \in 1..b.o.vec |-> SpC(sd, v)]] ELSE b
    IN [bb EXCEPT !.sd = sd,
                  !.x = [i \in 1..Len(sizes) |-> [q \in 1..sizes[i] |-> InVal(bb, sd, i, q)]],
                  !.f = [i \in 1..Len(sizes) |-> UF(b.kind, b.ucfg, i)]]

VARIABLES stage, scen, out
vars == <<stage, scen, out>>
Init == stage = 0 /\ scen \in Base /\ out = <<>>
Choose == /\ stage = 0 /\ stage' = 1
          /\ \E sd \in 1..NSeeds : scen' = Fill(scen, sd)
          /\ out' = Out(scen')
Next == Choose

\* --- laws ------------------------------------------------------------------------------------------------
Bump(xr, i, q, d) == [xr EXCEPT ![i][q] = Add(@, R(d))]
\* inputs whose column is checked by the exact central difference
CDInputs(s) == CASE s.kind \in {"addsub", "mux", "dot", "cross", "matvec", "spline"} -> 1..NIn(s)
                 [] s.kind \in {"eq", "balance"} -> IF s.o.normalize THEN (1..NIn(s)) \ {2} ELSE 1..NIn(s)
                 [] OTHER -> {}
CentralDiffLaw ==
    stage = 1 =>
      \A i \in CDInputs(scen) : \A q \in 1..Len(scen.x[i]) :
         LET yp == Y(scen, Bump(XR(scen), i, q, 1))
             ym == Y(scen, Bump(XR(scen), i, q, -1))
         IN \A r \in 1..Len(out.y) : Mul(Q(1, 2), Sub(yp[r], ym[r])) = out.J[r][Off(scen, i) + q]
QuotientLaw ==
    (stage = 1 /\ scen.kind \in {"eq", "balance"}) =>
      \A p \in 1..scen.o.n : out.J[p][Off(scen, 2) + p] = QuotRhs(scen, p)
MuxLaw == (stage = 1 /\ scen.kind = "mux") => MuxBijection(scen.o)
AddSubLaw ==
    (stage = 1 /\ scen.kind = "addsub") =>
      LET o == scen.o IN
      /\ \A t \in 1..ASnt(o) : o.map[t] \in 1..o.nin
      /\ \A i \in 1..o.nin : \E t \in 1..ASnt(o) : o.map[t] = i
      /\ \A e \in (IF o.two THEN {1, 2} ELSE {1}) :
            SumI([i \in 1..o.nin |-> ASco(o, e, i)], o.nin) = SumI(o.sf, ASnt(o))
CrossLaw ==
    (stage = 1 /\ scen.kind = "cross") =>
      \A n \in 1..scen.o.vec :
         LET a == Row3(scen, XR(scen), 1, n)
             b == Row3(scen, XR(scen), OpB(scen), n)
             c == [k \in 1..3 |-> out.y[(n - 1) * 3 + k]]
         IN /\ Dot(c, a) = Zero /\ Dot(c, b) = Zero
            /\ \A i \in 1..NIn(scen) : \A k, l \in 1..3 :      \* every diagonal block is skew-symmetric
                  out.J[(n - 1) * 3 + k][Off(scen, i) + (n - 1) * 3 + l]
                     = Neg(out.J[(n - 1) * 3 + l][Off(scen, i) + (n - 1) * 3 + k])
PolarLaw ==
    (stage = 1 /\ scen.kind = "dot") =>
      \A n \in 1..scen.o.vec :
         LET L == scen.o.len
             a == [l \in 1..L |-> V(scen, XR(scen), 1, (n - 1) * L + l)]
             b == [l \in 1..L |-> V(scen, XR(scen), OpB(scen), (n - 1) * L + l)]
         IN out.y[n] = Mul(Q(1, 4), Sub(Dot(VAdd(a, b), VAdd(a, b)), Dot(VSub(a, b), VSub(a, b))))
MagLaw ==
    (stage = 1 /\ scen.kind = "vecmag") =>
      \A n \in 1..scen.o.vec :
         LET L == scen.o.len
             f == scen.f[1]
             jr == [l \in 1..L |-> out.J[n][(n - 1) * L + l]]
             xs == [l \in 1..L |-> R(scen.x[1][(n - 1) * L + l])]
         IN /\ Mul(out.y[n], out.y[n]) = Mul(Mul(f, f), Dot(xs, xs))
            /\ RSgn(out.y[n]) > 0
            /\ Dot(jr, xs) = out.y[n]                      \* Euler: the magnitude is homogeneous of degree 1
            /\ Dot(jr, jr) = Mul(f, f)
LinSysLaw ==
    (stage = 1 /\ scen.kind = "linsys") =>
      LET n == scen.o.size
          na == Len(scen.x[1])
          nb == Len(scen.x[2])
      IN /\ \A k \in 1..scen.o.vec :
               /\ Det(LsA(scen, k)) \in {1, -1, 2, -2}
               /\ \A i \in 1..n : Dot([j \in 1..n |-> R(LsA(scen, k)[i][j])], LsX(scen, k)) = LsB(scen, k)[i]
         \* implicit function relation  dR/dx * dx/din + dR/din = 0  for every input column
         /\ \A r \in 1..nb : \A c \in 1..na + nb :
               Add(SumN([m \in 1..nb |-> Mul(out.P[r][na + nb + m], out.J[m][c])], nb), out.P[r][c]) = Zero
SplineLaw ==
    (stage = 1 /\ scen.kind = "spline") =>
      LET o == scen.o
          ni == Len(o.xi)
          ncp == Len(o.g)
      IN \A v \in 1..o.vec : \A t \in 1..ni :
            /\ SumN([j \in 1..ncp |-> Hat(o.g, o.rr, o.xi[t], j)], ncp) = One
            /\ out.y[(v - 1) * ni + t] = Mul(scen.f[1], SpP(scen, v, o.xi[t], o.rr))      \* reproduces p_v
            /\ o.xi[t] >= o.rr * o.g[1] /\ o.xi[t] <= o.rr * o.g[ncp]
Export == stage = 1 => PrintT(<<"EXP", ToJson([s |-> scen, v |-> out])>>)
=============================================================================
