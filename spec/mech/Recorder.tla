------------------------------ MODULE Recorder ------------------------------
(***************************************************************************)
(* Case recording: the execution of a run as a tree of recording frames,   *)
(* the recorder file as the sequence `log` of recorded cases, and the      *)
(* case reader's hierarchy / order queries.  C17 (and the cases C19 loads).*)
(*                                                                         *)
(* Code: openmdao/recorders/recording_iteration_stack.py (Recording, the   *)
(* stack, `_norec_funcs`), case_recorder.py (record_iteration: `_counter`),*)
(* sqlite_recorder.py (one row in the requester's table + one row in       *)
(* global_iterations per case), sqlite_reader.py (list_cases,              *)
(* _list_cases_recurse_flat / _nested, CaseTable.list_cases / _get_source),*)
(* utils/record_util.py (get_source_system, check_path), core/driver.py    *)
(* (_get_vars_to_record, record_iteration), core/system.py and             *)
(* solvers/solver.py (variable selection of system / solver recorders).    *)
(*                                                                         *)
(* Iteration coordinates are REAL strings ("rank0:Driver|1|root._solve_    *)
(* nonlinear|1"), built with \o and ToString, so that the reader's         *)
(* str.startswith / split('|') are transcribed literally and the decimal   *)
(* situation "|1" vs "|10" is what it is in the code.                      *)
(*                                                                         *)
(* Two families of operators over a log L:                                 *)
(*   Rd...   the reader's algorithms, transcribed from sqlite_reader.py    *)
(*   True... what the property states: execution order = log order; the    *)
(*           descendants of a case = the cases recorded while its frame    *)
(*           was open (every log entry remembers Len(log) at its push).    *)
(* RecorderMC.tla proves Rd = True on all bounded run trees (and refutes   *)
(* it where the code is wrong); RecorderJudge.tla replays the observed     *)
(* push/pop/record stream of real runs through Enter/Exit/RecordProblem    *)
(* and judges every answer of the real reader against True....            *)
(***************************************************************************)
EXTENDS Integers, Sequences, FiniteSets, TLC

\* Repairs of the READER assumed by the Rd... transcription ({} = the pinned code).  "rootname": a recorded
\* pathname is taken as already rooted only if it IS "root" or starts with "root." (pinned: starts with "root", so a
\* subsystem called "rootfinder" is listed as source "rootfinder");  "getcase": get_case(<int>) resolves an index
\* that falls on a problem case in the problem table (pinned: the index is handed on to the driver table).
\* RecorderMC proves Rd = True with the repairs and refutes it without; RecorderJudge does not use Rd.
CONSTANT Fix

\* ------------------------------------------------------------------------------------------------- strings
StartsWith(s, p) == Len(p) <= Len(s) /\ SubSeq(s, 1, Len(p)) = p
EndsWith(s, p) == Len(p) <= Len(s) /\ SubSeq(s, Len(s) - Len(p) + 1, Len(s)) = p
\* (set-based: recursion over the characters of a 200-character coordinate overflows TLC's evaluation stack)
IndexOf(s, sub) == LET C == {i \in 1..(Len(s) - Len(sub) + 1) : SubSeq(s, i, i + Len(sub) - 1) = sub}
                   IN IF C = {} THEN 0 ELSE CHOOSE i \in C : \A j \in C : i <= j        \* str.find(sub) + 1  (0: not found)
Contains(s, sub) == IndexOf(s, sub) > 0
\* str.split(sep), one-character separator
Split(s, sep) == LET P == {i \in 1..Len(s) : SubSeq(s, i, i) = sep}
                     n == Cardinality(P)
                     pos(k) == CHOOSE i \in P : Cardinality({j \in P : j < i}) = k - 1      \* k-th separator
                 IN [k \in 1..(n + 1) |-> SubSeq(s, IF k = 1 THEN 1 ELSE pos(k - 1) + 1, IF k = n + 1 THEN Len(s) ELSE pos(k) - 1)]
RECURSIVE Join(_, _)
Join(parts, sep) == IF Len(parts) = 0 THEN ""
                    ELSE IF Len(parts) = 1 THEN parts[1]
                    ELSE parts[1] \o sep \o Join(Tail(parts), sep)
RECURSIVE Concat(_)
Concat(seqs) == IF Len(seqs) = 0 THEN <<>> ELSE IF Len(seqs) = 1 THEN seqs[1]                  \* (halving: depth log n)
                ELSE LET h == Len(seqs) \div 2 IN Concat(SubSeq(seqs, 1, h)) \o Concat(SubSeq(seqs, h + 1, Len(seqs)))
Last(q) == q[Len(q)]
ToSet(q) == {q[k] : k \in 1..Len(q)}

\* ------------------------------------------------------------------------------------------------- requesters
\* labels: "problem", "driver", "sys:<path>" (root: "sys:"), "nl:<path>" (nonlinear solver of the group <path>),
\* "ls:<path>" (its line search).  "" = a frame without requester (raw push: _run_apply, _compute_totals).
IsSys(r) == StartsWith(r, "sys:")
IsNl(r) == StartsWith(r, "nl:")
IsLs(r) == StartsWith(r, "ls:")
PathOf(r) == SubSeq(r, IndexOf(r, ":") + 1, Len(r))
Table(r) == IF r = "driver" THEN "driver" ELSE IF r = "problem" THEN "problem" ELSE IF IsSys(r) THEN "system" ELSE "solver"
\* the source name under which the reader's public API knows a requester (list_sources, Case.source)
RootPath(p) == IF p = "" THEN "root" ELSE "root." \o p
PublicSource(r) == IF r \in {"driver", "problem"} THEN r
                   ELSE IF IsSys(r) THEN RootPath(PathOf(r))
                   ELSE IF IsNl(r) THEN RootPath(PathOf(r)) \o ".nonlinear_solver"
                   ELSE RootPath(PathOf(r)) \o ".nonlinear_solver.linesearch"
\* what sqlite_recorder.record_iteration_* writes into global_iterations.source
FileSource(r, name) == IF r \in {"driver", "problem"} THEN name
                       ELSE IF IsSys(r) THEN (IF PathOf(r) = "" THEN "root" ELSE PathOf(r))
                       ELSE IF IsNl(r) THEN (IF PathOf(r) = "" THEN "root" ELSE PathOf(r)) \o ".nonlinear_solver"
                       ELSE (IF PathOf(r) = "" THEN "root" ELSE PathOf(r)) \o ".nonlinear_solver.linesearch"

\* ------------------------------------------------------------------------------------------------- the reader's parsing of coordinates (transcription)
ErrAns(name) == [k |-> "err", v |-> <<name>>]
FlatAns(q) == [k |-> "flat", v |-> q]
NestedAns(q) == [k |-> "nested", v |-> q]

Rows(L, t) == SelectSeq(L, LAMBDA c : Table(c.req) = t)                  \* a case table, ORDER BY id
HasCoord(L, t, coord) == \E k \in 1..Len(L) : Table(L[k].req) = t /\ L[k].coord = coord
\* CaseTable.get_case(coord): the FIRST row with that coordinate
FirstRow(L, t, coord) == L[CHOOSE k \in 1..Len(L) : /\ Table(L[k].req) = t /\ L[k].coord = coord
                                                    /\ \A j \in 1..(k - 1) : ~(Table(L[j].req) = t /\ L[j].coord = coord)]

\* record_util.get_source_system: split at "|<digits>|", last part that ends in ._solve_nonlinear / ._apply_nonlinear
CoordNames(coord) == LET p == Split(coord, "|") IN [k \in 1..((Len(p) + 1) \div 2) |-> p[2 * k - 1]]
IsSysName(n) == EndsWith(n, "._solve_nonlinear") \/ EndsWith(n, "._apply_nonlinear")
StripRank(n) == IF Contains(n, ":") THEN Split(n, ":")[2] ELSE n
GetSourceSystem(coord) ==
    LET ns == CoordNames(coord)
        ks == {k \in 1..Len(ns) : IsSysName(ns[k])}
    IN IF ks = {} THEN "root"
       ELSE LET k == CHOOSE x \in ks : \A y \in ks : y <= x
                part == StripRank(SubSeq(ns[k], 1, Len(ns[k]) - Len("._solve_nonlinear")))
            IN IF part = "root" \/ StartsWith(part, "root.") THEN part ELSE "root." \o part
\* SolverCases._get_source
SolverSource(coord) ==
    LET ss == GetSourceSystem(coord)
        solve == Last(Split(ss, ".")) \o "._solve_nonlinear"
        ix == IndexOf(coord, solve)
        sysNodes == Len(Split(SubSeq(coord, 1, ix + Len(solve) - 1), "|")) + 1
        numNodes == Len(Split(coord, "|"))
    IN IF ix = 0 THEN "!ValueError"
       ELSE IF numNodes = sysNodes + 2 THEN ss \o ".nonlinear_solver"
       ELSE IF numNodes = sysNodes + 4 THEN ss \o ".nonlinear_solver.linesearch"
       ELSE "!RuntimeError"
GetSource(t, coord) == IF t = "driver" THEN "driver" ELSE IF t = "problem" THEN "problem"
                       ELSE IF t = "system" THEN GetSourceSystem(coord) ELSE SolverSource(coord)
\* Case.parent / the parent test of _list_cases_recurse_nested: the coordinate without its last two '|' parts
ParentCoord(coord) == LET p == Split(coord, "|") IN Join(SubSeq(p, 1, Len(p) - 2), "|")
\* a case as stored in the file.  req/start are the specification's knowledge (who recorded it, Len(log) at the push
\* of its frame); coord/counter/src are the columns the reader sees; gs = <table>._get_source(coord) and
\* pc = ParentCoord(coord) are pure functions of coord, evaluated once here instead of at every use below
MkCase(r, coord, cnt, start, src) ==
    [req |-> r, coord |-> coord, counter |-> cnt, start |-> start, src |-> src,
     gs |-> GetSource(Table(r), coord), pc |-> ParentCoord(coord)]

\* ------------------------------------------------------------------------------------------------- the run
VARIABLES stack,      \* sequence of frames [n: name, i: iteration count, r: requester label or ""]
          opened,     \* parallel to stack: Len(log) when the frame was pushed
          norec,      \* _norec_refcount: number of open _run_apply / _compute_totals frames
          ictr,       \* requester label -> iteration counter (systems: System.iter_count; driver)
          prefix,     \* case prefix of the current run ("" = none)
          counter,    \* CaseRecorder._counter of THE recorder (one file)
          log,        \* the file: sequence of cases [req, coord, counter, start, src]
          attached    \* requesters this recorder is attached to
rvars == <<stack, opened, norec, ictr, prefix, counter, log, attached>>

NoRecNames == {"_run_apply", "_compute_totals"}

\* _RecIteration.get_formatted_iteration_coordinate
FormatStack(pfx, st) == (IF pfx = "" THEN "" ELSE pfx \o "_") \o "rank0:" \o
                        Join([k \in 1..Len(st) |-> st[k].n \o "|" \o ToString(st[k].i)], "|")
Coordinate == FormatStack(prefix, stack)

RInit(att, reqs) == /\ stack = <<>> /\ opened = <<>> /\ norec = 0
                    /\ ictr = [r \in reqs |-> 0]
                    /\ prefix = "" /\ counter = 0 /\ log = <<>> /\ attached = att

\* Problem.run_model / run_driver(case_prefix, reset_iter_counts)
StartRun(pfx, reset) == /\ stack = <<>>
                        /\ prefix' = pfx
                        /\ ictr' = IF reset THEN [r \in DOMAIN ictr |-> 0] ELSE ictr
                        /\ UNCHANGED <<stack, opened, norec, counter, log, attached>>

\* _RecIteration.push (directly, or from Recording.__enter__)
Enter(name, it, req) ==
    /\ stack' = Append(stack, [n |-> name, i |-> it, r |-> req])
    /\ opened' = Append(opened, Len(log))
    /\ norec' = IF name \in NoRecNames THEN norec + 1 ELSE norec
    /\ UNCHANGED <<ictr, prefix, counter, log, attached>>

\* does leaving the top frame write a case into this file?  (Recording.__exit__: `_norec_refcount == 0`, then
\* requester.record_iteration() which does something iff a recorder is attached)
WillRecord == /\ Len(stack) > 0
              /\ Last(stack).r # ""
              /\ norec = 0
              /\ Last(stack).r \in attached

\* Recording.__exit__ (record, then pop) / a raw pop
Exit ==
    /\ Len(stack) > 0
    /\ LET f == Last(stack) IN
       /\ IF WillRecord
          THEN /\ counter' = counter + 1
               /\ log' = Append(log, MkCase(f.r, Coordinate, counter + 1, Last(opened), FileSource(f.r, f.n)))
          ELSE UNCHANGED <<counter, log>>
       \* System.record_iteration increments iter_count, and it is only CALLED when norec = 0;
       \* the driver increments its own counter once per iteration
       /\ ictr' = IF f.r # "" /\ f.r \in DOMAIN ictr /\ ((IsSys(f.r) /\ norec = 0) \/ f.r = "driver")
                  THEN [ictr EXCEPT ![f.r] = @ + 1] ELSE ictr
       /\ norec' = IF f.n \in NoRecNames THEN norec - 1 ELSE norec
    /\ stack' = SubSeq(stack, 1, Len(stack) - 1)
    /\ opened' = SubSeq(opened, 1, Len(opened) - 1)
    /\ UNCHANGED <<prefix, attached>>

\* Problem.record(case_name): the coordinate column of a problem case is the case name
RecordProblem(name) ==
    /\ IF "problem" \in attached
       THEN /\ counter' = counter + 1
            /\ log' = Append(log, MkCase("problem", name, counter + 1, Len(log), name))
       ELSE UNCHANGED <<counter, log>>
    /\ UNCHANGED <<stack, opened, norec, ictr, prefix, attached>>

\* ------------------------------------------------------------------------------------------------- invariants of the file
\* the reader uses Case.counter as an index into global_iterations
CounterIsIndex(L) == \A i \in 1..Len(L) : L[i].counter = i
CounterMonotone(L) == \A i \in 1..Len(L) - 1 : L[i].counter < L[i + 1].counter
\* get_case(coordinate) is `SELECT ... WHERE iteration_coordinate = ?` + fetchone: coordinates must identify cases
UniqueCoords(L) == \A i, j \in 1..Len(L) : (i # j /\ Table(L[i].req) = Table(L[j].req)) => L[i].coord # L[j].coord
Coords(q) == [k \in 1..Len(q) |-> q[k].coord]

\* ------------------------------------------------------------------------------------------------- the reader (transcription)
\* CaseTable.list_sources (format_version >= 5: from the source column of global_iterations)
Rooted(src) == IF "rootname" \in Fix THEN src = "root" \/ StartsWith(src, "root.") ELSE StartsWith(src, "root")
RdTableSources(L, t) == IF t = "driver" THEN {"driver"} ELSE IF t = "problem" THEN {"problem"}
                        ELSE {IF Rooted(c.src) THEN c.src ELSE "root." \o c.src : c \in ToSet(Rows(L, t))}
\* SqliteCaseReader.list_sources
RdListSources(L) == UNION {IF Len(Rows(L, t)) > 0 THEN RdTableSources(L, t) ELSE {} : t \in {"driver", "solver", "system", "problem"}}

\* _list_cases_recurse_flat(coord).  WinAdj = 0 is the code; the window is range(0, parent_case_counter)
RdFlatW(L, coord, WinAdj) ==
    LET found == \E t \in {"driver", "system", "solver", "problem"} : HasCoord(L, t, coord)
        t == IF HasCoord(L, "driver", coord) THEN "driver" ELSE IF HasCoord(L, "system", coord) THEN "system"
             ELSE IF HasCoord(L, "solver", coord) THEN "solver" ELSE "problem"
        win == IF coord = "" THEN Len(L) ELSE FirstRow(L, t, coord).counter + WinAdj
    IN IF coord # "" /\ ~found THEN ErrAns("RuntimeError")
       ELSE IF win > Len(L) THEN ErrAns("IndexError")
       ELSE FlatAns(Coords(SelectSeq(SubSeq(L, 1, win), LAMBDA c : StartsWith(c.coord, coord))))
RdFlat(L, coord) == RdFlatW(L, coord, 0)

\* _list_cases_recurse_nested(coord): children = solver/system cases in range(0, parent.counter - 1) whose coordinate
\* without its last two '|' parts IS the parent's coordinate.  A tree is [c |-> coordinate, ch |-> <<trees>>]
RECURSIVE RdNestedTree(_, _)
RdNestedTree(L, coord) ==
    LET t == IF HasCoord(L, "driver", coord) THEN "driver" ELSE IF HasCoord(L, "system", coord) THEN "system" ELSE "solver"
        p == FirstRow(L, t, coord)
        kids == SelectSeq(SubSeq(L, 1, p.counter - 1),
                          LAMBDA c : /\ Table(c.req) \in {"solver", "system"}
                                     /\ StartsWith(c.coord, coord)
                                     /\ c.pc = coord)
    IN [c |-> p.coord, ch |-> [k \in 1..Len(kids) |-> RdNestedTree(L, kids[k].coord)]]
RdNestedOK(L, coord) == \E t \in {"driver", "system", "solver"} : HasCoord(L, t, coord)

\* SqliteCaseReader.list_cases(source, recurse, flat); source "" = None
RdListCases(L, source, recurse, flat) ==
    LET src == IF source # "" THEN source
               ELSE IF flat THEN ""
               ELSE IF Len(Rows(L, "driver")) > 0 THEN "driver"
               ELSE IF "root" \in RdTableSources(L, "system") THEN "root" ELSE "!none"
        t == IF src = "driver" THEN "driver"
             ELSE IF src \in RdTableSources(L, "system") THEN "system"
             ELSE IF src \in RdTableSources(L, "solver") THEN "solver" ELSE "none"
        mine == SelectSeq(Rows(L, t), LAMBDA c : c.gs = src)      \* case_table.list_cases(source)
    IN IF src = "!none" THEN ErrAns("RuntimeError")
       ELSE IF src = "" THEN RdFlat(L, "")
       ELSE IF src = "problem" THEN FlatAns(Coords(Rows(L, "problem")))
       ELSE IF t # "none"
            THEN IF ~recurse THEN FlatAns(Coords(mine))
                 ELSE IF flat
                      THEN LET parts == [k \in 1..Len(mine) |-> RdFlat(L, mine[k].coord)]
                           IN IF \E k \in 1..Len(parts) : parts[k].k = "err"
                              THEN parts[CHOOSE k \in 1..Len(parts) : parts[k].k = "err"]
                              ELSE FlatAns(Concat([k \in 1..Len(parts) |-> parts[k].v]))
                      ELSE NestedAns([k \in 1..Len(mine) |-> RdNestedTree(L, mine[k].coord)])
       ELSE IF Contains(src, "|")
            THEN IF recurse
                 THEN IF flat THEN RdFlat(L, src)
                      ELSE IF RdNestedOK(L, src) THEN NestedAns(<<RdNestedTree(L, src)>>) ELSE ErrAns("RuntimeError")
                 ELSE ErrAns("UnboundLocalError")        \* `cases` is never assigned on this path
       ELSE ErrAns("RuntimeError")

\* SqliteCaseReader.get_case(<int>): "an index into all cases" (Python index: negative counts from the end).
\* global_iterations[i] names the table and the row; the row's coordinate is then looked up in the tables.  For a
\* problem row the pinned code has no branch: the INTEGER goes on to the first table, DriverCases.get_case(int) =
\* the driver table's own i-th key.
PyPos(n, i) == IF i >= 0 THEN i + 1 ELSE n + i + 1                    \* 1-based position; outside 1..n: IndexError
RdGetCaseIdx(L, i) ==
    LET p == PyPos(Len(L), i)
    IN IF p \notin 1..Len(L) THEN ErrAns("IndexError")
       ELSE IF Table(L[p].req) # "problem" \/ "getcase" \in Fix THEN FlatAns(<<L[p].coord>>)
       ELSE LET D == Rows(L, "driver")
                dp == PyPos(Len(D), i)
            IN IF dp \in 1..Len(D) THEN FlatAns(<<D[dp].coord>>) ELSE ErrAns("IndexError")

\* ------------------------------------------------------------------------------------------------- what the property states
\* get_case(i) is the i-th case of list_cases(), i.e. of the execution order
TrueGetCaseIdx(L, i) == LET p == PyPos(Len(L), i)
                        IN IF p \in 1..Len(L) THEN FlatAns(<<L[p].coord>>) ELSE ErrAns("IndexError")
\* the cases recorded while the frame of L[i] was open, then L[i] itself (execution order)
Desc(L, i) == SubSeq(L, L[i].start + 1, i)
Inside(L, j, i) == L[i].start < j /\ j < i                         \* case j was recorded inside the frame of case i
\* j is a child of i: inside i and inside no other recorded frame that is itself inside i
ChildOf(L, j, i) == Inside(L, j, i) /\ ~\E k \in (j + 1)..(i - 1) : Inside(L, j, k)
RECURSIVE TrueTree(_, _)
TrueTree(L, i) == LET lo == L[i].start
                      kids == SelectSeq([k \in 1..(i - 1 - lo) |-> lo + k], LAMBDA j : ChildOf(L, j, i))
                  IN [c |-> L[i].coord, ch |-> [k \in 1..Len(kids) |-> TrueTree(L, kids[k])]]
IdxOfCoord(L, coord) == CHOOSE i \in 1..Len(L) : L[i].coord = coord
TrueSources(L) == {PublicSource(L[i].req) : i \in 1..Len(L)}
SourceIdx(L, src) == SelectSeq([k \in 1..Len(L) |-> k], LAMBDA i : PublicSource(L[i].req) = src)

\* list_cases(source, recurse, flat) as the documentation and the property read:
\*   no source: every case in execution order (nested: the tree below the driver cases, else below the root cases)
\*   a source : its cases; with recurse each followed^-1 by its descendants (flat: execution order; nested: trees)
\*   a case   : with recurse the case and its descendants; without recurse the case itself
TrueListCases(L, source, recurse, flat) ==
    LET src == IF source # "" THEN source
               ELSE IF flat THEN ""
               ELSE IF "driver" \in TrueSources(L) THEN "driver"
               ELSE IF "root" \in TrueSources(L) THEN "root" ELSE "!none"
        mine == SourceIdx(L, src)
    IN IF src = "!none" THEN ErrAns("RuntimeError")
       ELSE IF src = "" THEN FlatAns(Coords(L))
       ELSE IF src = "problem" THEN FlatAns(Coords(Rows(L, "problem")))
       ELSE IF src \in TrueSources(L)
            THEN IF ~recurse THEN FlatAns([k \in 1..Len(mine) |-> L[mine[k]].coord])
                 ELSE IF flat THEN FlatAns(Coords(Concat([k \in 1..Len(mine) |-> Desc(L, mine[k])])))
                 ELSE NestedAns([k \in 1..Len(mine) |-> TrueTree(L, mine[k])])
       ELSE IF \E i \in 1..Len(L) : L[i].coord = src /\ L[i].req # "problem"
            THEN LET i == IdxOfCoord(L, src)
                 IN IF recurse THEN (IF flat THEN FlatAns(Coords(Desc(L, i))) ELSE NestedAns(<<TrueTree(L, i)>>))
                    ELSE FlatAns(<<L[i].coord>>)
       ELSE ErrAns("RuntimeError")

\* ------------------------------------------------------------------------------------------------- properties (theorems of the design, checked by RecorderMC)
OrderIsExecution(L) == RdListCases(L, "", TRUE, TRUE) = FlatAns(Coords(L))
DescendantsExact(L) == \A i \in 1..Len(L) : L[i].req # "problem" => RdFlat(L, L[i].coord) = FlatAns(Coords(Desc(L, i)))
SourcesExact(L) == RdListSources(L) = TrueSources(L)
SourceListsExact(L) == \A s \in TrueSources(L) : \A rc \in BOOLEAN :
                          RdListCases(L, s, rc, TRUE) = TrueListCases(L, s, rc, TRUE)
NestedExact(L) == /\ \A s \in TrueSources(L) \ {"problem"} : RdListCases(L, s, TRUE, FALSE) = TrueListCases(L, s, TRUE, FALSE)
                  /\ RdListCases(L, "", TRUE, FALSE) = TrueListCases(L, "", TRUE, FALSE)
IndexedExact(L) == \A i \in (-(Len(L) + 1))..Len(L) : RdGetCaseIdx(L, i) = TrueGetCaseIdx(L, i)
CoordNoRecurse(L) == \A i \in 1..Len(L) : L[i].req # "problem" =>
                        RdListCases(L, L[i].coord, FALSE, TRUE) = TrueListCases(L, L[i].coord, FALSE, TRUE)

\* ------------------------------------------------------------------------------------------------- variable selection
\* Match: pattern -> set of names fnmatchcase accepts (computed by Python's own fnmatch); the LOGIC is here.
\* record_util.check_path(path, includes, excludes)
CheckPath(Match, name, incl, excl) ==
    /\ ~\E k \in 1..Len(excl) : name \in Match[excl[k]]
    /\ \E k \in 1..Len(incl) : name \in Match[incl[k]]

\* V: [outs, ins, resids: sets of absolute names;  prom: abs output -> promoted name in the requester's namespace;
\*     pin: set of promoted input names (root namespace);  psrc: promoted input -> absolute name of its source;
\*     dvs, objs, cons: absolute names of the sources of the design variables / objectives / constraints]
\* O: the requester's recording_options.
\* Driver._get_vars_to_record (also used for the Problem, with the problem's options) + driver.record_iteration.
\* The selected outputs are: the outputs that pass the filters (only with record_outputs), the design variables /
\* objectives / constraints their record_* flags select (AFTER includes/excludes, and whatever record_outputs says:
\* "record_desvars: Set to True to record design variables at the driver level"), the sources of the matching
\* promoted inputs.  gate = TRUE is the pinned record_iteration, which writes the whole outputs table only when
\* record_outputs is set (kept to name that behaviour; not what the property states).
SelDriverG(Match, O, V, gate) ==
    LET chk(n) == CheckPath(Match, n, O.includes, O.excludes)
        outs0 == IF O.record_outputs THEN {n \in V.outs : chk(V.prom[n])} ELSE {}
        res == IF O.record_residuals THEN {n \in V.resids : chk(V.prom[n])} ELSE {}
        vois == (IF O.record_desvars THEN V.dvs ELSE {})
                \cup (IF O.record_objectives \/ O.record_responses THEN V.objs ELSE {})
                \cup (IF O.record_constraints \/ O.record_responses THEN V.cons ELSE {})     \* AFTER includes/excludes
        ins == IF O.record_inputs THEN {n \in V.ins : chk(n)} ELSE {}                         \* absolute input names
        srcs == IF O.record_inputs THEN {V.psrc[p] : p \in {q \in V.pin : chk(q)}} ELSE {}    \* sources of matching promoted inputs
    IN [inp |-> ins,
        out |-> IF gate /\ ~O.record_outputs THEN {} ELSE outs0 \cup vois \cup srcs,
        res |-> res]
SelDriver(Match, O, V) == SelDriverG(Match, O, V, FALSE)
\* System._setup_recording + System.record_iteration (V restricted to the system; prom relative to the system)
SelSystem(Match, O, V) ==
    LET chk(n) == CheckPath(Match, n, O.includes, O.excludes)
        outs == IF O.record_outputs THEN {n \in V.outs : chk(V.prom[n])} ELSE {}
    IN [inp |-> IF O.record_inputs THEN {n \in V.ins : chk(n)} ELSE {},
        out |-> outs,
        res |-> IF ~O.record_residuals THEN {}
                ELSE IF O.record_outputs THEN outs
                ELSE {n \in V.resids : chk(V.prom[n])}]
\* Solver._setup_solvers + Solver.record_iteration: patterns are relative to the solver's group, names absolute
SelSolver(Match, O, V, path) ==
    LET rel(q) == IF path = "" THEN q ELSE [k \in 1..Len(q) |-> path \o "." \o q[k]]
        chk(n) == CheckPath(Match, n, rel(O.includes), rel(O.excludes))
    IN [inp |-> IF O.record_inputs THEN {n \in V.ins : chk(n)} ELSE {},
        out |-> IF O.record_outputs THEN {n \in V.outs : chk(n)} ELSE {},
        res |-> IF O.record_solver_residuals THEN {n \in V.resids : chk(n)} ELSE {}]
Selected(Match, r, O, V) == IF r \in {"driver", "problem"} THEN SelDriver(Match, O, V)
                            ELSE IF IsSys(r) THEN SelSystem(Match, O, V)
                            ELSE SelSolver(Match, O, V, PathOf(r))
=============================================================================
