----------------------------- MODULE CaseDBTrace -----------------------------
(***************************************************************************)
(* Validation of OBSERVED statement streams against CaseDB.tla (C18).      *)
(*                                                                         *)
(* The harness runs a real recording with sqlite3's trace callback         *)
(* installed on the recorder's connection and abstracts every statement    *)
(* (including the implicit BEGIN and the COMMIT of `with connection:`) to  *)
(*    [op |-> "CREATE"|"BEGIN"|"COMMIT"|"INSERT"|"UPDATE"|"OTHER",         *)
(*     t  |-> object name, rt |-> case table named by a global row]        *)
(* This module replays the stream through the statement operators of       *)
(* CaseDB (same guards, same effects on <<durable, txn>>) and additionally *)
(* demands the transaction structure the crash proof rests on:             *)
(*   - every case-row INSERT lies in a transaction that holds nothing else *)
(*     but its own global_iterations row, which follows it and names the   *)
(*     same table; COMMIT only when case rows and global rows are paired;  *)
(*   - metadata statements are in transactions without case rows;          *)
(*   - at the end no transaction is open, the file opens (CanOpen) and     *)
(*     list_cases() computed by the spec equals the reference list the     *)
(*     real CaseReader returned (by table), one global row per case row.   *)
(* It also exports, per statement boundary, what the spec says about a     *)
(* crash immediately BEFORE that statement (used by the crash enumeration):*)
(*   mark 0 no transaction open, 1 inside an open transaction,             *)
(*        2 between a case row and its global row;                         *)
(*   started  the first startup is complete (durable metadata is full);    *)
(*   ncases   number of cases the spec says are durable.                   *)
(***************************************************************************)
EXTENDS CaseDB, Json, IOUtils

Traces == JsonDeserialize(IOEnv.C18_TRACES)

VARIABLES tid, l, verdict, nid, hist
tvars == <<tid, l, verdict, nid, hist, vars>>

Frozen == UNCHANGED <<prog, full, pc, crashed, reader>>

TInit == /\ tid \in 1..Len(Traces)
         /\ l = 1
         /\ verdict = "ok"
         /\ nid = 0
         /\ hist = <<>>
         /\ prog = <<>> /\ full = <<>> /\ pc = 1
         /\ durable = EmptyDB /\ txn = NoTxn
         /\ started = FALSE /\ ncommit = 0 /\ crashed = FALSE
         /\ reader = [st |-> "none", list |-> <<>>]

Ev == Traces[tid].ev[l]

OnlyMeta(x) == x.cases = <<>> /\ x.glob = <<>> /\ x.derivs = <<>>
Fresh(x) == OnlyMeta(x) /\ x.meta = "keep" /\ x.nmeta = 0 /\ x.tables = {}

\* the verdict on the next statement: "ok" or the reason it does not fit
Judge(e, d, x) ==
    CASE e.op = "CREATE" -> IF CanCreate(d, x, e.t) /\ OnlyMeta(x) THEN "ok" ELSE "create-not-allowed-here"
      [] e.op = "BEGIN" -> IF CanBegin(x) THEN "ok" ELSE "begin-inside-open-transaction"
      [] e.op = "COMMIT" -> IF ~CanCommit(x) THEN "commit-without-transaction"
                            ELSE IF Len(x.cases) # Len(x.glob) THEN "commit-between-case-row-and-global-row"
                            ELSE "ok"
      [] e.op = "INSERT" /\ e.t \in CaseTables ->
            IF ~x.open THEN "case-row-outside-transaction"
            ELSE IF ~Fresh(x) THEN "case-row-in-transaction-holding-other-records"
            ELSE IF CanInsertCase(d, x, e.t) THEN "ok" ELSE "case-table-missing"
      [] e.op = "INSERT" /\ e.t = "global_iterations" ->
            IF ~x.open THEN "global-row-outside-transaction"
            ELSE IF ~(Len(x.cases) = 1 /\ x.glob = <<>>) THEN "global-row-not-after-its-case-row-in-the-same-transaction"
            ELSE IF x.cases[1][1] # e.rt THEN "global-row-names-another-table"
            ELSE IF CanInsertGlobal(d, x, e.rt) THEN "ok" ELSE "global-table-missing"
      [] e.op = "INSERT" /\ e.t = "driver_derivatives" ->
            IF CanInsertDeriv(d, x) /\ Fresh(x) THEN "ok" ELSE "derivatives-row-not-in-its-own-transaction"
      [] e.op = "INSERT" /\ e.t = "metadata" ->
            IF CanInsertMetaStub(d, x) /\ OnlyMeta(x) THEN "ok" ELSE "metadata-row-not-allowed-here"
      [] e.op = "UPDATE" /\ e.t = "metadata" ->
            IF CanUpdateMeta(d, x) /\ OnlyMeta(x) /\ MetaOf(d, x) # "none" THEN "ok" ELSE "metadata-update-not-allowed-here"
      [] e.op = "INSERT" /\ e.t \in MetaRowTables ->
            IF CanInsertMetaRow(d, x, e.t) /\ OnlyMeta(x) THEN "ok" ELSE "metadata-row-not-allowed-here"
      [] OTHER -> "unknown-statement"

Mark(x) == IF ~x.open THEN 0 ELSE IF Len(x.cases) > Len(x.glob) THEN 2 ELSE 1
Obs == [mark |-> Mark(txn), started |-> started, ncases |-> Len(durable.glob)]

Step ==
    /\ verdict = "ok"
    /\ l <= Len(Traces[tid].ev)
    /\ LET e == Ev
           v == Judge(e, durable, txn)
       IN /\ verdict' = v
          /\ hist' = Append(hist, Obs)
          /\ IF v # "ok" THEN UNCHANGED <<durable, txn, started, ncommit, nid>>
             ELSE CASE e.op = "CREATE" -> /\ durable' = DoCreateD(durable, txn, e.t)
                                          /\ txn' = DoCreateX(durable, txn, e.t)
                                          /\ UNCHANGED <<started, ncommit, nid>>
                    [] e.op = "BEGIN" -> txn' = DoBegin(txn) /\ UNCHANGED <<durable, started, ncommit, nid>>
                    [] e.op = "COMMIT" -> /\ durable' = DoCommit(durable, txn)
                                          /\ txn' = NoTxn
                                          /\ started' = (started \/ durable'.meta = "full")
                                          /\ ncommit' = ncommit + Len(txn.glob)
                                          /\ UNCHANGED nid
                    [] e.op = "INSERT" /\ e.t \in CaseTables ->
                          /\ txn' = DoInsertCase(txn, e.t, nid + 1) /\ nid' = nid + 1
                          /\ UNCHANGED <<durable, started, ncommit>>
                    [] e.op = "INSERT" /\ e.t = "global_iterations" ->
                          txn' = DoInsertGlobal(durable, txn, e.rt) /\ UNCHANGED <<durable, started, ncommit, nid>>
                    [] e.op = "INSERT" /\ e.t = "driver_derivatives" ->
                          txn' = DoInsertDeriv(txn, 0) /\ UNCHANGED <<durable, started, ncommit, nid>>
                    [] e.op = "INSERT" /\ e.t = "metadata" ->
                          txn' = DoInsertMetaStub(txn) /\ UNCHANGED <<durable, started, ncommit, nid>>
                    [] e.op = "UPDATE" -> txn' = DoUpdateMeta(durable, txn) /\ UNCHANGED <<durable, started, ncommit, nid>>
                    [] OTHER -> txn' = DoInsertMetaRow(txn) /\ UNCHANGED <<durable, started, ncommit, nid>>
    /\ l' = l + 1
    /\ UNCHANGED tid /\ Frozen

\* end of the stream: the verdict on the whole recording
Final ==
    /\ verdict = "ok"
    /\ l = Len(Traces[tid].ev) + 1
    /\ LET ref == Traces[tid].ref
           lst == ListCases(durable)
       IN verdict' = IF txn.open THEN "transaction-left-open"
                     ELSE IF ~(CanOpen(durable) /\ CanList(durable)) THEN "file-would-not-open"
                     ELSE IF ~OneToOne(durable) THEN "case-rows-and-global-rows-not-one-to-one"
                     ELSE IF ~(Len(lst) = Len(ref) /\ \A i \in 1..Len(ref) : lst[i][1] = ref[i] /\ lst[i][2] = i)
                          THEN "case-order-differs-from-reader"
                     ELSE "accepted"
    /\ hist' = Append(hist, Obs)
    /\ l' = l + 1
    /\ UNCHANGED <<tid, nid, durable, txn, started, ncommit>> /\ Frozen

TNext == Step \/ Final

\* invariants over every prefix of every accepted stream
TraceAtomicity == verdict = "ok" => OneToOne(durable)
\* once the first startup is complete the committed file always opens (the crash window's precondition)
TraceStartedOpens == verdict = "ok" /\ started => CanOpen(durable) /\ CanList(durable)
\* the committed cases are always the first ncommit of the stream, in order
TraceCommitted == verdict = "ok" /\ CanList(durable) =>
                     /\ Len(durable.glob) = ncommit
                     /\ \A i \in 1..Len(durable.glob) : ListCases(durable)[i][2] = i

Done == verdict # "ok"
Export == Done => PrintT(<<"EXP", ToJson([tid |-> tid, l |-> l, v |-> verdict, hist |-> hist])>>)
=============================================================================
