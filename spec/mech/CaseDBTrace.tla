----------------------------- MODULE CaseDBTrace -----------------------------
(***************************************************************************)
(* Validation of OBSERVED statement streams against CaseDB.tla (C18).      *)
(*                                                                         *)
(* The harness runs a real recording with sqlite3's trace callback         *)
(* installed on the recorder's connection and abstracts every statement    *)
(* (including the implicit BEGIN and the COMMIT of `with connection:`) to  *)
(*    [op |-> "CREATE"|"BEGIN"|"COMMIT"|"ROLLBACK"|"INSERT"|"UPDATE",      *)
(*     t  |-> object name, rt |-> case table named by a global row]        *)
(* This module replays the stream through the statement operators of       *)
(* CaseDB (same guards, same effects on <<durable, txn>>) and additionally *)
(* demands the transaction structure the crash proof rests on:             *)
(*   - every case-row INSERT lies in a transaction that holds nothing else *)
(*     but its own global_iterations row, which follows it and names the   *)
(*     same table; COMMIT only when case rows and global rows are paired;  *)
(*   - metadata statements are in transactions without case rows;          *)
(* A stream that breaks this discipline is REJECTED (verdict = the first   *)
(* flaw), but it is still replayed to its end as long as SQLite itself     *)
(* would have executed it (a DML statement outside a transaction is an     *)
(* autocommit transaction of its own), so that the crash enumeration knows *)
(* what is durable at every boundary of a faulty recorder as well.         *)
(*   - at the end no transaction is open, the file opens (CanOpen) and     *)
(*     list_cases() computed by the spec equals the reference list the     *)
(*     real CaseReader returned (by table), one global row per case row.   *)
(* It also exports, per statement boundary, what the spec says about a     *)
(* crash immediately BEFORE that statement (used by the crash enumeration):*)
(*   mark 0 no transaction open, 1 inside an open transaction,             *)
(*        2 between a case row and its global row;                         *)
(*   started  the first startup is complete (durable metadata is full);    *)
(*   ncases   number of cases the spec says are durable (global rows);     *)
(*   nderivs  number of durable driver_derivatives rows;                   *)
(*   atomic   case rows and global rows of the durable state are paired.   *)
(***************************************************************************)
EXTENDS CaseDB, Json, IOUtils

Traces == JsonDeserialize(IOEnv.C18_TRACES)

VARIABLES tid, l, verdict, flaw, flawAt, nid, hist
tvars == <<tid, l, verdict, flaw, flawAt, nid, hist, vars>>

Frozen == UNCHANGED <<prog, full, pc, crashed, reader>>

TInit == /\ tid \in 1..Len(Traces)
         /\ l = 1
         /\ verdict = "ok"          \* "ok" while replaying; final verdict afterwards
         /\ flaw = "ok"             \* the first deviation from the transaction discipline
         /\ flawAt = 0              \* ... and the statement at which it occurs
         /\ nid = 0
         /\ hist = <<>>
         /\ prog = <<>> /\ full = <<>> /\ pc = 1
         /\ durable = EmptyDB /\ txn = NoTxn
         /\ started = FALSE /\ ncommit = 0 /\ crashed = FALSE
         /\ reader = [st |-> "none", list |-> <<>>]

Ev == Traces[tid].ev[l]

OnlyMeta(x) == x.cases = <<>> /\ x.glob = <<>> /\ x.derivs = <<>>
Fresh(x) == OnlyMeta(x) /\ x.meta = "keep" /\ x.nmeta = 0 /\ x.tables = {}

IsDml(e) == e.op \in {"INSERT", "UPDATE"}
Kind(e) == CASE e.op = "INSERT" /\ e.t \in CaseTables -> "case"
             [] e.op = "INSERT" /\ e.t = "global_iterations" -> "global"
             [] e.op = "INSERT" /\ e.t = "driver_derivatives" -> "deriv"
             [] e.op = "INSERT" /\ e.t = "metadata" -> "stub"
             [] e.op = "UPDATE" /\ e.t = "metadata" -> "update"
             [] e.op = "INSERT" /\ e.t \in MetaRowTables -> "metarow"
             [] OTHER -> "unknown"

\* would SQLite execute the statement?  (x is the transaction the statement runs in: the open one, or a fresh
\* autocommit transaction)
Guard(e, d, x) ==
    CASE e.op = "CREATE" -> CanCreate(d, x, e.t)
      [] e.op = "BEGIN" -> CanBegin(x)
      [] e.op = "COMMIT" -> CanCommit(x)
      [] e.op = "ROLLBACK" -> CanRollback(x)
      [] Kind(e) = "case" -> CanInsertCase(d, x, e.t)
      [] Kind(e) = "global" -> e.rt \in CaseTables /\ CanInsertGlobal(d, x, e.rt) /\ Len(RowsOf(d, x, e.rt)) > 0
      [] Kind(e) = "deriv" -> CanInsertDeriv(d, x)
      [] Kind(e) = "stub" -> CanInsertMetaStub(d, x)
      [] Kind(e) = "update" -> CanUpdateMeta(d, x)
      [] Kind(e) = "metarow" -> CanInsertMetaRow(d, x, e.t)
      [] OTHER -> FALSE

Effect(e, d, x, id) ==
    CASE Kind(e) = "case" -> DoInsertCase(x, e.t, id)
      [] Kind(e) = "global" -> DoInsertGlobal(d, x, e.rt)
      [] Kind(e) = "deriv" -> DoInsertDeriv(x, 0)
      [] Kind(e) = "stub" -> DoInsertMetaStub(x)
      [] Kind(e) = "update" -> DoUpdateMeta(d, x)
      [] OTHER -> DoInsertMetaRow(x)

\* the transaction discipline of CaseDB: "ok" or the reason the next statement does not fit (x = txn as it is)
Flaw(e, d, x) ==
    CASE e.op = "CREATE" -> IF OnlyMeta(x) THEN "ok" ELSE "create-inside-a-case-transaction"
      [] e.op = "BEGIN" -> "ok"
      [] e.op = "COMMIT" -> IF Len(x.cases) # Len(x.glob) THEN "commit-between-case-row-and-global-row" ELSE "ok"
      [] e.op = "ROLLBACK" -> IF NoCaseRows(x) THEN "ok" ELSE "rollback-of-case-rows"
      [] Kind(e) = "case" ->
            IF ~x.open THEN "case-row-outside-transaction"
            ELSE IF ~Fresh(x) THEN "case-row-in-transaction-holding-other-records"
            ELSE "ok"
      [] Kind(e) = "global" ->
            IF ~x.open THEN "global-row-outside-transaction"
            ELSE IF ~(Len(x.cases) = 1 /\ x.glob = <<>>) THEN "global-row-not-after-its-case-row-in-the-same-transaction"
            ELSE IF x.cases[1][1] # e.rt THEN "global-row-names-another-table"
            ELSE "ok"
      [] Kind(e) = "deriv" -> IF x.open /\ Fresh(x) THEN "ok" ELSE "derivatives-row-not-in-its-own-transaction"
      [] Kind(e) \in {"stub", "metarow"} -> IF x.open /\ OnlyMeta(x) THEN "ok" ELSE "metadata-row-not-in-a-metadata-transaction"
      [] Kind(e) = "update" -> IF x.open /\ OnlyMeta(x) /\ MetaOf(d, x) # "none" THEN "ok"
                               ELSE "metadata-update-not-in-a-metadata-transaction"
      [] OTHER -> "unknown-statement"

Mark(x) == IF ~x.open THEN 0 ELSE IF Len(x.cases) > Len(x.glob) THEN 2 ELSE 1
Obs == [mark |-> Mark(txn), started |-> started, ncases |-> Len(durable.glob), nderivs |-> Len(durable.derivs),
        atomic |-> OneToOne(durable)]

Step ==
    /\ verdict = "ok"
    /\ l <= Len(Traces[tid].ev)
    /\ LET e == Ev
           auto == IsDml(e) /\ ~txn.open                 \* autocommit: the statement is a transaction of its own
           x0 == IF auto THEN DoBegin(txn) ELSE txn
       IN /\ hist' = Append(hist, Obs)
          /\ flaw' = IF flaw = "ok" THEN Flaw(e, durable, txn) ELSE flaw
          /\ flawAt' = IF flaw = "ok" /\ Flaw(e, durable, txn) # "ok" THEN l ELSE flawAt
          /\ IF ~Guard(e, durable, x0)
             THEN verdict' = "stuck-sqlite-would-raise" /\ UNCHANGED <<durable, txn, started, ncommit, nid>>
             ELSE /\ UNCHANGED verdict
                  /\ CASE e.op = "CREATE" -> /\ durable' = DoCreateD(durable, txn, e.t)
                                             /\ txn' = DoCreateX(durable, txn, e.t)
                                             /\ UNCHANGED <<started, ncommit, nid>>
                       [] e.op = "BEGIN" -> txn' = DoBegin(txn) /\ UNCHANGED <<durable, started, ncommit, nid>>
                       [] e.op = "COMMIT" -> /\ durable' = DoCommit(durable, txn)
                                             /\ txn' = NoTxn
                                             /\ started' = (started \/ durable'.meta = "full")
                                             /\ ncommit' = ncommit + Len(txn.glob)
                                             /\ UNCHANGED nid
                       [] e.op = "ROLLBACK" -> txn' = NoTxn /\ UNCHANGED <<durable, started, ncommit, nid>>
                       [] OTHER ->
                            LET x1 == Effect(e, durable, x0, nid + 1)
                            IN /\ nid' = IF Kind(e) = "case" THEN nid + 1 ELSE nid
                               /\ IF auto
                                  THEN /\ durable' = DoCommit(durable, x1)
                                       /\ txn' = NoTxn
                                       /\ started' = (started \/ durable'.meta = "full")
                                       /\ ncommit' = ncommit + Len(x1.glob)
                                  ELSE txn' = x1 /\ UNCHANGED <<durable, started, ncommit>>
    /\ l' = l + 1
    /\ UNCHANGED tid /\ Frozen

\* end of the stream: the verdict on the whole recording
Final ==
    /\ verdict = "ok"
    /\ l = Len(Traces[tid].ev) + 1
    /\ LET ref == Traces[tid].ref
           lst == ListCases(durable)
       IN verdict' = IF flaw # "ok" THEN flaw
                     ELSE IF txn.open THEN "transaction-left-open"
                     ELSE IF ~(CanOpen(durable) /\ CanList(durable)) THEN "file-would-not-open"
                     ELSE IF ~OneToOne(durable) THEN "case-rows-and-global-rows-not-one-to-one"
                     ELSE IF ~(Len(lst) = Len(ref) /\ \A i \in 1..Len(ref) : lst[i][1] = ref[i] /\ lst[i][2] = i)
                          THEN "case-order-differs-from-reader"
                     ELSE "accepted"
    /\ hist' = Append(hist, Obs)
    /\ l' = l + 1
    /\ UNCHANGED <<tid, flaw, flawAt, nid, durable, txn, started, ncommit>> /\ Frozen

TNext == Step \/ Final

Clean == verdict \in {"ok", "accepted"} /\ flaw = "ok"
\* invariants over every prefix of every stream that keeps the discipline
TraceAtomicity == Clean => OneToOne(durable)
\* once the first startup is complete the committed file always opens (the crash window's precondition)
TraceStartedOpens == Clean /\ started => CanOpen(durable) /\ CanList(durable)
\* the committed cases are always the first ncommit of the stream, in order
TraceCommitted == Clean /\ CanList(durable) =>
                     /\ Len(durable.glob) = ncommit
                     /\ \A i \in 1..Len(durable.glob) : ListCases(durable)[i][2] = i

Done == verdict # "ok"
Export == Done => PrintT(<<"EXP", ToJson([tid |-> tid, l |-> l, v |-> verdict, at |-> flawAt, hist |-> hist])>>)
=============================================================================
