----------------------------- MODULE OptionsMC -----------------------------
(* Exhaustive configuration + edge export for Options.tla (C27).            *)
EXTENDS Options, Json

D(kind, listed, lower, upper, allowNone, cvReject, default, alias) ==
    [kind |-> kind, listed |-> listed, lower |-> lower, upper |-> upper, allowNone |-> allowNone,
     cvReject |-> cvReject, default |-> default, alias |-> alias]

NB == 99
ScenA == [readOnly |-> FALSE, cand |-> {1, 2, 3, 4, 5, 6, 8},
          decl |-> [o1 |-> D("values", {4, 5}, NB, NB, FALSE, {}, 4, "none"),
                    o2 |-> D("types", {"int"}, 0, 5, FALSE, {}, 3, "none"),
                    o3 |-> D("any", {}, NB, NB, FALSE, {}, 0, "o1")]]
ScenB == [readOnly |-> FALSE, cand |-> {1, 3, 4, 6, 8, 9},
          decl |-> [o1 |-> D("types", {"bool"}, NB, NB, FALSE, {}, 9, "none"),
                    o2 |-> D("types", {"int", "str"}, NB, NB, TRUE, {}, 1, "none"),
                    o3 |-> D("types", {"str"}, NB, NB, FALSE, {}, 0, "none")]]
ScenC == [readOnly |-> FALSE, cand |-> {1, 2, 4, 5, 6, 7},
          decl |-> [o1 |-> D("any", {}, NB, NB, TRUE, {1, 5}, 3, "none"),
                    o2 |-> D("values", {6, 7}, NB, NB, TRUE, {}, 6, "none"),
                    o3 |-> D("any", {}, 0, NB, FALSE, {}, 4, "none")]]
ScenD == [ScenA EXCEPT !.readOnly = TRUE]
ScenE == [readOnly |-> FALSE, cand |-> {1, 2, 3, 4, 5, 9},
          decl |-> [o1 |-> D("types", {"int"}, NB, 1, FALSE, {2}, 3, "none"),
                    o2 |-> D("any", {}, NB, NB, FALSE, {}, 0, "o3"),
                    o3 |-> D("values", {3, 5, 1}, -1, NB, TRUE, {}, 1, "none")]]

AllScenarios == <<ScenA, ScenB, ScenC, ScenD, ScenE>>

ASSUME PrintT(<<"SCN", ToJson(AllScenarios)>>)
\* declared defaults are themselves valid (declare() validates them)
ASSUME \A i \in 1..Len(AllScenarios) : \A o \in DOMAIN AllScenarios[i].decl :
          LET d == AllScenarios[i].decl[o] IN d.default # Undef /\ d.alias = "none" => Valid(d, d.default)

Proj(v, c) == [vals |-> v, ctx |-> c]
Out(a) == PrintT(<<"EXP", ToJson([sc |-> sc, f |-> Proj(vals, ctx), a |-> a, t |-> Proj(vals', ctx'),
                                  r |-> last'])>>)

XNext ==
    \/ \E o \in Opts, v \in S.cand : Set(o, v) /\ Out([n |-> "Set", o |-> o, v |-> v])
    \/ \E o \in Opts : Get(o) /\ Out([n |-> "Get", o |-> o])
    \/ \E kw \in KwArgs : TempEnter(kw) /\ Out([n |-> "TempEnter", kw |-> kw])
    \/ \E how \in {"normal", "raise"} : TempExit(how) /\ Out([n |-> "TempExit", how |-> how])

ExportInit == TLCGet("level") = 1 => PrintT(<<"INI", ToJson([sc |-> sc, f |-> Proj(vals, ctx)])>>)

\* `last` only reports the previous action's outcome; it is not part of the dictionary's state
View == <<sc, vals, ctx>>
=============================================================================
