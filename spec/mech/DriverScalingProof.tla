------------------------ MODULE DriverScalingProof ------------------------
(***************************************************************************)
(* The inverse law of driver scaling, Unscale(Scale(x)) = x, stated        *)
(* without division so that it lives in the integers (every rational       *)
(* scenario of DriverScaling.tla is an integer one after multiplying with  *)
(* the common denominator):  scaler = sn / sd,                              *)
(*    y  is the scaled value   iff  y * sd = (x + a) * sn                  *)
(*    x2 is the unscaled value iff  x2 * sn = y * sd - a * sn              *)
(***************************************************************************)
EXTENDS Integers, Reals, TLAPS

IsScaled(y, x, a, sn, sd) == y * sd = (x + a) * sn
IsUnscaled(x2, y, a, sn, sd) == x2 * sn = y * sd - a * sn

LEMMA Cancel ==
    ASSUME NEW u \in Int, NEW v \in Int, NEW k \in Int, k # 0, u * k = v * k
    PROVE u = v
BY Z3T(120)

THEOREM InverseLeft ==
    ASSUME NEW x \in Int, NEW x2 \in Int, NEW a \in Int, NEW y \in Int, NEW sn \in Int, NEW sd \in Int,
           sn # 0, sd # 0, IsScaled(y, x, a, sn, sd), IsUnscaled(x2, y, a, sn, sd)
    PROVE x2 = x
<1>1. x2 * sn = (x + a) * sn - a * sn
  BY DEF IsScaled, IsUnscaled
<1>2. (x + a) * sn - a * sn = x * sn
  BY Z3T(120)
<1>3. x2 * sn = x * sn
  BY <1>1, <1>2
<1> QED BY <1>3, Cancel

THEOREM InverseRight ==
    ASSUME NEW x \in Int, NEW y \in Int, NEW y2 \in Int, NEW a \in Int, NEW sn \in Int, NEW sd \in Int,
           sn # 0, sd # 0, IsUnscaled(x, y, a, sn, sd), IsScaled(y2, x, a, sn, sd)
    PROVE y2 = y
<1>1. y2 * sd = (x + a) * sn
  BY DEF IsScaled
<1>2. (x + a) * sn = x * sn + a * sn
  BY Z3T(120)
<1>3. y2 * sd = y * sd
  BY <1>1, <1>2 DEF IsUnscaled
<1> QED BY <1>3, Cancel

(***************************************************************************)
(* The same law in its textbook form over the reals.  tlapm's back ends    *)
(* (Z3, Zenon, Isabelle) have no theory of real division: the obligations  *)
(* were attempted and not closed, so the proofs are left OMITTED.  The     *)
(* integer theorems above are the machine-checked content; the rational    *)
(* grid of DriverScaling.tla is checked exhaustively by TLC.               *)
(***************************************************************************)
Scale(x, a, s) == (x + a) * s
Unscale(y, a, s) == y / s - a

THEOREM RealInverseLeft ==
    ASSUME NEW x \in Real, NEW a \in Real, NEW s \in Real, s # 0
    PROVE Unscale(Scale(x, a, s), a, s) = x
OMITTED

THEOREM RealInverseRight ==
    ASSUME NEW y \in Real, NEW a \in Real, NEW s \in Real, s # 0
    PROVE Scale(Unscale(y, a, s), a, s) = y
OMITTED
=============================================================================
