--------------------------- MODULE DriverScaling ---------------------------
(***************************************************************************)
(* Driver scaling of one variable of interest (design variable, constraint *)
(* or objective) as an exact affine map over the rationals.  C20.          *)
(*                                                                         *)
(*   model value x  --units-->  u = f*x + o  --scaling-->  (u + a) * s     *)
(*                                                                         *)
(* (f, o) is the unit conversion model units -> declared driver units,     *)
(* (s, a) = (total_scaler, total_adder) comes either from scaler/adder or  *)
(* from ref/ref0 (a = -ref0, s = 1/(ref - ref0); missing ref = 1, missing  *)
(* ref0 = 0; missing scaler = 1, missing adder = 0).  Everything is        *)
(* per element: scaler/adder/ref/ref0 and bounds may be arrays.            *)
(* Bounds, ref and ref0 are given in driver units.                         *)
(* All numbers are exact rationals (Rat.tla).                              *)
(***************************************************************************)
EXTENDS Rat, Naturals, FiniteSets, TLC, Json

NoV == <<0, 0>>         \* "argument not given" / "no bound on this side" (NaN encoding, never used in arithmetic)

\* ------------------------------------------------------------------------------------------------
\* The map of one element of one variable of interest
\* ------------------------------------------------------------------------------------------------
\* unit conversion record [id, f, o]: driver-unit value = f * model value + o
ToUnits(u, x) == Add(Mul(u.f, x), u.o)
FromUnits(u, v) == Div(Sub(v, u.o), u.f)

\* (total_scaler, total_adder) of element i of a declaration d = [kind, p, q]
\*   kind "none": no scaling;  "sa": p = scaler, q = adder;  "ref": p = ref, q = ref0   (NoV = not given)
Dflt(v, d) == IF v = NoV THEN d ELSE v
TotalAdder(d, i) == CASE d.kind = "none" -> Zero
                      [] d.kind = "sa" -> Dflt(d.q[i], Zero)
                      [] d.kind = "ref" -> Neg(Dflt(d.q[i], Zero))
TotalScaler(d, i) == CASE d.kind = "none" -> One
                       [] d.kind = "sa" -> Dflt(d.p[i], One)
                       [] d.kind = "ref" -> Inv(Add(Dflt(d.p[i], One), TotalAdder(d, i)))

\* driver units -> optimizer space and back (what the autoscaler does)
ScaleU(d, i, v) == Mul(Add(v, TotalAdder(d, i)), TotalScaler(d, i))
UnscaleU(d, i, y) == Sub(Div(y, TotalScaler(d, i)), TotalAdder(d, i))

\* model units -> optimizer space and back (a variable of interest V = [kind, p, q, u])
Scale(V, i, x) == ScaleU(V, i, ToUnits(V.u, x))
Unscale(V, i, y) == FromUnits(V.u, UnscaleU(V, i, y))

\* the same map in the single-affine form  (x + A) * S
FullScaler(V, i) == Mul(V.u.f, TotalScaler(V, i))
FullAdder(V, i) == Div(Add(V.u.o, TotalAdder(V, i)), V.u.f)

\* image of a bound (given in driver units); "no bound" stays "no bound".  The implementation maps `lower` to the
\* image of lower and `upper` to the image of upper and does NOT swap them for a negative scaler: the optimizer then
\* sees lower > upper (the image of the feasible interval is [ScaleB(upper), ScaleB(lower)]).
ScaleB(d, i, b) == IF b = NoV THEN NoV ELSE ScaleU(d, i, b)

\* the bound PAIR an optimizer sees is the image of the interval [lo, up]: a negative scaler reverses the order, so the
\* image of the upper bound is the optimizer's lower bound and vice versa (absent stays absent on the other side)
NegSc(d, i) == RSgn(TotalScaler(d, i)) < 0
LoB(d, i, lo, up) == IF NegSc(d, i) THEN ScaleB(d, i, up) ELSE ScaleB(d, i, lo)
UpB(d, i, lo, up) == IF NegSc(d, i) THEN ScaleB(d, i, lo) ELSE ScaleB(d, i, up)

\* total derivative blocks: model block J[r][c] = d resp_r / d dv_c
UnitJ(J, Rsp, Dv) == [r \in DOMAIN J |-> [c \in DOMAIN J[r] |-> Div(Mul(J[r][c], Rsp.u.f), Dv.u.f)]]
ScaleJ(J, Rsp, Dv) == [r \in DOMAIN J |-> [c \in DOMAIN J[r] |->
                          Div(Mul(J[r][c], FullScaler(Rsp, r)), FullScaler(Dv, c))]]

\* Lagrange multipliers: optimizer space -> driver units (apply_mult_unscaling):  lam = lamS * scaler_g / scaler_f
MultUnscale(lamS, G, F) == [i \in DOMAIN lamS |-> Div(Mul(lamS[i], TotalScaler(G, i)), TotalScaler(F, 1))]

\* ------------------------------------------------------------------------------------------------
\* The grid of declarations
\* ------------------------------------------------------------------------------------------------
UnitSeq == << [id |-> "none", f |-> One, o |-> Zero],
              [id |-> "km_m", f |-> Q(1000, 1), o |-> Zero],
              [id |-> "degC_degK", f |-> One, o |-> Q(27315, 100)],
              [id |-> "degF_degC", f |-> Q(5, 9), o |-> Q(-160, 9)] >>
NoUnits == UnitSeq[1]

SVals == <<Q(1, 2), Q(-1, 2), Q(2, 1), Q(-2, 1), Q(3, 1)>>
AVals == <<Q(-1, 1), Zero, Q(2, 1)>>
SA(k) == <<SVals[((k - 1) \div 3) + 1], AVals[((k - 1) % 3) + 1]>>        \* k in 1..15
\* (ref, ref0); includes ref < ref0, negative ref, only one of the two given, and a pair whose scaler is exactly 1
RefSeq == << <<Q(3, 1), One>>, <<One, Q(3, 1)>>, <<Q(-2, 1), NoV>>, <<NoV, Q(-1, 1)>>,
             <<Q(1, 2), Q(-1, 2)>>, <<Q(4, 1), Q(2, 1)>> >>
Rot(k) == ((7 * k) % 15) + 1          \* a fixed-point free permutation of 1..15: the partner element of an array

D1(kind, pq) == [kind |-> kind, p |-> <<pq[1]>>, q |-> <<pq[2]>>]
D2(kind, pq1, pq2) == [kind |-> kind, p |-> <<pq1[1], pq2[1]>>, q |-> <<pq1[2], pq2[2]>>]
Decl1 == <<D1("none", <<NoV, NoV>>)>> \o [k \in 1..15 |-> D1("sa", SA(k))] \o [k \in 1..6 |-> D1("ref", RefSeq[k])]
\* two elements: every (scaler, adder) combination paired with a different one (array declaration), two uniform ones
\* (scalar declaration broadcast over the array), ref/ref0 arrays incl. a mixed-sign one
Decl2 == <<D2("none", <<NoV, NoV>>, <<NoV, NoV>>)>>
         \o [k \in 1..15 |-> D2("sa", SA(k), SA(Rot(k)))]
         \o <<D2("sa", SA(1), SA(1)), D2("sa", SA(12), SA(12))>>
         \* arrays in which ONE element has the neutral value (scaler exactly 1, adder exactly 0) and the other does not
         \o <<D2("sa", <<One, Zero>>, SA(7)), D2("sa", SA(4), <<One, Q(2, 1)>>), D2("sa", <<Q(2, 1), Zero>>, <<Q(2, 1), Q(-1, 1)>>),
              D2("sa", <<One, Q(-1, 1)>>, <<Q(3, 1), Zero>>)>>
         \o <<D2("ref", RefSeq[1], RefSeq[2]), D2("ref", RefSeq[2], RefSeq[6]), D2("ref", RefSeq[3], <<Q(3, 1), NoV>>),
              D2("ref", RefSeq[4], <<NoV, Q(2, 1)>>), D2("ref", RefSeq[5], RefSeq[1]), D2("ref", RefSeq[6], RefSeq[6])>>
Decl(n) == IF n = 1 THEN Decl1 ELSE Decl2
NVoi(n) == Len(Decl(n)) * Len(UnitSeq)
Voi(n, k) == LET d == Decl(n)[((k - 1) \div 4) + 1]
             IN [kind |-> d.kind, p |-> d.p, q |-> d.q, u |-> UnitSeq[((k - 1) % 4) + 1]]

\* objectives (one element)
ObjSeq == << [kind |-> "none", p |-> <<NoV>>, q |-> <<NoV>>, u |-> UnitSeq[1]],
             [kind |-> "sa", p |-> <<Q(2, 1)>>, q |-> <<NoV>>, u |-> UnitSeq[1]],
             [kind |-> "sa", p |-> <<Q(-1, 2)>>, q |-> <<Q(2, 1)>>, u |-> UnitSeq[4]],
             [kind |-> "ref", p |-> <<Q(3, 1)>>, q |-> <<One>>, u |-> UnitSeq[3]],
             [kind |-> "sa", p |-> <<Q(3, 1)>>, q |-> <<Q(-1, 1)>>, u |-> UnitSeq[2]],
             [kind |-> "ref", p |-> <<One>>, q |-> <<Q(3, 1)>>, u |-> UnitSeq[1]],
             [kind |-> "none", p |-> <<NoV>>, q |-> <<NoV>>, u |-> UnitSeq[4]] >>

\* bounds in driver units, per element
B(lo, up) == [lo |-> lo, up |-> up, eq |-> [i \in DOMAIN lo |-> NoV]]
E(eq) == [lo |-> [i \in DOMAIN eq |-> NoV], up |-> [i \in DOMAIN eq |-> NoV], eq |-> eq]
DvB(n) == IF n = 1
          THEN << B(<<NoV>>, <<NoV>>), B(<<R(-3)>>, <<NoV>>), B(<<NoV>>, <<R(4)>>), B(<<R(-3)>>, <<R(4)>>) >>
          ELSE << B(<<R(-3), R(-3)>>, <<R(4), R(4)>>), B(<<R(-3), NoV>>, <<R(4), R(5)>>), B(<<NoV, NoV>>, <<NoV, NoV>>),
                  B(<<NoV, R(-1)>>, <<R(4), NoV>>), B(<<R(-3), R(-1)>>, <<NoV, NoV>>) >>
ConB(n) == IF n = 1
           THEN << E(<<R(2)>>), B(<<R(-3)>>, <<NoV>>), B(<<NoV>>, <<R(4)>>), B(<<R(-3)>>, <<R(4)>>) >>
           ELSE << E(<<R(2), R(2)>>), E(<<R(2), R(7)>>), B(<<R(-3), R(-3)>>, <<R(4), R(4)>>),
                   B(<<R(-3), NoV>>, <<NoV, R(5)>>), B(<<R(-3), R(-1)>>, <<NoV, NoV>>) >>

\* the model: y_i = a_i * x_i + w_i * x_j + b_i (constraint; j the other element, w = 0 for one element),
\* f = p * (x_1 + .. + x_n) + c (objective); integer coefficients, the 2 x 2 blocks are full and nonsingular
ModelSeq == << [a |-> <<R(2), R(-3)>>, w |-> <<R(1), R(2)>>, b |-> <<R(1), R(4)>>, p |-> R(5), c |-> R(-1)],
               [a |-> <<R(-1), R(4)>>, w |-> <<R(3), R(1)>>, b |-> <<Zero, R(-2)>>, p |-> R(-2), c |-> R(3)] >>
XSeq == << <<R(3), R(-2)>>, <<Q(1, 2), Zero>>, <<R(-4), R(7)>> >>      \* model values of the design variable
YSeq == << <<One, R(-2)>>, <<Q(3, 2), Zero>> >>                        \* optimizer-space values handed to the driver
Pre(s, n) == [i \in 1..n |-> s[i]]

Mk(n, idv, icon) ==
    LET md == ModelSeq[((idv + icon) % 2) + 1]
    IN [n |-> n, idv |-> idv, icon |-> icon,
        dv |-> Voi(n, idv), con |-> Voi(n, icon), obj |-> ObjSeq[((idv + icon) % 7) + 1],
        dvb |-> DvB(n)[((idv + icon) % Len(DvB(n))) + 1], conb |-> ConB(n)[((2 * idv + icon) % Len(ConB(n))) + 1],
        a |-> Pre(md.a, n), w |-> (IF n = 1 THEN <<Zero>> ELSE md.w), b |-> Pre(md.b, n), p |-> md.p, c |-> md.c,
        x |-> Pre(XSeq[((idv + 2 * icon) % 3) + 1], n), yset |-> Pre(YSeq[((idv + icon) % 2) + 1], n)]

\* ------------------------------------------------------------------------------------------------
\* What the driver must report for a scenario
\* ------------------------------------------------------------------------------------------------
ConVal(s, x) == [i \in 1..s.n |-> Add(Add(Mul(s.a[i], x[i]), Mul(s.w[i], x[s.n + 1 - i])), s.b[i])]
ObjVal(s, x) == <<Add(Mul(s.p, SumSeq(x)), s.c)>>
Jcon(s) == [r \in 1..s.n |-> [c \in 1..s.n |-> IF r = c THEN s.a[r] ELSE s.w[r]]]
Jobj(s) == << [c \in 1..s.n |-> (s.p)] >>
Strip(V) == [V EXCEPT !.kind = "none"]          \* same units, no scaling

\* multipliers of the problem  min f  s.t. y = const (all constraint elements active):  Jf^T + Jg^T lam = 0, solved by
\* elimination for one or two elements (law Stationary checks the solution);  alternatively all design variables on a
\* bound:  mu_c = -Jf[c]
Lam(Jf, Jg) == IF Len(Jg) = 1 THEN <<Neg(Div(Jf[1][1], Jg[1][1]))>>
               ELSE \* elimination with ratios first (Cramer's products overflow TLC's 32-bit integers); Jg[1][1] # 0
                    LET q == Div(Jg[1][2], Jg[1][1])
                        l2 == Div(Sub(Mul(Jf[1][1], q), Jf[1][2]), Sub(Jg[2][2], Mul(Jg[2][1], q)))
                        l1 == Neg(Div(Add(Jf[1][1], Mul(Jg[2][1], l2)), Jg[1][1]))
                    IN <<l1, l2>>
Mu(Jf) == [c \in DOMAIN Jf[1] |-> Neg(Jf[1][c])]

Expect(s) ==
    LET y == ConVal(s, s.x)
        f == ObjVal(s, s.x)
        JcS == ScaleJ(Jcon(s), s.con, s.dv)
        JoS == ScaleJ(Jobj(s), s.obj, s.dv)
        lamS == Lam(JoS, JcS)
        muS == Mu(JoS)
    IN [dvU |-> [i \in 1..s.n |-> ToUnits(s.dv.u, s.x[i])], dvS |-> [i \in 1..s.n |-> Scale(s.dv, i, s.x[i])],
        conU |-> [i \in 1..s.n |-> ToUnits(s.con.u, y[i])], conS |-> [i \in 1..s.n |-> Scale(s.con, i, y[i])],
        objU |-> <<ToUnits(s.obj.u, f[1])>>, objS |-> <<Scale(s.obj, 1, f[1])>>,
        dvLo |-> [i \in 1..s.n |-> LoB(s.dv, i, s.dvb.lo[i], s.dvb.up[i])],
        dvUp |-> [i \in 1..s.n |-> UpB(s.dv, i, s.dvb.lo[i], s.dvb.up[i])],
        conLo |-> [i \in 1..s.n |-> LoB(s.con, i, s.conb.lo[i], s.conb.up[i])],
        conUp |-> [i \in 1..s.n |-> UpB(s.con, i, s.conb.lo[i], s.conb.up[i])],
        conEq |-> [i \in 1..s.n |-> ScaleB(s.con, i, s.conb.eq[i])],
        JcU |-> UnitJ(Jcon(s), s.con, s.dv), JoU |-> UnitJ(Jobj(s), s.obj, s.dv), JcS |-> JcS, JoS |-> JoS,
        xset |-> [i \in 1..s.n |-> Unscale(s.dv, i, s.yset[i])],
        lamS |-> lamS, lam |-> MultUnscale(lamS, s.con, s.obj),
        muS |-> muS, mu |-> MultUnscale(muS, s.dv, s.obj)]

\* ------------------------------------------------------------------------------------------------
\* Scenario enumeration: the initial states fix n, step Pick the design variable, step Choose the constraint; objective,
\* bounds, model coefficients and evaluation point rotate with the two indices.  With Stride = k only every k-th
\* constraint is taken, shifted by the design variable's declaration index: with Stride = 4 (the number of unit maps)
\* every pair of declarations and every pair of unit maps still occurs, with Stride = 8 every second pair of declarations.
\* ------------------------------------------------------------------------------------------------
CONSTANTS MaxN,         \* largest number of elements (1 or 2)
          Stride        \* 1: every (design variable, constraint) pair; k: every k-th constraint, rotating
VARIABLES stage, scen, out
vars == <<stage, scen, out>>
Init == stage = 0 /\ out = <<>> /\ \E n \in 1..MaxN : \E g \in 0..7 : scen = [n |-> n, g |-> g]   \* g: work sharing only
Pick == /\ stage = 0 /\ stage' = 1 /\ out' = out
        /\ \E idv \in 1..NVoi(scen.n) : idv % 8 = scen.g /\ scen' = [n |-> scen.n, idv |-> idv]
Choose == /\ stage = 1 /\ stage' = 2
          /\ \E icon \in 1..NVoi(scen.n) :
                /\ (icon + ((scen.idv - 1) \div Len(UnitSeq))) % Stride = 0
                /\ scen' = Mk(scen.n, scen.idv, icon)
          /\ out' = Expect(scen')
Next == Pick \/ Choose

\* ------------------------------------------------------------------------------------------------
\* Laws (checked on every scenario)
\* ------------------------------------------------------------------------------------------------
\* Per-declaration laws are checked once for every declaration of the grid: every declaration occurs as the design
\* variable of a stage-1 state (the objective declarations ride along with the first ones); the scenario laws are
\* checked on every scenario (stage 2).
Grid == {Q(-7, 2), R(-2), Zero, Q(1, 3), One, R(5)}
Vois0 == {<<Voi(scen.n, scen.idv), scen.n>>} \cup {<<ObjSeq[k], 1>> : k \in {scen.idv} \cap (1..Len(ObjSeq))}

\* the map is invertible, both ways, and equals the single-affine form
InverseLaw == stage = 1 => \A W \in Vois0 : \A i \in 1..W[2] : \A x \in Grid :
                 /\ Unscale(W[1], i, Scale(W[1], i, x)) = x
                 /\ Scale(W[1], i, Unscale(W[1], i, x)) = x
                 /\ UnscaleU(W[1], i, ScaleU(W[1], i, x)) = x
                 /\ ScaleU(W[1], i, UnscaleU(W[1], i, x)) = x
                 /\ Scale(W[1], i, x) = Mul(Add(x, FullAdder(W[1], i)), FullScaler(W[1], i))
\* scalers are never zero, adders/scalers from ref/ref0 send ref to 1 and ref0 to 0
RefLaw == stage = 1 => \A W \in Vois0 : \A i \in 1..W[2] :
             /\ TotalScaler(W[1], i) # Zero
             /\ W[1].kind = "ref" => /\ ScaleU(W[1], i, Dflt(W[1].p[i], One)) = One
                                     /\ ScaleU(W[1], i, Dflt(W[1].q[i], Zero)) = Zero
             /\ W[1].kind = "none" => \A x \in Grid : ScaleU(W[1], i, x) = x
\* bounds: absent stays absent; a present bound is the image of the model value it bounds; the images are ordered by a
\* positive scaler and reversed by a negative one, so the pair handed to the optimizer (LoB, UpB) is exchanged there
BoundLaw1(V, i, lo, up) ==
    /\ ScaleB(V, i, NoV) = NoV
    /\ lo # NoV => ScaleB(V, i, lo) = Scale(V, i, FromUnits(V.u, lo))
    /\ up # NoV => ScaleB(V, i, up) = Scale(V, i, FromUnits(V.u, up))
    /\ (lo # NoV /\ up # NoV /\ Lt(lo, up)) => Lt(LoB(V, i, lo, up), UpB(V, i, lo, up))
    \* one-sided: x >= lo iff image(x) on the right side of the single image
    /\ (lo # NoV /\ up = NoV) => \A x \in Grid :
          Le(lo, x) <=> (IF NegSc(V, i) THEN Le(ScaleU(V, i, x), UpB(V, i, lo, up)) ELSE Le(LoB(V, i, lo, up), ScaleU(V, i, x)))
    \* a value is inside [lo, up] iff its image is between the images
    /\ (lo # NoV /\ up # NoV) => \A x \in Grid :
          (Le(lo, x) /\ Le(x, up)) <=>
             (Le(RMin(ScaleB(V, i, lo), ScaleB(V, i, up)), ScaleU(V, i, x))
              /\ Le(ScaleU(V, i, x), RMax(ScaleB(V, i, lo), ScaleB(V, i, up))))
BoundLaw == /\ stage = 1 => LET V == Voi(scen.n, scen.idv)
                                BS == DvB(scen.n) \o ConB(scen.n)
                            IN \A k \in 1..Len(BS) : \A i \in 1..scen.n : BoundLaw1(V, i, BS[k].lo[i], BS[k].up[i])
            /\ stage = 2 => \A i \in 1..scen.n : /\ (scen.conb.eq[i] = NoV) = (out.conEq[i] = NoV)
                                                  /\ ((IF NegSc(scen.con, i) THEN scen.conb.up[i] ELSE scen.conb.lo[i]) = NoV)
                                                        = (out.conLo[i] = NoV)
                                                  /\ ((IF NegSc(scen.dv, i) THEN scen.dvb.lo[i] ELSE scen.dvb.up[i]) = NoV)
                                                        = (out.dvUp[i] = NoV)

\* composition law: the optimizer sees h = Scale_resp o model o Unscale_dv.  h is affine, so its derivative with respect
\* to optimizer variable c is the exact difference h(y0 + e_c) - h(y0); it must equal ScaleJ of the model block.
Step(y0, c) == [k \in DOMAIN y0 |-> IF k = c THEN Add(y0[k], One) ELSE y0[k]]
Hcon(s, yd) == LET x == [k \in 1..s.n |-> Unscale(s.dv, k, yd[k])]
                   y == ConVal(s, x)
               IN [r \in 1..s.n |-> Scale(s.con, r, y[r])]
Hobj(s, yd) == LET x == [k \in 1..s.n |-> Unscale(s.dv, k, yd[k])]
               IN <<Scale(s.obj, 1, ObjVal(s, x)[1])>>
JLaw_(s) == \A c \in 1..s.n :
               /\ \A r \in 1..s.n : Sub(Hcon(s, Step(s.yset, c))[r], Hcon(s, s.yset)[r]) = out.JcS[r][c]
               /\ Sub(Hobj(s, Step(s.yset, c))[1], Hobj(s, s.yset)[1]) = out.JoS[1][c]
               \* unit-only blocks are the scaled blocks of the declarations with the scaling stripped
               /\ ScaleJ(Jcon(s), Strip(s.con), Strip(s.dv)) = out.JcU
               /\ ScaleJ(Jobj(s), Strip(s.obj), Strip(s.dv)) = out.JoU
JLaw == stage = 2 => JLaw_(scen)
\* values: scaling of the driver-unit value, unscaling gives back the model value; set round trip
ValueLaw_(s) == /\ \A i \in 1..s.n : Unscale(s.dv, i, out.dvS[i]) = s.x[i] /\ ScaleU(s.dv, i, out.dvU[i]) = out.dvS[i]
                /\ \A i \in 1..s.n : Scale(s.dv, i, out.xset[i]) = s.yset[i]
                /\ \A i \in 1..s.n : Unscale(s.con, i, out.conS[i]) = ConVal(s, s.x)[i]
                /\ Unscale(s.obj, 1, out.objS[1]) = ObjVal(s, s.x)[1]
ValueLaw == stage = 2 => ValueLaw_(scen)
\* multipliers brought back to driver units do not depend on the scaling: they equal the multipliers of the same
\* problem with every scaler/adder/ref/ref0 removed (units kept)
Stationary(Jf, Jg, lam) == \A c \in DOMAIN Jf[1] : Add(Jf[1][c], SumSeq([r \in DOMAIN Jg |-> Mul(Jg[r][c], lam[r])])) = Zero
MultLaw_(s) == LET JcU == out.JcU
                   JoU == out.JoU
               IN /\ Stationary(out.JoS, out.JcS, out.lamS) /\ Stationary(JoU, JcU, out.lam)
                  /\ out.lam = Lam(JoU, JcU)
                  /\ out.mu = Mu(JoU)
MultLaw == stage = 2 => MultLaw_(scen)

Export == stage = 2 => PrintT(<<"EXP", ToJson([s |-> scen, v |-> out])>>)
=============================================================================
