----------------------------- MODULE InterpHist -----------------------------
(***************************************************************************)
(* Histories of queries on ONE interpolant object (InterpND), C15 / C16.   *)
(*                                                                         *)
(* Interp.tla says what a query must return as a function of the query     *)
(* alone (value f(x), gradient grad f(x)).  The object, however, keeps     *)
(* state between queries: the last evaluation point, the gradient computed *)
(* there, bracket indices and coefficient caches.  This module is the      *)
(* reference model of that object: it enumerates every sequence of HLen    *)
(* queries over a small alphabet of arguments and states the law the       *)
(* caches have to respect:                                                 *)
(*                                                                         *)
(*    every query returns the quantities OF ITS OWN ARGUMENT, whatever was *)
(*    asked before  (ReturnsRequested).                                    *)
(*                                                                         *)
(* Arguments are sequences of point ids: <<"A">> a single point, <<"A",    *)
(* "B">> a batch.  "A" is the scenario's query point, "B" a second point   *)
(* of the same scenario (Interp.tla exports the exact value and gradient   *)
(* of both), "An" is A moved by a tiny amount (2^-20 along the first       *)
(* axis; same cell): it is Close to A - within any sensible floating point *)
(* tolerance - but it is a different point.                                *)
(*                                                                         *)
(* Queries:  val(arg)   interpolate(x)                                     *)
(*           valD(arg)  interpolate(x, compute_derivative=True)            *)
(*           grad(arg)  gradient(x): may answer from the cache             *)
(*                                                                         *)
(* The cache holds the last evaluation argument `pt`, whether the gradient *)
(* was computed in that evaluation (`d`) and the argument `g` the stored   *)
(* gradient belongs to (an evaluation without derivative leaves the old    *)
(* array in place).  `ret` is what the last query handed back, as the      *)
(* identity of the arguments the returned value / gradient belong to.      *)
(*                                                                         *)
(* Discipline = "exact_and_flag" is the reference (reuse only for the      *)
(* identical argument AND a gradient that was computed with it).  The two  *)
(* other disciplines are refuted by TLC (the driver runs them and demands  *)
(* the counterexample): "point" reuses on the identical argument alone,    *)
(* "close" reuses on a numerically close argument.                         *)
(***************************************************************************)
EXTENDS Naturals, Sequences, FiniteSets, TLC, Json

CONSTANTS Ops,          \* subset of {"val", "valD", "grad"}
          WithNear,     \* BOOLEAN: the argument <<"An">> is part of the alphabet
          HLen,         \* number of queries in a history
          Discipline    \* "exact_and_flag" | "point" | "close"

None == <<>>
\* the alphabet of arguments: both single points, the nudged point, both batches
Args == {<<"A">>, <<"B">>, <<"A", "B">>, <<"B", "A">>} \cup (IF WithNear THEN {<<"An">>} ELSE {})
Base(p) == IF p = "An" THEN "A" ELSE p
\* numerically close arguments: same shape, every point close to its counterpart
Close(a, b) == Len(a) = Len(b) /\ \A i \in 1..Len(a) : Base(a[i]) = Base(b[i])

VARIABLES hist, cache, ret
vars == <<hist, cache, ret>>

Init == /\ hist = <<>>
        /\ cache = [pt |-> None, d |-> FALSE, g |-> None]
        /\ ret = [v |-> None, g |-> None]

Hit(arg) == CASE Discipline = "exact_and_flag" -> cache.pt = arg /\ cache.d
              [] Discipline = "point" -> cache.pt = arg
              [] Discipline = "close" -> cache.pt # None /\ cache.d /\ Close(cache.pt, arg)

Evaluate(arg, withD) == cache' = [pt |-> arg, d |-> withD, g |-> IF withD THEN arg ELSE cache.g]

Call(op, arg) ==
    /\ Len(hist) < HLen
    /\ hist' = Append(hist, [op |-> op, arg |-> arg])
    /\ CASE op = "val"  -> Evaluate(arg, FALSE) /\ ret' = [v |-> arg, g |-> None]
         [] op = "valD" -> Evaluate(arg, TRUE) /\ ret' = [v |-> arg, g |-> arg]
         [] op = "grad" -> IF Hit(arg)
                           THEN UNCHANGED cache /\ ret' = [v |-> None, g |-> cache.g]
                           ELSE Evaluate(arg, TRUE) /\ ret' = [v |-> None, g |-> arg]

Next == \E op \in Ops, arg \in Args : Call(op, arg)

\* --- laws ------------------------------------------------------------------------------------------
TypeOk == /\ \A i \in 1..Len(hist) : hist[i].op \in Ops /\ hist[i].arg \in Args
          /\ cache.pt \in Args \cup {None} /\ cache.g \in Args \cup {None}
\* the stored gradient belongs to the stored evaluation argument whenever the flag says so
CacheSound == cache.d => (cache.g = cache.pt /\ cache.pt # None)
\* every query returns the quantities of its own argument
ReturnsRequested ==
    hist # <<>> =>
        LET c == hist[Len(hist)]
        IN /\ (c.op \in {"val", "valD"} => ret.v = c.arg)
           /\ (c.op \in {"valD", "grad"} => ret.g = c.arg)
           /\ (c.op = "val" => ret.g = None) /\ (c.op = "grad" => ret.v = None)

Export == Len(hist) = HLen => PrintT(<<"HIST", ToJson(hist)>>)
=============================================================================
