------------------------------- MODULE Units -------------------------------
(***************************************************************************)
(* Physical units as OpenMDAO's openmdao/utils/units.py defines them. C06. *)
(*                                                                         *)
(* A unit is a record [pow, fac, off]:                                     *)
(*   pow  vector of integers over the NDim base dimensions,                *)
(*   fac  SYMBOLIC factor to base units: an element of the free abelian    *)
(*        group over "factor atoms" (the primitive numeric factors of the  *)
(*        library, pi, the SI/IEC prefixes), written as a sparse function  *)
(*        atom -> non-zero integer exponent.  Keeping the factor symbolic  *)
(*        makes every law below exact; no float ever enters TLC,           *)
(*   off  "none", or an offset atom (degC, degF style units: value in base *)
(*        units = (x + off) * fac), or "error" (the refused unit ErrU).    *)
(*                                                                         *)
(* A conversion A -> B is the affine map x |-> (x + D) * S with S a        *)
(* symbolic factor and D a formal integer combination of terms             *)
(* (offset atom * symbolic factor).                                        *)
(*                                                                         *)
(* The module has two parts: the operators (used by UnitsJudge.tla on the  *)
(* shipped library) and a scenario enumeration over an abstract universe   *)
(* on which TLC checks the algebraic laws exhaustively.                    *)
(***************************************************************************)
EXTENDS Integers, Sequences, FiniteSets, TLC

CONSTANTS NDim          \* number of base dimensions (13 in the shipped library, 3 in the abstract universe)

\* ------------------------------------------------------------------------------------------------
\* sparse integer-valued functions (zero entries are never stored, so equality is group equality)
\* ------------------------------------------------------------------------------------------------
SEmpty == [a \in {} |-> 0]
SGet(f, a) == IF a \in DOMAIN f THEN f[a] ELSE 0
SOne(a) == [x \in {a} |-> 1]
SAdd(f, g) == LET D == DOMAIN f \cup DOMAIN g
                  s == [a \in D |-> SGet(f, a) + SGet(g, a)]
              IN [a \in {x \in D : s[x] # 0} |-> s[a]]
SScale(f, n) == [a \in {x \in DOMAIN f : n # 0} |-> n * f[a]]
SNeg(f) == SScale(f, -1)
SSub(f, g) == SAdd(f, SNeg(g))

\* symbolic factors: multiplicative notation for the same thing
FOne == SEmpty
FAtom(a) == SOne(a)
FMul(f, g) == SAdd(f, g)
FInv(f) == SNeg(f)
FDiv(f, g) == SSub(f, g)
FPow(f, n) == SScale(f, n)

\* power vectors
PZero == [i \in 1..NDim |-> 0]
PAdd(p, q) == [i \in 1..NDim |-> p[i] + q[i]]
PSub(p, q) == [i \in 1..NDim |-> p[i] - q[i]]
PScale(p, n) == [i \in 1..NDim |-> n * p[i]]

\* ------------------------------------------------------------------------------------------------
\* units
\* ------------------------------------------------------------------------------------------------
NoOff == "none"
ErrU == [pow |-> PZero, fac |-> FOne, off |-> "error"]       \* the library refuses (raises)
IsErr(u) == u.off = "error"
HasOff(u) == u.off # NoOff                                    \* offset unit (or already an error)

Base(i) == [pow |-> [j \in 1..NDim |-> IF j = i THEN 1 ELSE 0], fac |-> FOne, off |-> NoOff]
Scalar(f) == [pow |-> PZero, fac |-> f, off |-> NoOff]        \* a bare number inside a unit expression
UOne == Scalar(FOne)

\* PhysicalUnit.__mul__/__div__/__pow__: units with an offset refuse all three
Mul(a, b) == IF HasOff(a) \/ HasOff(b) THEN ErrU
             ELSE [pow |-> PAdd(a.pow, b.pow), fac |-> FMul(a.fac, b.fac), off |-> NoOff]
Div(a, b) == IF HasOff(a) \/ HasOff(b) THEN ErrU
             ELSE [pow |-> PSub(a.pow, b.pow), fac |-> FDiv(a.fac, b.fac), off |-> NoOff]
PowInt(a, n) == IF HasOff(a) THEN ErrU
                ELSE [pow |-> PScale(a.pow, n), fac |-> FPow(a.fac, n), off |-> NoOff]
\* _find_unit: prefix p in front of a unit of the table is  prefixes[p] * unit
Prefix(p, u) == Mul(Scalar(FAtom(p)), u)
\* add_offset_unit(name, base, factor, offset)
OffsetUnit(base, f, o) == IF HasOff(base) THEN ErrU
                          ELSE [pow |-> base.pow, fac |-> FMul(base.fac, f), off |-> o]

\* ------------------------------------------------------------------------------------------------
\* expression trees (what Python's eval accepts in _find_unit: * / **int and parentheses)
\*   leaf      [op |-> "u", p |-> "" or prefix atom, name |-> name in the table T]
\*   number    [op |-> "n", p |-> "", name |-> atom]   ("1" is the neutral number)
\*   [op |-> "mul"/"div", l, r]      [op |-> "pow", l, n]
\* ------------------------------------------------------------------------------------------------
IsLeaf(e) == e.op \in {"u", "n"}
LeafUnit(T, e) ==
    IF e.op = "n" THEN Scalar(IF e.name = "1" THEN FOne ELSE FAtom(e.name))
    ELSE IF e.name \notin DOMAIN T THEN ErrU
    ELSE IF e.p = "" THEN T[e.name] ELSE Prefix(e.p, T[e.name])

RECURSIVE Eval(_, _)
Eval(T, e) == CASE IsLeaf(e) -> LeafUnit(T, e)
                [] e.op = "mul" -> Mul(Eval(T, e.l), Eval(T, e.r))
                [] e.op = "div" -> Div(Eval(T, e.l), Eval(T, e.r))
                [] e.op = "pow" -> PowInt(Eval(T, e.l), e.n)

\* net exponent of every leaf (this is PhysicalUnit._names, the NumberDict)
RECURSIVE NamesOf(_)
NamesOf(e) == CASE IsLeaf(e) -> SOne(e)
                [] e.op = "mul" -> SAdd(NamesOf(e.l), NamesOf(e.r))
                [] e.op = "div" -> SSub(NamesOf(e.l), NamesOf(e.r))
                [] e.op = "pow" -> SScale(NamesOf(e.l), e.n)

\* simplify_unit: PhysicalUnit.name() of the merged names: positive powers multiplied, negative ones divided,
\* "1" when there is no numerator, "**k" only for |k| > 1
OneLeaf == [op |-> "n", p |-> "", name |-> "1"]
Term(x, k) == IF k = 1 THEN x ELSE [op |-> "pow", l |-> x, n |-> k]
RECURSIVE MulAll(_, _)
MulAll(S, N) == IF S = {} THEN OneLeaf
                ELSE LET x == CHOOSE y \in S : TRUE
                     IN IF S = {x} THEN Term(x, N[x])
                        ELSE [op |-> "mul", l |-> MulAll(S \ {x}, N), r |-> Term(x, N[x])]
RECURSIVE DivAll(_, _, _)
DivAll(acc, S, N) == IF S = {} THEN acc
                     ELSE LET x == CHOOSE y \in S : TRUE
                          IN DivAll([op |-> "div", l |-> acc, r |-> Term(x, -N[x])], S \ {x}, N)
Simplify(e) == LET N == NamesOf(e)
               IN DivAll(MulAll({x \in DOMAIN N : N[x] > 0}, N), {x \in DOMAIN N : N[x] < 0}, N)

\* the factor / dimension "implied by the parts": product of the leaves' values to their net exponents
RECURSIVE FProd(_, _, _)
FProd(T, S, N) == IF S = {} THEN FOne
                  ELSE LET x == CHOOSE y \in S : TRUE
                       IN FMul(FPow(LeafUnit(T, x).fac, N[x]), FProd(T, S \ {x}, N))
RECURSIVE PSum(_, _, _)
PSum(T, S, N) == IF S = {} THEN PZero
                 ELSE LET x == CHOOSE y \in S : TRUE
                      IN PAdd(PScale(LeafUnit(T, x).pow, N[x]), PSum(T, S \ {x}, N))

\* ------------------------------------------------------------------------------------------------
\* conversion
\* ------------------------------------------------------------------------------------------------
Compatible(a, b) == ~IsErr(a) /\ ~IsErr(b) /\ a.pow = b.pow

\* offset combinations: sparse function <<offset atom, symbolic factor>> -> integer coefficient
OZero == SEmpty
OAtom(o) == IF o = NoOff THEN OZero ELSE SOne(<<o, FOne>>)
OTimes(D, m) == [t \in {<<s[1], FMul(s[2], m)>> : s \in DOMAIN D} |-> D[<<t[1], FDiv(t[2], m)>>]]

\* PhysicalUnit.conversion_tuple_to:  factor = fA / fB ;  offset = oA - oB * fB / fA ;  TypeError when powers differ
ConvErr == [ok |-> FALSE, fac |-> FOne, off |-> OZero]
ConvTuple(A, B) == IF ~Compatible(A, B) THEN ConvErr
                   ELSE [ok |-> TRUE, fac |-> FDiv(A.fac, B.fac),
                         off |-> SSub(OAtom(A.off), OTimes(OAtom(B.off), FDiv(B.fac, A.fac)))]
\* convert_units(x) = (x + off) * fac.  c1 first, then c2:  ((x + D1) S1 + D2) S2 = (x + D1 + D2 / S1) S1 S2
ConvId == [ok |-> TRUE, fac |-> FOne, off |-> OZero]
Compose(c1, c2) == IF ~c1.ok \/ ~c2.ok THEN ConvErr
                   ELSE [ok |-> TRUE, fac |-> FMul(c1.fac, c2.fac), off |-> SAdd(c1.off, OTimes(c2.off, FInv(c1.fac)))]

\* ================================================================================================
\* The abstract universe: scenario enumeration (two stages so that TLC's workers share the work)
\* ================================================================================================
CONSTANTS Atoms,        \* factor atoms of the abstract universe (4)
          Atoms2,       \* the atoms used by pairs (subset of Atoms)
          Atoms3,       \* the atoms used by triples (subset of Atoms)
          PB2, PB3,     \* exponent bound b (range -b..b) of power vectors for pairs / triples
          EB1, EB2, EB3,\* exponent bound of factors for single units / pairs / triples
          Offs,         \* offsets, NoOff included
          EFull         \* BOOLEAN: the larger leaf alphabet for expression trees
VARIABLES stage, scen, out
vars == <<stage, scen, out>>
PR2 == (-PB2)..PB2
PR3 == (-PB3)..PB3
ER1 == (-EB1)..EB1
ER2 == (-EB2)..EB2
ER3 == (-EB3)..EB3

\* all factors over a set of atoms with exponents in a range (sparse form)
Facs(At, R) == {[a \in {x \in At : g[x] # 0} |-> g[a]] : g \in [At -> R]}
Pows(R) == [1..NDim -> R]
U(p, f, o) == [pow |-> p, fac |-> f, off |-> o]
AnAtom == CHOOSE a \in Atoms : TRUE
OtherAtom == CHOOSE a \in Atoms : a # AnAtom
P1 == [j \in 1..NDim |-> IF j = 1 THEN 1 ELSE 0]
P2 == [j \in 1..NDim |-> IF j = 1 THEN 1 ELSE IF j = 2 THEN -2 ELSE 0]

\* expression trees over the leaf alphabet of the abstract table
Lf(n) == [op |-> "u", p |-> "", name |-> n]
LeafAlphabet == {Lf("x"), Lf("y"), Lf("z"), [op |-> "u", p |-> "k", name |-> "x"], [op |-> "n", p |-> "", name |-> "two"]}
                   \cup (IF EFull THEN {[op |-> "u", p |-> "k", name |-> "z"], OneLeaf} ELSE {})
PowExps == {-2, -1, 0, 2, 3}
Grow(S) == S \cup {[op |-> o, l |-> a, r |-> b] : o \in {"mul", "div"}, a \in S, b \in S}
             \cup {[op |-> "pow", l |-> a, n |-> k] : a \in S, k \in PowExps}
Trees1 == Grow(LeafAlphabet)
\* generic leaves (distinct atoms, independent dimensions); "z" is an offset unit in the second table
Tables == {[x |-> U(P1, FMul(FAtom("f1"), FInv(FAtom("f2"))), NoOff),
            y |-> U(P2, FMul(FPow(FAtom("f2"), 2), FAtom("f3")), NoOff),
            z |-> U(PScale(P1, 1), FAtom("f4"), zo)] : zo \in {NoOff, "a"}}

\* Facets of the enumeration (the laws separate into a dimension part and a factor/offset part, so the product
\* universe is covered facet by facet instead of as one product that TLC could not enumerate):
\*   P2 / P3  pairs / triples of power vectors over -PB..PB (compatibility is an equivalence, decides conversion)
\*   F1       every single unit: 2 dimensions x all factors over Atoms with exponents -EB1..EB1 x Offs
\*   F2 / F3  pairs / triples of (factor, offset) over Atoms2 / Atoms3 (round trip, transitivity, Mul/Div laws, refusal)
\*   E        every expression tree of depth <= 2 over the leaf alphabet, on generic leaves (distinct atoms), with and
\*            without an offset leaf (distribution, refusal, simplify)
Init == /\ stage = 0
        /\ out = 0
        /\ \/ \E p \in Pows(PR2) : scen = [facet |-> "P2", A |-> U(p, FOne, NoOff)]
           \/ \E p \in Pows(PR3) : scen = [facet |-> "P3", A |-> U(p, FOne, NoOff)]
           \/ \E f \in Facs(Atoms, ER1), p \in {P1, P2}, o \in Offs : scen = [facet |-> "F1", A |-> U(p, f, o)]
           \/ \E f \in Facs(Atoms2, ER2), p \in {P1, P2}, o \in Offs : scen = [facet |-> "F2", A |-> U(p, f, o)]
           \/ \E f \in Facs(Atoms3, ER3), o \in Offs : scen = [facet |-> "F3", A |-> U(P1, f, o)]
           \/ \E l \in Trees1, T \in Tables : scen = [facet |-> "E", T |-> T, l |-> l]

Choose ==
    /\ stage = 0 /\ stage' = 1 /\ out' = 1
    /\ CASE scen.facet = "P2" ->
              \E p \in Pows(PR2) : scen' = scen @@ [B |-> U(p, FAtom(AnAtom), NoOff)]
         [] scen.facet = "P3" ->
              \E p \in Pows(PR3), q \in Pows(PR3) :
                 scen' = scen @@ [B |-> U(p, FAtom(AnAtom), NoOff), C |-> U(q, FDiv(FAtom(OtherAtom), FAtom(AnAtom)), NoOff)]
         [] scen.facet = "F1" -> scen' = scen
         [] scen.facet = "F2" ->
              \E f \in Facs(Atoms2, ER2), p \in {P1, P2}, o \in Offs : scen' = scen @@ [B |-> U(p, f, o)]
         [] scen.facet = "F3" ->
              \E f \in Facs(Atoms3, ER3), g \in Facs(Atoms3, ER3), o \in Offs, q \in Offs :
                 scen' = scen @@ [B |-> U(P1, f, o), C |-> U(P1, g, q)]
         [] scen.facet = "E" ->
              \/ scen' = scen @@ [e |-> scen.l]
              \/ \E r \in Trees1, o \in {"mul", "div"} : scen' = scen @@ [e |-> [op |-> o, l |-> scen.l, r |-> r]]
              \/ \E k \in PowExps : scen' = scen @@ [e |-> [op |-> "pow", l |-> scen.l, n |-> k]]
Next == Choose

Done == stage = 1
Has2 == Done /\ scen.facet \in {"P2", "P3", "F2", "F3"}
Has3 == Done /\ scen.facet \in {"P3", "F3"}

\* --- laws ----------------------------------------------------------------------------------------
\* Compatible is an equivalence relation ...
CompatReflexive == Done /\ scen.facet # "E" => Compatible(scen.A, scen.A)
CompatSymmetric == Has2 => (Compatible(scen.A, scen.B) <=> Compatible(scen.B, scen.A))
CompatTransitive == Has3 => (Compatible(scen.A, scen.B) /\ Compatible(scen.B, scen.C) => Compatible(scen.A, scen.C))
\* ... that exactly decides whether a conversion exists
CompatIffConv == Has2 => /\ Compatible(scen.A, scen.B) <=> ConvTuple(scen.A, scen.B).ok
                         /\ Compatible(scen.A, scen.B) <=> (scen.A.pow = scen.B.pow)
\* A -> A is the identity; A -> B -> A is the identity
SelfConv == Done /\ scen.facet # "E" => ConvTuple(scen.A, scen.A) = ConvId
RoundTrip == Has2 /\ Compatible(scen.A, scen.B) =>
                Compose(ConvTuple(scen.A, scen.B), ConvTuple(scen.B, scen.A)) = ConvId
\* A -> B -> C is A -> C
Transitivity == Has3 /\ Compatible(scen.A, scen.B) /\ Compatible(scen.B, scen.C) =>
                Compose(ConvTuple(scen.A, scen.B), ConvTuple(scen.B, scen.C)) = ConvTuple(scen.A, scen.C)
\* offset units refuse Mul / Div / Pow / Prefix; everything else is accepted
Refusal == Done /\ scen.facet \in {"F1", "F2"} =>
              LET A == scen.A
                  B == IF scen.facet = "F2" THEN scen.B ELSE UOne
              IN /\ IsErr(Mul(A, B)) <=> (HasOff(A) \/ HasOff(B))
                 /\ IsErr(Div(A, B)) <=> (HasOff(A) \/ HasOff(B))
                 /\ \A n \in {-1, 0, 1, 2} : IsErr(PowInt(A, n)) <=> HasOff(A)
                 /\ IsErr(Prefix("k", A)) <=> HasOff(A)
\* products, quotients, powers and prefixes get the dimension and the factor implied by their parts
MulDivLaws == Done /\ scen.facet = "F2" /\ ~HasOff(scen.A) /\ ~HasOff(scen.B) =>
                 LET A == scen.A
                     B == scen.B
                 IN /\ Mul(A, B) = Mul(B, A)
                    /\ Div(Mul(A, B), B) = A
                    /\ Mul(Div(A, B), B) = A
                    /\ Div(A, B) = Mul(A, PowInt(B, -1))
                    /\ ConvTuple(Mul(A, B), Mul(B, A)) = ConvId
                    /\ Compatible(Mul(A, B), Mul(B, A))
                    \* converting a product = product of the conversions
                    /\ ConvTuple(Mul(A, B), Mul(A, A)).ok <=> Compatible(A, B)
                    /\ Compatible(A, B) => ConvTuple(Mul(A, B), Mul(B, B)).fac = ConvTuple(A, B).fac
PowLaws == Done /\ scen.facet = "F1" /\ ~HasOff(scen.A) =>
              LET A == scen.A
              IN /\ PowInt(A, 0) = UOne
                 /\ PowInt(A, 1) = A
                 /\ PowInt(A, 2) = Mul(A, A)
                 /\ PowInt(A, 3) = Mul(Mul(A, A), A)
                 /\ PowInt(A, -1) = Div(UOne, A)
                 /\ PowInt(PowInt(A, 2), 3) = PowInt(A, 6)
                 /\ PowInt(PowInt(A, -2), -1) = PowInt(A, 2)
                 /\ Prefix("k", A).pow = A.pow
                 /\ Prefix("k", A).fac = FMul(FAtom("k"), A.fac)
                 /\ ConvTuple(Prefix("k", A), A) = [ok |-> TRUE, fac |-> FAtom("k"), off |-> OZero]
                 /\ PowInt(Prefix("k", A), 2).fac = FMul(FPow(FAtom("k"), 2), FPow(A.fac, 2))
\* Eval distributes: an accepted expression has the factor / dimension of its leaves to their net exponents
EvalDistributes == Done /\ scen.facet = "E" /\ ~IsErr(Eval(scen.T, scen.e)) =>
                      LET N == NamesOf(scen.e)
                          u == Eval(scen.T, scen.e)
                      IN /\ u.fac = FProd(scen.T, DOMAIN N, N)
                         /\ u.pow = PSum(scen.T, DOMAIN N, N)
\* an expression is refused exactly when an offset unit occurs below an operator or a prefix
RECURSIVE Leaves(_)
Leaves(e) == IF IsLeaf(e) THEN {e} ELSE IF e.op = "pow" THEN Leaves(e.l) ELSE Leaves(e.l) \cup Leaves(e.r)
EvalRefusal == Done /\ scen.facet = "E" =>
                  (IsErr(Eval(scen.T, scen.e)) <=>
                      \E x \in Leaves(scen.e) : x.op = "u" /\ HasOff(scen.T[x.name]) /\ (x.p # "" \/ ~IsLeaf(scen.e)))
\* simplify_unit (merge and cancel names) preserves (pow, fac, off)
SimplifyPreserves == Done /\ scen.facet = "E" /\ ~IsErr(Eval(scen.T, scen.e)) =>
                        Eval(scen.T, Simplify(scen.e)) = Eval(scen.T, scen.e)
=============================================================================
