------------------------------ MODULE Options ------------------------------
(***************************************************************************)
(* OptionsDictionary (openmdao/utils/options_dictionary.py) as a state     *)
(* machine: declared options with validity rules, assignment, required     *)
(* options, deprecation aliases, read-only dictionaries and the            *)
(* temporary() context manager (a stack of frames).  Property C27.         *)
(*                                                                         *)
(* Values are ids into a fixed universe (Python objects live on the        *)
(* harness side, TLC cannot compare values of different types):            *)
(*   1 None  2 -1  3 0  4 1  5 5  6 "a"  7 "b"  8 True  9 False            *)
(* 0 is "no value" (required option never set).                            *)
(* Python equality classes (True == 1, False == 0) are explicit in Cls,    *)
(* because `value in values` uses ==; isinstance(True, int) is explicit in *)
(* TypeMembers.  These are what the code does and the spec follows them.   *)
(***************************************************************************)
EXTENDS Naturals, Integers, Sequences, FiniteSets, TLC

CONSTANTS Scenarios,      \* sequence of declaration scenarios (records), see OptionsMC
          MaxNest,        \* maximal nesting depth of temporary()
          MaxKw           \* maximal number of keyword arguments of temporary()

U == 1..9
None == 1
Undef == 0
Cls == <<0, 1, 2, 3, 4, 5, 6, 3, 2>>
HasNum(v) == v \in {2, 3, 4, 5, 8, 9}
Num(v) == CASE v = 2 -> -1 [] v = 3 -> 0 [] v = 4 -> 1 [] v = 5 -> 5 [] v = 8 -> 1 [] v = 9 -> 0
               [] OTHER -> 0
NoBound == 99

TypeMembers(t) == CASE t = "int" -> {2, 3, 4, 5, 8, 9}
                    [] t = "str" -> {6, 7}
                    [] t = "bool" -> {8, 9}
                    [] t = "NoneType" -> {1}
                    [] OTHER -> {}

\* what the kind check of a declaration accepts
KindOk(d, v) ==
    CASE d.kind = "values" -> \E x \in d.listed : Cls[x] = Cls[v]
      [] d.kind = "types" ->
           IF d.listed = {"bool"}                       \* types=bool is turned into values=(True, False)
           THEN Cls[v] \in {2, 3}
           ELSE v \in UNION {TypeMembers(t) : t \in d.listed}
      [] OTHER -> TRUE

BoundsOk(d, v) ==
    /\ (d.upper # NoBound => HasNum(v) /\ Num(v) <= d.upper)
    /\ (d.lower # NoBound => HasNum(v) /\ Num(v) >= d.lower)

Valid(d, v) ==
    /\ v \in U
    /\ ((v = None /\ d.allowNone) \/ (KindOk(d, v) /\ BoundsOk(d, v)))
    /\ v \notin d.cvReject

VARIABLES sc,        \* index of the declaration scenario
          vals,      \* option -> value id (or Undef)
          ctx,       \* stack of temporary() frames; a frame is a sequence of <<option, saved value>>
          last       \* result of the last action: "ok", "rejected", "value:<id>" is kept as a record

vars == <<sc, vals, ctx, last>>

S == Scenarios[sc]
Opts == DOMAIN S.decl
Decl(o) == S.decl[o]
\* deprecation alias: set/get on o are forwarded to Target(o) and validated against *its* declaration
Target(o) == IF Decl(o).alias = "none" THEN o ELSE Decl(o).alias

Readable(v, o) == v[Target(o)] # Undef

CanSet(o, v) == ~S.readOnly /\ Valid(Decl(Target(o)), v)

Init == /\ sc \in 1..Len(Scenarios)
        /\ vals = [o \in DOMAIN Scenarios[sc].decl |-> Scenarios[sc].decl[o].default]
        /\ ctx = <<>>
        /\ last = [r |-> "init", v |-> 0]

Set(o, v) ==
    /\ IF CanSet(o, v)
       THEN vals' = [vals EXCEPT ![Target(o)] = v] /\ last' = [r |-> "ok", v |-> 0]
       ELSE vals' = vals /\ last' = [r |-> "rejected", v |-> 0]
    /\ UNCHANGED <<sc, ctx>>

Get(o) ==
    /\ last' = IF Readable(vals, o) THEN [r |-> "value", v |-> vals[Target(o)]] ELSE [r |-> "rejected", v |-> 0]
    /\ UNCHANGED <<sc, vals, ctx>>

\* sequential application of temporary(**kw): kw is a sequence of <<option, value>>
RECURSIVE ApplyKw(_, _, _)
ApplyKw(kw, v, frame) ==     \* -> [ok, vals, frame]
    IF kw = <<>> THEN [ok |-> TRUE, vals |-> v, frame |-> frame]
    ELSE LET o == kw[1][1]
             x == kw[1][2]
         IN IF ~Readable(v, o) \/ ~CanSet(o, x)
            THEN [ok |-> FALSE, vals |-> v, frame |-> frame]
            ELSE ApplyKw(Tail(kw), [v EXCEPT ![Target(o)] = x], Append(frame, <<o, v[Target(o)]>>))

TempEnter(kw) ==
    /\ Len(ctx) < MaxNest
    /\ LET r == ApplyKw(kw, vals, <<>>)
       IN IF r.ok
          THEN vals' = r.vals /\ ctx' = Append(ctx, r.frame) /\ last' = [r |-> "ok", v |-> 0]
          ELSE \* entering failed: the with-body never runs; nothing may stay changed
               vals' = vals /\ ctx' = ctx /\ last' = [r |-> "rejected", v |-> 0]
    /\ UNCHANGED sc

\* undo a frame in reverse order of application
RECURSIVE Restore(_, _)
Restore(frame, v) ==
    IF frame = <<>> THEN v
    ELSE LET k == Len(frame)
         IN Restore(SubSeq(frame, 1, k - 1), [v EXCEPT ![Target(frame[k][1])] = frame[k][2]])

\* leaving the with-block, normally (how = "normal") or because the body raised (how = "raise")
TempExit(how) ==
    /\ ctx # <<>>
    /\ vals' = Restore(ctx[Len(ctx)], vals)
    /\ ctx' = SubSeq(ctx, 1, Len(ctx) - 1)
    /\ last' = [r |-> IF how = "raise" THEN "propagated" ELSE "ok", v |-> 0]
    /\ UNCHANGED sc

KwArgs ==   \* keyword-argument lists over distinct option names with candidate values
    LET one == {<<<<o, v>>>> : o \in Opts, v \in S.cand}
        two == {<<<<o1, v1>>, <<o2, v2>>>> : o1 \in Opts, o2 \in Opts, v1 \in S.cand, v2 \in S.cand}
    IN one \cup (IF MaxKw >= 2 THEN {k \in two : k[1][1] # k[2][1]} ELSE {})

Next ==
    \/ \E o \in Opts, v \in S.cand : Set(o, v)
    \/ \E o \in Opts : Get(o)
    \/ \E kw \in KwArgs : TempEnter(kw)
    \/ \E how \in {"normal", "raise"} : TempExit(how)

Spec == Init /\ [][Next]_vars

-----------------------------------------------------------------------------
\* Properties (C27)

\* every stored value satisfies the declaration of the option that stores it
ValuesValid == \A o \in Opts : vals[o] # Undef /\ Decl(o).alias = "none" => Valid(Decl(o), vals[o])

\* a rejected action leaves every value (and the context stack) as it was
RejectLeaves == [][last'.r = "rejected" => vals' = vals /\ ctx' = ctx]_vars

\* The values an outer frame will restore: walking the stack outward gives, for every option ever
\* touched by an open frame, the value it had before the outermost frame that touched it.
RECURSIVE Unwind(_, _)
Unwind(stack, v) == IF stack = <<>> THEN v
                    ELSE Unwind(SubSeq(stack, 1, Len(stack) - 1), Restore(stack[Len(stack)], v))

\* leaving a frame (either way) restores exactly what the frame saved and touches nothing else
TempRestores ==
    [][ctx # <<>> /\ ctx' = SubSeq(ctx, 1, Len(ctx) - 1) =>
        LET fr == ctx[Len(ctx)]
            touched == {Target(fr[i][1]) : i \in 1..Len(fr)}
        IN /\ \A o \in Opts \ touched : vals'[o] = vals[o]
           /\ \A o \in touched :
                 LET first == CHOOSE i \in 1..Len(fr) :
                                 Target(fr[i][1]) = o /\ \A j \in 1..(i - 1) : Target(fr[j][1]) # o
                 IN vals'[o] = fr[first][2]
    ]_vars

\* saved values are valid, so restoring can never be refused
FramesValid == \A i \in 1..Len(ctx) : \A j \in 1..Len(ctx[i]) :
                  Valid(Decl(Target(ctx[i][j][1])), ctx[i][j][2])

ReadOnlyFrozen == [][S.readOnly => vals' = vals]_vars
=============================================================================
