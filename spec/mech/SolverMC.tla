------------------------------ MODULE SolverMC ------------------------------
(* Exhaustive configuration and behaviour export for Solver.tla (C09).      *)
EXTENDS Solver, Json, FiniteSets

CONSTANTS MaxIters, CsVals, Kinds, StallLimits

Tols == {[atol |-> Q(1, 1), rtol |-> Q(1, 8)], [atol |-> Q(2, 1), rtol |-> Q(1, 8)], [atol |-> Q(1, 4), rtol |-> Q(1, 2)]}
Stalls == (IF 0 \in StallLimits THEN {[limit |-> 0, tol |-> Zero, type |-> "rel"]} ELSE {}) \cup
          {[limit |-> l, tol |-> t, type |-> ty] : l \in StallLimits \ {0}, t \in {Zero, Q(1, 4)}, ty \in {"abs", "rel"}}

AllConfigs ==
    {[kind |-> k, maxiter |-> m, atol |-> t.atol, rtol |-> t.rtol, stall_limit |-> s.limit, stall_tol |-> s.tol,
      stall_type |-> s.type, err |-> e, cs |-> c] :
        k \in Kinds, m \in MaxIters, t \in Tols, s \in Stalls, e \in BOOLEAN, c \in CsVals}
\* stall options exist on nonlinear solvers only; complex-step forcing likewise
MCConfigs == {c \in AllConfigs : c.kind \in LNKinds => (c.stall_limit = 0 /\ ~c.cs)}

MCNormVals == {Zero, Q(1, 4), One, Q(2, 1), Q(4, 1), NaN, Inf}
MCFirstVals == {Zero, One, Q(4, 1), NaN, Inf}

\* `hist` is an observation variable (the script of norms): excluded from the view when checking
View == <<cfg, pc, iter, its, norm, norm0, stallRef, stallCount, stalled, forced, outcome, raised>>

Export == pc = "done" =>
    PrintT(<<"EXP", ToJson([cfg |-> cfg, script |-> hist, iter |-> iter, its |-> its, outcome |-> outcome,
                            raised |-> raised, stalled |-> stalled])>>)
=============================================================================
