--------------------------- MODULE CheckPartials ---------------------------
(***************************************************************************)
(* What a derivative check reports (Problem.check_partials / check_totals, *)
(* property C13).                                                          *)
(*                                                                         *)
(* A scenario is an affine component  y = A x + b  with a small integer    *)
(* matrix A, a sparsity pattern P on which the component returns analytic  *)
(* values, a storage kind for the declared partial, and the returned       *)
(* values (correct / one wrong entry / wrong sign everywhere).             *)
(*                                                                         *)
(* Because the component is affine the finite-difference and the complex-  *)
(* step quotient are EXACT:  Jfd = A.  The analytic matrix is the returned *)
(* values placed on P, zero elsewhere.  A sparse declaration (rows/cols,   *)
(* diagonal, coo, csr, csc) makes the check store the approximated column  *)
(* in the declared pattern, so the reported J_fd is A restricted to the    *)
(* declared cells, and every approximated nonzero outside the declared     *)
(* cells has to be flagged:                                                *)
(*     Uncovered = {(r,c) : Jfd[r,c] # 0 /\ (r,c) \notin Declared}         *)
(* - ALL of them, in every column.  The law NothingDropped states why:     *)
(* reported error + flags together lose nothing of the true error.         *)
(*                                                                         *)
(* Error figures are the ones the code documents (abs_err_tol = 0,         *)
(* rel_err_tol = 1e-6): the entry with the largest tolerance violation     *)
(* |Jfwd - Jfd| - rtol*|Jfd| is located; `abs error` is |Jfwd - Jfd| there *)
(* (law AbsIsMaxNorm: on the integer grid that is the max-norm of the      *)
(* difference), `rel error` is abs/|Jfd| there, `magnitude` the max-norms  *)
(* of the two matrices.  The squared Frobenius norm of the difference is   *)
(* exported as well.  Everything is an integer or an exact rational.       *)
(*                                                                         *)
(* Two further families (stage 3, action ChooseMode) leave the affine      *)
(* world, because there every step size gives the same quotient:           *)
(*   y_r = sum_c (A[r,c] x_c + Q[r,c] x_c^2) + b_r,  Q = 4 sgn(A) on the   *)
(*   support, evaluated at x_c = c.  The exact Jacobian is J = A + 2 Q x;  *)
(*   the FORWARD quotient with step 1/n (n in {1,2,4}) is exactly          *)
(*   J + Q/n - an integer matrix again, but a different one for every      *)
(*   step.  A check called with a LIST of steps has to report, for step k, *)
(*   the quotient of step k and the errors against THAT matrix (StepLaw;   *)
(*   for a correct partial the reported error is the truncation error      *)
(*   4/n of the step, CorrectStepError).                                   *)
(*   A DIRECTIONAL check (one quotient along the direction of all ones     *)
(*   instead of one per column) compares J.1 with (J + Q/n).1, vectors     *)
(*   with one entry per row whatever the declared storage; a single        *)
(*   direction cannot be attributed to columns, so nothing is flagged.     *)
(***************************************************************************)
EXTENDS Rat, Naturals, FiniteSets, TLC, Json

CONSTANTS MaxR, MaxC,      \* largest shape of A
          \* Shapes with fewer than 9 cells are enumerated completely.  For shapes with 9 resp. 12 cells:
          SupMod9, SupMod12, SupRem,   \* supports S with SupHash(S) % SupMod = SupRem % SupMod   (1 = all)
          CrossMod9, CrossMod12,       \* under-declared pattern together with wrong values: every CrossMod-th
          ModeMod,                     \* 6-cell shapes enter the step / directional families for every ModeMod-th support
          \* one stored scenario for INIT InitReplay (./check C13 --replay); unused by INIT Init
          RpR, RpC, RpKind, RpAn, RpPc, RpS, RpD,    \* RpS / RpD: Bits() of the support / of the removed cells
          RpMode                                     \* 0: base family, i > 0: ModeSeq[i]

\* value table of A (entry used where the support has a cell); equal magnitudes on purpose (ties)
V == << <<1, -2, 3, 2>>, <<-3, 2, 1, -2>>, <<2, 3, -1, 3>> >>
\* second component of the check_totals chain  z = G y  (first nR columns are used)
GT == << <<1, -1, 2>>, <<2, 1, -1>> >>
NG == 2
RtolDen == 1000000         \* rel_err_tol = 1/RtolDen ; abs_err_tol = 0

Kinds == {"dense", "rc", "diag", "coo", "csr", "csc"}
SparseKinds == {"rc", "coo", "csr", "csc"}
Analytic == {"correct", "wrong1", "negate"}

\* --- small helpers --------------------------------------------------------------------------------
Cells(nR, nC) == (1..nR) \X (1..nC)
AllSeq(nR, nC) == TLCEval([i \in 1..(nR * nC) |-> <<((i - 1) \div nC) + 1, ((i - 1) % nC) + 1>>])   \* row-major
Rev(s) == [i \in 1..Len(s) |-> s[Len(s) + 1 - i]]
DiagCells(nR) == {<<i, i>> : i \in 1..nR}
\* TLCEval: TLC keeps function constructors lazy (re-evaluated on every application) unless told otherwise
Mat(nR, nC, f(_, _)) == TLCEval([r \in 1..nR |-> TLCEval([c \in 1..nC |-> f(r, c)])])
At(M, x) == M[x[1]][x[2]]
MaxOf(S) == CHOOSE x \in S : \A y \in S : y <= x
RECURSIVE SumN(_, _)
SumN(f, n) == IF n = 0 THEN 0 ELSE f[n] + SumN(f, n - 1)
RECURSIVE Pow2(_)
Pow2(n) == IF n = 0 THEN 1 ELSE 2 * Pow2(n - 1)
Bits(nC, T) == LET q == AllSeq(3, nC)
              IN SumN([i \in 1..(3 * nC) |-> IF q[i] \in T THEN Pow2(i - 1) ELSE 0], 3 * nC)

\* --- the scenario ---------------------------------------------------------------------------------
AOf(nR, nC, S) == Mat(nR, nC, LAMBDA r, c : IF <<r, c>> \in S THEN V[r][c] ELSE 0)
\* curvature of the step / directional families (q = 1): a multiple of 4 with the sign of A, so that the Jacobian
\* A + 2 Q x and every quotient J + Q/n (n in {1, 2, 4}) keep the support and the signs of A (nothing cancels)
QOf(nR, nC, S, q) == Mat(nR, nC, LAMBDA r, c : IF q = 1 /\ <<r, c>> \in S THEN 4 * Sgn(V[r][c]) ELSE 0)
\* exact Jacobian of  y_r = sum_c (A[r][c] x_c + Q[r][c] x_c^2) + b_r  at  x_c = c
JOf(A, Qm, nR, nC) == Mat(nR, nC, LAMBDA r, c : A[r][c] + 2 * Qm[r][c] * c)
\* how a check is run: q curvature on/off, st the list of steps 1/n (<<>>: the affine base family, where the
\* harness runs its own list of methods), dir a directional check
BaseMode == [q |-> 0, st |-> <<>>, dir |-> FALSE]
ModeSeq == << [q |-> 1, st |-> <<2, 4>>, dir |-> FALSE], [q |-> 1, st |-> <<4, 2>>, dir |-> FALSE],
             [q |-> 1, st |-> <<2>>, dir |-> FALSE],
             [q |-> 0, st |-> <<2>>, dir |-> TRUE], [q |-> 1, st |-> <<4, 2>>, dir |-> TRUE] >>
Modes == {ModeSeq[i] : i \in 1..Len(ModeSeq)}

\* removed cells of an under-declared pattern: 1..3 nonzeros, pairwise in different rows AND columns
Matchings(S) == {D \in {{a, b, c} : a \in S, b \in S, c \in S} :
                    D # S /\ \A x \in D : \A y \in D : x # y => (x[1] # y[1] /\ x[2] # y[2])}

Patterns(nR, nC, kind, S) ==
    IF kind = "diag" THEN {[pc |-> "diag", P |-> DiagCells(nR), D |-> {}]}
    ELSE {[pc |-> "full", P |-> Cells(nR, nC), D |-> {}]}
         \cup (IF S # Cells(nR, nC) THEN {[pc |-> "exact", P |-> S, D |-> {}]} ELSE {})
         \cup {[pc |-> "under", P |-> S \ D, D |-> D] : D \in Matchings(S)}

\* order in which the component declares / returns its entries
PSeqOf(nR, nC, kind, S, P) ==
    LET rm == SelectSeq(AllSeq(nR, nC), LAMBDA x : x \in P)
    IN IF kind = "rc" /\ Cardinality(S) % 2 = 1 THEN Rev(rm) ELSE rm

ValsOf(A, an, pseq, nS) ==
    LET w == (nS % Len(pseq)) + 1          \* position of the single wrong entry
    IN [i \in 1..Len(pseq) |->
          CASE an = "correct" -> At(A, pseq[i])
            [] an = "wrong1"  -> At(A, pseq[i]) + (IF i = w THEN 1 ELSE 0)
            [] an = "negate"  -> 0 - At(A, pseq[i])]

MkM(nR, nC, kind, an, S, pat, md) ==
    LET A == AOf(nR, nC, S)
        Qm == QOf(nR, nC, S, md.q)
        J == JOf(A, Qm, nR, nC)
        pseq == PSeqOf(nR, nC, kind, S, pat.P)
    IN [R |-> nR, C |-> nC, kind |-> kind, an |-> an, pc |-> pat.pc, S |-> S, D |-> pat.D, P |-> pat.P,
        A |-> A, Qm |-> Qm, J |-> J, md |-> md,
        b |-> [r \in 1..nR |-> r], pseq |-> pseq, vals |-> ValsOf(J, an, pseq, Cardinality(S))]
Mk(nR, nC, kind, an, S, pat) == MkM(nR, nC, kind, an, S, pat, BaseMode)

\* --- what a check has to report -------------------------------------------------------------------
\* (matrices are built once per scenario and kept in `out`; the laws below read them from there)
PSet(s) == {s.pseq[i] : i \in 1..Len(s.pseq)}
Declared(s) == IF s.kind = "dense" THEN Cells(s.R, s.C) ELSE PSet(s)
Support(s) == {x \in Cells(s.R, s.C) : At(s.A, x) # 0}

Jfd(s) == s.J                                                  \* the quotient actually computed (base family: exact)
\* the forward quotient with step 1/n
JfdStep(s, n) == Mat(s.R, s.C, LAMBDA r, c : s.J[r][c] + (s.Qm[r][c] \div n))
Jfwd(s) == LET ps == PSet(s)
               pv == TLCEval([x \in ps |-> s.vals[CHOOSE i \in 1..Len(s.pseq) : s.pseq[i] = x]])
           IN Mat(s.R, s.C, LAMBDA r, c : IF <<r, c>> \in ps THEN pv[<<r, c>>] ELSE 0)
Restrict(M, d, nR, nC) == Mat(nR, nC, LAMBDA r, c : IF <<r, c>> \in d THEN M[r][c] ELSE 0)
JfdRep(s) == Restrict(s.J, Declared(s), s.R, s.C)
Diff(M, N, nR, nC) == Mat(nR, nC, LAMBDA r, c : M[r][c] - N[r][c])
UncoveredOf(A, decl, nR, nC) == {x \in Cells(nR, nC) : At(A, x) # 0 /\ x \notin decl}
Uncovered(s) == UncoveredOf(Jfd(s), Declared(s), s.R, s.C)

\* the error figures of one (of, wrt) pair with analytic matrix Jf and approximated matrix Jd (nr x nc)
Report(Jf, Jd, nr, nc) ==
    LET cells == Cells(nr, nc)
        q == AllSeq(nr, nc)
        e == TLCEval([x \in cells |-> Abs(At(Jf, x) - At(Jd, x))])     \* |difference| per entry
        key == TLCEval([x \in cells |-> e[x] * RtolDen - Abs(At(Jd, x))])  \* RtolDen * tolerance violation
        kmax == MaxOf({key[x] : x \in cells})
        arg == {x \in cells : key[x] = kmax}
        a == CHOOSE x \in arg : TRUE
        ae == e[a]
        ref == Abs(At(Jd, a))
    IN [abs    |-> ae,
        rel    |-> IF ref # 0 THEN Q(ae, ref) ELSE IF ae # 0 THEN Inf ELSE NaN,   \* NaN: 0/0, not compared
        tv     |-> Q(kmax, RtolDen),
        pairs  |-> {<<At(Jf, x), At(Jd, x)>> : x \in arg},     \* admissible (analytic, approximated) at the max
        uniq   |-> \A x \in arg : e[x] = ae /\ Abs(At(Jd, x)) = ref,
        maxabs |-> MaxOf({e[x] : x \in cells}),
        fro2   |-> SumN([i \in 1..(nr * nc) |-> e[q[i]] * e[q[i]]], nr * nc),
        magf   |-> MaxOf({Abs(At(Jf, x)) : x \in cells}),
        magd   |-> MaxOf({Abs(At(Jd, x)) : x \in cells})]

\* check_totals on the chain  x -> [scenario component] -> y -> [z = G y, dense, correct] -> z
Tot(M, nR, nC) == Mat(NG, nC, LAMBDA i, c : SumN([r \in 1..nR |-> GT[i][r] * M[r][c]], nR))

\* what the check has to report for step k of the list (step / directional families)
RowSum(M, nR, nC) == Mat(nR, 1, LAMBDA r, c : SumN([k \in 1..nC |-> M[r][k]], nC))
StepRep(s, k) ==
    LET full == JfdStep(s, s.md.st[k])
        jf == Jfwd(s)
    IN IF s.md.dir
       THEN LET f1 == RowSum(jf, s.R, s.C)
                d1 == RowSum(full, s.R, s.C)
            IN [jfwd |-> f1, jfd |-> d1, unc |-> {}, p |-> Report(f1, d1, s.R, 1)]
       ELSE LET d == Restrict(full, Declared(s), s.R, s.C)
            IN [jfwd |-> jf, jfd |-> d, unc |-> UncoveredOf(full, Declared(s), s.R, s.C), p |-> Report(jf, d, s.R, s.C)]

Expected(s) ==
    LET jf == Jfwd(s)
        jd == JfdRep(s)
        tf == Tot(jf, s.R, s.C)
        td == Tot(Jfd(s), s.R, s.C)
    IN [jfwd |-> jf, jfd |-> jd, unc |-> Uncovered(s),
        err  |-> Diff(jf, Jfd(s), s.R, s.C),                   \* true error of the analytic partial
        erep |-> Diff(jf, jd, s.R, s.C),                       \* difference of the two reported matrices
        p    |-> Report(jf, jd, s.R, s.C),
        ty   |-> Report(jf, Jfd(s), s.R, s.C),                 \* total d y / d x : the whole model is differenced                 \* total d y / d x : the whole model is differenced
        tzf  |-> tf, tzd |-> td,
        tz   |-> Report(tf, td, NG, s.C),
        steps |-> [k \in 1..Len(s.md.st) |-> StepRep(s, k)]]

\* --- scenario enumeration: Init fixes (shape, kind, analytic variant), the first step the support of A, the second
\* --- the pattern.  Every state carries a well-formed scenario; only stage 2 is exported. -----------------------
VARIABLES stage, scen, out
vars == <<stage, scen, out>>

BasePat(nR, nC, k) == IF k = "diag" THEN [pc |-> "diag", P |-> DiagCells(nR), D |-> {}]
                      ELSE [pc |-> "full", P |-> Cells(nR, nC), D |-> {}]
Init == /\ stage = 0
        /\ \E nR \in 1..MaxR, nC \in 1..MaxC, k \in Kinds, an \in Analytic :
              /\ k = "diag" => nR = nC
              /\ scen = Mk(nR, nC, k, an, Cells(nR, nC), BasePat(nR, nC, k))
        /\ out = Expected(scen)
SupMod(n) == IF n >= 12 THEN SupMod12 ELSE IF n >= 9 THEN SupMod9 ELSE 1
SupHash(nC, S) == (Bits(nC, S) % 7) + (Bits(nC, S) % 11)
ChooseSupport ==
    /\ stage = 0 /\ stage' = 1
    /\ \E S \in (SUBSET Cells(scen.R, scen.C)) \ {{}} :
          /\ SupHash(scen.C, S) % SupMod(scen.R * scen.C) = SupRem % SupMod(scen.R * scen.C)
          /\ scen' = Mk(scen.R, scen.C, scen.kind, scen.an, S, BasePat(scen.R, scen.C, scen.kind))
    /\ out' = Expected(scen')
CrossMod(n) == IF n >= 12 THEN CrossMod12 ELSE IF n >= 9 THEN CrossMod9 ELSE 1
ChoosePattern ==
    /\ stage = 1 /\ stage' = 2
    /\ \E pat \in Patterns(scen.R, scen.C, scen.kind, scen.S) :
          /\ pat.P # {}
          /\ (pat.pc = "under" /\ scen.an # "correct" /\ CrossMod(scen.R * scen.C) > 1) =>
                (Bits(scen.C, scen.S) + 5 * Bits(scen.C, pat.D)) % CrossMod(scen.R * scen.C) = 0
          /\ scen' = Mk(scen.R, scen.C, scen.kind, scen.an, scen.S, pat)
    /\ out' = Expected(scen')
\* the step / directional families branch off a sample of the base scenarios: at most 6 cells (6 cells: every
\* ModeMod-th support), correct or one wrong value, at most one removed nonzero
ModeBase(s) == /\ s.R * s.C <= 6
               /\ (s.R * s.C = 6 => Bits(s.C, s.S) % ModeMod = SupRem % ModeMod)
               /\ s.an \in {"correct", "wrong1"}
               /\ Cardinality(s.D) <= 1
ChooseMode ==
    /\ stage = 2 /\ stage' = 3
    /\ ModeBase(scen)
    /\ \E md \in Modes :
          scen' = MkM(scen.R, scen.C, scen.kind, scen.an, scen.S, [pc |-> scen.pc, P |-> scen.P, D |-> scen.D], md)
    /\ out' = Expected(scen')
Next == ChooseSupport \/ ChoosePattern \/ ChooseMode

FromBits(nC, n) == {x \in Cells(3, nC) : (n \div Pow2((x[1] - 1) * nC + x[2] - 1)) % 2 = 1}
InitReplay ==
    LET S == FromBits(RpC, RpS)
        D == FromBits(RpC, RpD)
        P == CASE RpPc = "full" -> Cells(RpR, RpC) [] RpPc = "exact" -> S [] RpPc = "under" -> S \ D
               [] RpPc = "diag" -> DiagCells(RpR)
    IN /\ stage = IF RpMode = 0 THEN 2 ELSE 3
       /\ scen = MkM(RpR, RpC, RpKind, RpAn, S, [pc |-> RpPc, P |-> P, D |-> D],
                     IF RpMode = 0 THEN BaseMode ELSE ModeSeq[RpMode])
       /\ out = Expected(scen)

\* --- laws -----------------------------------------------------------------------------------------
IsZero(M, nR, nC) == \A x \in Cells(nR, nC) : At(M, x) = 0
CorrectOnP(s) == \A i \in 1..Len(s.pseq) : s.vals[i] = At(s.J, s.pseq[i])
IsBase == scen.md = BaseMode
ErrIsZero == IsZero(out.err, scen.R, scen.C)

WellFormed == /\ Support(scen) = scen.S
              /\ {x \in Cells(scen.R, scen.C) : At(scen.J, x) # 0} = scen.S        \* curvature cancels nothing
              /\ (IsBase <=> stage < 3) /\ (IsBase => scen.J = scen.A /\ out.steps = <<>>)
              /\ PSet(scen) = scen.P
              /\ Cardinality(PSet(scen)) = Len(scen.pseq)
              /\ (scen.pc = "under" => Cardinality(scen.D) \in 1..3 /\ scen.D \subseteq scen.S)
              /\ \A i \in 1..Len(scen.pseq) : At(out.jfwd, scen.pseq[i]) = scen.vals[i]
              /\ \A x \in Cells(scen.R, scen.C) \ PSet(scen) : At(out.jfwd, x) = 0
              /\ \A x \in Cells(scen.R, scen.C) :
                    /\ At(out.err, x) = At(out.jfwd, x) - At(scen.J, x)
                    /\ At(out.erep, x) = At(out.jfwd, x) - At(out.jfd, x)
\* nothing is flagged exactly when the declaration covers the support of the approximated Jacobian
UncoveredIffNotCovered == (out.unc = {}) <=> (Support(scen) \subseteq Declared(scen))
\* an under-declared sparse partial flags exactly the removed nonzeros - one per affected column
UnderFlagsAllColumns == (scen.pc = "under" /\ scen.kind # "dense") =>
                            /\ out.unc = scen.D
                            /\ Cardinality({x[2] : x \in out.unc}) = Cardinality(scen.D)
\* the analytic partial is right iff its values are right where it returns them and it returns all nonzeros
ErrZeroIff == ErrIsZero <=> (CorrectOnP(scen) /\ Support(scen) \subseteq PSet(scen))
\* reported difference and flags together lose nothing: they differ from the true error exactly on the flagged cells
NothingDropped == IsBase =>
                  /\ \A x \in Cells(scen.R, scen.C) : (At(out.err, x) # At(out.erep, x)) <=> (x \in out.unc)
                  /\ (ErrIsZero <=> (out.p.abs = 0 /\ out.unc = {}))
\* the flagged set depends on the matrix and the declared cells only, not on the sparse storage format
StorageIndependent == scen.kind \in SparseKinds =>
                          \A k \in SparseKinds : Uncovered([scen EXCEPT !.kind = k]) = out.unc
\* the reported absolute error is a norm of the difference of the two reported matrices
AbsIsMaxNorm == /\ out.p.uniq /\ out.ty.uniq /\ out.tz.uniq
                /\ out.p.abs = out.p.maxabs /\ out.ty.abs = out.ty.maxabs /\ out.tz.abs = out.tz.maxabs
                /\ (out.p.abs = 0 <=> out.p.fro2 = 0)
                /\ (out.p.abs = 0 <=> IsZero(out.erep, scen.R, scen.C))
                /\ out.p.abs * out.p.abs <= out.p.fro2
                /\ out.p.fro2 <= scen.R * scen.C * out.p.abs * out.p.abs
\* totals: the whole model is differenced, so nothing is masked; a right partial gives right totals
TotalsLaw == /\ (ErrIsZero <=> out.ty.abs = 0)
             /\ (ErrIsZero => out.tz.abs = 0)
             /\ \A i \in 1..NG : \A c \in 1..scen.C :
                   out.tzf[i][c] - out.tzd[i][c] = SumN([r \in 1..scen.R |-> GT[i][r] * out.err[r][c]], scen.R)

\* --- laws of the step / directional families -------------------------------------------------------------------
\* what is reported for step k is the quotient of step k (not of another step), restricted to the declared cells
\* resp. summed along the direction; the errors are the errors against that matrix
StepLaw ==
    \A k \in 1..Len(out.steps) :
        LET st == out.steps[k]
            n == scen.md.st[k]
            full(x) == At(scen.J, x) + (At(scen.Qm, x) \div n)
        IN /\ st.p.uniq /\ st.p.abs = st.p.maxabs
           /\ IF scen.md.dir
              THEN /\ st.unc = {}
                   /\ \A r \in 1..scen.R :
                         /\ st.jfd[r][1] = SumN([c \in 1..scen.C |-> full(<<r, c>>)], scen.C)
                         /\ st.jfwd[r][1] = SumN([c \in 1..scen.C |-> out.jfwd[r][c]], scen.C)
              ELSE /\ st.jfwd = out.jfwd
                   /\ \A x \in Cells(scen.R, scen.C) :
                         At(st.jfd, x) = IF x \in Declared(scen) THEN full(x) ELSE 0
                   /\ st.unc = Support(scen) \ Declared(scen)
\* two different steps give two different reports as soon as a declared cell carries curvature
NoAlias ==
    \A k, l \in 1..Len(out.steps) :
        (~scen.md.dir /\ scen.md.q = 1 /\ scen.md.st[k] # scen.md.st[l] /\ Declared(scen) \cap scen.S # {}) =>
            out.steps[k].jfd # out.steps[l].jfd
\* a correct partial of the curved component is reported with the truncation error of the step, 4/n
CorrectStepError ==
    \A k \in 1..Len(out.steps) :
        (~scen.md.dir /\ scen.md.q = 1 /\ ErrIsZero) =>
            out.steps[k].p.abs = 4 \div scen.md.st[k]

\* the exported record: the scenario as the harness has to build it and the figures it has to find
ExpRec == [s |-> [R |-> scen.R, C |-> scen.C, kind |-> scen.kind, an |-> scen.an, pc |-> scen.pc,
                  nd |-> Cardinality(scen.D), A |-> scen.A, b |-> scen.b, pseq |-> scen.pseq, vals |-> scen.vals],
           v |-> [jfwd |-> out.jfwd, jfd |-> out.jfd, unc |-> out.unc, p |-> out.p,
                  ty |-> out.ty, tzf |-> out.tzf, tzd |-> out.tzd, tz |-> out.tz]]
\* step / directional families: the scenario additionally carries the curvature and the mode, the expectation is the
\* list of per-step reports
ExpRecM == [s |-> [R |-> scen.R, C |-> scen.C, kind |-> scen.kind, an |-> scen.an, pc |-> scen.pc,
                   nd |-> Cardinality(scen.D), A |-> scen.A, Q |-> scen.Qm, md |-> scen.md, b |-> scen.b,
                   pseq |-> scen.pseq, vals |-> scen.vals],
            v |-> [steps |-> out.steps]]
Export == /\ stage = 2 => PrintT(<<"EXP", ToJson(ExpRec)>>)
          /\ stage = 3 => PrintT(<<"EXPM", ToJson(ExpRecM)>>)
=============================================================================
