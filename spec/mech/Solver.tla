------------------------------- MODULE Solver -------------------------------
(***************************************************************************)
(* The shared iteration loop of OpenMDAO's iterating solvers               *)
(* (openmdao/solvers/solver.py: NonlinearSolver._solve, LinearSolver._solve*)
(* with the per-class _iter_initialize / _run_apply differences).          *)
(* Property C09.  One action per critical section of the code:             *)
(*   IterInit(n)  - _iter_initialize, n is the first measured norm         *)
(*   Iterate(n)   - one pass of the while body, n the norm measured after  *)
(*   Classify     - the if/elif chain after the loop + report_failure      *)
(* Norms are extended rationals (Rat.tla): finite >= 0, NaN, Inf.          *)
(***************************************************************************)
EXTENDS Rat, Naturals, TLC

CONSTANTS Configs,     \* set of configuration records
          NormVals,    \* norms the environment may produce after an iteration
          FirstVals    \* norms the environment may produce for the initial measurement

NLKinds == {"newton", "broyden", "nlbgs", "nlbj"}
LNKinds == {"lnbgs", "lnbj"}

VARIABLES cfg, pc, iter, its, norm, norm0, stallRef, stallCount, stalled, forced, outcome, raised, hist
vars == <<cfg, pc, iter, its, norm, norm0, stallRef, stallCount, stalled, forced, outcome, raised, hist>>

IsNL == cfg.kind \in NLKinds

\* does _iter_initialize measure a norm, and which iteration count results
Measures(c) == CASE c.kind \in {"newton", "broyden"} -> TRUE
                 [] c.kind \in {"nlbgs", "nlbj"} -> c.maxiter > 0
                 [] OTHER -> c.maxiter > 1
InitIter(c) == IF c.kind = "nlbgs" /\ c.maxiter >= 2 THEN 1 ELSE 0   \* NLBGS' first _run_apply is a sweep

Rel(n, n0) == XDiv(n, n0)
NotMet(n, n0, c) == XGt(n, c.atol) /\ XGt(Rel(n, n0), c.rtol)          \* the code's `norm > atol and norm/norm0 > rtol`
Bad(n) == IsNaN(n) \/ IsInf(n)
\* the contract's reading: the norm is a number and is not above both tolerances.  For a finite initial norm this
\* is "n <= atol or n/n0 <= rtol".  It differs only when the *initial* norm was NaN (possible only through the forced
\* complex-step iteration): then n/n0 is NaN, which is not above rtol, and the code reports success; the property's
\* last sentence ("never leaves a residual norm above both tolerances") is the reading used (DESIGN.md, C09).
Meets(n, n0, c) == ~Bad(n) /\ ~(XGt(n, c.atol) /\ XGt(Rel(n, n0), c.rtol))
MeetsStrict(n, n0, c) == ~Bad(n) /\ (XLe(n, c.atol) \/ XLe(Rel(n, n0), c.rtol))

LoopCond == (iter < cfg.maxiter /\ NotMet(norm, norm0, cfg) /\ ~stalled) \/ forced

Init == /\ cfg \in Configs
        /\ pc = "init"
        /\ iter = 0 /\ its = 0
        /\ norm = One /\ norm0 = One
        /\ stallRef = One /\ stallCount = 0 /\ stalled = FALSE
        /\ forced = FALSE
        /\ outcome = "none" /\ raised = FALSE
        /\ hist = <<>>

IterInit(n) ==
    /\ pc = "init"
    /\ IF Measures(cfg)
       THEN /\ n \in FirstVals
            /\ norm' = n
            /\ norm0' = IF n = Zero THEN One ELSE n
            /\ hist' = <<n>>
       ELSE /\ n = One
            /\ norm' = One /\ norm0' = One /\ hist' = <<>>
    /\ iter' = InitIter(cfg)
    /\ stallRef' = norm0'                       \* `stall_norm = norm0` (also in 'rel' mode, as the code does)
    /\ forced' = (IsNL /\ cfg.cs)               \* force_one_iteration = system.under_complex_step
    /\ pc' = "loop"
    /\ UNCHANGED <<cfg, its, stallCount, stalled, outcome, raised>>

Iterate(n) ==
    /\ pc = "loop" /\ LoopCond
    /\ n \in NormVals
    /\ forced' = FALSE
    /\ iter' = iter + 1 /\ its' = its + 1
    /\ norm' = n
    /\ hist' = Append(hist, n)
    /\ IF IsNL /\ cfg.stall_limit > 0
       THEN LET x == IF cfg.stall_type = "rel" THEN Rel(n, norm0) ELSE n
                near == XLe(XAbsDiff(stallRef, x), cfg.stall_tol)
            IN IF near
               THEN /\ stallCount' = stallCount + 1
                    /\ stalled' = (stallCount + 1 >= cfg.stall_limit)
                    /\ stallRef' = stallRef
               ELSE /\ stallCount' = 0 /\ stallRef' = x /\ stalled' = stalled
       ELSE UNCHANGED <<stallRef, stallCount, stalled>>
    /\ UNCHANGED <<cfg, pc, norm0, outcome, raised>>

Classify ==
    /\ pc = "loop" /\ ~LoopCond
    /\ outcome' = CASE Bad(norm) -> "naninf_fail"
                    [] ~Bad(norm) /\ stalled /\ NotMet(norm, norm0, cfg) -> "stall_fail"
                    [] ~Bad(norm) /\ ~stalled /\ NotMet(norm, norm0, cfg) -> "maxiter_fail"
                    [] OTHER -> "converged"
    /\ raised' = (cfg.err /\ outcome' # "converged")
    /\ pc' = "done"
    /\ UNCHANGED <<cfg, iter, its, norm, norm0, stallRef, stallCount, stalled, forced, hist>>

Next == (\E n \in FirstVals \cup {One} : IterInit(n)) \/ (\E n \in NormVals : Iterate(n)) \/ Classify

Spec == Init /\ [][Next]_vars

-----------------------------------------------------------------------------
\* C09
CsExtra == IF IsNL /\ cfg.cs THEN 1 ELSE 0
IterBound == iter <= cfg.maxiter + CsExtra /\ its <= cfg.maxiter + CsExtra

\* the loop never iterates from an iterate that already meets a tolerance (except the forced cs iteration)
StopsAtFirst == [][its' = its + 1 => (~Meets(norm, norm0, cfg) \/ forced)]_vars

\* failure is reported exactly when the solver stops without meeting a tolerance
FailIffNotMet == pc = "done" => ((outcome # "converged") <=> ~Meets(norm, norm0, cfg))

RaiseIffFail == pc = "done" => (raised <=> (cfg.err /\ outcome # "converged"))

SuccessSound == outcome = "converged" => Meets(norm, norm0, cfg) /\ (~IsNaN(norm0) => MeetsStrict(norm, norm0, cfg))

\* stopping is justified: at "done" either a tolerance is met, the budget is exhausted, the norm is NaN, or a stall
StopJustified == pc = "done" => \/ Meets(norm, norm0, cfg)
                                 \/ iter >= cfg.maxiter
                                 \/ IsNaN(norm) \/ IsNaN(Rel(norm, norm0))
                                 \/ stalled
=============================================================================
