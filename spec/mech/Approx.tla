------------------------------- MODULE Approx -------------------------------
(***************************************************************************)
(* What the finite-difference and complex-step approximation schemes       *)
(* DEFINE, in exact rational arithmetic (C12).                             *)
(*                                                                         *)
(* Functions are polynomial: a component maps the flat inputs X[1..n] to   *)
(* outputs y_r = sum of monomials c * X[a] * X[b] (X[0] = 1, integer c),   *)
(* so degree <= 2; a system is one component, or a chain c2 o c1 of total  *)
(* degree <= 2, optionally with an implicit last component                 *)
(* (residual d*y - c2(z), i.e. y = c2(z)/d).                               *)
(*                                                                         *)
(* TLC integers are 32 bit, so f(x + s) cannot be evaluated directly for   *)
(* s = 2^-20 (s^2 = 2^-40).  The step is therefore kept FORMAL: values are *)
(* "jets" <<p0,...,p4>> = p0 + p1 t + ... + p4 t^4, polynomials in the     *)
(* step symbol t with rational coefficients.  The scheme's combination     *)
(*     sum_k coeffs[k] * f(x + deltas[k] t e_i) + current_coeff * f(x)     *)
(* (the table FD_COEFFS of finite_difference.py) is a jet whose constant   *)
(* term vanishes; dividing by t and substituting the effective step gives  *)
(* the exact quotient the scheme defines.  TruncationLaw relates it to the *)
(* independently (symbolically) computed derivatives, DirectLaw re-checks  *)
(* the jet arithmetic by plain rational evaluation at the step 1/8.        *)
(***************************************************************************)
EXTENDS Rat, Naturals, FiniteSets, TLC, Json

CONSTANTS LayoutCodes, \* input layouts of single components, as decimal codes: 12 = a variable of size 1 and one of size 2
          ChainLayoutCodes,  \* the same for chains
          DenseMs,     \* numbers of scalar outputs of the dense single components (subset of 1..3)
          StepCfgs,    \* {100*e1 + e2}: step 2^-e1, minimum_step 2^-e2   (component partials)
          ChainCfgs,   \* the same for chains (approx_totals has no minimum_step argument: no floor may trigger)
          Families,    \* subset of {"dense", "sparse", "chainA", "chainB", "chainS"}
          WithImplicit \* BOOLEAN: chains also end in an implicit component d*y - c2(z) = 0

Divs == IF WithImplicit THEN {0, 2, -4} ELSE {0}     \* divisors d of the implicit last component; 0 = explicit

RECURSIVE Pow2(_)
Pow2(e) == IF e = 0 THEN 1 ELSE 2 * Pow2(e - 1)
StepOf(e) == Q(1, Pow2(e))
HExp(c) == c \div 100       \* configuration files cannot hold tuples: a step configuration is 100*e1 + e2
MExp(c) == c % 100

\* ---------------------------------------------------------------------------------------------------
\* variable layouts: the flat inputs 1..n are split into variables of the given sizes
RECURSIVE SeqSum(_)
SeqSum(s) == IF s = <<>> THEN 0 ELSE s[1] + SeqSum(Tail(s))
\* (configuration files cannot hold tuples) codes 1, 2, 3, 11, 12, 21, 111: at most 3 scalar inputs
LayOf(c) == IF c < 10 THEN <<c>> ELSE IF c < 100 THEN <<c \div 10, c % 10>> ELSE <<c \div 100, (c \div 10) % 10, c % 10>>
Start(l, v) == 1 + SeqSum(SubSeq(l, 1, v - 1))
VarOf(l, i) == CHOOSE v \in 1..Len(l) : Start(l, v) <= i /\ i < Start(l, v) + l[v]
VarVec(l, x, v) == [k \in 1..l[v] |-> x[Start(l, v) + k - 1]]
OLay(m) == CASE m = 1 -> <<1>> [] m = 2 -> <<1, 1>> [] OTHER -> <<1, 2>>

\* ---------------------------------------------------------------------------------------------------
\* jets: polynomials of degree <= 4 in the formal step t
JZero == <<Zero, Zero, Zero, Zero, Zero>>
JConst(c) == <<c, Zero, Zero, Zero, Zero>>
JVar(x, d) == <<x, d, Zero, Zero, Zero>>                \* x + d t
JAdd(p, q) == [k \in 1..5 |-> Add(p[k], q[k])]
JScale(c, p) == [k \in 1..5 |-> Mul(c, p[k])]
JMul(p, q) == [k \in 1..5 |-> SumSeq([i \in 1..k |-> Mul(p[i], q[k - i + 1])])]   \* exact for deg p + deg q <= 4
RECURSIVE JSumSeq(_)
JSumSeq(s) == IF s = <<>> THEN JZero ELSE JAdd(s[1], JSumSeq(Tail(s)))

\* a monomial is <<c, a, b>> = c * X[a] * X[b], 0 <= a <= b, X[0] = 1; a polynomial is a sequence of monomials;
\* a component is a sequence of polynomials (one per scalar output)
JX(X, a) == IF a = 0 THEN JConst(One) ELSE X[a]
MonoJ(m, X) == JScale(R(m[1]), JMul(JX(X, m[2]), JX(X, m[3])))
PolyJ(p, X) == JSumSeq([k \in 1..Len(p) |-> MonoJ(p[k], X)])
CompJ(c, X) == [r \in 1..Len(c) |-> PolyJ(c[r], X)]

N(s) == SeqSum(s.lay)
M(s) == IF s.c2 = <<>> THEN Len(s.c1) ELSE Len(s.c2)
SysJ(s, X) == LET z == CompJ(s.c1, X) IN
              IF s.c2 = <<>> THEN z
              ELSE LET y == CompJ(s.c2, z) IN
                   IF s.d = 0 THEN y ELSE [r \in 1..Len(y) |-> JScale(Inv(R(s.d)), y[r])]

\* the model's outputs at the point (what run_model leaves in the output vector of the last component)
Outputs(s) == LET y == SysJ(s, [j \in 1..N(s) |-> JConst(s.x[j])]) IN [r \in 1..M(s) |-> y[r][1]]
Mid(s) == LET z == CompJ(s.c1, [j \in 1..N(s) |-> JConst(s.x[j])]) IN [r \in 1..Len(s.c1) |-> z[r][1]]

\* ---------------------------------------------------------------------------------------------------
\* the finite-difference forms (finite_difference.py, FD_COEFFS): deltas and coeffs are scaled by step, 1/step
Forms == [forward  |-> [deltas |-> <<One>>, coeffs |-> <<One>>, cur |-> Neg(One)],
          backward |-> [deltas |-> <<Neg(One)>>, coeffs |-> <<Neg(One)>>, cur |-> One],
          central  |-> [deltas |-> <<One, Neg(One)>>, coeffs |-> <<Q(1, 2), Q(-1, 2)>>, cur |-> Zero]]
FormNames == {"forward", "backward", "central"}
StepCalcs == {"abs", "rel", "rel_avg", "rel_element", "rel_legacy"}

\* t * (scheme's quotient) for column i, all rows, as jets in t
Numer(s, form, i) ==
    LET fm == Forms[form]
        base == SysJ(s, [j \in 1..N(s) |-> JConst(s.x[j])])
        pert(k) == SysJ(s, [j \in 1..N(s) |-> JVar(s.x[j], IF j = i THEN fm.deltas[k] ELSE Zero)])
    IN [r \in 1..M(s) |-> JAdd(JScale(fm.cur, base[r]),
                               JSumSeq([k \in 1..Len(fm.deltas) |-> JScale(fm.coeffs[k], pert(k)[r])]))]
\* (jet / t) evaluated at t = st; the t^2 and t^3 terms of the quotient vanish for degree <= 2 (Degree2)
QuotAt(nj, st) == Add(nj[2], Mul(nj[3], st))

\* effective step of column i
AbsSum(v) == SumSeq([k \in 1..Len(v) |-> RAbs(v[k])])
SqSum(v) == SumSeq([k \in 1..Len(v) |-> Mul(v[k], v[k])])
IsSquare(n) == \E r \in 0..n : r * r = n
ISqrt(n) == CHOOSE r \in 0..n : r * r = n
RNorm(v) == LET q == SqSum(v) IN Q(ISqrt(q[1]), ISqrt(q[2]))      \* Pythagorean vectors only (checked by StepLaws)
AtLeast(st, ms) == IF Lt(st, ms) THEN ms ELSE st
EffStep(s, sc, i) ==
    LET vec == VarVec(s.lay, s.x, VarOf(s.lay, i))
        h == StepOf(HExp(s.cfg))
        ms == StepOf(MExp(s.cfg))
    IN CASE sc = "abs" -> h
         [] sc \in {"rel", "rel_avg"} -> AtLeast(Mul(h, Div(AbsSum(vec), R(Len(vec)))), ms)
         [] sc = "rel_legacy" -> AtLeast(Mul(h, RNorm(vec)), ms)
         [] sc = "rel_element" -> AtLeast(Mul(h, RAbs(s.x[i])), ms)

FDJacOf(s, num, sc) == [r \in 1..M(s) |-> [i \in 1..N(s) |-> QuotAt(num[i][r], EffStep(s, sc, i))]]
FDJac(s, form, sc) == FDJacOf(s, [i \in 1..N(s) |-> Numer(s, form, i)], sc)

\* ---------------------------------------------------------------------------------------------------
\* symbolic derivatives (independent of the jets)
XV(x, a) == IF a = 0 THEN One ELSE x[a]
GradMono(m, x, i) == Mul(R(m[1]), Add(IF m[2] = i THEN XV(x, m[3]) ELSE Zero, IF m[3] = i THEN XV(x, m[2]) ELSE Zero))
Grad(p, x, i) == SumSeq([k \in 1..Len(p) |-> GradMono(p[k], x, i)])
HessMono(m, i, j) == m[1] * ((IF m[2] = i /\ m[3] = j THEN 1 ELSE 0) + (IF m[2] = j /\ m[3] = i THEN 1 ELSE 0))
RECURSIVE ISum(_)
ISum(q) == IF q = <<>> THEN 0 ELSE q[1] + ISum(Tail(q))
Hess(p, i, j) == ISum([k \in 1..Len(p) |-> HessMono(p[k], i, j)])
UnDiv(s, v) == IF s.c2 = <<>> \/ s.d = 0 THEN v ELSE Div(v, R(s.d))
\* first derivative of output r with respect to flat input i (chain rule for chains)
D1(s) == LET n1 == Len(s.c1)
             G == [k \in 1..n1 |-> [i \in 1..N(s) |-> Grad(s.c1[k], s.x, i)]]
             z == Mid(s)
         IN IF s.c2 = <<>> THEN G
            ELSE [r \in 1..Len(s.c2) |-> [i \in 1..N(s) |->
                     UnDiv(s, SumSeq([k \in 1..n1 |-> Mul(Grad(s.c2[r], z, k), G[k][i])]))]]
\* second derivative of output r along e_i
D2(s) == LET n1 == Len(s.c1)
             G == [k \in 1..n1 |-> [i \in 1..N(s) |-> Grad(s.c1[k], s.x, i)]]
             z == Mid(s)
         IN IF s.c2 = <<>> THEN [r \in 1..n1 |-> [i \in 1..N(s) |-> R(Hess(s.c1[r], i, i))]]
            ELSE [r \in 1..Len(s.c2) |-> [i \in 1..N(s) |->
                     UnDiv(s, Add(SumSeq([k \in 1..n1 |-> SumSeq([l \in 1..n1 |->
                                     Mul(R(Hess(s.c2[r], k, l)), Mul(G[k][i], G[l][i]))])]),
                                  SumSeq([k \in 1..n1 |-> Mul(Grad(s.c2[r], z, k), R(Hess(s.c1[k], i, i)))])))]]
\* complex step: Im f(x + i h e_i) / h = f'(x) exactly for degree <= 2 (the h^3 term is absent)
CSJac(s) == D1(s)

\* every approximation the code offers, with the Jacobian it defines
AllJacs(s) == LET num == [f \in FormNames |-> [i \in 1..N(s) |-> Numer(s, f, i)]]
              IN {[form |-> f, sc |-> c, J |-> FDJacOf(s, num[f], c), st |-> [i \in 1..N(s) |-> EffStep(s, c, i)]] :
                        f \in FormNames, c \in StepCalcs}
                 \cup {[form |-> "cs", sc |-> "none", J |-> CSJac(s), st |-> <<>>]}

\* structural sparsity: does output r of component c involve input i
Dep(c, r, i) == \E k \in 1..Len(c[r]) : c[r][k][2] = i \/ c[r][k][3] = i
SysDep(s, r, i) == IF s.c2 = <<>> THEN Dep(s.c1, r, i)
                   ELSE \E k \in 1..Len(s.c1) : Dep(s.c2, r, k) /\ Dep(s.c1, k, i)
\* two columns never share a row: a column coloring saves at least one evaluation
Colorable(s) == \E i, j \in 1..N(s) : i < j /\ \A r \in 1..M(s) : ~(SysDep(s, r, i) /\ SysDep(s, r, j))

\* ---------------------------------------------------------------------------------------------------
\* scenario libraries
\* points: variable number v of the layout takes vector number ((k + v) mod 3) of its size; chains avoid zeros
Vec(size, k, nz) ==
    CASE size = 1 -> (IF nz THEN <<<<R(3)>>, <<Q(-1, 2)>>, <<R(2)>>>> ELSE <<<<R(3)>>, <<Q(-1, 2)>>, <<Zero>>>>)[k]
      [] size = 2 -> (IF nz THEN <<<<R(3), R(-4)>>, <<Q(3, 2), R(2)>>, <<R(-4), R(3)>>>>
                      ELSE <<<<R(3), R(-4)>>, <<Q(3, 2), R(2)>>, <<Zero, R(2)>>>>)[k]
      [] OTHER -> (IF nz THEN <<<<R(2), R(-3), R(6)>>, <<R(1), R(2), R(2)>>, <<R(-2), R(1), R(2)>>>>
                   ELSE <<<<R(2), R(-3), R(6)>>, <<Zero, R(4), R(-3)>>, <<Zero, Zero, Zero>>>>)[k]
RECURSIVE Concat(_)
Concat(ss) == IF ss = <<>> THEN <<>> ELSE ss[1] \o Concat(Tail(ss))
Point(l, k, nz) == Concat([v \in 1..Len(l) |-> Vec(l[v], ((k + v) % 3) + 1, nz)])

\* quadratic polynomials over n inputs from a seed <<a, b, d, cs>>: cs = 1: 3 X[a] X[b] - 2 X[d] + 1 ; cs = 2: -2 X[a] X[b] + X[d]
Pairs(n) == {<<a, b>> \in (1..n) \X (1..n) : a <= b}
Seeds(n) == {<<pr[1], pr[2], (pr[2] % n) + 1, cs>> : pr \in Pairs(n), cs \in 1..2}
ChainSeeds(n) == {<<a, (a % n) + 1, a, 1 + (a % 2)>> : a \in 1..n} \cup {<<1, 1, 1, 1>>}
PolyOf(a, b, d, cs) == LET lo == IF a <= b THEN a ELSE b
                           hi == IF a <= b THEN b ELSE a
                       IN IF cs = 1 THEN <<<<3, lo, hi>>, <<-2, 0, d>>, <<1, 0, 0>>>> ELSE <<<<-2, lo, hi>>, <<1, 0, d>>>>
Rot(a, r, n) == ((a - 1 + r - 1) % n) + 1
\* component with m outputs: output r is the seed polynomial with the input indices rotated by r-1, alternating variant
DenseComp(n, m, q) == [r \in 1..m |-> PolyOf(Rot(q[1], r, n), Rot(q[2], r, n), Rot(q[3], r, n), ((q[4] + r) % 2) + 1)]
\* sparse component: output r involves only the inputs sg[r] = <<a, b>> (a <= b)
SparsePats(n) == IF n = 2 THEN {<<<<1, 1>>, <<2, 2>>>>, <<<<2, 2>>, <<1, 1>>>>, <<<<1, 1>>, <<2, 2>>, <<1, 1>>>>}
                 ELSE IF n = 3 THEN {<<<<1, 1>>, <<2, 2>>, <<3, 3>>>>, <<<<2, 2>>, <<3, 3>>, <<1, 1>>>>, <<<<1, 2>>, <<3, 3>>>>,
                                     <<<<3, 3>>, <<1, 2>>>>, <<<<1, 1>>, <<2, 3>>, <<1, 1>>>>, <<<<1, 3>>, <<2, 2>>, <<1, 3>>>>}
                 ELSE {}
SparseComp(m, sg) == [r \in 1..m |-> PolyOf(sg[r][1], sg[r][2], sg[r][1], (r % 2) + 1)]
\* dense affine component: nin inputs, mo outputs, variant t
AffCoef(r, k, t) == <<2, -1, 3>>[((r + k + t) % 3) + 1]
AffComp(nin, mo, t) == [r \in 1..mo |-> [k \in 1..nin + 1 |-> IF k <= nin THEN <<AffCoef(r, k, t), 0, k>> ELSE <<r - 2, 0, 0>>]]
DiagAff(n) == [r \in 1..n |-> <<<<2, 0, r>>, <<-1, 0, 0>>>>]
DiagQuad(n) == [r \in 1..n |-> PolyOf(r, r, r, (r % 2) + 1)]

\* ---------------------------------------------------------------------------------------------------
\* the state machine: Init fixes family, layout and step configuration; Choose the functions and the point and
\* "runs the model" (vecs); Approximate computes every approximation and must leave the vectors alone.
VARIABLES stage, scen, vecs, jacs
vars == <<stage, scen, vecs, jacs>>

Blank(f, l, c) == [fam |-> f, lay |-> l, cfg |-> c, c1 |-> <<>>, c2 |-> <<>>, d |-> 0, x |-> <<>>, pt |-> 0]
Init == /\ stage = 0
        /\ scen \in {Blank(f, LayOf(l), c) : f \in Families \cap {"dense", "sparse"}, l \in LayoutCodes, c \in StepCfgs}
                    \cup {Blank(f, LayOf(l), c) : f \in Families \ {"dense", "sparse"}, l \in ChainLayoutCodes, c \in ChainCfgs}
        /\ vecs = <<>>
        /\ jacs = {}

Degree2(s) == \A i \in 1..N(s) : LET nj == Numer(s, "forward", i) IN \A r \in 1..M(s) : nj[r][4] = Zero /\ nj[r][5] = Zero

\* <<size of the intermediate variable, number of outputs, affine variant, implicit divisor (0 = explicit)>>
ChainShapes == {<<1, 1, 1, 0>>, <<2, 2, 2, 0>>} \cup (IF WithImplicit THEN {<<2, 1, 1, 2>>, <<1, 2, 2, -4>>} ELSE {})
Candidates(b) ==
    LET n == SeqSum(b.lay) IN
    CASE b.fam = "dense" ->
            {[b EXCEPT !.c1 = DenseComp(n, m, q), !.x = Point(b.lay, k, FALSE), !.pt = k] :
                m \in DenseMs, q \in Seeds(n), k \in 1..3}
      [] b.fam = "sparse" ->
            \* point 0 has no zero coordinate: a dynamic coloring samples the sparsity at the first point it sees
            {[b EXCEPT !.c1 = SparseComp(sg[1], sg[2]), !.x = IF k = 0 THEN Point(b.lay, 1, TRUE) ELSE Point(b.lay, k, FALSE),
                       !.pt = k] : sg \in {<<Len(g), g>> : g \in SparsePats(n)}, k \in 0..3}
      [] b.fam = "chainA" ->        \* quadratic then affine
            {[b EXCEPT !.c1 = DenseComp(n, w[1], q), !.c2 = AffComp(w[1], w[2], w[3]), !.d = w[4],
                       !.x = Point(b.lay, k, TRUE), !.pt = k] : q \in ChainSeeds(n), w \in ChainShapes, k \in 1..3}
      [] b.fam = "chainB" ->        \* affine then quadratic
            {[b EXCEPT !.c1 = AffComp(n, w[1], w[3]), !.c2 = DenseComp(w[1], w[2], q), !.d = w[4],
                       !.x = Point(b.lay, k, TRUE), !.pt = k] : w \in ChainShapes, q \in ChainSeeds(2), k \in 1..3}
      [] b.fam = "chainS" ->        \* diagonal chains (colorable total Jacobian)
            {[b EXCEPT !.c1 = IF t = 1 THEN DiagQuad(n) ELSE DiagAff(n), !.c2 = IF t = 1 THEN DiagAff(n) ELSE DiagQuad(n),
                       !.d = dv, !.x = Point(b.lay, k, TRUE), !.pt = k] : t \in 1..2, dv \in Divs \ {-4}, k \in 1..3}

WellFormed(s) ==
    /\ s.c2 # <<>> => \A r \in 1..Len(s.c2) : \A k \in 1..Len(s.c2[r]) : s.c2[r][k][3] <= Len(s.c1)
    /\ s.fam = "sparse" => Colorable(s)

Choose == /\ stage = 0 /\ stage' = 1
          /\ \E c \in Candidates(scen) : WellFormed(c) /\ Degree2(c) /\ scen' = c
          /\ vecs' = [inputs |-> scen'.x, outputs |-> Outputs(scen'), mid |-> IF scen'.c2 = <<>> THEN <<>> ELSE Mid(scen')]
          /\ jacs' = {}

\* computing approximations is a read-only action on the vectors
Approximate == /\ stage = 1 /\ stage' = 2
               /\ jacs' = AllJacs(scen)
               /\ UNCHANGED <<scen, vecs>>

Next == Choose \/ Approximate

\* ---------------------------------------------------------------------------------------------------
\* laws (checked by TLC on every scenario)
JOf(form, sc) == (CHOOSE e \in jacs : e.form = form /\ e.sc = sc).J
Cols == 1..N(scen)
Rows == 1..M(scen)

\* the weights of every form sum to zero (constant term of the numerator jet) and the function has degree <= 2
FormConsistent == stage = 1 => \A f \in FormNames : \A i \in Cols : LET nj == Numer(scen, f, i) IN
                      \A r \in Rows : nj[r][1] = Zero /\ nj[r][4] = Zero /\ nj[r][5] = Zero

\* forward/backward quotient = f' +/- step * f''/2, central = f' ; cs = f'
TruncationLaw == stage = 2 =>
    LET d1 == D1(scen)
        d2 == D2(scen)
    IN \A sc \in StepCalcs :
        LET jf == JOf("forward", sc)
            jb == JOf("backward", sc)
            jc == JOf("central", sc)
        IN \A r \in Rows : \A i \in Cols :
            LET half == Mul(Q(1, 2), Mul(EffStep(scen, sc, i), d2[r][i]))
            IN /\ jf[r][i] = Add(d1[r][i], half)
               /\ jb[r][i] = Sub(d1[r][i], half)
               /\ jc[r][i] = d1[r][i]
\* (with TruncationLaw for the central form this also ties the symbolic derivative to the t-coefficient of the jets)
CsExact == stage = 2 => JOf("cs", "none") = D1(scen)

\* plain rational evaluation of the scheme at the step 1/8 agrees with the jet arithmetic
EvalAt(s, xx) == LET y == SysJ(s, [j \in 1..N(s) |-> JConst(xx[j])]) IN [r \in 1..M(s) |-> y[r][1]]
DirectLaw == stage = 1 => \A f \in FormNames : \A i \in Cols :
    LET fm == Forms[f]
        st == Q(1, 8)
        base == EvalAt(scen, scen.x)
        pert(k) == EvalAt(scen, [j \in Cols |-> IF j = i THEN Add(scen.x[j], Mul(fm.deltas[k], st)) ELSE scen.x[j]])
        nj == Numer(scen, f, i)
    IN \A r \in Rows :
         Add(Mul(Div(fm.cur, st), base[r]), SumSeq([k \in 1..Len(fm.deltas) |-> Mul(Div(fm.coeffs[k], st), pert(k)[r])]))
            = QuotAt(nj[r], st)

\* steps: positive; abs ignores the point; rel = rel_avg; relative modes are bounded below by minimum_step;
\* on a one-element variable all relative modes coincide; the norm used by rel_legacy is rational
StepLaws == stage = 1 => \A i \in Cols :
    LET l == scen.lay
        vec == VarVec(l, scen.x, VarOf(l, i))
    IN /\ IsSquare(SqSum(vec)[1]) /\ IsSquare(SqSum(vec)[2])
       /\ \A sc \in StepCalcs : RSgn(EffStep(scen, sc, i)) > 0
       /\ EffStep(scen, "abs", i) = StepOf(HExp(scen.cfg))
       /\ EffStep(scen, "rel", i) = EffStep(scen, "rel_avg", i)
       /\ \A sc \in StepCalcs \ {"abs"} : Ge(EffStep(scen, sc, i), StepOf(MExp(scen.cfg)))
       /\ Len(vec) = 1 => EffStep(scen, "rel_avg", i) = EffStep(scen, "rel_element", i)
                          /\ EffStep(scen, "rel_legacy", i) = EffStep(scen, "rel_element", i)
\* chains (approx_totals cannot set minimum_step): the floor is never active, so its value is immaterial
NoFloorInChains == (stage = 1 /\ scen.c2 # <<>>) => \A i \in Cols : \A sc \in StepCalcs \ {"abs"} :
                       Gt(EffStep(scen, sc, i), StepOf(MExp(scen.cfg)))

\* approximating is read-only (action property)
ReadOnly == [][stage = 1 => vecs' = vecs]_vars

Export == stage = 2 =>
    PrintT(<<"EXP", ToJson([s |-> [scen EXCEPT !.cfg = <<StepOf(HExp(scen.cfg)), StepOf(MExp(scen.cfg))>>],
                            olay |-> OLay(M(scen)), colorable |-> Colorable(scen),
                            y |-> vecs.outputs, z |-> vecs.mid, jacs |-> jacs])>>)
=============================================================================
