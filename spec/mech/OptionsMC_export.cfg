CONSTANTS
  Scenarios <- AllScenarios
  MaxNest = 1
  MaxKw = 2
INIT Init
NEXT XNext
VIEW View
INVARIANT ExportInit
