---------------------------- MODULE JacobianMC ----------------------------
(* Layouts, checking and export configuration for Jacobian.tla (C11).       *)
(* harness/vf/drivers/c11.py builds exactly these layouts as real           *)
(* components (and generates further random ones in the thorough tier into  *)
(* a module that EXTENDS this one).                                         *)
EXTENDS Jacobian, Json

O(c, n, sz, u) == [c |-> c, n |-> n, sz |-> sz, u |-> u]                       \* output: component, name, size, units
I(c, n, sz, src, idx, fac) == [c |-> c, n |-> n, sz |-> sz, src |-> src, idx |-> idx, fac |-> fac]
In(i) == [k |-> "in", i |-> i]
Out(i) == [k |-> "out", i |-> i]
S(of, wrt, kind, pat) == [of |-> of, wrt |-> wrt, kind |-> kind, pat |-> pat]

\* L1: every kind; a repeated source index (d), negative indices (a, e), factor 1000 (a, d), two inputs reading the
\*     same source positions (d, e), a coo matrix with a duplicated entry (twice), feedback c2 -> c1, implicit c2
L1 == [name |-> "L1", rcdup |-> FALSE,
       outs |-> <<O(0, "x", 3, "km"), O(1, "y", 3, "km"), O(1, "z", 2, "none"), O(2, "w", 2, "none"), O(2, "s", 3, "none")>>,
       ins |-> <<I(1, "a", 2, 1, <<-1, 0>>, 1000), I(1, "b", 3, 5, <<>>, 1), I(2, "d", 3, 2, <<2, 0, 2>>, 1000),
                 I(2, "e", 2, 2, <<-1, -3>>, 1), I(2, "f", 1, 1, <<1>>, 1)>>,
       impl |-> {2},
       subs |-> <<S(2, In(1), "dense", <<>>), S(2, In(2), "rc", <<<<0, 0>>, <<1, 2>>, <<2, 1>>, <<2, 2>>>>),
                  S(3, In(1), "coo", <<<<0, 1>>, <<1, 0>>, <<0, 1>>>>), S(3, In(2), "csr", <<<<0, 0>>, <<0, 2>>, <<1, 1>>>>),
                  S(4, In(3), "dense", <<>>), S(4, In(4), "csc", <<<<0, 0>>, <<1, 0>>, <<1, 1>>>>),
                  S(5, In(3), "diag", <<>>), S(5, In(4), "rc", <<<<0, 0>>, <<2, 1>>, <<1, 1>>>>),
                  S(4, Out(4), "dense", <<>>), S(5, Out(5), "diag", <<>>),
                  S(4, Out(5), "coo", <<<<0, 0>>, <<1, 2>>, <<1, 2>>>>), S(5, In(5), "dense", <<>>),
                  S(4, In(5), "csr", <<<<1, 0>>>>)>>]

\* L2: no cell is hit twice (the dense format writes in place); two inputs of one component read DIFFERENT positions of
\*     the same source with different unit factors (d: 1, e: 1000), dense sub-Jacobians through src_indices
L2 == [name |-> "L2", rcdup |-> FALSE,
       outs |-> <<O(0, "x", 2, "km"), O(1, "y", 3, "km"), O(2, "w", 2, "none"), O(2, "s", 1, "none")>>,
       ins |-> <<I(1, "a", 2, 1, <<>>, 1000), I(2, "d", 2, 2, <<2, 0>>, 1), I(2, "e", 1, 2, <<-2>>, 1000)>>,
       impl |-> {2},
       subs |-> <<S(2, In(1), "rc", <<<<0, 1>>, <<1, 0>>, <<2, 1>>>>), S(3, In(2), "dense", <<>>), S(3, In(3), "dense", <<>>),
                  S(4, In(2), "csc", <<<<0, 1>>>>), S(4, In(3), "rc", <<<<0, 0>>>>),
                  S(3, Out(3), "diag", <<>>), S(4, Out(4), "dense", <<>>)>>]

\* L3: no coo and no rows/cols kinds; repeats through negative indices, an external input with a repeated index,
\*     overlapping inputs (d, h), implicit c2 with off-diagonal blocks between its own outputs
L3 == [name |-> "L3", rcdup |-> FALSE,
       outs |-> <<O(0, "x", 2, "none"), O(1, "y", 2, "km"), O(1, "z", 3, "none"), O(2, "w", 3, "none"), O(2, "s", 1, "none")>>,
       ins |-> <<I(1, "a", 3, 1, <<1, 0, 1>>, 1), I(2, "d", 3, 2, <<-1, 0, -1>>, 1000), I(2, "e", 3, 3, <<>>, 1),
                 I(1, "b", 1, 5, <<>>, 1), I(2, "h", 2, 2, <<>>, 1)>>,
       impl |-> {2},
       subs |-> <<S(2, In(1), "dense", <<>>), S(3, In(1), "csr", <<<<0, 0>>, <<0, 2>>, <<1, 1>>, <<2, 0>>>>),
                  S(3, In(4), "dense", <<>>), S(2, In(4), "csc", <<<<1, 0>>>>),
                  S(4, In(2), "diag", <<>>), S(4, In(3), "csc", <<<<0, 0>>, <<2, 0>>, <<1, 1>>, <<1, 2>>>>),
                  S(4, In(5), "dense", <<>>), S(5, In(2), "csr", <<<<0, 0>>, <<0, 2>>>>), S(5, In(3), "dense", <<>>),
                  S(4, Out(4), "csr", <<<<0, 0>>, <<1, 1>>, <<1, 2>>, <<2, 2>>>>), S(5, Out(5), "dense", <<>>),
                  S(5, Out(4), "csc", <<<<0, 1>>>>), S(4, Out(5), "dense", <<>>)>>]

\* L4: a rows/cols sub-Jacobian that lists one entry twice (declare_partials refuses it: counted, not compared)
L4 == [name |-> "L4", rcdup |-> TRUE,
       outs |-> <<O(0, "x", 2, "none"), O(1, "y", 2, "none"), O(2, "w", 1, "none")>>,
       ins |-> <<I(1, "a", 2, 1, <<>>, 1), I(2, "d", 2, 2, <<1, 1>>, 1)>>,
       impl |-> {},
       subs |-> <<S(2, In(1), "rc", <<<<0, 0>>, <<1, 1>>, <<0, 0>>>>), S(3, In(2), "dense", <<>>)>>]

AllLayouts == <<L1, L2, L3, L4>>

ASSUME PrintT(<<"SCN", ToJson(AllLayouts)>>)

\* what the layouts claim to contain is really there (vacuity guards)
HasDupEntry(Ly) == \E s \in 1..Len(Ly.subs) : LET p == Pat(Ly, Ly.subs[s]) IN \E i, j \in 1..Len(p) : i < j /\ p[i] = p[j]
HasRepeatedSrc(Ly) == \E i \in 1..Len(Ly.ins) : \E c1, c2 \in 0..(Ly.ins[i].sz - 1) : c1 < c2 /\ SrcPos(Ly, Ly.ins[i], c1) = SrcPos(Ly, Ly.ins[i], c2)
HasNegative(Ly) == \E i \in 1..Len(Ly.ins) : \E k \in 1..Len(Ly.ins[i].idx) : Ly.ins[i].idx[k] < 0
HasRepeats(Ly) == LET T == Slots(Ly) IN Cardinality({<<T[t].r, T[t].c>> : t \in 1..Len(T)}) < Len(T)
ASSUME HasDupEntry(L1) /\ HasRepeatedSrc(L1) /\ HasNegative(L1) /\ HasRepeats(L1)
ASSUME ~HasRepeats(L2) /\ HasNegative(L2)
ASSUME HasRepeats(L3) /\ HasRepeatedSrc(L3) /\ ~HasDupEntry(L3)
ASSUME HasDupEntry(L4)

\* replay of one stored scenario: the generated module defines Script (a sequence of action records) and TLC recomputes
\* the expectations along exactly that history
Do(e) == CASE e.a = "Linearize" -> Linearize(e.q)
           [] e.a = "SetComplex" -> SetComplex(e.b)
           [] e.a = "Apply" -> Apply(e.mode, e.sd)

\* a history is exported when it is complete
Export == Len(hist) = Depth => PrintT(<<"EXP", ToJson([ly |-> ly, h |-> hist])>>)
=============================================================================
