-------------------------------- MODULE Expr --------------------------------
(***************************************************************************)
(* Expression trees over ExecComp's function table, their symbolic         *)
(* derivative and their domain side-conditions.  C14 (ExecComp) and C34    *)
(* (function / jax components) replay the trees generated here.            *)
(*                                                                         *)
(* A tree is a uniform tagged record (TLC cannot compare values of         *)
(* different types, so every node has the same four fields):               *)
(*     [t |-> tag, f |-> name, k |-> integer, c |-> <<children>>]          *)
(*   Var(n)        t="var"   f=n                                           *)
(*   Const(v)      t="const" k=v            (small integer)                *)
(*   Un(fn, e)     t="un"    f=fn   c=<<e>>                                *)
(*   Bin(op,a,b)   t="bin"   f=op   c=<<a,b>>                              *)
(*   Pow(e, n)     t="pow"   k=n    c=<<e>>  (integer exponent, e ** n)    *)
(*   Neg(e)        t="neg"          c=<<e>>                                *)
(* All operations are elementwise on arrays, so  d out[i] / d x[j]  is     *)
(* D(e,x)[i] for i = j and 0 otherwise (x an array of the output's shape)  *)
(* and the column D(e,x) when x is a broadcast scalar.                     *)
(*                                                                         *)
(* The primitive functions are uninterpreted here: the harness evaluates   *)
(* them with NumPy (the trusted base).  The spec owns the tree, the        *)
(* differentiation rules (D, DUn) and the side-conditions (Dom).  The      *)
(* algebraic fragment (no transcendental function) is interpreted exactly  *)
(* over the rationals and D is checked there against forward-mode dual     *)
(* numbers (DualLaw).                                                      *)
(*                                                                         *)
(* "sqrt" is not in ExecComp's table; it is needed to write the derivative *)
(* of arcsin/arccos/arcsinh/arccosh over the same alphabet and is rendered *)
(* by the harness as (e)**0.5 for ExecComp and np.sqrt for NumPy/jax.      *)
(***************************************************************************)
EXTENDS Integers, Sequences, FiniteSets, TLC, Json

Rt == INSTANCE Rat

CONSTANTS VarNames,     \* e.g. {"x0", "x1"}
          ConstVals,    \* integer leaves, e.g. {2}
          UnFns,        \* enumerated unary functions, subset of AllUn
          BinOps,       \* enumerated binary operators/functions, subset of AllBin
          PowExps,      \* enumerated integer exponents, e.g. {2, 3, -1}
          MaxDepth,     \* maximal depth (a leaf has depth 0)
          MaxOps        \* maximal number of operator nodes

AllUn == {"sin", "cos", "tan", "exp", "expm1", "log", "log10", "log1p", "tanh", "sinh", "cosh",
          "arctan", "arcsin", "arccos", "arcsinh", "arccosh", "abs", "sqrt"}
AllBin == {"add", "sub", "mul", "div", "arctan2", "maximum", "minimum"}

\* TLC configuration files cannot write negative numbers: PowExps <- PowExpsStd
PowExpsStd == {2, 3, -1}
PowExpsWide == {2, 3, -1, -2}

ASSUME UnFns \subseteq AllUn /\ BinOps \subseteq AllBin /\ PowExps \subseteq Int /\ ConstVals \subseteq Int

\* --- constructors ---------------------------------------------------------------------------------
Node(t, f, k, c) == [t |-> t, f |-> f, k |-> k, c |-> c]
Var(n)       == Node("var", n, 0, <<>>)
Const(v)     == Node("const", "", v, <<>>)
Un(fn, e)    == Node("un", fn, 0, <<e>>)
Bin(op, a, b) == Node("bin", op, 0, <<a, b>>)
Pow(e, n)    == Node("pow", "", n, <<e>>)
Neg(e)       == Node("neg", "", 0, <<e>>)
Add(a, b) == Bin("add", a, b)
Sub(a, b) == Bin("sub", a, b)
Mul(a, b) == Bin("mul", a, b)
Div(a, b) == Bin("div", a, b)
Sqrt(e)   == Un("sqrt", e)

\* --- structure ------------------------------------------------------------------------------------
RECURSIVE Vars(_), Depth(_), Ops(_), WF(_)
Vars(e) == CASE e.t = "var" -> {e.f}
             [] e.t = "const" -> {}
             [] e.t = "bin" -> Vars(e.c[1]) \cup Vars(e.c[2])
             [] OTHER -> Vars(e.c[1])
Max2(a, b) == IF a < b THEN b ELSE a
Depth(e) == CASE e.t \in {"var", "const"} -> 0
              [] e.t = "bin" -> 1 + Max2(Depth(e.c[1]), Depth(e.c[2]))
              [] OTHER -> 1 + Depth(e.c[1])
Ops(e) == CASE e.t \in {"var", "const"} -> 0
            [] e.t = "bin" -> 1 + Ops(e.c[1]) + Ops(e.c[2])
            [] OTHER -> 1 + Ops(e.c[1])
\* well-formed over the full alphabet (derivative trees leave the enumerated subset but never the alphabet)
WF(e) == CASE e.t = "var" -> e.f \in VarNames /\ e.k = 0 /\ e.c = <<>>
           [] e.t = "const" -> e.f = "" /\ e.k \in Int /\ e.c = <<>>
           [] e.t = "un" -> e.f \in AllUn /\ e.k = 0 /\ Len(e.c) = 1 /\ WF(e.c[1])
           [] e.t = "bin" -> e.f \in AllBin /\ e.k = 0 /\ Len(e.c) = 2 /\ WF(e.c[1]) /\ WF(e.c[2])
           [] e.t = "pow" -> e.f = "" /\ e.k \in Int /\ Len(e.c) = 1 /\ WF(e.c[1])
           [] e.t = "neg" -> e.f = "" /\ e.k = 0 /\ Len(e.c) = 1 /\ WF(e.c[1])
           [] OTHER -> FALSE

\* --- differentiation ------------------------------------------------------------------------------
\* derivative of the primitive fn at the argument tree u, written over the same alphabet
DUn(fn, u) ==
    CASE fn = "sin"     -> Un("cos", u)
      [] fn = "cos"     -> Neg(Un("sin", u))
      [] fn = "tan"     -> Add(Const(1), Pow(Un("tan", u), 2))
      [] fn = "exp"     -> Un("exp", u)
      [] fn = "expm1"   -> Un("exp", u)
      [] fn = "log"     -> Div(Const(1), u)
      [] fn = "log10"   -> Div(Const(1), Mul(u, Un("log", Const(10))))
      [] fn = "log1p"   -> Div(Const(1), Add(Const(1), u))
      [] fn = "tanh"    -> Sub(Const(1), Pow(Un("tanh", u), 2))
      [] fn = "sinh"    -> Un("cosh", u)
      [] fn = "cosh"    -> Un("sinh", u)
      [] fn = "arctan"  -> Div(Const(1), Add(Const(1), Pow(u, 2)))
      [] fn = "arcsin"  -> Div(Const(1), Sqrt(Sub(Const(1), Pow(u, 2))))
      [] fn = "arccos"  -> Neg(Div(Const(1), Sqrt(Sub(Const(1), Pow(u, 2)))))
      [] fn = "arcsinh" -> Div(Const(1), Sqrt(Add(Pow(u, 2), Const(1))))
      [] fn = "arccosh" -> Div(Const(1), Sqrt(Sub(Pow(u, 2), Const(1))))
      [] fn = "abs"     -> Div(Un("abs", u), u)                 \* sign(u), u # 0
      [] fn = "sqrt"    -> Div(Const(1), Mul(Const(2), Sqrt(u)))

\* sign(a - b) away from ties
SgnDiff(a, b) == Div(Un("abs", Sub(a, b)), Sub(a, b))

RECURSIVE D(_, _)
D(e, x) ==
    IF x \notin Vars(e) THEN Const(0)
    ELSE CASE e.t = "var" -> Const(1)
           [] e.t = "neg" -> Neg(D(e.c[1], x))
           [] e.t = "pow" -> Mul(Mul(Const(e.k), Pow(e.c[1], e.k - 1)), D(e.c[1], x))
           [] e.t = "un"  -> Mul(DUn(e.f, e.c[1]), D(e.c[1], x))
           [] e.t = "bin" ->
                LET a == e.c[1]
                    b == e.c[2]
                    da == D(a, x)
                    db == D(b, x)
                IN CASE e.f = "add" -> Add(da, db)
                     [] e.f = "sub" -> Sub(da, db)
                     [] e.f = "mul" -> Add(Mul(da, b), Mul(a, db))
                     [] e.f = "div" -> Div(Sub(Mul(da, b), Mul(a, db)), Pow(b, 2))
                     [] e.f = "arctan2" -> Div(Sub(Mul(b, da), Mul(a, db)), Add(Pow(a, 2), Pow(b, 2)))
                     \* max(a,b) = (a + b + |a-b|)/2 ,  min(a,b) = (a + b - |a-b|)/2
                     [] e.f = "maximum" -> Div(Add(Add(da, db), Mul(SgnDiff(a, b), Sub(da, db))), Const(2))
                     [] e.f = "minimum" -> Div(Sub(Add(da, db), Mul(SgnDiff(a, b), Sub(da, db))), Const(2))

\* --- domain side-conditions -----------------------------------------------------------------------
\* A constraint is [k |-> kind, e |-> tree]:  "pos": e > 0   "nz": e # 0 (pole, kink or tie: keep away)
\*                                            "lt1": |e| < 1   "gt1": e > 1
Con(k, e) == [k |-> k, e |-> e]
RECURSIVE Dom(_)
Dom(e) ==
    CASE e.t \in {"var", "const"} -> {}
      [] e.t = "neg" -> Dom(e.c[1])
      [] e.t = "pow" -> Dom(e.c[1]) \cup (IF e.k < 0 THEN {Con("nz", e.c[1])} ELSE {})
      [] e.t = "un"  ->
            LET u == e.c[1] IN
            Dom(u) \cup (CASE e.f \in {"log", "log10", "sqrt"} -> {Con("pos", u)}
                           [] e.f = "log1p" -> {Con("pos", Add(Const(1), u))}
                           [] e.f \in {"arcsin", "arccos"} -> {Con("lt1", u)}
                           [] e.f = "arccosh" -> {Con("gt1", u)}
                           [] e.f = "abs" -> {Con("nz", u)}
                           [] e.f = "tan" -> {Con("nz", Un("cos", u))}
                           [] OTHER -> {})
      [] e.t = "bin" ->
            LET a == e.c[1]
                b == e.c[2]
            IN Dom(a) \cup Dom(b) \cup
               (CASE e.f = "div" -> {Con("nz", b)}
                  [] e.f = "arctan2" -> {Con("pos", Add(Pow(a, 2), Pow(b, 2)))}
                  [] e.f \in {"maximum", "minimum"} -> {Con("nz", Sub(a, b))}
                  [] OTHER -> {})
\* everything the harness must satisfy to compare values and all first derivatives at a point
AllDom(e) == Dom(e) \cup UNION {Dom(D(e, x)) : x \in VarNames}

\* --- exact interpretation of the algebraic fragment -----------------------------------------------
RECURSIVE Algebraic(_)
Algebraic(e) == CASE e.t \in {"var", "const"} -> TRUE
                  [] e.t = "un" -> e.f = "abs" /\ Algebraic(e.c[1])
                  [] e.t = "bin" -> e.f \in {"add", "sub", "mul", "div", "maximum", "minimum"}
                                    /\ Algebraic(e.c[1]) /\ Algebraic(e.c[2])
                  [] OTHER -> Algebraic(e.c[1])
Fin(a) == a[2] # 0
RECURSIVE RPowN(_, _)
RPowN(a, n) == IF n = 0 THEN Rt!One ELSE Rt!Mul(a, RPowN(a, n - 1))         \* n >= 0
RPow(a, n) == IF ~Fin(a) THEN Rt!NaN
              ELSE IF n >= 0 THEN RPowN(a, n)
              ELSE IF a[1] = 0 THEN Rt!NaN ELSE Rt!Inv(RPowN(a, -n))
RDiv(a, b) == IF Fin(a) /\ Fin(b) /\ b[1] # 0 THEN Rt!Div(a, b) ELSE Rt!NaN
RMul(a, b) == IF Fin(a) /\ Fin(b) THEN Rt!Mul(a, b) ELSE Rt!NaN
RAdd(a, b) == IF Fin(a) /\ Fin(b) THEN Rt!Add(a, b) ELSE Rt!NaN
RSub(a, b) == IF Fin(a) /\ Fin(b) THEN Rt!Sub(a, b) ELSE Rt!NaN
RNeg(a)    == IF Fin(a) THEN Rt!Neg(a) ELSE Rt!NaN

\* value of an algebraic tree at env (NaN where undefined)
RECURSIVE Ev(_, _)
Ev(e, env) ==
    CASE e.t = "var" -> env[e.f]
      [] e.t = "const" -> Rt!R(e.k)
      [] e.t = "neg" -> RNeg(Ev(e.c[1], env))
      [] e.t = "pow" -> RPow(Ev(e.c[1], env), e.k)
      [] e.t = "un" -> LET a == Ev(e.c[1], env) IN IF Fin(a) THEN Rt!RAbs(a) ELSE Rt!NaN
      [] e.t = "bin" ->
            LET a == Ev(e.c[1], env)
                b == Ev(e.c[2], env)
            IN CASE e.f = "add" -> RAdd(a, b)
                 [] e.f = "sub" -> RSub(a, b)
                 [] e.f = "mul" -> RMul(a, b)
                 [] e.f = "div" -> RDiv(a, b)
                 [] e.f = "maximum" -> IF Fin(a) /\ Fin(b) THEN Rt!RMax(a, b) ELSE Rt!NaN
                 [] e.f = "minimum" -> IF Fin(a) /\ Fin(b) THEN Rt!RMin(a, b) ELSE Rt!NaN

\* forward-mode dual number <<value, d value / d x>> of an algebraic tree (NaN at kinks, ties and poles)
BadDual == <<Rt!NaN, Rt!NaN>>
RECURSIVE Dual(_, _, _)
Dual(e, env, x) ==
    CASE e.t = "var" -> <<env[e.f], IF e.f = x THEN Rt!One ELSE Rt!Zero>>
      [] e.t = "const" -> <<Rt!R(e.k), Rt!Zero>>
      [] e.t = "neg" -> LET u == Dual(e.c[1], env, x) IN <<RNeg(u[1]), RNeg(u[2])>>
      [] e.t = "pow" -> LET u == Dual(e.c[1], env, x) IN
                        <<RPow(u[1], e.k), RMul(RMul(Rt!R(e.k), RPow(u[1], e.k - 1)), u[2])>>
      [] e.t = "un" -> LET u == Dual(e.c[1], env, x) IN
                       IF ~Fin(u[1]) \/ ~Fin(u[2]) \/ u[1][1] = 0 THEN BadDual
                       ELSE <<Rt!RAbs(u[1]), IF u[1][1] > 0 THEN u[2] ELSE Rt!Neg(u[2])>>
      [] e.t = "bin" ->
            LET a == Dual(e.c[1], env, x)
                b == Dual(e.c[2], env, x)
                ok == Fin(a[1]) /\ Fin(a[2]) /\ Fin(b[1]) /\ Fin(b[2])
            IN IF ~ok THEN BadDual
               ELSE CASE e.f = "add" -> <<Rt!Add(a[1], b[1]), Rt!Add(a[2], b[2])>>
                      [] e.f = "sub" -> <<Rt!Sub(a[1], b[1]), Rt!Sub(a[2], b[2])>>
                      [] e.f = "mul" -> <<Rt!Mul(a[1], b[1]), Rt!Add(Rt!Mul(a[2], b[1]), Rt!Mul(a[1], b[2]))>>
                      [] e.f = "div" -> IF b[1][1] = 0 THEN BadDual
                                        ELSE <<Rt!Div(a[1], b[1]),
                                               Rt!Div(Rt!Sub(Rt!Mul(a[2], b[1]), Rt!Mul(a[1], b[2])), Rt!Mul(b[1], b[1]))>>
                      [] e.f = "maximum" -> IF a[1] = b[1] THEN BadDual ELSE IF Rt!Gt(a[1], b[1]) THEN a ELSE b
                      [] e.f = "minimum" -> IF a[1] = b[1] THEN BadDual ELSE IF Rt!Lt(a[1], b[1]) THEN a ELSE b

EnvVals == {Rt!Q(-2, 1), Rt!Q(1, 2), Rt!Q(3, 1)}
Envs == [VarNames -> EnvVals]

\* --- generation: a tree is grown in prefix (Polish) order, one node per step ----------------------
\* so that TLC's workers share the enumeration (exhaustive mode) and -simulate draws random trees.
VARIABLES toks,      \* the prefix token sequence so far (nodes without children)
          need,      \* stack of the remaining depth allowance of every open hole (head = next hole)
          nops,      \* operator nodes so far
          out        \* <<>> while growing, <<Result>> when the tree is complete
vars == <<toks, need, nops, out>>

LeafToks == {Var(v) : v \in VarNames} \cup {Const(c) : c \in ConstVals}
OpToks == {Node("un", f, 0, <<>>) : f \in UnFns} \cup {Node("bin", o, 0, <<>>) : o \in BinOps}
          \cup {Node("pow", "", n, <<>>) : n \in PowExps} \cup {Node("neg", "", 0, <<>>)}
Tokens == LeafToks \cup OpToks
Arity(tok) == CASE tok.t \in {"var", "const"} -> 0 [] tok.t = "bin" -> 2 [] OTHER -> 1

\* parse the prefix sequence s starting at position i: [e |-> tree, n |-> next position]
RECURSIVE ParseAt(_, _)
ParseAt(s, i) ==
    LET tok == s[i] IN
    CASE Arity(tok) = 0 -> [e |-> tok, n |-> i + 1]
      [] Arity(tok) = 1 -> LET p == ParseAt(s, i + 1) IN [e |-> [tok EXCEPT !.c = <<p.e>>], n |-> p.n]
      [] Arity(tok) = 2 -> LET p == ParseAt(s, i + 1)
                               q == ParseAt(s, p.n)
                           IN [e |-> [tok EXCEPT !.c = <<p.e, q.e>>], n |-> q.n]
Parse(s) == ParseAt(s, 1).e

Result(e) == [e |-> e, d |-> [x \in VarNames |-> D(e, x)], dom |-> AllDom(e),
              vars |-> Vars(e), depth |-> Depth(e), ops |-> Ops(e)]

Init == toks = <<>> /\ need = <<MaxDepth>> /\ nops = 0 /\ out = <<>>
Put(tok) == /\ need # <<>>
            /\ LET d == Head(need)
                   a == Arity(tok)
               IN /\ a > 0 => (d > 0 /\ nops < MaxOps)
                  /\ toks' = Append(toks, tok)
                  /\ need' = [i \in 1..a |-> d - 1] \o Tail(need)
                  /\ nops' = nops + (IF a > 0 THEN 1 ELSE 0)
                  /\ out' = IF need' = <<>> THEN <<Result(Parse(toks'))>> ELSE <<>>
Next == \E tok \in Tokens : Put(tok)
Done == out # <<>>
Tree == out[1].e

\* --- laws -----------------------------------------------------------------------------------------
\* (Dx / TreeDom read the values stored by the generating step: they are D(Tree, x) and AllDom(Tree) by construction)
Dx(x) == out[1].d[x]
TreeDom == out[1].dom
TypeOK == /\ Len(need) <= MaxDepth + 1 /\ nops <= MaxOps
          /\ Done <=> need = <<>>
WellFormed == Done => /\ WF(Tree) /\ Depth(Tree) <= MaxDepth /\ Ops(Tree) <= MaxOps /\ Ops(Tree) = nops
                      /\ out[1].vars = Vars(Tree)
                      /\ \A x \in VarNames : WF(Dx(x))
                      /\ \A cn \in TreeDom : cn.k \in {"pos", "nz", "lt1", "gt1"} /\ WF(cn.e)
VarsLaw == Done => /\ \A x \in VarNames : Vars(Dx(x)) \subseteq Vars(Tree)
                   /\ \A cn \in TreeDom : Vars(cn.e) \subseteq Vars(Tree)
ZeroLaw == Done => \A x \in VarNames :
              /\ x \notin Vars(Tree) => Dx(x) = Const(0)
              /\ Tree.t = "const" => Dx(x) = Const(0)
              /\ Tree = Var(x) => Dx(x) = Const(1)
\* D is linear; product, quotient and chain rule instances at the root, with the children differentiated independently
LinearLaw == Done => \A x \in Vars(Tree) :
              /\ (Tree.t = "bin" /\ Tree.f = "add") => Dx(x) = Add(D(Tree.c[1], x), D(Tree.c[2], x))
              /\ (Tree.t = "bin" /\ Tree.f = "sub") => Dx(x) = Sub(D(Tree.c[1], x), D(Tree.c[2], x))
              /\ Tree.t = "neg" => Dx(x) = Neg(D(Tree.c[1], x))
ProductLaw == Done => \A x \in Vars(Tree) :
              /\ (Tree.t = "bin" /\ Tree.f = "mul") =>
                     Dx(x) = Add(Mul(D(Tree.c[1], x), Tree.c[2]), Mul(Tree.c[1], D(Tree.c[2], x)))
              /\ (Tree.t = "bin" /\ Tree.f = "div") =>
                     Dx(x) = Div(Sub(Mul(D(Tree.c[1], x), Tree.c[2]), Mul(Tree.c[1], D(Tree.c[2], x))), Pow(Tree.c[2], 2))
ChainLaw == Done => \A x \in Vars(Tree) :
              /\ Tree.t = "un" => /\ Dx(x) = Mul(DUn(Tree.f, Tree.c[1]), D(Tree.c[1], x))
                                  /\ Vars(DUn(Tree.f, Tree.c[1])) = Vars(Tree.c[1])
              /\ Tree.t = "pow" => Dx(x) = Mul(Mul(Const(Tree.k), Pow(Tree.c[1], Tree.k - 1)), D(Tree.c[1], x))
\* on the algebraic fragment the symbolic derivative evaluates to the dual-number derivative wherever that is defined,
\* and the domain constraints are sufficient for it to be defined (exact rational arithmetic; bounded depth: 32-bit integers)
Holds(cn, env) == LET v == Ev(cn.e, env) IN
                  /\ Fin(v)
                  /\ CASE cn.k = "pos" -> v[1] > 0
                       [] cn.k = "nz" -> v[1] # 0
                       [] cn.k = "lt1" -> Rt!Lt(Rt!RAbs(v), Rt!One)
                       [] cn.k = "gt1" -> Rt!Gt(v, Rt!One)
DualLaw == (Done /\ Depth(Tree) <= 2 /\ Algebraic(Tree)) =>
              \A env \in Envs :
                 LET inDom == \A cn \in TreeDom : Holds(cn, env) IN
                 \A x \in Vars(Tree) :
                    LET du == Dual(Tree, env, x) IN
                    /\ Fin(du[2]) => /\ Ev(Tree, env) = du[1]
                                     /\ Ev(Dx(x), env) = du[2]
                    /\ inDom => Fin(du[2])
\* --- export ---------------------------------------------------------------------------------------
Export == (Done /\ Vars(Tree) # {}) => PrintT(<<"EXP", ToJson(out[1])>>)
=============================================================================
