import json, glob, os
rows = []
for f in sorted(glob.glob('/verif/.work_mut2/*.json')):
    try:
        d = json.load(open(f))
    except Exception:
        continue
    st = 'CAUGHT' if d['check_exit'] == 1 and d['violation_lines'] > 0 else ('noapply' if not d['applies'] else 'missed' if d['check_exit'] == 0 else 'exit%s' % d['check_exit'])
    rows.append('%s:%s' % (d['id'], st))
print(' '.join(rows))
have = {r.split(':')[0] for r in rows}
allm = sorted(x for x in os.listdir('/tmp/mut2-out') if not x.startswith('scratch'))
print('pending:', [m for m in allm if m not in have])
