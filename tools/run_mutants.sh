#!/bin/sh
# tools/run_mutants.sh "<id>:<prop>:<worktree>" ... ; writes /verif/.work_mutsummary.txt
for spec in "$@"; do
  id=$(echo $spec | cut -d: -f1); prop=$(echo $spec | cut -d: -f2); wt=$(echo $spec | cut -d: -f3)
  echo "== $id ($prop)" >> /verif/.work_mutsummary.txt
  /verif/tools/try_mutant.sh /tmp/mut-out/$id $prop $wt >> /verif/.work_mutsummary.txt 2>&1
done
echo ALLDONE >> /verif/.work_mutsummary.txt
