#!/bin/sh
# usage: eval_mutant.sh <mutant-dir> <worktree> [tier]   -> writes /verif/.work_mut2/<id>.json and <id>.log
# (scratch evaluation of a seeded defect: applies it in a worktree OUTSIDE /repo, runs its demo and the property's check)
D=$1; WT=$2; TIER=${3:-quick}
ID=$(basename $D); PROP=${ID%%-*}
OUT=/verif/.work_mut2/$ID
HEAD=$(git -C /repo rev-parse HEAD)
cd $WT && git checkout -q -f --detach $HEAD && git clean -q -fd >/dev/null 2>&1
export OPENMDAO_REPORTS=0
mkdir -p /tmp/mut2-run/$ID && cd /tmp/mut2-run/$ID
PYTHONPATH=$WT timeout 1800 /venv/bin/python $D/demo.py > $OUT.demo_clean.log 2>&1; DC=$?
cd $WT
if git apply --check $D/patch.diff 2>/dev/null; then AP=1; git apply $D/patch.diff; else AP=0; fi
cd /tmp/mut2-run/$ID
PYTHONPATH=$WT timeout 1800 /venv/bin/python $D/demo.py > $OUT.demo_mut.log 2>&1; DM=$?
cd /verif
PYTHONPATH=$WT timeout 7200 ./check $PROP --tier $TIER > $OUT.check.log 2>&1; CK=$?
NV=$(grep -c "^VIOLATION" $OUT.check.log)
SUM=$(grep "tier=$TIER" $OUT.check.log | tail -1)
cd $WT && git checkout -q -f -- . && git clean -q -fd >/dev/null 2>&1
rm -rf /tmp/mut2-run/$ID
printf '{"id":"%s","property":"%s","applies":%s,"demo_clean_exit":%s,"demo_mut_exit":%s,"check_exit":%s,"violation_lines":%s,"tier":"%s","head":"%s","summary":"%s"}\n' "$ID" "$PROP" "$AP" "$DC" "$DM" "$CK" "$NV" "$TIER" "$HEAD" "$SUM" > $OUT.json
cat $OUT.json
