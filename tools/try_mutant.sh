#!/bin/sh
# tools/try_mutant.sh <dir with patch.diff/demo.py> <property id> <worktree>  : demo both ways + check against the mutated worktree
D="$1"; P="$2"; W="$3"
cd "$W" && git checkout -q -- . && git clean -fdq >/dev/null 2>&1
cd "$W" && PYTHONPATH="$W" OPENMDAO_REPORTS=0 /venv/bin/python "$D/demo.py" >/dev/null 2>&1; echo "demo clean rc=$?"
git -C "$W" apply "$D/patch.diff" || { echo "patch does not apply"; exit 3; }
cd "$W" && PYTHONPATH="$W" OPENMDAO_REPORTS=0 /venv/bin/python "$D/demo.py" >/dev/null 2>&1; echo "demo mutated rc=$?"
cd /verif && PYTHONPATH="$W" ./check "$P" > "/verif/.work_mut_$(basename $D).log" 2>&1; echo "check rc=$?"
grep -c "^VIOLATION" "/verif/.work_mut_$(basename $D).log"; grep "clause:" "/verif/.work_mut_$(basename $D).log" | sort | uniq -c | head -3; tail -1 "/verif/.work_mut_$(basename $D).log"
cd "$W" && git checkout -q -- . && rm -rf "$W"/*_out
