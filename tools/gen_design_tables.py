#!/venv/bin/python
"""Regenerate the generated parts of DESIGN.md: the findings table (16.3) and the seeded-defect record (16.7)."""
import json
import os
import re

HERE = os.path.dirname(os.path.dirname(os.path.abspath(__file__)))


def findings_table():
    d = json.load(open(os.path.join(HERE, 'known_findings.json')))
    rows = []
    for x in d:
        st = 'fixed `%s`' % x['commit'] if x['status'] == 'fixed' else '**known**'
        rows.append('| %s | `%s` | %s | %s | %s |' % (x['property'], x['id'], x['signature'].get('site', '').replace('|', '/'),
                                                      x['signature'].get('when', '').replace('|', '/'), st))
    nf = sum(1 for x in d if x['status'] == 'fixed')
    head = ('%d entries: %d repaired by minimal `fix:` commits in /repo, %d recorded as known findings.\n\n'
            '| property | id | site | when | status |\n|---|---|---|---|---|\n' % (len(d), nf, len(d) - nf))
    return head + '\n'.join(rows) + '\n'


def seeded_table():
    base = os.path.join(HERE, 'seeded')
    rows = []
    n = caught = 0
    for m in sorted(os.listdir(base)):
        mp = os.path.join(base, m, 'meta.json')
        if not os.path.exists(mp):
            continue
        meta = json.load(open(mp))
        n += 1
        det = meta.get('detected_by', '')
        ok = bool(meta.get('detected', 'exit 1' in det and 'NOT DETECTED' not in det.split(';')[0]))
        caught += bool(ok)
        tests = ''
        tp = os.path.join(base, m, 'tests.json')
        if os.path.exists(tp):
            t = json.load(open(tp))
            tests = t.get('summary', '').strip() if t.get('applied') else 'patch does not apply to final HEAD'
            if t.get('failed'):
                tests += ' FAILED: ' + ', '.join(x.split('::')[-1] for x in t['failed'][:3])
        rows.append('| %s | %s | %s | %s |' % (m, str(meta.get('breaks', '')).replace('|', '/')[:160], det.replace('|', '/'), tests))
    head = ('%d seeded defects kept (each with patch.diff, demo.py, notes.md, meta.json under `seeded/<id>/`); %d detected by the '
            'final checks.\n\n| id | change | detected by | repository tests with the change (re-run here) |\n|---|---|---|---|\n' % (n, caught))
    return head + '\n'.join(rows) + '\n'


def main():
    p = os.path.join(HERE, 'DESIGN.md')
    s = open(p).read()
    for tag, gen in (('FINDINGS', findings_table), ('SEEDED', seeded_table)):
        a, b = '<!-- BEGIN %s -->' % tag, '<!-- END %s -->' % tag
        if a in s and b in s:
            s = s[:s.index(a) + len(a)] + '\n' + gen() + s[s.index(b):]
    open(p, 'w').write(s)
    print('DESIGN.md tables regenerated')


if __name__ == '__main__':
    main()
