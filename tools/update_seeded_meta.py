#!/venv/bin/python
"""Fold the final evaluation results (.work_mut2/<id>.json, produced by tools/eval_mutant.sh) into seeded/<id>/meta.json."""
import json, os, glob
V = '/verif'
for mp in sorted(glob.glob(V + '/seeded/*/meta.json')):
    mid = os.path.basename(os.path.dirname(mp))
    meta = json.load(open(mp))
    rp = V + '/.work_mut2/%s.json' % mid
    if not os.path.exists(rp):
        continue
    r = json.load(open(rp))
    caught = r['check_exit'] == 1 and r['violation_lines'] > 0 and r['applies'] == 1
    nviol = r['summary'].split('violations=')[1].split(' ')[0] if 'violations=' in r['summary'] else '?'
    prev = meta.get('detected_by', '')
    hist = prev.split(';', 1)[1].strip() if ';' in prev else (prev if prev.startswith(('MISSED', 'missed')) or 'missed at first' in prev.lower() else '')
    if not r['applies']:
        final = 'patch does not apply to the final HEAD (the code it changes was repaired meanwhile); last evaluated result: ' + prev.split(';')[0]
    elif caught:
        final = './check %s --tier %s: exit 1, %s violations (final HEAD %s)' % (r['property'], r['tier'], nviol, r['head'][:7])
    else:
        final = 'NOT DETECTED by ./check %s --tier %s at the final HEAD %s (exit %s)' % (r['property'], r['tier'], r['head'][:7], r['check_exit'])
    meta['detected'] = bool(caught)
    meta['detected_by'] = final + ('; ' + hist if hist else '')
    meta.setdefault('confirmed', {})
    meta['confirmed'].update({'applies_to_repo_head': bool(r['applies']), 'demo_passes_without': r['demo_clean_exit'] == 0,
                              'demo_fails_with': r['demo_mut_exit'] not in (0, 2)})
    meta['evaluated_at_repo_head'] = r['head'][:7]
    json.dump(meta, open(mp, 'w'), indent=1)
print('ok')
