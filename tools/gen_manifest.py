#!/venv/bin/python
"""Regenerate MANIFEST.json from the table below (single source of truth for claims)."""
import json
import os

HERE = os.path.dirname(os.path.dirname(os.path.abspath(__file__)))
ALL = ['C%02d' % i for i in range(1, 35)]

# id -> (category, text, level_note, technique, design_ref)
CLAIMS = {}
NA = {
    'C25': 'KS aggregation is a real-analytic inequality and gradient of log-sum-exp: no discrete state, no case '
           'structure, no exactly representable instance; a TLA+ model would only re-label a numeric test (DESIGN.md section 7).',
}


def claim(pid, text, note, technique, ref, category='model_checking'):
    CLAIMS[pid] = (category, text, note, technique, ref)


claim('C27',
      'TLC checks ValuesValid/FramesValid/RejectLeaves/TempRestores/ReadOnlyFrozen on spec/mech/Options.tla exhaustively '
      '(5 declaration scenarios, nesting 2), then every transition of the bounded state graph is executed against a real '
      'OptionsDictionary and the option values and action result compared (one implementation test per spec transition).',
      'Value universe of 9 Python objects, 3 options per dictionary, temporary() with <=2 kwargs; set_function/recordable not modelled.',
      'TLA+ state machine + TLC exhaustive check + transition-graph replay into the implementation', '5.3, 6/C27')


claim('C09',
      'TLC checks IterBound, StopsAtFirst, FailIffNotMet, RaiseIffFail, SuccessSound, StopJustified on spec/mech/Solver.tla for every '
      'norm history over {0,1/4,1,2,4,NaN,Inf} x option grid x six solver classes; every maximal behaviour is replayed into the real '
      'solver class with scripted norms and iteration counts, failure class and AnalysisError compared.',
      'Norms are injected at _iter_get_norm (original still executed); ScipyKrylov and the line searches are not covered by this loop spec.',
      'TLA+ loop state machine + TLC exhaustive check + replay of every maximal behaviour into the real solvers', '5.1, 6/C09')


claim('C22',
      'TLC enumerates every scenario of spec/mech/Violation.tla (values x per-element bound patterns x scalings x driver_scaling), '
      'checks ZeroIffSatisfied, SignLaw and AgreesWithDriverSpace (the scaled violation equals what the optimizer space measures, incl. '
      'negative scalers) and exports the exact expected vector; each scenario is executed on a real Problem through '
      'Driver.get_constraint_values(viol=True) and Driver._compute_con_viol.',
      'Constraints without units=; values and bounds from small rational sets; n<=2 exhaustive (quick), n=3 sampled (thorough).',
      'TLA+ exact-rational oracle + TLC scenario enumeration + replay of every scenario into the driver', '5.8, 6/C22')


SYS_NOTE = ('Generated models are integer/rational affine (explicit and implicit components), so the TLA+ denotation is exact; '
            'floats are quantised to rationals in the harness (1e-9 relative, Krylov 1e-7); an independent fractions.Fraction '
            'evaluation cross-checks the TLA+ oracle on every case; no MPI/distributed variables.')

claim('C01',
      'spec/sys/OMModel.tla gives the exact denotation of a model (NdIndex composition of src_indices chains, unit maps, affine '
      'components, one ordered pass for feed-forward models, fixpoint/linear-system characterisation for feedback, TotalAll, '
      'Block, ScaledBlock). Seeded generated models are run under several (mode, linear solver, assembled jacobian type, return '
      'format, driver scaling, total coloring, rhs_checking cache) configurations and TLC (OMJudge.tla) judges every observed '
      'total-derivative block exactly; a second family forces three-level solver stacks (assembled jacobian below a Krylov parent). '
      'The cache of linear solutions (LinearRHSChecker) is a separate state machine (mech/RhsCache.tla: AnswerCorrect, CacheSound; '
      'the no-clear variant is refuted) bound to the code by trace validation of the real object (RhsCacheTrace.tla).',
      SYS_NOTE, 'TLA+ system specification as exact oracle; TLC validates observations of real runs on generated models; '
      'model checking + trace validation of the linear-solution cache', '5.7, 6/C01')

claim('C04',
      'TLC evaluates InVal (fac * source[ConnPos(chain)] + off) of OMModel.tla on the OBSERVED outputs of generated hierarchies '
      '(connect with src_indices, promotion chains with src_indices/src_shape, units with offsets, cycles) and compares with every '
      'observed input after run_model; intercepted component evaluations inside the run are judged with the specification\'s '
      'positions and unit maps in floating point.',
      SYS_NOTE + ' NonlinearBlockJac: only the final state (inputs are as of the last transfer by design). Continuous variables only.',
      'TLA+ system specification as exact oracle; TLC validates observed inputs/outputs of real runs', '5.7, 6/C04')

claim('C08',
      'The system specification has no solver scaling, so its denotation is the unscaled truth; generated models with random scalar/array '
      'ref, ref0 (negative spans, all scalar/array mixes) and res_ref are run under several solver stacks and TLC judges outputs, '
      'inputs and total derivatives against that denotation.',
      SYS_NOTE, 'TLA+ system specification as exact oracle; TLC validates observations of scaled real runs', '5.7, 6/C08')


claim('C02',
      'TLC evaluates the adjoint identity <w, A v> = <A^T w, v> exactly (OMJudge.tla AdjOK) on observed integer/rational vectors for '
      'Problem.compute_jacvec_product fwd/rev and, for every group of generated models, run_apply_linear fwd/rev and run_solve_linear '
      'fwd/rev; the public products are also compared with J v and J^T w from the exact TotalAll of OMModel.tla (JvOK).  A product taken '
      'with a scope of inputs must equal the product of the projected argument (A_s = A P_s, both directions).  A third of the models carry '
      'solver scaling (incl. residual-only scaling), some are three-level solver stacks.',
      SYS_NOTE, 'TLA+ system specification as exact oracle; TLC validates observed operator applications', '5.7, 6/C02')

claim('C24',
      'OMModel.tla defines RelevantComps (Reach/CoReach over true variable-level dependencies). Generated models with dead branches are '
      'differentiated with recursing linear solvers and DirectSolver with relevance enabled and disabled (OPENMDAO_NO_RELEVANCE switch): '
      'TLC judges every block against the exact derivative in both runs and requires that every logged linear solve executed all '
      'components the specification deems relevant to its seed.  Second family (optimisation loop): a deterministic optimisation-style driver '
      'walks design points on models with non-design independents with group_by_pre_opt_post on and off; TLC judges the responses and '
      'total-derivative blocks seen at every point and the complete state left after the run against the denotation at that point.',
      SYS_NOTE + ' parallel_deriv_color seeds are not covered; the loop driver is the harness\'s own (real optimizers: C21).',
      'TLA+ system specification (relevance as graph reachability) + TLC validation of observed solves and totals', '5.7, 6/C24')

claim('C31',
      'spec/sys/OMProblem.tla: the Problem API over the visible state (digest of all inputs and outputs); read-only calls are UNCHANGED, '
      'run_model is a function of the visible state. Two instances per generated model run the same mutating calls with different '
      'random interleavings of read-only calls (compute_totals, jacvec, check_partials/totals fd+cs, total coloring, list_*, get_val); '
      'TLC validates the merged trace (Functional, ReadOnlyUnchanged) and requires the RESULT of a read-only call (compute_totals) to be a '
      'function of the visible state as well (rmemo: no hidden state leaks into later answers).  Half of the models carry solver scaling; '
      'a third declare a total coloring whose sparsity is sampled with randomized seeds.',
      'Visible state = root input and output vectors, identified up to the round-off of a scaling round trip (1e-12 relative / 1e-11 absolute); a derivative check on a model not yet run in its current state is modelled '
      'as running it first (documented behaviour); read-only calls that raise are counted, not judged.',
      'TLA+ API state machine + TLC trace validation of recorded executions', '5.7, 6/C31')


claim('C05',
      'spec/lib/NdIndex.tla formalises NumPy basic+advanced indexing (ints, slices with None/negative parts, 1-D/2-D index arrays with '
      'broadcasting, tuples, ellipsis, flat_src). TLC enumerates every index specification of a bounded grammar on all shapes of rank 1-3 '
      '(extents <=3 quick, <=4 thorough), two-stage chains and all integer arrays of length <=4 for array2slice, checks the internal laws '
      '(LenLaw, RangeLaw, FlatLaw, IdentityLaw, ApiLaw, InjectiveLaw, ComposeLaw, A2SLaw, SliceBackLaw) and exports positions and shapes; '
      'every scenario is first compared with NumPy (oracle self-check) and then executed on openmdao.utils.indexer.',
      'Bounded exhaustive plus seeded random; specs rejected by OpenMDAO or NumPy are counted, not compared; non-tuple 2-D arrays '
      '(deprecated spelling) and dist_shape out of scope. Two known findings (see known_findings.json).',
      'TLA+ formalisation of NumPy indexing + TLC scenario enumeration with laws + NumPy oracle self-check + replay into the Indexer classes',
      '5.5, 6/C05')

claim('C32',
      'spec/mech/Order.tla: ValidOrder (producers first across strongly connected components, declared relative order inside one) and the '
      'exact one-pass result; TLC checks Exists, OnePassSolves and BadOrderDetected for every digraph on 3 subsystems x every declared order '
      '(4 subsystems: Exists; thorough). Every enumerated case is built flat, nested with auto_order=True, nested below an auto_order parent that '
      'is itself in order, and set up a second time after a run; TLC (OrderJudge.tla) judges '
      'the observed subsystem order and, for acyclic graphs, outputs equal the one-pass result with all residuals zero.',
      'Scalar ExecComp subsystems with run-once solvers; 3 nodes exhaustive, 4 nodes sampled (thorough).',
      'TLA+ graph specification + TLC exhaustive enumeration + TLC judging observed orders', '5.8, 6/C32')


claim('C07',
      'spec/sys/OMSetGet.tla: every addressable name (source, connected input, auto-IVC-backed promoted input) is a view of one source '
      '(NdIndex positions of the src_indices chain + unit factor); SetVal/GetVal act on the store of sources; phases leave it unchanged. '
      'TLC checks RoundTrip, OthersUnchanged, PhaseNeutral and generates random write sequences of depth 6; each is replayed on a real '
      'Problem under several phase schedules (before final_setup, after it, after run_model, interleaved) with all views compared after '
      'every action.  Second family (spec/sys/OMSetGetTrace.tla): histories of set_val (outputs, absolute inputs, promoted names at '
      'every level, indices, scalar broadcast) / final_setup / run_model on generated hierarchical models are validated event by event '
      'by TLC with all views compared (positions of every view computed by NdIndex in the spec).',
      'Family 1: one fixed model (6 addressable names, 9 index forms, 4 unit arguments). Family 2: feed-forward generated models, default '
      'solvers, no units argument; writes that give different values to the same source entry are not generated.',
      'TLA+ store semantics + TLC (exhaustive small depth + simulation) + behaviour replay under phase schedules; trace validation of '
      'set/get/run histories on generated models', '6/C07, 16')

claim('C10',
      'spec/mech/LineSearch.tla (exact rationals): one Newton iteration filtered by BoundsEnforceLS / ArmijoGoldsteinLS with vector, scalar or '
      'wall enforcement; TLC checks InBounds and AlongStep (plus scaled-space agreement, direction preservation and maximality laws) for every '
      'scenario of the grid and exports the exact expected physical result; every scenario is executed on the real NewtonSolver + line search '
      'and the observed output is compared with the exact value and re-judged against both invariants.',
      'Vector length <= 2, u0 in {0,1,2}, steps -3..3, bounds from {0,1,2}, five (ref, ref0) scalings incl. ref < ref0, one Newton iteration, '
      'fixed Armijo parameters; independent Fraction model cross-checks the oracle.',
      'TLA+/TLC scenario enumeration with exact rational oracle + replay into NewtonSolver + line search', '5.2, 6/C10')

claim('C13',
      'spec/mech/CheckPartials.tla: what check_partials/check_totals must report (analytic and approximated matrices, error figures, the FULL '
      'set of uncovered nonzeros) for affine integer components; 8 laws checked by TLC; every exported scenario (storage kinds dense, rows/cols, '
      'diagonal, coo, csr, csc x declared pattern incl. under-declared in several columns x correct/wrong values) is executed through '
      'Problem.check_partials (fd, exact-step fd, cs) and a subset through check_totals; stage 3: LISTS of steps and directional checks on a '
      'quadratic component whose forward differences are exact (StepLaw, NoAlias, CorrectStepError): every step\'s report is compared.',
      'Affine integer components (FD/CS quotients exact); complete for shapes below 9 cells, seed-rotating sample of 3x3 / 3x4.',
      'TLA+/TLC scenario enumeration with exact oracle + replay into check_partials/check_totals', '5.8, 6/C13')

claim('C15',
      'spec/mech/Interp.tla (exact rationals): all strictly increasing 3-5 point integer grids in -4..4 (1-D), pairs of representative grids of '
      'every sign pattern (2-D), 3-D in thorough; multilinear / tensor-quadratic / tensor-cubic tables; queries at nodes, cell interior, '
      'boundaries and just outside; TLC checks ErrorIff, NodeLaw, DerivLaw, HatLaw and exports the exact outcome; each scenario is executed on '
      'InterpND for every method that reproduces the class, fixed vs general variants, vectorised vs single, and through MetaModelStructuredComp '
      'and MetaModelSemiStructuredComp (full-grid data); InterpHist.tla: all short histories of value / value+derivative / gradient queries at two '
      'points (and a nudged one) on ONE interpolant object, each call compared with a fresh object and the exact value; akima reproduces quadratics '
      'on evenly spaced grids (AkQuadLaw).',
      'A method is only held to the polynomial class it provably reproduces; tolerance 1e-9 abs + 1e-9 rel + 1e-11 of the largest table entry.',
      'TLA+ exact-rational oracle + TLC scenario enumeration + replay into InterpND / MetaModelStructuredComp', '5.8, 6/C15')

claim('C16',
      'Interior scenarios of spec/mech/Interp.tla with the exact gradient of the table polynomial and the slinear hat weights (DerivLaw, HatLaw '
      'as TLC invariants); each is executed on InterpND (derivatives, gradient(), training gradients), MetaModelStructuredComp partials, '
      'evaluate_spline and SplineComp: d/dx equals the exact gradient for reproducing methods, slinear d/dT equals the hat weights, '
      'value = w.T with sum(w) = 1 wherever w is returned; query histories on one object with the gradient-cache discipline (InterpHist.tla: '
      'ReturnsRequested, CacheSound; the two faulty disciplines are refuted); exact dual-number derivatives of akima with smoothing (delta_x) w.r.t. x '
      'and every table value, bound to evaluate_spline, SplineComp, InterpND and training gradients.',
      'PARTIAL: for akima/cubic/bsplines on tables they do not reproduce only relations between observed numbers are checked '
      '(difference quotient, linearity/homogeneity in the table values).',
      'TLA+ exact-rational derivative oracle + TLC enumeration + replay; difference-quotient and linearity relations elsewhere', '6/C16, 7')

claim('C21',
      'spec/mech/Optimizer.tla: strictly convex separable QPs with every per-element bound pattern; TLC checks that the exactly computed optimum '
      'is feasible, unique, the projection, the only KKT point and unchanged in driver space under 8 scaling records (bounds exchanged under '
      'negative scalers; refutation run as vacuity guard). Sampled scenarios are executed on ScipyOptimizeDriver (SLSQP, COBYLA, trust-constr x '
      'scalings x linear flag x scalar/array/indices declarations): on reported success the model design must be the returned vector, every '
      'constraint element within bounds, and the design equal to x*.',
      'Judged only when the driver reports success; COBYLA with equality constraints not judged; optimum tolerance 1e-4 (SLSQP) / 5e-3. '
      'Four known findings (negative scaler, trust-constr callbacks, trust-constr linear offset, model not left at returned design).',
      'TLA+ specification of convex-QP optima (KKT, scaling laws) + replay into ScipyOptimizeDriver with the exact oracle', '5.8, 6/C21')

claim('C29',
      'spec/mech/FileWrap.tla: template files as sequences of lines of fields with anchors; MarkAnchor (positive/negative occurrences), '
      'ResetAnchor, TransferVar, TransferArray (incl. longer than the template, and wrapped over several rows with row_end), Transfer2DArray, '
      'ClearLine, the multi-row reader ReadArray; TLC checks ReadBack, ArrayReadBack, OthersUnchanged and anchor laws on all plain operation '
      'sequences up to length 3 (wrapped arrays to depth 2). Every transition of the bounded graph is executed on a real InputFileGenerator '
      'for each of 20 candidate values (ints, floats incl. -0.0, 1e300, 17 digits, 1.0000000000000002, negative exponents, inf, -inf, nan, '
      'strings) under four delimiter sets (incl. regex-special characters) and the generated file is read back completely with FileParser.',
      'Value formatting is judged in the harness (floats to 16 significant digits); booleans have no token in the format; out-of-file rows, '
      'non-existent fields, too-short arrays, transfer_keyvar and columns mode out of scope.',
      'TLA+ state machine + TLC + transition-graph replay with a value-universe dimension', '5.8, 6/C29')

claim('C06',
      'spec/mech/Units.tla: units as (dimension vector, SYMBOLIC factor in a free abelian group, offset); TLC checks the algebraic laws '
      '(compatibility is an equivalence that decides conversion, round trip, transitivity, factors of products/quotients/powers/prefixes, '
      'offset units refuse arithmetic, simplify preserves the triple) on an abstract universe. UnitsJudge.tla derives, from the shipped '
      'unit_library.ini parsed independently, the expected triple / compatibility / conversion tuple of every library unit, all compatible '
      'pairs, every prefixed base unit and seeded composite expressions; each is replayed into openmdao.utils.units in several lookup orders.',
      'Floats judged at 1e-12 relative; root exponents and number/offset-unit quotients out of scope.',
      'TLA+ symbolic unit algebra + TLC laws + TLC-derived expectations for the shipped library + replay into units.py', '5.6, 6/C06')


claim('C03',
      'spec/mech/Coloring.tla: patterns, colorings (groups, recovered nonzeros, ordered subtraction steps) with GENERIC formal-sum values so '
      'that reconstruction is decided for every matrix with the pattern at once; Valid, Partition, NoWorse. TLC (ColoringJudge.tla) judges the '
      'Coloring objects the real _compute_coloring returns for every boolean pattern up to 3x3, 2x4, 4x2 (thorough: 4x4 + seeded to 12x12) in '
      'fwd, rev, auto-direct and auto-substitution; the same colorings recover prime-filled matrices exactly through the real scatter/expansion '
      'code, and colored totals/partials equal uncolored ones on generated models. A self-check enumerates all 2x2 candidate colorings.',
      'Permissive spec (greedy order unspecified); exact compressed products assumed (linear solves are C01/C02); serial only.',
      'TLA+/TLC validation of real Coloring objects + exhaustive pattern replay with exact integer oracle + colored-vs-uncolored model runs',
      '5.8, 6/C03')


claim('C20',
      'spec/mech/DriverScaling.tla: the exact rational affine map of one variable of interest (declared units, then scaler/adder or ref/ref0, per '
      'element); TLC checks the inverse laws both ways, ref->1 / ref0->0, bound images, the composition law of scaled Jacobian blocks and '
      'multiplier invariance over the declaration grid (scalar and per-element arrays, negative scalers, ref < ref0, unit maps with offsets). '
      'Every exported scenario is executed on a real Problem: values, cached bounds, total-derivative blocks, set/get round trip and multiplier '
      'unscaling compared at 1e-12; the division-free form of the inverse law is machine-proved with TLAPS.',
      'Quick tier pairs every design-variable declaration with every second constraint declaration; the bound PAIR an optimizer sees is the image '
      'of the interval (a negative scaler exchanges lower and upper: the behaviour since the fix of C21-negative-constraint-scaler); arrays with one '
      'neutral element (scaler exactly 1 / adder exactly 0); multipliers of active design-variable bounds end to end; no pyoptsparse.',
      'TLA+ exact-rational specification + TLC over a declaration grid + scenario replay; TLAPS proof of the integer inverse law', '5.8, 6/C20')

claim('C23',
      'spec/mech/DOE.tla: full factorial = exactly the Cartesian product of per-factor linspace level sets (exact rationals, int or dict levels), '
      'in-bounds, the Latin-hypercube stratum permutation law, reproducibility. TLC checks the product laws on all design-variable sets x levels '
      'forms and exports the exact designs; the same module judges observed designs of Uniform, LatinHypercube (all criteria; a fresh generator '
      'with the same seed AND the same generator object asked twice must reproduce the design), Plackett-Burman, '
      'Box-Behnken and GeneralizedSubset generators; FullFactorial output is compared point for point; DOEDriver runs with every generator '
      '(incl. List, CSV) are compared case by case with what a spy component sees and what a SqliteRecorder stores.',
      'Small-scope enumeration (1-3 variables of 1-2 elements); observed doubles reach TLC as exact integer facts (signs, stratum index, '
      'quantised position, bit pattern); requests pyDOE itself refuses are counted; serial runs only.',
      'TLA+ specification checked by TLC + replay of exported designs + TLA+ judge of observed generator output', '5.8, 6/C23')


claim('C18',
      'spec/mech/CaseDB.tla: the recorder\'s SQLite file as durable rows + uncommitted transaction with Crash enabled in every state; TLC proves '
      'CrashPrefix and Atomicity over all bounded runs (and refutes them on a deliberately broken variant). CaseDBTrace.tla validates the SQL '
      'statement stream observed through sqlite3\'s trace callback. Crash enumeration: a forked child dies (os._exit) immediately before EVERY '
      'statement/commit boundary of real recordings (thorough: plus SIGKILL at random times); the file is re-opened with CaseReader and '
      'list_cases must be a prefix of the uncrashed run with every case readable and equal.',
      'fault_enumeration: evaluations = crash points executed; the pre-startup window (file not yet openable) and the window between a DOE driver '
      'case and its separate derivatives row are counted, not judged; SQLite commit atomicity is trusted; serial runs.',
      'TLA+ transaction spec + TLC + trace validation of the statement stream + crash enumeration at every statement boundary',
      '4 (K), 5.4, 6/C18', category='fault_enumeration')

claim('C26',
      'spec/mech/StockComps.tla: formulas and exact Jacobians of the ten stock math components over exact rationals; TLC enumerates option sets '
      '(vec_size, shapes, positive and negative axes, scaling factors, unit factors, use_mult/normalize, input names repeated within an '
      'AddSubtractComp equation ...) with integer inputs and checks the laws (exact difference = '
      'Jacobian column, Mux bijection, skew structure, A x = b relation ...); every exported scenario is built as the real component and its '
      'outputs and assembled totals (fwd/rev) or residual-form sub-Jacobians are compared at 1e-12.',
      'Integer / Pythagorean / unimodular data; SplineComp Jacobian entry-wise for slinear and by reproduction relations otherwise; BalanceComp in residual form.',
      'TLA+ exact-rational oracle + TLC scenario enumeration + replay into the real components', '5.8, 6/C26')

claim('C28',
      'PARTIAL. spec/mech/Surrogate.tla: (a) ResponseSurface on integer quadratics at off-lattice dyadic points (exact value and gradient), (b) the '
      'lookup law Predict(train_x[i]) = train_y[i] for NearestNeighbor linear/weighted/rbf and Kriging, (c) the MetaModelUnStructuredComp plumbing: '
      'the exact dense Jacobian and the index map of which linearize() entry each total must forward; all TLC-exported scenarios are replayed; every '
      '2-variable ResponseSurface scenario is replayed again under a dyadic change of variables (badly scaled inputs, 1e-6) and every Kriging lookup '
      'after a training-cache file written by another training on the same inputs.',
      'Derivative-of-predict for non-polynomial surrogates is only a central-difference relation on observed numbers; Kriging lookup judged only for '
      'cond(R) <= 1e4.',
      'TLA+ enumeration with exact quadratic oracle, lookup law and Jacobian index map + replay', '6/C28, 7')

claim('C30',
      'PARTIAL. spec/mech/CsSafe.tla: the sign/zero/axis/quadrant case table and the exact rational directional derivative of cs_safe.abs (points '
      'scaled down to 1e-300, zeros, negative directions: the ONE-SIDED derivative in the direction of the step at the kink), norm (Pythagorean '
      'data, all-zero arrays / rows / columns, axis forms) and arctan2 (all quadrants and half-axes) with laws; each TLC-exported point x direction is '
      'replayed with h = 1e-40: real part equals NumPy exactly, imag/h equals the spec at 1e-12.  The jax smooth/KS helpers: tanh and log-sum-exp '
      'are uninterpreted functions of their argument (odd / symmetric, exact at 0 and beyond saturation); 44 identity families incl. mu/rho-'
      'sensitive scale, shift and cross-function laws and the default arguments; value, jax.grad and complex-step derivative compared.',
      'Integer points times powers of ten, one step size; accuracy of the tanh/exp smoothing itself (a numeric statement) out of scope; abs(-0.0) '
      'returns -0.0 (== 0.0) is not judged.',
      'TLA+ enumeration of points x directions with exact rational derivatives + complex-step replay; uninterpreted-function identities for '
      'the smooth helpers', '6/C30, 7')


claim('C11',
      'spec/mech/Jacobian.tla: the operator of a layout as the SUM of placed sub-Jacobians (dense, rows/cols, diagonal, scipy coo with a duplicated '
      'entry, csr, csc; column map through src_indices with repeats and negatives; unit factor) with one representation per format and its update '
      'rule; TLC checks Denotes, FormatsAgree, Adjoint on every reachable state of Linearize/SetComplex/Apply histories; -simulate histories with '
      'exact expected matrices and (complex) products are replayed on real Problems per format x solver placement through run_linearize / '
      'run_apply_linear / set_complex_step_mode, reading back the assembled matrices.',
      'Seeded layouts with one source + two components; rows/cols duplicates and DirectSolver+csr are refused by OpenMDAO (counted); coo exercised via a '
      'patched jacobian table; histories sampled.',
      'TLA+ operator/format specification + TLC (invariants + simulation) + history replay into every Jacobian format', '5.8, 6/C11')

claim('C12',
      'spec/mech/Approx.tla: the exact rational quotient each scheme DEFINES (forward/backward/central x abs/rel/rel_avg/rel_element/rel_legacy, '
      'minimum_step; formal step symbol) for polynomial functions, with TruncationLaw / CsExact / StepLaws and a ReadOnly action property; every '
      'TLC scenario is replayed into real components, implicit components, colored approximations, approx_totals and semi-totals: each '
      'approximated Jacobian entry is compared with the exact rational at round-off tolerance, and the model vectors are compared bit-for-bit '
      'before and after every approximation.',
      'Polynomials of degree <= 2 with <= 3 inputs; non-polynomial truncation behaviour, MPI/parallel FD and directional approximations out of scope. '
      'One known finding (colored FD with a relative step_calc).',
      'TLA+/TLC scenario enumeration with an exact oracle + replay + bit-exact side-effect check', '5.8, 6/C12')

claim('C14',
      'spec/mech/Expr.tla: expression trees over ExecComp\'s function table, the symbolic derivative D(e, x) and domain conditions; TLC checks the '
      'laws of D (incl. exact agreement with dual-number differentiation over the rationals on the algebraic fragment) on every tree with at most two '
      'operator nodes plus seeded deeper trees; every tree is rendered as an ExecComp expression and executed for shapes x has_diag_partials x '
      'do_coloring x shape_by_conn at two points (for colored configurations the first point may hold an exactly-zero variable, off every branch '
      'cut); outputs, totals, sub-Jacobians and declared sparsity are compared with the value and derivative trees evaluated by NumPy.',
      'NumPy primitives are the trusted base; elementwise expressions; configurations per tree sampled; points keep a margin from kinks and poles.',
      'TLA+ expression/derivative spec + TLC (exhaustive + simulate) + replay into ExecComp', '5.8, 6/C14, 7')

claim('C33',
      'spec/mech/Vector.tla: the NumPy semantics of OpenMDAO\'s vector on exact rationals (set_val, set_vec, +=, -=, *=, add_scal_vec, named and '
      'indexed writes, iadd/isub/imul with idxs, scale_to_norm / scale_to_phys fwd and rev with per-entry (a0, a1) incl. negative a1) and its '
      'complex-step mode (two data planes, set_complex_step_mode, complex operands, set vs arithmetic semantics on the imaginary plane); TLC checks '
      'ViewsTile, ScaleRoundTrip, DualPairing, NormLaw, NamedWriteFrame, OtherUntouched, HiddenPlane, ModeSwitchFrame exhaustively to depth 2 (quick: '
      'complex storage to depth 1) and along random histories of three families; every history is replayed on the root vectors of a real Problem with '
      'both planes, views, dot and norm compared after every action.',
      'Input vectors and rev-scaling of nonlinear vectors outside; histories sampled; dot() in complex-step mode specified as the code computes it '
      '(bilinear; the docstring says real parts).',
      'TLA+ exact-rational vector semantics + TLC (exhaustive depth 2 + simulation) + history replay', '5.8, 6/C33')

claim('C34',
      'The TLC-generated trees and derivative trees of Expr.tla rendered as Python source: NumPy functions wrapped with openmdao.func_api for '
      'ExplicitFuncComp / ImplicitFuncComp (cs or jax, coloring, jit) and JaxExplicitComponent / JaxImplicitComponent subclasses; outputs/residuals, '
      'totals and sub-Jacobians are compared at two points with the spec\'s trees evaluated by NumPy (1e-9 relative, jax in float64).  '
      'FuncSig.tla enumerates component structures (1-3 inputs, 1-2 outputs/states: argument order, return order, add_output order, named or '
      'positional returns, shapes, partial direction) with layout laws (ColsLaw, OffsetLaw, DirLaw, KeptLaw, RotationLaw); FuncSigJudge.tla '
      'derives by name the expected residual trees and every Jacobian block of harness-composed multi-output cases, which are rendered, '
      'executed and compared by name in 16 classes (kind x direction x state order).',
      'Scenario selection sampled; cs scenarios exclude abs/arctan2; non-smooth trees at a single point where sparsity is sampled at the first '
      'linearization; sampled-sparsity scenarios whose exact derivative has an entry that is zero within tolerance at the first point are compared '
      'at one point only; implicit components: residuals and partials only.',
      'TLA+ Expr.tla trees + FuncSig.tla structures (argument / return / declaration orders, shapes, direction; layout laws) + FuncSigJudge.tla '
      '(by-name expected residual trees and Jacobian blocks) + TLC + generated-source replay', '6/C34, 7')


claim('C17',
      'Recorder.tla models the recording-frame tree, the recorder file and the reader\'s hierarchy queries transcribed on real coordinate '
      'strings; TLC checks on every bounded run tree (RecorderMC) that the flat listings equal execution order and exact descendants, and '
      'refutes the off-by-one window and two transcribed reader defects.  Bound to the code by replaying the observed push/pop/record '
      'stream of real generated runs through the spec\'s actions (RecorderJudge) and judging every reader answer and every case\'s '
      'variable set in TLA+ (incl. get_case(<int>) with Python index semantics, systems whose names start with "root", design variables and '
      'responses recorded irrespective of record_outputs); values are compared with an independent live snapshot.',
      'Serial SqliteRecorder/reader only; no discrete variables, aliases, record_derivatives, line-search recorders or late attachment; '
      'iteration numbers of driver/solver frames are taken from the events, only system counters are predicted.',
      'TLA+/TLC: exhaustive bounded run trees (RecorderMC) + trace validation of observed recordings and reader answers (RecorderJudge); '
      'selection logic in TLA+ with Python\'s fnmatch table; independent snapshot for values', '6/C17')

claim('C19',
      'LoadCase.tla models load_case / get_val / run_model over the store of sources and the input vector: the laws Restored, '
      'FinalConsistent, OthersKept and Reproduced are checked on a small instance and three non-theorems refuted.  Recorded cases of '
      'generated models (problem, driver, system and solver recorders; final and mid-solve) are loaded into fresh Problems in three '
      'phases; the harness compares floats, TLA+ decides which law applies (consistency, coverage of the independents, finality) and '
      'judges every variable.',
      'Sampled models and cases; no solver scaling in the loaded models; promoted-name reads judged only where no src_indices lie '
      'between the promoted node and the input.',
      'TLA+/TLC: law checking on an abstract instance + judging of observed load_case executions (LoadCase.tla)', '6/C19')


def main():
    checks = []
    for pid in ALL:
        if pid not in CLAIMS:
            continue
        cat, text, note, tech, ref = CLAIMS[pid]
        checks.append({
            'property_id': pid,
            'quick_cmd': './check %s --tier quick' % pid,
            'thorough_cmd': './check %s --tier thorough' % pid,
            'evidence_file': '/verif/evidence/%s.json' % pid,
            'replay_cmd_template': './check %s --replay {path}' % pid,
            'engine': 'tlc+vf',
            'level_claimed': {'category': cat, 'text': text, 'design_ref': 'DESIGN.md section ' + ref},
            'level_note': note,
            'technique': tech,
        })
    na = []
    for pid in ALL:
        if pid in CLAIMS:
            continue
        na.append({'property_id': pid, 'reason': NA.get(pid, 'check not built yet (build in progress; see DESIGN.md section 11 for the order)')})
    man = {
        'version': 1,
        'setup_cmd': 'true',
        'hooks': {
            'guard': 'OPENMDAO_VERIF',
            'enable': 'no source hooks: /verif/check sets OPENMDAO_VERIF=1 and installs observation wrappers from the harness '
                      '(per driver, e.g. harness/vf/drivers/c09.py, c17.py, c24.py) in the checking process only; /repo is an editable install so checks see the working tree',
            'baseline_off_cmd': 'cd /repo && /venv/bin/python -m pytest -ra -q -p no:cacheprovider --timeout=900 '
                                '--continue-on-collection-errors -n 16',
            'source_commits': [],
            'add_only': True,
        },
        'engines': [{'name': 'tlc+vf', 'path': '/verif/check',
                     'serves_properties': sorted(CLAIMS),
                     'kind_free_text': 'explicit TLA+ specifications (spec/) checked with TLC; bound to the implementation by '
                                       'replaying TLC-generated transitions/scenarios into OpenMDAO and by validating observations '
                                       'of real runs with TLC (harness/vf)'}],
        'checks': checks,
        'not_applicable': na,
        'notes': 'See DESIGN.md. known_findings.json lists genuine defects (fixed by fix: commits in /repo or recorded as known).',
    }
    with open(os.path.join(HERE, 'MANIFEST.json'), 'w') as f:
        json.dump(man, f, indent=1)
    import jsonschema
    jsonschema.validate(man, json.load(open('/root/.vp/MANIFEST.schema.json')))
    print('MANIFEST ok: %d checks, %d not_applicable' % (len(checks), len(na)))


if __name__ == '__main__':
    main()
