"""Shared driver for the system-specification properties: generate model descriptions, run the real code under a
list of configurations, and let TLC (spec/sys/OMJudge.tla) judge the observations against the exact denotation."""
import json
import os
import random
import time

from . import modelgen as mg
from . import ombuild as ob
from . import sysobs as so
from .core import dumps
from .tlc import MachineryError
from .util import pmap, quiet, split


def gen_model(seed, opts):
    """deterministic model description for a seed, or None when rejected (magnitudes, singular, ...)"""
    rng = random.Random(seed)
    md = mg.generate(rng, opts)
    if opts.get('prom', True):
        mg.add_promotions(rng, md, opts.get('prom_frac', .5))
    if opts.get('cyc', True) and rng.random() < opts.get('cyc_frac', .4):
        mg.add_cycle(rng, md)
    if opts.get('vois', True):
        mg.add_vois(rng, md, scaling=opts.get('voi_scaling', True), indices=opts.get('voi_indices', True))
    if opts.get('scaling'):
        mg.add_output_scaling(rng, md)
    mg.assign_solvers(rng, md)
    ref = mg.reference(md)
    if ref is None or not mg.magnitude_ok(ref):
        return None, None, rng
    return md, ref, rng


def with_solver(md, ln=None, nl=None):
    """copy of md with the linear (and optionally nonlinear) solver of every solver-carrying group replaced, keeping
    the configuration legal (DESIGN.md: legality is part of the specification)"""
    import copy
    m = copy.deepcopy(md)
    cg = mg.cyclic_groups(m)
    for gp, sv in m['solvers'].items():
        if ln is not None:
            name, opts = ln
            if gp in cg and name == 'runonce':
                continue
            nln = (sv.get('nl') or {}).get('name')
            if nln == 'broyden' and name != 'direct':
                continue
            if nln == 'newton' and name == 'lnbj':
                continue
            sv['ln'] = {'name': name, 'opts': dict(opts, **({} if name in ('direct', 'runonce') else {'err_on_non_converge': True}))}
        if nl is not None and gp in cg:
            if nl == 'broyden' and (gp == '' or sv['ln']['name'] != 'direct'):
                continue
            sv['nl'] = {'name': nl, 'opts': {'err_on_non_converge': True}}
    return m


def has_matfree(md):
    return any(s == 'matfree' for c in md['comps'] for row in c['storage'] for s in row)


def legal(md):
    """assembled jacobians refuse matrix-free components"""
    if has_matfree(md):
        for sv in md['solvers'].values():
            if (sv.get('ln') or {}).get('opts', {}).get('assemble_jac'):
                return False
    return True


def run_tlc_judge(ctx, cases, tag='cases'):
    """write the cases, run OMJudge, return verdicts by tid (1-based)"""
    path = ctx.write_json('%s.json' % tag, cases)
    cfg = ctx.write_cfg('OMJudge_%s.cfg' % tag, 'INIT Init\nNEXT Next\nINVARIANT Export\n')
    r = ctx.tlc_check('sys/OMJudge', cfg, env={'OM_CASES': path}, timeout=3000, heap='12g', coverage=False)
    v = {e['tid']: e['v'] for e in r.exports('EXP')}
    if len(v) != len(cases):
        raise MachineryError('OMJudge returned %d verdicts for %d cases:\n%s' % (len(v), len(cases), r.tail()))
    return v
