"""Shared driver for the system-specification properties: generate model descriptions, run the real code under a
list of configurations, and let TLC (spec/sys/OMJudge.tla) judge the observations against the exact denotation."""
import json
import os
import random
import time

from . import modelgen as mg
from . import ombuild as ob
from . import sysobs as so
from .core import dumps
from .tlc import MachineryError
from .util import pmap, quiet, split


def gen_model(seed, opts):
    """deterministic model description for a seed, or None when rejected (magnitudes, singular, ...)"""
    rng = random.Random(seed)
    md = mg.generate(rng, opts)
    if opts.get('prom', True):
        mg.add_promotions(rng, md, opts.get('prom_frac', .5))
    if opts.get('shared', True):
        mg.add_shared_promotes(rng, md)
    if opts.get('cyc', True) and rng.random() < opts.get('cyc_frac', .4):
        mg.add_cycle(rng, md)
    if opts.get('vois', True):
        mg.add_vois(rng, md, scaling=opts.get('voi_scaling', True), indices=opts.get('voi_indices', True),
                    bare_nd=opts.get('voi_bare_nd', False))
    if opts.get('scaling'):
        mg.add_output_scaling(rng, md)
    mg.assign_solvers(rng, md, stack_p=opts.get('stack_p', .7))
    if not legal(md):          # assembled jacobians refuse matrix-free components: use the matrix-free DirectSolver
        for sv in md['solvers'].values():
            if (sv.get('ln') or {}).get('name') == 'direct':
                sv['ln']['opts']['assemble_jac'] = False
    ref = mg.reference(md)
    if ref is None or not mg.magnitude_ok(ref):
        return None, None, rng
    return md, ref, rng


def with_solver(md, ln=None, nl=None):
    """copy of md with the linear (and optionally nonlinear) solver of every solver-carrying group replaced, keeping
    the configuration legal (DESIGN.md: legality is part of the specification)"""
    import copy
    m = copy.deepcopy(md)
    cg = mg.cyclic_groups(m)
    for gp, sv in m['solvers'].items():
        if gp != '' and gp not in cg:
            continue            # acyclic sub-groups keep the linear solver the generator gave them
        if ln is not None:
            name, opts = ln
            if gp in cg and name == 'runonce':
                continue
            nln = (sv.get('nl') or {}).get('name')
            if nln == 'broyden' and name != 'direct':
                continue
            if nln == 'newton' and name == 'lnbj':
                continue
            sv['ln'] = {'name': name, 'opts': dict(opts, **({} if name in ('direct', 'runonce') else {'err_on_non_converge': True}))}
        if nl is not None and gp in cg:
            if nl == 'broyden' and (gp == '' or sv['ln']['name'] != 'direct'):
                continue
            sv['nl'] = {'name': nl, 'opts': {'err_on_non_converge': True}}
    return m


def has_matfree(md):
    return any(s == 'matfree' for c in md['comps'] for row in c['storage'] for s in row) or \
        any(c.get('mf') for c in md['comps'])


def legal(md):
    """assembled jacobians refuse matrix-free components"""
    if has_matfree(md):
        for sv in md['solvers'].values():
            ln = sv.get('ln') or {}
            if ln.get('name') == 'direct' and ln.get('opts', {}).get('assemble_jac', True):
                return False
    return True


def run_tlc_judge(ctx, cases, tag='cases'):
    """write the cases, run OMJudge, return verdicts by tid (1-based)"""
    path = ctx.write_json('%s.json' % tag, cases)
    cfg = ctx.write_cfg('OMJudge_%s.cfg' % tag, 'INIT Init\nNEXT Next\nINVARIANT Export\n')
    r = ctx.tlc_check('sys/OMJudge', cfg, env={'OM_CASES': path}, timeout=3000, heap='12g', coverage=False)
    v = {e['tid']: e['v'] for e in r.exports('EXP')}
    if len(v) != len(cases):
        raise MachineryError('OMJudge returned %d verdicts for %d cases:\n%s' % (len(v), len(cases), r.tail()))
    return v


# ---------------------------------------------------------------------------------------------------- workers
LN_VARIANTS = [('runonce', {}), ('direct', {'assemble_jac': False}), ('direct', {'assemble_jac': True}), ('lnbgs', {}), ('lnbj', {}),
               ('krylov', {})]
JAC_TYPES = [None, 'dense', 'csc']
FORMATS = ['flat_dict', 'dict', 'array']


def plan_cfgs(rng, md, n, modes=None):
    """n configurations (mode, linear solver, assembled jacobian type, return format, driver scaling)"""
    cfgs = []
    modes = list(modes or ['fwd', 'rev', 'auto'])
    rng.shuffle(modes)
    lns = LN_VARIANTS[:]
    rng.shuffle(lns)
    for k in range(n):
        cfgs.append({'mode': modes[k % len(modes)], 'ln': lns[k % len(lns)], 'fmt': FORMATS[rng.randrange(3)],
                     'scaled': rng.random() < .5, 'jac': rng.choice(JAC_TYPES),
                     'coloring': rng.choice([None, None, 'direct', 'subst']),
                     # cache of linear solutions keyed on the right-hand side (LinearRHSChecker): equal / negated /
                     # parallel right-hand sides are answered from the cache, zero ones skipped
                     'permute': rng.random() < .4,
                     'rhsc': rng.choice([None, None, None, {'check_zero': True}, True, {'check_zero': True, 'max_cache_entries': 1}])})
    return cfgs


def apply_cfg(md, c):
    m = with_solver(md, ln=c['ln'])
    if c.get('rhsc'):
        for sv in m['solvers'].values():
            if (sv.get('ln') or {}).get('name') in ('direct', 'krylov'):
                sv['ln']['opts'] = dict(sv['ln']['opts'], rhs_checking=c['rhsc'])
    if c.get('jac'):
        for sv in m['solvers'].values():
            if (sv.get('ln') or {}).get('name') == 'direct' and sv['ln']['opts'].get('assemble_jac'):
                m['jac'] = c['jac']
    return m


def observe_case(seed, opts, ncfg, want_runs=True, want_totals=True):
    """one generated model: returns dict(case=..., meta=...) or dict(skip=reason)"""
    from openmdao.core.analysis_error import AnalysisError
    md, ref, rng = gen_model(seed, opts)
    if md is None:
        return {'skip': 'rejected-by-generator'}
    meta = {'seed': seed, 'cyclic': bool(md.get('cycle')), 'ncomp': len(md['comps']) - 1,
            'chains': max([len(i['chain']) for i in md['ins']] + [0]), 'cfgs': []}
    runs, cfgs = [], []
    try:
        if want_runs:
            p = ob.build(so.without_vois(md), {'mode': 'auto'})
            p.run_model()
            runs.append(dict(so.observe_run(p, md, ref), chk=[i['id'] + 1 for i in md['ins']], fix=True))
        if want_totals:
            for c in plan_cfgs(rng, md, ncfg, opts.get('modes')):
                m = apply_cfg(md, c)
                if not legal(m):
                    meta['cfgs'].append(dict(c, skipped='illegal'))
                    continue
                rtol = 1e-7 if any((sv.get('ln') or {}).get('name') == 'krylov' for sv in m['solvers'].values()) else 1e-9
                try:
                    p1 = ob.build(so.without_vois(m), {'mode': c['mode']})
                    p1.run_model()
                    full = so.observe_full(p1, m, ref, rtol)
                    p2 = ob.build(m, {'mode': c['mode'], 'coloring': c.get('coloring')})
                    p2.run_model()
                    blocks = so.observe_blocks(p2, m, ref, c['scaled'], c['fmt'], rtol, permute=bool(c.get('permute')))
                except AnalysisError:
                    meta['cfgs'].append(dict(c, skipped='solver-did-not-converge'))
                    continue
                except ValueError as e:
                    # a diverging iteration (NaN / inf iterates) that reaches a direct factorisation before the iterating
                    # solver reports: no convergence, no claim (C09 covers what the solvers report)
                    if 'infs or NaNs' not in str(e):
                        raise
                    meta['cfgs'].append(dict(c, skipped='solver-diverged-to-nan'))
                    continue
                cfgs.append({'full': full, 'blocks': blocks, 'scaled': bool(c['scaled'])})
                meta['cfgs'].append(c)
    except AnalysisError:
        return {'skip': 'solver-did-not-converge'}
    except Exception as e:
        import traceback
        if isinstance(e, ValueError) and 'infs or NaNs' in str(e):
            return {'skip': 'solver-diverged-to-nan'}
        return {'exc': '%s: %s' % (type(e).__name__, e), 'tb': traceback.format_exc()[-1500:], 'meta': meta, 'md': md}
    return {'case': so.case_record(md, ref, runs, cfgs), 'meta': meta, 'md': md}


def _worker(args):
    quiet()
    seeds, opts, ncfg, wr, wt = args
    return [observe_case(s, opts, ncfg, wr, wt) for s in seeds]


def collect(ctx, seeds, opts, ncfg, want_runs=True, want_totals=True, nproc=16):
    chunks = [(ch, opts, ncfg, want_runs, want_totals) for ch in split(list(seeds), nproc * 3) if ch]
    res = pmap(_worker, chunks, nproc)
    out = []
    for ch, rs in zip(chunks, res):
        for s, r in zip(ch[0], rs):
            r['seed'] = s
            out.append(r)
    out.sort(key=lambda r: r['seed'])
    return out
