"""Replay of a TLC state graph into an implementation: one implementation test per transition.

TLC prints every transition of the (bounded) specification as {sc, f, a, t, r}: scenario index,
source state, action with arguments, target state, action result.  For every state we take one
shortest path from an initial state; every outgoing transition is then executed on a fresh
implementation object driven along that path, and the projected state is compared after every step.
"""
import collections
import json

from .core import dumps
from .tlc import MachineryError


def key(sc, st):
    return json.dumps([sc, st], sort_keys=True)


class Graph:
    def __init__(self, edges, inits):
        self.adj = collections.OrderedDict()
        self.state = {}
        self.n_edges = 0
        seen = set()
        for e in edges:
            kf, kt = key(e['sc'], e['f']), key(e['sc'], e['t'])
            ek = (kf, json.dumps(e['a'], sort_keys=True))
            if ek in seen:
                continue
            seen.add(ek)
            self.state[kf] = (e['sc'], e['f'])
            self.state[kt] = (e['sc'], e['t'])
            self.adj.setdefault(kf, []).append((e['a'], kt, e.get('r')))
            self.n_edges += 1
        self.inits = [key(i['sc'], i['f']) for i in inits]
        for k, i in zip(self.inits, inits):
            self.state.setdefault(k, (i['sc'], i['f']))
        # BFS tree
        self.path = {}
        dq = collections.deque()
        for k in self.inits:
            if k not in self.path:
                self.path[k] = ()
                dq.append(k)
        while dq:
            k = dq.popleft()
            for (a, kt, r) in self.adj.get(k, ()):
                if kt not in self.path:
                    self.path[kt] = self.path[k] + ((a, kt, r),)
                    dq.append(kt)
        unreachable = [k for k in self.adj if k not in self.path]
        if unreachable:
            raise MachineryError('exported graph has %d source states unreachable from the exported '
                                 'initial states' % len(unreachable))

    def replay(self, fresh, apply, project, expect, on_bad, max_edges=None, pick=None):
        """fresh(sc)->obj; apply(obj, act)->result; project(obj)->observable;
        expect(sc, state, result_record)->(observable, result) expected by the spec;
        on_bad(sc, path_acts, act, expected, observed, clause)."""
        n = 0
        keys = list(self.path.keys())
        for k in keys:
            outs = self.adj.get(k, ())
            if pick is not None:
                outs = [o for o in outs if pick(k, o)]
            sc, st = self.state[k]
            for (a, kt, r) in outs:
                if max_edges is not None and n >= max_edges:
                    return n
                obj = fresh(sc)
                ok = True
                acts = []
                for (pa, pk, pr) in self.path[k]:
                    res = apply(obj, pa)
                    acts.append(pa)
                    eobs, eres = expect(sc, self.state[pk][1], pr)
                    obs = project(obj)
                    if obs != eobs or res != eres:
                        # the prefix transition is itself an edge of the graph and is reported there
                        ok = False
                        break
                if not ok:
                    n += 1
                    continue
                res = apply(obj, a)
                obs = project(obj)
                eobs, eres = expect(sc, self.state[kt][1], r)
                n += 1
                if obs != eobs:
                    on_bad(sc, acts, a, {'state': eobs, 'result': eres}, {'state': obs, 'result': res}, 'state-after-action')
                elif res != eres:
                    on_bad(sc, acts, a, {'state': eobs, 'result': eres}, {'state': obs, 'result': res}, 'action-result')
        return n
