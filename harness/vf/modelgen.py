"""Model descriptions shared by the system-spec properties (C01 C02 C04 C07 C08 C19 C24 C31 C32 ...).

A model description `md` is a JSON-able dict.  `build(md, cfg)` makes the real om.Problem; `semiflat(md)` is the record
handed to the TLA+ system specification (spec/sys/OMModel.tla) which computes the denotation (converged values, inputs,
total Jacobian) exactly; `reference(md)` is an independent fractions.Fraction evaluation used (a) to quantise observed
floats to rationals with a known denominator and (b) as a cross-check of the TLA+ oracle (a disagreement between the
two is a machinery error, never a violation).

All numbers are integers or exact rationals [n, d].  Index terms use the NdIndex.tla representation:
 {"k":"int","i":..} {"k":"slice","a":..,"b":..,"s":..} (NONE for omitted) {"k":"arr","v":[..]} {"k":"arr2","v":[[..]]}
 {"k":"ell"} {"k":"tuple","t":[..]}
"""
import math
import random
from fractions import Fraction as F

import numpy as np

NONE = 99999          # NoneV of NdIndex.tla

# (source units, target units, factor, offset) with  target = factor * source + offset   (exact)
UNIT_PAIRS = [
    (None, None, F(1), F(0)),
    ('m', 'm', F(1), F(0)),
    ('km', 'm', F(1000), F(0)),
    ('m', 'cm', F(100), F(0)),
    ('cm', 'm', F(1, 100), F(0)),
    ('h', 'min', F(60), F(0)),
    ('degC', 'degK', F(1), F(27315, 100)),
    ('degF', 'degC', F(5, 9), F(-160, 9)),
]


# ------------------------------------------------------------------------------------------------ index terms
def t_int(i):
    return {'k': 'int', 'i': int(i)}


def t_slice(a, b, s):
    return {'k': 'slice', 'a': NONE if a is None else int(a), 'b': NONE if b is None else int(b),
            's': NONE if s is None else int(s)}


def t_arr(v):
    return {'k': 'arr', 'v': [int(x) for x in v]}


def t_arr2(v):
    return {'k': 'arr2', 'm': [[int(x) for x in r] for r in v]}


def t_ell():
    return {'k': 'ell'}


def t_tuple(ts):
    return {'k': 'tuple', 't': list(ts)}


def term_to_py(t):
    k = t['k']
    if k == 'int':
        return t['i']
    if k == 'slice':
        return slice(*[None if t[x] == NONE else t[x] for x in ('a', 'b', 's')])
    if k == 'arr':
        return np.array(t['v'], dtype=int)
    if k == 'arr2':
        return np.array(t['m'], dtype=int)
    if k == 'ell':
        return Ellipsis
    if k == 'tuple':
        return tuple(term_to_py(x) for x in t['t'])
    raise ValueError(t)


def np_positions(term, shape, flat):
    """NumPy's answer: flat C-order source positions selected and the result shape."""
    size = int(np.prod(shape))
    src = np.arange(size)
    if not flat:
        src = src.reshape(shape)
    r = src[term_to_py(term)]
    r = np.atleast_1d(r)
    return [int(x) for x in r.ravel()], list(r.shape)


def rand_axis_term(rng, n, allow_int=True):
    """index for one axis of extent n"""
    c = rng.randrange(6)
    if c == 0 and allow_int:
        return t_int(rng.randrange(-n, n))
    if c == 1:
        return t_slice(None, None, None)
    if c == 2:
        a = rng.randrange(-n, n)
        return t_slice(a, None, None) if rng.random() < .5 else t_slice(None, None, -1)
    if c == 3 and n >= 2:
        return t_slice(None, None, 2) if rng.random() < .5 else t_slice(n - 1, None, -2)
    k = rng.randrange(1, 4)
    return t_arr([rng.randrange(-n, n) for _ in range(k)])


def raw_ndim(term, shape, flat):
    size = int(np.prod(shape))
    src = np.arange(size)
    if not flat:
        src = src.reshape(shape)
    return np.ndim(src[term_to_py(term)])


def rand_term(rng, shape, forms=None, nonscalar=False, allow_bare=True):
    """random valid (term, flat) for a source shape; result size 1..4.  nonscalar: the raw NumPy result must have
    at least one dimension (OpenMDAO does not re-shape a 0-d intermediate result of a src_indices chain to (1,):
    a following indexer then fails with 'invalid index to scalar variable' - observed, kept out of scope)"""
    size = int(np.prod(shape))
    for _ in range(200):
        flat = rng.random() < .5 if len(shape) > 1 else rng.random() < .3
        form = rng.choice(forms or ['arr', 'arr', 'slice', 'neg', 'tuple', 'ell', 'rev', 'rep'])
        if flat or len(shape) == 1:
            n = size if flat else shape[0]
            if form == 'slice':
                a = rng.randrange(0, n)
                t = t_slice(a, min(n, a + rng.randrange(1, 4)), None)
            elif form == 'rev':
                t = t_slice(None, None, -1) if n <= 4 else t_slice(n - 1, n - 4, -1)
            elif form == 'neg':
                t = t_arr([rng.randrange(-n, 0) for _ in range(rng.randrange(1, 4))])
            elif form == 'rep':
                i = rng.randrange(n)
                t = t_arr([i, i] + [rng.randrange(n)] * rng.randrange(0, 2))
            elif form == 'arr2' and flat:
                t = t_arr2([[rng.randrange(-n, n) for _ in range(2)] for _ in range(2)])
            elif form == 'ell' and not flat:
                t = t_tuple([t_ell()])
            else:
                t = t_arr([rng.randrange(-n, n) for _ in range(rng.randrange(1, 4))])
            if not flat and len(shape) == 1 and t['k'] in ('arr', 'slice') and rng.random() < .3:
                t = t_tuple([t])
        else:
            if allow_bare and rng.random() < .25:
                # a bare (non-tuple) int / slice / array indexes the FIRST axis of a non-flat N-d source
                t = rand_axis_term(rng, shape[0])
                try:
                    pos, rshape = np_positions(t, shape, flat)
                except (IndexError, ValueError):
                    continue
                if nonscalar and raw_ndim(t, shape, flat) == 0:
                    continue
                if 1 <= len(pos) <= 4 and len(rshape) <= 2:
                    return t, flat, pos, rshape
                continue
            axes = [rand_axis_term(rng, n) for n in shape]
            if form == 'ell':
                axes = [t_ell(), rand_axis_term(rng, shape[-1])]
            elif form == 'tuple' and len(shape) == 2:
                # two advanced indices broadcast together
                k = rng.randrange(1, 4)
                axes = [t_arr([rng.randrange(-shape[0], shape[0]) for _ in range(k)]),
                        t_arr([rng.randrange(-shape[1], shape[1]) for _ in range(k)])]
            n_arr = sum(1 for a in axes if a['k'] == 'arr')
            if n_arr > 1 and form != 'tuple':
                continue
            t = t_tuple(axes)
        try:
            pos, rshape = np_positions(t, shape, flat)
        except (IndexError, ValueError):
            continue
        if nonscalar and raw_ndim(t, shape, flat) == 0:
            continue
        if 1 <= len(pos) <= 4 and len(rshape) <= 2:
            return t, flat, pos, rshape
    return t_slice(None, None, None), True, list(range(size)), [size]


# ------------------------------------------------------------------------------------------------ generation
SHAPES = [[1], [2], [3], [2, 2], [2, 3], [4]]
STORAGE = ['dense', 'rowscols', 'rowscols_dup', 'coo', 'csr', 'csc', 'diag', 'matfree', 'fd', 'cs']


def fr(x):
    return F(x[0], x[1]) if isinstance(x, (list, tuple)) else F(x)


def rj(x):
    x = F(x)
    return [x.numerator, x.denominator]


class Opts(dict):
    __getattr__ = dict.get


def generate(rng, opts=None):
    """Return a model description.  opts: knobs (all optional) - ncomp, depth, units, cycles, implicit, idx_forms,
    promote, storage (list), autoivc."""
    o = Opts(opts or {})
    ncomp = o.ncomp or rng.randrange(2, 6)
    depth = o.depth if o.depth is not None else rng.choice([0, 1, 2, 2, 2])
    comps = []
    outs = []       # global output list: dict(comp, k, shape, units)
    ins = []        # global input list
    # group paths: components are placed in execution order; the current path may descend into a NEW group or
    # ascend, never re-enter a closed group, so the depth-first subsystem order is the component id order
    gpaths = ['']
    cur = []
    ngroups = 0
    place = {}
    for c in range(1, ncomp + 1):
        r = rng.random()
        if len(cur) < depth and r < .55:
            ngroups += 1
            cur = cur + ['g%d' % ngroups]
            gpaths.append('.'.join(cur))
        elif cur and r > .8:
            cur = cur[:-1]
        place[c] = '.'.join(cur)
    # independent variable component(s)
    n_ivc_out = o.nivc or rng.randrange(1, 3)
    ivc = {'id': 0, 'name': 'ivc', 'group': '', 'kind': 'ivc', 'ins': [], 'outs': [], 'A': [], 'b': [], 'd': [], 'storage': []}
    for k in range(n_ivc_out):
        shape = rng.choice(SHAPES)
        size = int(np.prod(shape))
        oid = len(outs)
        units = rng.choice([None, None, 'm', 'km', 'degC', 'degF', 'h', 'cm']) if o.units is not False else None
        outs.append({'id': oid, 'comp': 0, 'name': 'x%d' % k, 'shape': shape, 'units': units,
                     'val': [rng.randrange(-3, 4) for _ in range(size)], 'ref': None, 'ref0': None, 'res_ref': None})
        ivc['outs'].append(oid)
    comps.append(ivc)
    for c in range(1, ncomp + 1):
        kind = 'impl' if (o.implicit is not False and rng.random() < (o.implicit or .25)) else 'expl'
        if o.bil and rng.random() < o.bil:
            kind = 'bil'
        comp = {'id': c, 'name': 'c%d' % c, 'group': place[c], 'kind': kind, 'ins': [], 'outs': [],
                'A': [], 'b': [], 'd': [], 'storage': []}
        nin = rng.randrange(1, 3)
        for k in range(nin):
            # source: any earlier output (DAG); feedback edges are added afterwards
            src = rng.choice(outs)
            term = None
            if o.idx is False or rng.random() < .35:
                chain = []
                ishape = list(src['shape'])
            else:
                t, flat, pos, rshape = rand_term(rng, src['shape'], o.idx_forms)
                chain = [{'idx': t, 'shape': list(src['shape']), 'flat': flat}]
                ishape = rshape
            cand = [u for u in UNIT_PAIRS if u[0] == src['units']]
            up = rng.choice(cand) if (cand and o.units is not False) else (src['units'], src['units'], F(1), F(0))
            if src['units'] is None:
                up = (None, None, F(1), F(0))
            iid = len(ins)
            ins.append({'id': iid, 'comp': c, 'name': 'a%d' % k, 'shape': ishape, 'units': up[1], 'src': src['id'],
                        'chain': chain, 'fac': rj(up[2]), 'off': rj(up[3]), 'how': 'connect'})
            comp['ins'].append(iid)
        nout = 2 if kind == 'bil' else rng.randrange(1, 3)
        bil_shape = rng.choice([[1], [2]])
        for k in range(nout):
            shape = bil_shape if kind == 'bil' else rng.choice(SHAPES)
            size = int(np.prod(shape))
            oid = len(outs)
            units = rng.choice([None, None, 'm', 'km', 'degC', 'h']) if o.units is not False else None
            outs.append({'id': oid, 'comp': c, 'name': 'y%d' % k, 'shape': shape, 'units': units,
                         'val': [rng.randrange(-2, 3) for _ in range(size)], 'ref': None, 'ref0': None, 'res_ref': None})
            comp['outs'].append(oid)
            rowA, rowS = [], []
            # some bilinear components declare NO partial of their second residual wrt any input: that state depends on the
            # inputs only through its coupling with the first state (sparse declared partials of an implicit component)
            bil_sparse = kind == 'bil' and k == 1 and rng.random() < (.35 if o.bil_sparse is None else o.bil_sparse)
            for iid in comp['ins']:
                isz = int(np.prod(ins[iid]['shape']))
                A = [[rng.choice([0, 0, 1, 1, -1, 2]) for _ in range(isz)] for _ in range(size)]
                st = rng.choice(o.storage or STORAGE[:7])
                if kind == 'bil':
                    st = 'dense'
                if bil_sparse:
                    A = [[0] * isz for _ in range(size)]
                    st = 'rowscols'
                if st == 'diag' and (isz != size):
                    st = 'dense'
                if st == 'diag':
                    A = [[(A[r][r] or 1) if r == cc else 0 for cc in range(isz)] for r in range(size)]
                rowA.append(A)
                rowS.append(st)
            comp['A'].append(rowA)
            comp['storage'].append(rowS)
            comp['b'].append([rng.randrange(-2, 3) for _ in range(size)])
            comp['d'].append([rng.choice([1, 1, 2, -1, 4]) if kind in ('impl', 'bil') and not (kind == 'bil' and k == 1) else 1
                              for _ in range(size)])
            if kind == 'bil':
                comp['mf'] = rng.random() < .5          # matrix-free (apply_linear reads the state) or declared partials
                if k == 0:
                    # keep the first state away from zero (it divides the second residual equation)
                    comp['b'][0] = [rng.choice([3, 5, -5, 7]) for _ in range(size)]
                elif bil_sparse:
                    comp['b'][1] = [rng.choice([1, 2, -3]) for _ in range(size)]
                    comp['mf'] = False
        comps.append(comp)
    md = {'comps': comps, 'outs': outs, 'ins': ins, 'groups': gpaths, 'cycle': False,
          'solvers': {}, 'desvars': [], 'responses': []}
    return md


def comp_gpath(md, cid):
    return md['comps'][cid]['group']


def add_cycle(rng, md, tries=30):
    """add one feedback edge (a later component's output feeds an earlier component) if an exactly solvable,
    moderately sized one is found; marks md['cycle'] and returns True"""
    comps = [c for c in md['comps'] if c['kind'] != 'ivc']
    if len(comps) < 2 or any(c['kind'] == 'bil' for c in comps):
        return False
    import copy
    for _ in range(tries):
        m2 = copy.deepcopy(md)
        early, late = sorted(rng.sample([c['id'] for c in comps], 2))
        ce, cl = m2['comps'][early], m2['comps'][late]
        # must be a real cycle: late depends (transitively) on early
        src = m2['outs'][rng.choice(cl['outs'])]
        t, flat, pos, rshape = rand_term(rng, src['shape'], ['arr', 'slice', 'neg'])
        if len(pos) > 2:
            continue
        iid = len(m2['ins'])
        m2['ins'].append({'id': iid, 'comp': early, 'name': 'fb%d' % iid, 'shape': rshape, 'units': src['units'],
                          'src': src['id'], 'chain': [{'idx': t, 'shape': list(src['shape']), 'flat': flat}],
                          'fac': [1, 1], 'off': [0, 1], 'how': 'connect'})
        ce['ins'].append(iid)
        for ko, oid in enumerate(ce['outs']):
            size = int(np.prod(m2['outs'][oid]['shape']))
            A = [[rng.choice([0, 0, F(1, 2), F(-1, 2), F(1, 4)]) for _ in range(len(pos))] for _ in range(size)]
            ce['A'][ko].append([[rj(a) for a in row] for row in A])
            ce['storage'][ko].append(rng.choice(['dense', 'rowscols', 'csc']))
        if not has_cycle(m2):
            continue
        ref = reference(m2)
        if ref is None or not magnitude_ok(ref, dmax=1 << 7):
            continue
        m2['cycle'] = True
        md.clear()
        md.update(m2)
        return True
    return False


def comp_graph(md):
    g = {c['id']: set() for c in md['comps']}
    for i in md['ins']:
        if i.get('src') is not None:
            g[md['outs'][i['src']]['comp']].add(i['comp'])
    return g


def has_cycle(md):
    g = comp_graph(md)
    color = {}

    def dfs(u):
        color[u] = 1
        for v in g[u]:
            if color.get(v) == 1 or (v not in color and dfs(v)):
                return True
        color[u] = 2
        return False
    return any(u not in color and dfs(u) for u in g)


def cyclic_groups(md):
    """group paths whose direct-children graph contains a cycle (they need iterative / direct solvers)"""
    res = set()
    paths = set(md['groups'])
    for gp in paths:
        pre = gp + '.' if gp else ''

        def child(cid):
            cp = (md['comps'][cid]['group'] + '.' if md['comps'][cid]['group'] else '') + md['comps'][cid]['name']
            if not cp.startswith(pre):
                return None
            return cp[len(pre):].split('.')[0]
        g = {}
        for i in md['ins']:
            if i.get('src') is None:
                continue
            a, b = child(md['outs'][i['src']]['comp']), child(i['comp'])
            if a is not None and b is not None and a != b:
                g.setdefault(a, set()).add(b)
        color = {}

        def dfs(u):
            color[u] = 1
            for v in g.get(u, ()):
                if color.get(v) == 1 or (v not in color and dfs(v)):
                    return True
            color[u] = 2
            return False
        if any(u not in color and dfs(u) for u in list(g)):
            res.add(gp)
    return res


NL_FOR_CYCLE = ['nlbgs', 'newton', 'nlbgs', 'nlbj', 'broyden']
LN_FOR_CYCLE = [('direct', {'assemble_jac': False}), ('direct', {'assemble_jac': True}), ('lnbgs', {}), ('lnbj', {}), ('krylov', {})]
LN_ANY = [('runonce', {}), ('direct', {'assemble_jac': False}), ('direct', {'assemble_jac': True}), ('lnbgs', {}), ('krylov', {})]


def assign_solvers(rng, md, nl=None, ln=None, jac=None, stack_p=.7):
    """legal solver stacks: iterative / direct solvers on every group with a cycle among its children; any linear
    solver on the root otherwise.  jac: assembled jacobian type for the root ('dense'|'csc'|None)."""
    sv = {}
    cg = cyclic_groups(md)
    for gp in sorted(cg):
        nln = nl or rng.choice(NL_FOR_CYCLE)
        if nln == 'broyden' and gp == '':
            # Broyden over the full model also updates the IndepVarComp outputs (observed: an independent value drifts
            # by ~1e-5); no listed property covers that, so Broyden is only used on groups without independent variables
            nln = 'newton'
        lnn, lo = ln or rng.choice(LN_FOR_CYCLE)
        if nln == 'newton' and lnn in ('lnbj',):
            lnn, lo = 'direct', {'assemble_jac': False}
        if nln == 'broyden' and lnn != 'direct':      # legality: Broyden on the full model needs a DirectSolver
            lnn, lo = 'direct', {'assemble_jac': False}
        sv[gp] = {'nl': {'name': nln, 'opts': {'err_on_non_converge': True}},
                  'ln': {'name': lnn, 'opts': dict(lo, **({} if lnn in ('direct', 'runonce') else {'err_on_non_converge': True}))}}
    # a three-level stack that changes the scope of a sub-group's products: assembled jacobian below a Krylov parent
    nested = [gp for gp in md['groups'] if gp.count('.') >= 1 and gp not in sv and gp.rpartition('.')[0] not in sv]
    if nested and rng.random() < stack_p:
        child = rng.choice(nested)
        parent = child.rpartition('.')[0]
        sv[parent] = {'nl': None, 'ln': {'name': 'krylov', 'opts': {'err_on_non_converge': True}}}
        sv[child] = {'nl': None, 'ln': {'name': 'direct', 'opts': {'assemble_jac': True}}}
    # sub-groups may carry their own linear solver (assembled or recursing) below any kind of parent solver
    for gp in md['groups']:
        if gp and gp not in sv and rng.random() < .4:
            lnn, lo = rng.choice(LN_ANY)
            sv[gp] = {'nl': None, 'ln': {'name': lnn, 'opts': dict(lo, **({} if lnn in ('direct', 'runonce') else {'err_on_non_converge': True}))}}
    if '' not in sv:
        lnn, lo = ln or rng.choice(LN_ANY + [('krylov', {}), ('lnbj', {})])
        sv[''] = {'nl': None, 'ln': {'name': lnn, 'opts': dict(lo, **({} if lnn in ('direct', 'runonce') else {'err_on_non_converge': True}))}}
    if jac:
        md['jac'] = jac
    md['solvers'] = sv
    return sv


def add_promotions(rng, md, frac=.5):
    """re-realise some connections as promotion chains (input promoted upward through 1..k group levels, each level
    optionally with src_indices/src_shape, then connected), keeping the data graph; also fresh index chains"""
    outs = md['outs']
    for i in md['ins']:
        c = md['comps'][i['comp']]
        gparts = c['group'].split('.') if c['group'] else []
        if rng.random() > frac or i['name'].startswith('fb'):
            continue
        src = outs[i['src']]
        nlev = rng.randrange(1, len(gparts) + 2)
        shape = list(src['shape'])
        chain = []
        clink = None
        if rng.random() < .5:
            t, flat, pos, rshape = rand_term(rng, shape, nonscalar=True)
            clink = {'idx': t, 'shape': list(shape), 'flat': flat}
            chain.append(clink)
            shape = rshape
        plinks = []
        for lvl in range(nlev):          # outermost first
            if rng.random() < .6:
                t, flat, pos, rshape = rand_term(rng, shape, nonscalar=True)
                link = {'idx': t, 'shape': list(shape), 'flat': flat}
                chain.append(link)
                plinks.append(link)
                shape = rshape
            else:
                plinks.append(None)
        i['how'] = 'promote'
        i['chain'] = chain
        i['clink'] = clink
        # plevels inner -> outer
        i['plevels'] = [{'link': l, 'alias': 'p%d_%s' % (i['id'], i['name'])} for l in reversed(plinks)]
        if list(i['shape']) != list(shape):
            resize_input(md, i, shape, rng)
    return md


def add_shared_promotes(rng, md, prob=.35):
    """one promotes() call giving the SAME src_indices to two inputs of a component whose sources differ in size"""
    outs = md['outs']
    for c in md['comps']:
        cand = [md['ins'][iid] for iid in c['ins'] if md['ins'][iid].get('how', 'connect') == 'connect'
                and not md['ins'][iid]['name'].startswith('fb')]
        if len(cand) < 2 or rng.random() > prob:
            continue
        a, b = cand[0], cand[1]
        sa, sb = int(np.prod(outs[a['src']]['shape'])), int(np.prod(outs[b['src']]['shape']))
        k = rng.randrange(1, min(2, sa, sb) + 1)
        term = t_arr([rng.randrange(-min(sa, sb), 0) for _ in range(k)]) if rng.random() < .7 else t_slice(-k, None, None)
        for i in (a, b):
            src = outs[i['src']]
            pos, rshape = np_positions(term, src['shape'], True)
            i['how'] = 'promote_shared'
            i['share'] = {'id': 'sh%d' % c['id'], 'term': term, 'alias': 's%d_%s' % (i['id'], i['name'])}
            i['chain'] = [{'idx': term, 'shape': list(src['shape']), 'flat': True}]
            if list(i['shape']) != list(rshape):
                resize_input(md, i, rshape, rng)
    return md


def resize_input(md, i, shape, rng):
    """give input i a new shape and redraw the A blocks that read it"""
    i['shape'] = list(shape)
    isz = int(np.prod(shape))
    c = md['comps'][i['comp']]
    ki = c['ins'].index(i['id'])
    for ko, oid in enumerate(c['outs']):
        size = int(np.prod(md['outs'][oid]['shape']))
        st = c['storage'][ko][ki]
        A = [[rng.choice([0, 0, 1, 1, -1, 2]) for _ in range(isz)] for _ in range(size)]
        if st == 'diag':
            if isz != size:
                c['storage'][ko][ki] = 'dense'
            else:
                A = [[(A[r][r] or 1) if r == cc else 0 for cc in range(isz)] for r in range(size)]
        c['A'][ko][ki] = A


SCALE_PAIRS = [(F(1), F(0)), (F(2), F(1)), (F(-1), F(0)), (F(1), F(3)), (F(1, 2), F(0)), (F(10), F(-10))]


def add_output_scaling(rng, md, frac=.7):
    """solver scaling (ref, ref0, res_ref) on component outputs: scalars and arrays, positive and negative spans"""
    # a fifth of the models scale residuals only (no output of the whole model has ref / ref0)
    res_only = rng.random() < .2
    for o in md['outs']:
        if md['comps'][o['comp']]['kind'] == 'ivc' and rng.random() < .5:
            continue
        if rng.random() > frac:
            continue
        n = int(np.prod(o['shape']))
        if res_only:
            o['res_ref'] = rng.choice([rj(F(4)), rj(F(-2)), rj(F(1, 2)), {'arr': [rj(F(k + 2)) for k in range(n)]}])
            continue
        ref, ref0 = rng.choice(SCALE_PAIRS)
        form = rng.randrange(4)          # 0: both scalar, 1: ref array, 2: ref0 array, 3: both arrays
        if form in (1, 3) and n > 1:
            o['ref'] = {'arr': [rj(rng.choice(SCALE_PAIRS)[0] + (F(5) if False else 0)) for _ in range(n)]}
            # keep ref != ref0 elementwise
            o['ref'] = {'arr': [rj(ref + k) for k in range(n)]}
        else:
            o['ref'] = rj(ref)
        if form in (2, 3) and n > 1:
            o['ref0'] = {'arr': [rj(ref0 - 1 - k) for k in range(n)]}
        else:
            o['ref0'] = rj(ref0)
        # spans must be non-zero
        r = [fr(x) for x in o['ref']['arr']] if isinstance(o['ref'], dict) else [fr(o['ref'])] * n
        r0 = [fr(x) for x in o['ref0']['arr']] if isinstance(o['ref0'], dict) else [fr(o['ref0'])] * n
        if any(a == b for a, b in zip(r, r0)):
            o['ref'], o['ref0'] = rj(F(2)), rj(F(1))
        o['res_ref'] = rng.choice([None, rj(F(4)), rj(F(-2)), rj(F(1, 2))])
    md['scaled'] = True
    # sometimes all scaling is given after the outputs were declared, through set_output_solver_options
    md['scale_api'] = rng.random() < .3
    return md


def add_vois(rng, md, scaling=True, indices=True, bare_nd=False):
    """design variables on the independent outputs, responses on some component outputs"""
    dvs, rs = [], []
    for oid in md['comps'][0]['outs']:
        o = md['outs'][oid]
        dv = {'name': None, 'oid': oid, 'indices_term': None, 'flat_indices': False, 'scaler': None, 'adder': None,
              'ref': None, 'ref0': None}
        if indices and rng.random() < .5:
            t, flat, pos, rshape = rand_term(rng, o['shape'], ['arr', 'slice', 'neg', 'tuple'], allow_bare=bare_nd)
            if len(set(pos)) == len(pos):
                dv['indices_term'], dv['flat_indices'] = t, flat
        if scaling:
            _rand_scaling(rng, dv)
        dvs.append(dv)
    cand = [o for o in md['outs'] if md['comps'][o['comp']]['kind'] != 'ivc']
    rng.shuffle(cand)
    for o in cand[:rng.randrange(1, 4)]:
        r = {'name': None, 'oid': o['id'], 'indices_term': None, 'flat_indices': False, 'scaler': None, 'adder': None,
             'ref': None, 'ref0': None, 'type': 'con', 'lower': 0}
        if indices and rng.random() < .5:
            t, flat, pos, rshape = rand_term(rng, o['shape'], ['arr', 'slice', 'neg', 'tuple', 'rep'], allow_bare=bare_nd)
            r['indices_term'], r['flat_indices'] = t, flat
        if scaling:
            _rand_scaling(rng, r)
        rs.append(r)
    md['desvars'], md['responses'] = dvs, rs
    return md


def _rand_scaling(rng, v):
    c = rng.randrange(4)
    if c == 1:
        v['scaler'] = rj(rng.choice([F(2), F(-1), F(1, 2), F(4)]))
        v['adder'] = rj(rng.choice([F(0), F(1), F(-2)]))
    elif c == 2:
        ref0 = rng.choice([F(0), F(1), F(3)])
        ref = ref0 + rng.choice([F(1), F(2), F(-1), F(-2), F(4)])
        v['ref'], v['ref0'] = rj(ref), rj(ref0)


def voi_scaler_adder(v):
    """total (scaler, adder) as exact fractions: scaled = (x + adder) * scaler"""
    if v.get('ref') is not None or v.get('ref0') is not None:
        ref = fr(v['ref']) if v.get('ref') is not None else F(1)
        ref0 = fr(v['ref0']) if v.get('ref0') is not None else F(0)
        return 1 / (ref - ref0), -ref0
    s = fr(v['scaler']) if v.get('scaler') is not None else F(1)
    a = fr(v['adder']) if v.get('adder') is not None else F(0)
    return s, a


# ------------------------------------------------------------------------------------------------ reference (Fractions)
def conn_positions(inp, outs):
    """numpy reference for the source positions of an input through its chain"""
    src = outs[inp['src']]
    size = int(np.prod(src['shape']))
    pos = np.arange(size).reshape(src['shape'])
    for link in inp['chain']:
        if list(pos.shape) != list(link['shape']):
            if pos.size != int(np.prod(link['shape'])):
                raise ValueError('chain shape mismatch %s vs %s' % (pos.shape, link['shape']))
            pos = pos.reshape(link['shape'])
        p = pos.ravel() if link['flat'] else pos
        pos = np.atleast_1d(p[term_to_py(link['idx'])])
    return [int(x) for x in pos.ravel()]


def matvec(A, x):
    return [sum((F(a) * xx for a, xx in zip(row, x)), F(0)) for row in A]


def eval_order(md):
    """components in a topological order of the data graph (cycle members keep id order)"""
    comps = md['comps']
    deps = {c['id']: set(md['outs'][md['ins'][i]['src']]['comp'] for i in c['ins']) for c in comps}
    done, order = set(), []
    while len(order) < len(comps):
        ready = [c['id'] for c in comps if c['id'] not in done and deps[c['id']] <= done | {c['id']}]
        if not ready:      # cycle: break it at the lowest id
            ready = [min(c['id'] for c in comps if c['id'] not in done)]
        done.add(ready[0])
        order.append(ready[0])
    return order


def reference(md, xvals=None):
    """Exact converged outputs, inputs and d(outputs)/d(ivc outputs) for DAG models (Fractions).
    For cyclic models the global linear system is solved exactly."""
    outs, ins, comps = md['outs'], md['ins'], md['comps']
    osz = [int(np.prod(o['shape'])) for o in outs]
    off = np.concatenate([[0], np.cumsum(osz)]).astype(int)
    N = int(off[-1])
    # global affine system  D y = G y + c   with G from explicit/implicit comps
    Dm = [[F(0)] * N for _ in range(N)]
    G = [[F(0)] * N for _ in range(N)]
    cvec = [F(0)] * N
    ivc_cols = []
    for c in comps:
        if c['kind'] == 'ivc':
            for oid in c['outs']:
                vals = (xvals or {}).get(oid, outs[oid]['val'])
                for r in range(osz[oid]):
                    Dm[off[oid] + r][off[oid] + r] = F(1)
                    cvec[off[oid] + r] = fr(vals[r])
                    ivc_cols.append(off[oid] + r)
            continue
        for ko, oid in enumerate(c['outs']):
            for r in range(osz[oid]):
                row = off[oid] + r
                Dm[row][row] = fr(c['d'][ko][r])
                cvec[row] += fr(c['b'][ko][r])
                for ki, iid in enumerate(c['ins']):
                    inp = ins[iid]
                    pos = conn_positions(inp, outs)
                    fac, of_ = fr(inp['fac']), fr(inp['off'])
                    for k, p in enumerate(pos):
                        a = fr(c['A'][ko][ki][r][k])
                        if a != 0:
                            G[row][off[inp['src']] + p] += a * fac
                            cvec[row] += a * of_
    has_bil = any(c['kind'] == 'bil' for c in comps)
    rhsJ = [[F(1) if i == col else F(0) for col in ivc_cols] for i in range(N)]
    if not has_bil:
        # solve (Dm - G) y = cvec exactly, and (Dm - G) J = E (unit columns at ivc rows)
        M = [[Dm[i][j] - G[i][j] for j in range(N)] for i in range(N)]
        rhs = [[cvec[i]] + rhsJ[i] for i in range(N)]
        sol = gauss(M, rhs)
        if sol is None:
            return None
        y = [sol[i][0] for i in range(N)]
        J = [[sol[i][1 + k] for k in range(len(ivc_cols))] for i in range(N)]
    else:
        # bilinear components (feed-forward models only): r0 = d0*y0 - (A0 x + b0), r1 = y0*y1 - (A1 x + b1).
        # forward evaluation, then the linear system of the linearisation AT the converged state
        if md.get('cycle'):
            return None
        y = [F(0)] * N
        for cid in eval_order(md):
            c = comps[cid]
            for ko, oid in enumerate(c['outs']):
                for r in range(osz[oid]):
                    row = off[oid] + r
                    if c['kind'] == 'ivc':
                        y[row] = cvec[row]
                        continue
                    rhs_r = cvec[row] + sum((G[row][j] * y[j] for j in range(N) if G[row][j] != 0), F(0))
                    if c['kind'] == 'bil' and ko == 1:
                        y0 = y[off[c['outs'][0]] + r]
                        if y0 == 0:
                            return None
                        y[row] = rhs_r / y0
                    else:
                        y[row] = rhs_r / Dm[row][row]
        M = [[Dm[i][j] - G[i][j] for j in range(N)] for i in range(N)]
        for c in comps:
            if c['kind'] == 'bil':
                o0, o1 = c['outs']
                for r in range(osz[o1]):
                    row = off[o1] + r
                    M[row][row] = y[off[o0] + r]          # d r1 / d y1 = y0
                    M[row][off[o0] + r] += y[row]         # d r1 / d y0 = y1
        sol = gauss(M, rhsJ)
        if sol is None:
            return None
        J = [[sol[i][k] for k in range(len(ivc_cols))] for i in range(N)]
    outv = [y[off[o]:off[o + 1]] for o in range(len(outs))]
    inv = []
    for inp in ins:
        pos = conn_positions(inp, outs)
        fac, of_ = fr(inp['fac']), fr(inp['off'])
        inv.append([fac * outv[inp['src']][p] + of_ for p in pos])
    return {'out': outv, 'in': inv, 'J': J, 'off': [int(x) for x in off], 'ivc_cols': ivc_cols}


def gauss(M, B):
    n = len(M)
    M = [row[:] for row in M]
    B = [row[:] for row in B]
    for c in range(n):
        p = next((r for r in range(c, n) if M[r][c] != 0), None)
        if p is None:
            return None
        M[c], M[p] = M[p], M[c]
        B[c], B[p] = B[p], B[c]
        inv = 1 / M[c][c]
        M[c] = [x * inv for x in M[c]]
        B[c] = [x * inv for x in B[c]]
        for r in range(n):
            if r != c and M[r][c] != 0:
                f = M[r][c]
                M[r] = [x - f * y for x, y in zip(M[r], M[c])]
                B[r] = [x - f * y for x, y in zip(B[r], B[c])]
    return B


def magnitude_ok(ref, nmax=1 << 17, dmax=1 << 9):
    for grp in (ref['out'], ref['in'], ref['J']):
        for vec in grp:
            for x in vec:
                if abs(x.numerator) > nmax or x.denominator > dmax:
                    return False
    return True


def common_den(vals):
    d = 1
    for x in vals:
        d = d * x.denominator // math.gcd(d, x.denominator)
    return d
