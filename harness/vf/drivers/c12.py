"""C12 - finite-difference and complex-step approximations are faithful and side-effect free.

Spec: spec/mech/Approx.tla.  TLC enumerates polynomial scenarios (components of degree <= 2 with 1-3 scalar inputs in
every variable layout, chains c2 o c1 of total degree <= 2 with an optional implicit last component, points on
Pythagorean vectors incl. zeros), checks the laws (FormConsistent, TruncationLaw, CsExact, DirectLaw, StepLaws,
NoFloorInChains, ReadOnly) and exports for every scenario the model outputs and, for every (form, step_calc) and for
complex step, the exact rational Jacobian the scheme defines together with the effective step of every column.

Binding: every scenario is realised as real OpenMDAO components and executed (process pool):
  partial   ExplicitComponent, declare_partials('*', '*', method='fd', form, step, step_calc, minimum_step) / method='cs'
  implicit  ImplicitComponent whose residual is the polynomial in (inputs, state): approximated d(resid)/d(input|state)
  colored   the same component with declare_coloring(wrt='*', method, form, step) (dynamic coloring); compared entry by
            entry with the uncolored result and with the spec
  total     model.approx_totals(method, step, form, step_calc) on ivc -> c1 -> c2 (c2 explicit, implicit with its own
            solve_nonlinear, or implicit inside a Newton-solved subgroup), compute_totals
  semi      the same chain inside a subgroup with group.approx_totals, totals of the whole model through it
  colored total: model.declare_coloring + model.approx_totals (coloring of semi-totals is rejected by OpenMDAO: counted)
One Problem is built per structure (partial/implicit/semi: one component or subgroup per declaration inside it; total:
one Problem per declaration, four of the fifteen fd declarations per structure in rotation, cs for every third) and
driven through all points of the structure in sequence.  When a Jacobian differs from the spec at a later point of the
sequence, a fresh Problem is built at that point to tell state carried over between points from a wrong scheme.

Comparison rule (per Jacobian entry, spec value q, effective step s of the column, A = the polynomial evaluated with
absolute coefficients at |x| + s, propagated through the chain: a bound for every intermediate of the evaluation):
  fd:  |observed - q| <= K * 2^-52 * A / s + 1e-14 * |q|,   K = 32 (single component), 64 (chains)
       - the cancellation error of a difference quotient in IEEE double; 3e2..3e3 times tighter than 1e-12 * A / s -
  cs:  |observed - q| <= 1e-14 * (G + |q|),  G = derivative of the absolute-coefficient polynomial
  model outputs after run_model: |observed - y| <= 1e-13 * (A + |y|)
Side effects: model._inputs/_outputs/_residuals (asarray().tobytes()) immediately before and after run_linearize /
compute_totals must be identical bit for bit.
"""
import collections
import json
import os
import time
from fractions import Fraction as F

from ..tlc import MachineryError
from ..util import pmap, quiet

EPS = 2.0 ** -52
FORMS = ('forward', 'backward', 'central')
SCS = ('abs', 'rel', 'rel_avg', 'rel_element', 'rel_legacy')
FD_KEYS = [(f, s) for f in FORMS for s in SCS]
CS_KEY = ('cs', 'none')
NPROC = int(os.environ.get('VF_NPROC', '16'))
TLC_WORKERS = int(os.environ.get('VF_TLC_WORKERS', '16'))


def fr(x):
    return F(x[0], x[1])


# ----------------------------------------------------------------------------------------------------------------
# realisation of the spec's polynomial systems as OpenMDAO components
_CLS = {}


def _evalp(polys, X):
    """values of the polynomials at the flat input array X (real or complex); monomial (c, a, b) = c*X[a]*X[b], X[0]=1"""
    import numpy as np
    Xe = np.concatenate((np.ones(1, dtype=X.dtype), X))
    return np.array([sum(c * Xe[a] * Xe[b] for c, a, b in p) for p in polys], dtype=X.dtype)


def _gradp(polys, X):
    import numpy as np
    Xe = np.concatenate((np.ones(1, dtype=X.dtype), X))
    G = np.zeros((len(polys), len(X)), dtype=X.dtype)
    for r, p in enumerate(polys):
        for c, a, b in p:
            if a > 0:
                G[r, a - 1] += c * Xe[b]
            if b > 0:
                G[r, b - 1] += c * Xe[a]
    return G


def _approx_kw(decl, totals=False):
    if decl['form'] == 'cs':
        return dict(method='cs')
    kw = dict(method='fd', form=decl['form'], step=decl['h'], step_calc=decl['sc'])
    if not totals:
        kw['minimum_step'] = decl['ms']
    return kw


# The sparsity behind a dynamic coloring is sampled by OpenMDAO at randomly perturbed points around the point of the first
# linearization (relative 1e-9, absolute 1e-9 at zeros).  Where a derivative vanishes at that point (x = 0 for 3 x^2) the
# tiny perturbation can drown in round-off (central difference, step 2^-20: seen in 1 of 150 trials) and the entry is
# then taken for a structural zero.  That is a property of sparsity sampling, not of the approximation schemes, so the
# colored realisations are used on the families whose first point has no zero coordinate (sparse: point 0; chains), and
# numpy's generator is seeded per task so that a run is reproducible.


def _color_kw(decl):
    kw = dict(wrt='*', method='cs' if decl['form'] == 'cs' else 'fd', show_summary=False, show_sparsity=False)
    if decl['form'] != 'cs':
        kw.update(form=decl['form'], step=decl['h'])
    return kw


def classes():
    if _CLS:
        return _CLS
    import numpy as np
    import openmdao.api as om

    class PolyComp(om.ExplicitComponent):
        """y = polys(x): inputs x0.. (sizes lay), outputs y0.. (sizes olay); decl = None: analytic partials"""

        def initialize(self):
            self.options.declare('polys')
            self.options.declare('lay')
            self.options.declare('olay')
            self.options.declare('decl', default=None)
            self.options.declare('colored', default=False)
            self.options.declare('prior', default=True)

        def setup(self):
            for v, sz in enumerate(self.options['lay']):
                self.add_input('x%d' % v, np.zeros(sz))
            for v, sz in enumerate(self.options['olay']):
                self.add_output('y%d' % v, np.zeros(sz))

        def setup_partials(self):
            decl = self.options['decl']
            if decl is None:
                self.declare_partials('*', '*')
                return
            if self.options['prior'] or not self.options['colored']:
                self.declare_partials('*', '*', **_approx_kw(decl))
            if self.options['colored']:
                self.declare_coloring(**_color_kw(decl))

        def _x(self, inputs):
            return np.concatenate([np.atleast_1d(inputs['x%d' % v]) for v in range(len(self.options['lay']))])

        def compute(self, inputs, outputs):
            vals = _evalp(self.options['polys'], self._x(inputs))
            k = 0
            for v, sz in enumerate(self.options['olay']):
                outputs['y%d' % v] = vals[k:k + sz]
                k += sz

        def compute_partials(self, inputs, partials):
            if self.options['decl'] is not None:
                return      # every partial is approximated; nothing analytic may overwrite the approximation
            G = _gradp(self.options['polys'], self._x(inputs))
            r0 = 0
            for ov, osz in enumerate(self.options['olay']):
                c0 = 0
                for iv, isz in enumerate(self.options['lay']):
                    partials['y%d' % ov, 'x%d' % iv] = G[r0:r0 + osz, c0:c0 + isz]
                    c0 += isz
                r0 += osz

    class PolyResid(om.ImplicitComponent):
        """residual = polys(x.., y): the last variable of the layout is the state y0; nothing is solved"""

        def initialize(self):
            self.options.declare('polys')
            self.options.declare('lay')
            self.options.declare('decl')
            self.options.declare('colored', default=False)

        def setup(self):
            lay = self.options['lay']
            for v, sz in enumerate(lay[:-1]):
                self.add_input('x%d' % v, np.zeros(sz))
            self.add_output('y0', np.zeros(lay[-1]))

        def setup_partials(self):
            self.declare_partials('*', '*', **_approx_kw(self.options['decl']))
            if self.options['colored']:
                self.declare_coloring(**_color_kw(self.options['decl']))

        def apply_nonlinear(self, inputs, outputs, residuals):
            lay = self.options['lay']
            X = np.concatenate([np.atleast_1d(inputs['x%d' % v]) for v in range(len(lay) - 1)] +
                               [np.atleast_1d(outputs['y0'])])
            residuals['y0'] = _evalp(self.options['polys'], X)

    class ChainImp(om.ImplicitComponent):
        """d*y - polys(z) = 0 ; analytic partials; solve = own solve_nonlinear (mode 'own') or left to Newton"""

        def initialize(self):
            self.options.declare('polys')
            self.options.declare('nin')
            self.options.declare('olay')
            self.options.declare('d')
            self.options.declare('own', default=True)

        def setup(self):
            self.add_input('x0', np.zeros(self.options['nin']))
            for v, sz in enumerate(self.options['olay']):
                self.add_output('y%d' % v, np.zeros(sz))
            self.declare_partials('*', '*')

        def _split(self, vals, vec):
            k = 0
            for v, sz in enumerate(self.options['olay']):
                vec['y%d' % v] = vals[k:k + sz]
                k += sz

        def _y(self, outputs):
            return np.concatenate([np.atleast_1d(outputs['y%d' % v]) for v in range(len(self.options['olay']))])

        def apply_nonlinear(self, inputs, outputs, residuals):
            self._split(self.options['d'] * self._y(outputs) - _evalp(self.options['polys'], np.atleast_1d(inputs['x0'])),
                        residuals)

        def solve_nonlinear(self, inputs, outputs):
            if self.options['own']:
                self._split(_evalp(self.options['polys'], np.atleast_1d(inputs['x0'])) / self.options['d'], outputs)

        def linearize(self, inputs, outputs, partials):
            G = _gradp(self.options['polys'], np.atleast_1d(inputs['x0']))
            r0 = 0
            for ov, osz in enumerate(self.options['olay']):
                partials['y%d' % ov, 'x0'] = -G[r0:r0 + osz, :]
                r1 = 0
                for ov2, osz2 in enumerate(self.options['olay']):
                    partials['y%d' % ov, 'y%d' % ov2] = (self.options['d'] * np.eye(osz)) if ov == ov2 \
                        else np.zeros((osz, osz2))
                    r1 += osz2
                r0 += osz

    _CLS.update(np=np, om=om, PolyComp=PolyComp, PolyResid=PolyResid, ChainImp=ChainImp)
    return _CLS


def _snap(model):
    return (model._inputs.asarray().tobytes(), model._outputs.asarray().tobytes(), model._residuals.asarray().tobytes())


def _chain_group(C, st):
    """the group c1 -> c2 of a chain structure"""
    om = C['om']
    g = om.Group()
    mz = len(st['c1'])
    g.add_subsystem('c1', C['PolyComp'](polys=st['c1'], lay=st['lay'], olay=[mz]))
    d = st['d']
    if d == 0:
        g.add_subsystem('c2', C['PolyComp'](polys=st['c2'], lay=[mz], olay=st['olay']))
        g.connect('c1.y0', 'c2.x0')
    elif d > 0:
        g.add_subsystem('c2', C['ChainImp'](polys=st['c2'], nin=mz, olay=st['olay'], d=float(d), own=True))
        g.connect('c1.y0', 'c2.x0')
    else:
        s = g.add_subsystem('s', om.Group())
        s.add_subsystem('c2', C['ChainImp'](polys=st['c2'], nin=mz, olay=st['olay'], d=float(d), own=False))
        s.nonlinear_solver = om.NewtonSolver(solve_subsystems=False, maxiter=10, atol=1e-12, rtol=1e-12, iprint=-1)
        s.linear_solver = om.DirectSolver()
        g.connect('c1.y0', 's.c2.x0')
    return g


def _c2path(st):
    return 's.c2' if st['d'] < 0 else 'c2'


class Built:
    """a real Problem realising one structure with a list of declarations; .jac(k) returns the observed matrix"""

    def __init__(self, kind, st, decls, colored, alloc, name, prior=True):
        C = classes()
        np, om = C['np'], C['om']
        self.kind, self.st, self.decls, self.colored = kind, st, decls, colored
        p = self.p = om.Problem(name=name)
        m = p.model
        lay = st['lay']
        in_lay = lay[:-1] if kind == 'implicit' else lay
        ivc = m.add_subsystem('ivc', om.IndepVarComp())
        for v, sz in enumerate(in_lay):
            ivc.add_output('x%d' % v, np.zeros(sz))
        self.nin = len(in_lay)
        if kind in ('partial', 'implicit'):
            for k, decl in enumerate(decls):
                if kind == 'partial':
                    c = C['PolyComp'](polys=st['c1'], lay=lay, olay=st['olay'], decl=decl, colored=colored, prior=prior)
                else:
                    c = C['PolyResid'](polys=st['c1'], lay=lay, decl=decl, colored=colored)
                m.add_subsystem('k%d' % k, c)
                for v in range(len(in_lay)):
                    m.connect('ivc.x%d' % v, 'k%d.x%d' % (k, v))
        elif kind == 'total':
            assert len(decls) == 1
            m.add_subsystem('g', _chain_group(C, st))
            for v in range(len(lay)):
                m.connect('ivc.x%d' % v, 'g.c1.x%d' % v)
            if colored:
                m.declare_coloring(**_color_kw(decls[0]))
            m.approx_totals(**_approx_kw(decls[0], totals=True))
        elif kind == 'semi':
            for k, decl in enumerate(decls):
                g = m.add_subsystem('g%d' % k, _chain_group(C, st))
                for v in range(len(lay)):
                    m.connect('ivc.x%d' % v, 'g%d.c1.x%d' % (k, v))
                if colored:
                    g.declare_coloring(**_color_kw(decl))
                g.approx_totals(**_approx_kw(decl, totals=True))
        else:
            raise MachineryError('unknown kind %r' % kind)
        p.setup(force_alloc_complex=alloc)
        p.final_setup()

    def set_point(self, pt):
        p, st = self.p, self.st
        xs = pt['xf']
        k0 = 0
        lay = st['lay']
        for v in range(self.nin):
            p.set_val('ivc.x%d' % v, xs[k0:k0 + lay[v]])
            k0 += lay[v]
        if self.kind == 'implicit':
            for k in range(len(self.decls)):
                p.set_val('k%d.y0' % k, xs[k0:])

    def outputs(self, k):
        """observed outputs of the last component of declaration k (None for the residual realisation)"""
        np = classes()['np']
        if self.kind == 'implicit':
            return None
        base = {'partial': 'k%d' % k, 'total': 'g.' + _c2path(self.st), 'semi': 'g%d.%s' % (k, _c2path(self.st))}[self.kind]
        return np.concatenate([np.atleast_1d(self.p.get_val('%s.y%d' % (base, v))) for v in range(len(self.st['olay']))])

    def approximate(self):
        """run every declared approximation once"""
        if self.kind in ('partial', 'implicit'):
            self.p.model.run_linearize()
            self.tot = None
        else:
            st = self.st
            nd = len(self.decls)
            pre = ['g.'] if self.kind == 'total' else ['g%d.' % k for k in range(nd)]
            of = ['%s%s.y%d' % (pr, _c2path(st), v) for pr in pre for v in range(len(st['olay']))]
            wrt = ['ivc.x%d' % v for v in range(len(st['lay']))]
            self.tot = self.p.compute_totals(of=of, wrt=wrt)

    def jac(self, k):
        np = classes()['np']
        st = self.st
        lay = st['lay']
        if self.kind in ('partial', 'implicit'):
            comp = getattr(self.p.model, 'k%d' % k)
            olay = st['olay'] if self.kind == 'partial' else [lay[-1]]
            rows = []
            for ov in range(len(olay)):
                blocks = []
                for iv in range(len(lay)):
                    wrt = 'x%d' % iv if (self.kind == 'partial' or iv < len(lay) - 1) else 'y0'
                    val = comp._jacobian['y%d' % ov, wrt]
                    val = val.toarray() if hasattr(val, 'toarray') else np.asarray(val)
                    blocks.append(val.reshape(olay[ov], lay[iv]))
                rows.append(np.hstack(blocks))
            return np.vstack(rows)
        pr = 'g.' if self.kind == 'total' else 'g%d.' % k
        rows = []
        for ov in range(len(st['olay'])):
            rows.append(np.hstack([np.atleast_2d(self.tot['%s%s.y%d' % (pr, _c2path(st), ov), 'ivc.x%d' % iv])
                                   for iv in range(len(lay))]))
        return np.vstack(rows)

    def used_coloring(self, k):
        """number of colors actually used by declaration k (0 = no coloring active)"""
        if self.kind in ('partial', 'implicit'):
            s = getattr(self.p.model, 'k%d' % k)
        elif self.kind == 'total':
            s = self.p.model
        else:
            s = getattr(self.p.model, 'g%d' % k)
        col = s._coloring_info.coloring
        if col is None or col._fwd is None:
            return 0
        return len(col._fwd[0])


# ----------------------------------------------------------------------------------------------------------------
# magnitudes for the comparison rule
def _majorant(st, xf, smax):
    """A[r] (absolute-coefficient evaluation at |x| + smax, through the chain) and its gradient G[r][i]"""
    import numpy as np
    ax = np.abs(np.asarray(xf, dtype=float)) + smax
    apol = lambda polys: [[(abs(c), a, b) for c, a, b in p] for p in polys]
    A1 = _evalp(apol(st['c1']), ax)
    G1 = _gradp(apol(st['c1']), ax)
    if not st['c2']:
        return A1, G1
    dd = abs(st['d']) if st['d'] else 1
    A2 = _evalp(apol(st['c2']), A1) / dd
    G2 = _gradp(apol(st['c2']), A1).dot(G1) / dd
    return A2, G2


def _one_step_jac(pt, key, j):
    """the quotient every column would have with the effective step of column j (the signature of the
    colored-relative-step finding: one step for all columns of a colored sweep); the quotient is affine in the step:
    q(s) = central + (q(s_i) - central) * s / s_i"""
    e = pt['jacs'][key]
    c = pt['jacs'][('central', key[1])]
    s0 = e['st'][j]
    return {'J': [[c['J'][r][i] + (e['J'][r][i] - c['J'][r][i]) * s0 / e['st'][i] for i in range(len(e['st']))]
                  for r in range(len(e['J']))], 'st': [s0] * len(e['st'])}


def _compare(st, pt, key, Jobs, chain, e=None):
    """-> list of (r, i, observed, expected, tol) for entries outside the rule"""
    e = e or pt['jacs'][key]
    bad = []
    n = len(pt['xf'])
    if key == CS_KEY:
        A, G = _majorant(st, pt['xf'], 0.0)
        for r in range(len(e['J'])):
            for i in range(n):
                q = e['J'][r][i]
                tol = 1e-14 * (G[r][i] + abs(q))
                if not abs(Jobs[r][i] - q) <= tol:
                    bad.append((r, i, float(Jobs[r][i]), q, tol))
        return bad
    K = 64 if chain else 32
    for i in range(n):
        s = e['st'][i]
        A, _ = _majorant(st, pt['xf'], s)
        for r in range(len(e['J'])):
            q = e['J'][r][i]
            tol = K * EPS * A[r] / s + 1e-14 * abs(q)
            if not abs(Jobs[r][i] - q) <= tol:
                bad.append((r, i, float(Jobs[r][i]), q, tol))
    return bad


# ----------------------------------------------------------------------------------------------------------------
def _decl(st, key):
    return {'form': key[0], 'sc': key[1], 'h': st['h'], 'ms': st['ms']}


def _run_build(task, keys, alloc, name, points):
    """build one Problem for `keys`, drive it through `points`; returns (records, counters)"""
    kind, colored, st = task['kind'], task['colored'], task['st']
    chain = bool(st['c2'])
    recs = []
    cnt = collections.Counter()
    try:
        b = Built(kind, st, [_decl(st, k) for k in keys], colored, alloc, name, prior=task.get('prior', True))
    except Exception as ex:
        msg = '%s: %s' % (type(ex).__name__, ex)
        if 'semi-total coloring is currently not supported' in msg:
            cnt['rejected_semi_total_coloring'] += len(keys) * len(points)
            return recs, cnt
        for k in keys:
            recs.append({'cls': 'setup-error', 'key': k, 'pt': points[0]['pt'], 'obs': msg, 'seq': 0})
        return recs, cnt
    for seq, pt in enumerate(points):
        try:
            b.set_point(pt)
            b.p.run_model()
            if kind == 'implicit':
                # run_model does not evaluate the residual of an unsolved implicit component; the forward and backward
                # forms read the current residual vector, which must therefore be brought up to date first
                b.p.model.run_apply_nonlinear()
            for ki, k in enumerate(keys):
                y = b.outputs(ki)
                if y is not None:
                    A, _ = _majorant(st, pt['xf'], 0.0)
                    if any(not abs(y[r] - pt['y'][r]) <= 1e-13 * (A[r] + abs(pt['y'][r])) for r in range(len(y))):
                        recs.append({'cls': 'outputs', 'key': k, 'pt': pt['pt'], 'seq': seq, 'obs': [float(v) for v in y],
                                     'exp': pt['y']})
            s0 = _snap(b.p.model)
            b.approximate()
            s1 = _snap(b.p.model)
            cnt['approximations'] += len(keys)
            if s0 != s1:
                which = [n for n, a, c in zip(('inputs', 'outputs', 'residuals'), s0, s1) if a != c]
                np = classes()['np']
                diffs = {n: [np.frombuffer(a).tolist(), np.frombuffer(c).tolist()]
                         for n, a, c in zip(('inputs', 'outputs', 'residuals'), s0, s1) if a != c}
                recs.append({'cls': 'side-effect', 'key': keys[0] if len(keys) == 1 else ('*', 'any'), 'pt': pt['pt'],
                             'seq': seq, 'obs': diffs, 'exp': 'vectors unchanged', 'which': which})
            for ki, k in enumerate(keys):
                J = b.jac(ki)
                ncol = b.used_coloring(ki) if colored else 0
                if colored:
                    cnt['colored_active' if ncol else 'colored_inactive'] += 1
                bad = _compare(st, pt, k, J, chain)
                cnt['jacobians'] += 1
                if bad:
                    rec = {'cls': 'jacobian', 'key': k, 'pt': pt['pt'], 'seq': seq, 'obs': J.tolist(),
                           'exp': pt['jacs'][k]['J'], 'bad': bad[:4], 'ncolors': ncol}
                    if colored and k[1] in SCS[1:]:
                        rec['first_step'] = any(not _compare(st, pt, k, J, chain, e=_one_step_jac(pt, k, j))
                                                for j in range(len(pt['xf'])))
                    recs.append(rec)
                elif task.get('want_obs'):
                    recs.append({'cls': 'ok', 'key': k, 'pt': pt['pt'], 'seq': seq, 'obs': J.tolist(), 'ncolors': ncol})
        except Exception as ex:
            import traceback
            for k in keys:
                recs.append({'cls': 'raised', 'key': k, 'pt': pt['pt'], 'seq': seq,
                             'obs': '%s: %s | %s' % (type(ex).__name__, ex, traceback.format_exc().splitlines()[-3:])})
            break
    try:
        b.p.cleanup()
    except Exception:
        pass
    return recs, cnt


def _task_worker(tasks):
    quiet()
    out = []
    for task in tasks:
        t0 = time.time()
        kind, st, points = task['kind'], task['st'], task['points']
        classes()['np'].random.seed((task.get('seed', 0) * 1000003 + int(task['id'])) % 2 ** 32)
        recs = []
        cnt = collections.Counter()
        tid = task['id']
        fdk = [k for k in task['keys'] if k != CS_KEY]
        csk = [k for k in task['keys'] if k == CS_KEY]
        builds = []
        if kind == 'total':
            builds = [([k], k == CS_KEY or task['alloc']) for k in task['keys']]
        else:
            if fdk:
                builds.append((fdk, task['alloc']))
            if csk:
                builds.append((csk, True))
        for bi, (keys, alloc) in enumerate(builds):
            r, c = _run_build(task, keys, alloc, 'c12_%s_%d' % (tid, bi), points)
            cnt.update(c)
            # a mismatch at a later point of the sequence: does a fresh Problem at that point agree with the spec?
            later = sorted(set(rec['pt'] for rec in r if rec['cls'] == 'jacobian' and rec['seq'] > 0))
            for ptno in later:
                ks = [rec['key'] for rec in r if rec['cls'] == 'jacobian' and rec['pt'] == ptno]
                pt = [q for q in points if q['pt'] == ptno]
                r2, _ = _run_build(task, ks, alloc, 'c12_%s_%d_f%d' % (tid, bi, ptno), pt)
                badk = set(x['key'] for x in r2 if x['cls'] in ('jacobian', 'raised', 'setup-error'))
                fs = set(x['key'] for x in r2 if x['cls'] == 'jacobian' and x.get('first_step'))
                for rec in r:
                    if rec['cls'] == 'jacobian' and rec['pt'] == ptno:
                        rec['fresh_ok'] = rec['key'] not in badk
                        rec['fresh_first_step'] = rec['key'] in fs
            recs.extend(r)
        out.append({'id': tid, 'recs': recs, 'cnt': dict(cnt), 'wall': time.time() - t0})
    return out


# ----------------------------------------------------------------------------------------------------------------
def make_cfg(quick):
    if quick:
        consts = dict(lay='{1, 2, 3, 11, 12, 21, 111}', clay='{2, 12, 111}', ms='{1, 3}', cfgs='{1022, 2022, 1008}',
                      ccfgs='{1016}', fam='{"dense", "sparse", "chainA", "chainB", "chainS"}', imp='TRUE')
    else:
        consts = dict(lay='{1, 2, 3, 11, 12, 21, 111}', clay='{1, 2, 3, 11, 12, 21, 111}', ms='{1, 2, 3}',
                      cfgs='{1022, 2022, 1008, 2008}', ccfgs='{1016, 816}',
                      fam='{"dense", "sparse", "chainA", "chainB", "chainS"}', imp='TRUE')
    return '''CONSTANTS
  LayoutCodes = %(lay)s
  ChainLayoutCodes = %(clay)s
  DenseMs = %(ms)s
  StepCfgs = %(cfgs)s
  ChainCfgs = %(ccfgs)s
  Families = %(fam)s
  WithImplicit = %(imp)s
INIT Init
NEXT Next
INVARIANT FormConsistent
INVARIANT TruncationLaw
INVARIANT CsExact
INVARIANT DirectLaw
INVARIANT StepLaws
INVARIANT NoFloorInChains
INVARIANT Export
PROPERTY ReadOnly
''' % consts


def _struct_key(s):
    return json.dumps([s['fam'], s['lay'], s['cfg'], s['c1'], s['c2'], s['d']])


def prepare(exports):
    """group the exported scenarios by structure; convert the rationals"""
    groups = collections.OrderedDict()
    for e in exports:
        s = e['s']
        k = _struct_key(s)
        g = groups.get(k)
        if g is None:
            g = groups[k] = {'st': {'fam': s['fam'], 'lay': s['lay'], 'olay': e['olay'], 'c1': s['c1'], 'c2': s['c2'],
                                    'd': s['d'], 'h': float(fr(s['cfg'][0])), 'ms': float(fr(s['cfg'][1])),
                                    'colorable': e['colorable']},
                             'points': [], 'raw': []}
        jacs = {}
        for j in e['jacs']:
            jacs[(j['form'], j['sc'])] = {'J': [[float(fr(v)) for v in row] for row in j['J']],
                                          'st': [float(fr(v)) for v in j['st']]}
        if set(jacs) != set(FD_KEYS + [CS_KEY]):
            raise MachineryError('export without all approximations: %s' % sorted(jacs))
        g['points'].append({'pt': s['pt'], 'xf': [float(fr(v)) for v in s['x']], 'y': [float(fr(v)) for v in e['y']],
                            'jacs': jacs})
        g['raw'].append(e)
    for g in groups.values():
        order = sorted(range(len(g['points'])), key=lambda i: g['points'][i]['pt'])
        g['points'] = [g['points'][i] for i in order]
        g['raw'] = [g['raw'][i] for i in order]
    return groups


def _reference_check(groups):
    """independent fractions.Fraction evaluation of the quotient the spec exported (oracle self-check; exit 2)"""
    n = 0
    for g in groups.values():
        st = g['st']
        for e in g['raw']:
            s = e['s']
            x = [fr(v) for v in s['x']]

            def ev(polys, X):
                Xe = [F(1)] + list(X)
                return [sum(c * Xe[a] * Xe[b] for c, a, b in p) for p in polys]

            def f(X):
                z = ev(s['c1'], X)
                if not s['c2']:
                    return z
                y = ev(s['c2'], z)
                return [v / s['d'] for v in y] if s['d'] else y
            f0 = f(x)
            if [fr(v) for v in e['y']] != f0:
                raise MachineryError('spec outputs differ from the Fraction reference: %s' % json.dumps(s))
            for j in e['jacs']:
                if j['form'] == 'cs':
                    continue
                for i in range(len(x)):
                    h = fr(j['st'][i])
                    xp = list(x); xp[i] += h
                    xm = list(x); xm[i] -= h
                    fp, fm = f(xp), f(xm)
                    for r in range(len(f0)):
                        q = {'forward': (fp[r] - f0[r]) / h, 'backward': (f0[r] - fm[r]) / h,
                             'central': (fp[r] - fm[r]) / (2 * h)}[j['form']]
                        if q != fr(j['J'][r][i]):
                            raise MachineryError('spec quotient differs from the Fraction reference: %s %s' % (json.dumps(s), j))
                        n += 1
    return n


def make_tasks(groups, quick, seed):
    tasks = []
    allk = FD_KEYS + [CS_KEY]
    for gi, (k, g) in enumerate(groups.items()):
        st = g['st']
        base = {'st': st, 'points': g['points'], 'keys': allk, 'alloc': bool(gi % 2), 'gkey': k}
        color = st['colorable'] and st['fam'] != 'dense'
        wo = color                  # observed Jacobians are returned for the colored / uncolored comparison
        absk = [kk for kk in allk if kk[1] in ('abs', 'none')]
        colk = absk + [('forward', sc) for sc in SCS[1:]]     # coloring: relative steps with the forward form only
        if st['fam'] in ('dense', 'sparse'):
            tasks.append(dict(base, kind='partial', colored=False, want_obs=wo))
            lay = st['lay']
            imp = len(lay) >= 2 and lay[-1] == len(st['c1'])
            if imp:
                tasks.append(dict(base, kind='implicit', colored=False, want_obs=wo))
            if color:
                # declare_partials(step_calc, minimum_step) followed by declare_coloring(method, form, step)
                tasks.append(dict(base, kind='partial', colored=True, want_obs=True, keys=colk))
                # declare_coloring alone
                tasks.append(dict(base, kind='partial', colored=True, prior=False, want_obs=True, keys=absk))
                if imp:
                    tasks.append(dict(base, kind='implicit', colored=True, want_obs=True, keys=absk))
        else:
            # one Problem per declaration: every structure gets cs (every third), and four of the fifteen fd declarations
            tk = [FD_KEYS[(gi * 4 + j) % 15] for j in range(4)] + ([CS_KEY] if gi % 3 == 0 else [])
            if color:
                tk = sorted(set(tk + [('forward', 'abs'), ('central', 'abs'), CS_KEY, ('forward', 'rel_element')]))
            tasks.append(dict(base, kind='total', colored=False, keys=tk, want_obs=wo))
            tasks.append(dict(base, kind='semi', colored=False))
            if color:
                tasks.append(dict(base, kind='total', colored=True, want_obs=True,
                                  keys=[('forward', 'abs'), ('central', 'abs'), CS_KEY, ('forward', 'rel_element')]))
                # OpenMDAO rejects coloring of semi-totals: counted, not judged
                tasks.append(dict(base, kind='semi', colored=True, keys=[('forward', 'abs'), CS_KEY]))
    for i, t in enumerate(tasks):
        t['id'] = str(i)
        t['seed'] = seed
    return tasks


def classify(task, rec):
    """name of the violation class of a failing record"""
    if rec['cls'] != 'jacobian':
        return rec['cls']
    if task['kind'] == 'total' and task['colored'] and rec['seq'] == 0 and \
            all(v == 0 for row in rec['obs'] for v in row):
        return 'colored-total-first-call'
    if rec.get('fresh_ok') and rec['key'][1] in SCS[1:]:
        return 'stale-relative-step'
    # every column approximated with the effective step of one and the same column (also when a fresh Problem at this
    # point shows exactly that while this one additionally carries a stale step)
    if task['colored'] and rec['key'][1] in SCS[1:] and (rec.get('first_step') or rec.get('fresh_first_step')):
        return 'colored-relative-step'
    return 'jacobian'


def execute(ctx, groups, quick):
    tasks = make_tasks(groups, quick, ctx.seed)
    quiet()         # import OpenMDAO once, before the pool forks
    # longest first, interleaved over chunks
    cost = lambda t: len(t['keys']) * (3 if t['kind'] in ('total',) else 1) * (2 if t['colored'] else 1)
    order = sorted(range(len(tasks)), key=lambda i: -cost(tasks[i]))
    nchunks = NPROC * 6
    chunks = [[tasks[i] for i in order[c::nchunks]] for c in range(nchunks)]
    res = pmap(_task_worker, chunks, nproc=NPROC)
    byid = {}
    for ch in res:
        for r in ch:
            byid[r['id']] = r
    if len(byid) != len(tasks):
        raise MachineryError('lost tasks: %d of %d' % (len(byid), len(tasks)))
    return tasks, byid


def run(ctx):
    quick = ctx.tier == 'quick'
    cfg = ctx.write_cfg('Approx.cfg', make_cfg(quick))
    r = ctx.tlc_check('mech/Approx', cfg, timeout=1500, heap='8g', workers=TLC_WORKERS)
    ctx.require_actions(['Choose', 'Approximate'])
    exports = r.exports('EXP')
    if not exports:
        raise MachineryError('no scenarios exported')
    groups = prepare(exports)
    nref = _reference_check(groups)
    tasks, byid = execute(ctx, groups, quick)
    report(ctx, groups, tasks, byid, exports, nref, quick)


def _scenario(task, rec):
    g = task['st']
    return {'kind': task['kind'], 'colored': task['colored'], 'declare_partials_before_coloring': task.get('prior', True),
            'fam': g['fam'], 'lay': g['lay'], 'olay': g['olay'], 'c1': g['c1'], 'c2': g['c2'], 'd': g['d'],
            'step': g['h'], 'minimum_step': g['ms'], 'form': rec['key'][0], 'step_calc': rec['key'][1],
            'point': rec['pt'], 'position_in_sequence': rec.get('seq'),
            'x': [q['xf'] for q in task['points'] if q['pt'] == rec['pt']][0] if rec.get('pt') else None,
            'points_before': [q['xf'] for q in task['points']][:rec.get('seq') or 0]}


def predicates():
    def stale(s, info):
        return info.get('class') == 'stale-relative-step'

    def colored_rel(s, info):
        return info.get('class') == 'colored-relative-step'
    def first_call(s, info):
        return info.get('class') == 'colored-total-first-call'
    return {'C12-stale-relative-step': stale, 'C12-colored-relative-step': colored_rel,
            'C12-colored-total-first-call': first_call}


def report(ctx, groups, tasks, byid, exports, nref, quick):
    ctx.register_predicates(predicates())
    total = collections.Counter()
    classes_seen = collections.OrderedDict()
    impl = 0
    for t in tasks:
        r = byid[t['id']]
        total.update(r['cnt'])
        for rec in r['recs']:
            if rec['cls'] == 'ok':
                continue
            cls = classify(t, rec)
            classes_seen.setdefault((cls, t['kind'], t['colored']), []).append((t, rec))
    # colored against uncolored, entry by entry (1e-12)
    unc = {}
    for t in tasks:
        if not t['colored']:
            for rec in byid[t['id']]['recs']:
                if rec['cls'] == 'ok' and 'obs' in rec:      # only uncolored results that agree with the spec
                    unc[(t['gkey'], t['kind'], rec['key'], rec['pt'])] = rec['obs']
    npairs = 0
    for t in tasks:
        if not t['colored']:
            continue
        for rec in byid[t['id']]['recs']:
            if rec['cls'] not in ('ok', 'jacobian') or not rec.get('ncolors'):
                continue
            ju = unc.get((t['gkey'], t['kind'], rec['key'], rec['pt']))
            if ju is None:
                continue
            npairs += 1
            jc = rec['obs']
            diff = [(r, i, jc[r][i], ju[r][i]) for r in range(len(ju)) for i in range(len(ju[r]))
                    if not abs(jc[r][i] - ju[r][i]) <= 1e-12 * (1 + abs(ju[r][i]))]
            if diff and rec['cls'] == 'ok':
                # (a colored result that already differs from the spec is reported through its own record)
                r2 = dict(rec, cls='colored-differs', exp=ju, bad=diff[:4])
                cls = 'colored-differs'
                classes_seen.setdefault((cls, t['kind'], True), []).append((t, r2))
    total['colored_uncolored_pairs'] = npairs
    impl = total['jacobians']
    for (cls, kind, colored), lst in classes_seen.items():
        t, rec = lst[0]
        scs = sorted(set(str(x[1]['key'][1]) for x in lst))
        clause = {
            'jacobian': 'approximated Jacobian differs from the exact quotient the scheme defines',
            'stale-relative-step': 'relative step not recomputed at the new point: the Jacobian differs from the scheme\'s '
                                   'quotient at this point, a fresh Problem at the same point agrees',
            'colored-relative-step': 'colored approximation with a relative step_calc: every column is approximated with the '
                                     'effective step of one of them (differs from the scheme\'s quotient and from the '
                                     'uncolored approximation)',
            'side-effect': 'inputs/outputs/residuals changed by computing the approximation (%s)' % rec.get('which'),
            'colored-differs': 'colored approximation differs from the uncolored approximation (expected = uncolored)',
            'colored-total-first-call': 'the first compute_totals of a model with approx_totals and declare_coloring returns '
                                        'an all-zero Jacobian',
            'outputs': 'model outputs differ from the polynomial (realisation error?)',
            'raised': 'the approximation raised', 'setup-error': 'setup raised',
        }.get(cls, cls)
        clause = '%s [%s%s approximations, step_calc in %s; %d case(s) of this class in this run]' % (
            clause, 'colored ' if colored else '', kind, scs, len(lst))
        ctx.violation(_scenario(t, rec), rec.get('exp'), rec.get('obs'), clause,
                      info={'class': cls, 'clause': clause, 'bad': rec.get('bad')})
    # evidence
    ctx.impl = impl
    ctx.evaluations = total['approximations']
    ctx.exhaustive = True
    for t in tasks:
        st = t['st']
        for k in t['keys']:
            if k[1] not in ('abs', 'none') or t['colored'] or st['c2'] or t['kind'] == 'implicit':
                ctx.note_nontrivial('%s|%s|%s|%s|%s' % (t['gkey'], t['kind'], t['colored'], t.get('prior', True), k))
    for e in exports[::max(1, len(exports) // 3)][:3]:
        j = [x for x in e['jacs'] if x['form'] == 'forward' and x['sc'] == 'rel_element'][0]
        ctx.sample({'scenario': e['s'], 'spec_outputs': e['y'], 'spec_forward_rel_element': j})
    ctx.extra['counters'] = dict(total)
    ctx.extra['tasks'] = dict(collections.Counter('%s%s' % ('colored-' if t['colored'] else '', t['kind']) for t in tasks))
    ctx.extra['structures'] = len(groups)
    ctx.extra['scenarios'] = len(exports)
    ctx.extra['reference_checked_entries'] = nref
    ctx.extra['violation_classes'] = {'%s|%s|%s' % (k[0], k[1], 'colored' if k[2] else 'uncolored'): len(v)
                                      for k, v in classes_seen.items()}
    ctx.rule = ('every scenario of Approx.tla (families dense/sparse components and chains, all variable layouts with <= 3 '
                'scalar inputs, 3 points per structure incl. zero vectors, step/minimum_step configurations) x '
                '{forward, backward, central} x {abs, rel, rel_avg, rel_element, rel_legacy} + cs, realised as partial / '
                'implicit-residual / colored / approx_totals / semi-total approximations on real Problems, points driven in '
                'sequence through one Problem; impl = Jacobians compared with the spec; non-trivial = (structure, '
                'realisation, declaration) with a relative step_calc, coloring, a chain or an implicit component')
    ctx.assumptions = [
        'polynomial functions of degree <= 2 only (the quotient is then exact in rationals): truncation behaviour of '
        'non-polynomial functions is not covered',
        'steps are powers of two (2^-10, 2^-20), minimum_step 2^-22 or 2^-8; approx_totals cannot set minimum_step, chains '
        'therefore avoid points where the floor would be active (law NoFloorInChains)',
        'serial execution (no MPI, no parallel FD); directional approximations and check_partials are covered elsewhere',
        'side-effect freedom is judged on the real parts (asarray()) of the model vectors',
    ]
