"""C27 - option declarations are enforced and temporary values always restored.

Spec: spec/mech/Options.tla.  TLC (1) checks ValuesValid, FramesValid, RejectLeaves, TempRestores,
ReadOnlyFrozen exhaustively; (2) exports every transition of the bounded state graph; each one is
executed against a real OptionsDictionary (one implementation test per transition)."""
import warnings

from ..graph import Graph
from ..tlc import MachineryError

PY = {1: None, 2: -1, 3: 0, 4: 1, 5: 5, 6: 'a', 7: 'b', 8: True, 9: False}
TYPES = {'int': int, 'str': str, 'bool': bool, 'NoneType': type(None)}
NB = 99


def vid(v):
    from openmdao.core.constants import _UNDEFINED
    if v is _UNDEFINED:
        return 0
    if v is None:
        return 1
    if isinstance(v, bool):
        return 8 if v else 9
    if isinstance(v, int):
        return {-1: 2, 0: 3, 1: 4, 5: 5}.get(v, -1)
    if isinstance(v, str):
        return {'a': 6, 'b': 7}.get(v, -1)
    return -1


class Boom(Exception):
    pass


class Real:
    """A real OptionsDictionary built from a scenario record, plus the open context managers."""

    def __init__(self, scen):
        from openmdao.utils.options_dictionary import OptionsDictionary
        self.od = OptionsDictionary(read_only=False)
        self.names = sorted(scen['decl'])
        # aliases must be declared after their targets exist is not required; declare in name order
        for o in self.names:
            d = scen['decl'][o]
            kw = {}
            if d['kind'] == 'values':
                kw['values'] = tuple(PY[x] for x in sorted(d['listed']))
            elif d['kind'] == 'types':
                ts = tuple(TYPES[t] for t in sorted(d['listed']))
                kw['types'] = ts[0] if len(ts) == 1 else ts
            if d['lower'] != NB:
                kw['lower'] = d['lower']
            if d['upper'] != NB:
                kw['upper'] = d['upper']
            if d['allowNone']:
                kw['allow_none'] = True
            if d['cvReject']:
                bad = set(d['cvReject'])

                def cv(name, value, bad=bad):
                    if vid(value) in bad:
                        raise ValueError('check_valid rejects %r' % (value,))
                kw['check_valid'] = cv
            if d['default'] != 0:
                kw['default'] = PY[d['default']]
            if d['alias'] != 'none':
                kw['deprecation'] = ('%s is deprecated' % o, d['alias'])
            self.od.declare(o, **kw)
        self.od._read_only = bool(scen['readOnly'])
        self.cms = []

    def apply(self, a):
        od = self.od
        n = a['n']
        with warnings.catch_warnings():
            warnings.simplefilter('ignore')
            if n == 'Set':
                try:
                    od[a['o']] = PY[a['v']]
                    return ['ok', 0]
                except (ValueError, TypeError, KeyError):
                    return ['rejected', 0]
            if n == 'Get':
                try:
                    return ['value', vid(od[a['o']])]
                except (RuntimeError, KeyError):
                    return ['rejected', 0]
            if n == 'TempEnter':
                cm = od.temporary(**{o: PY[v] for o, v in a['kw']})
                try:
                    cm.__enter__()
                except (ValueError, TypeError, KeyError, RuntimeError):
                    return ['rejected', 0]
                self.cms.append(cm)
                return ['ok', 0]
            if n == 'TempExit':
                cm = self.cms.pop()
                if a['how'] == 'normal':
                    cm.__exit__(None, None, None)
                    return ['ok', 0]
                try:
                    raise Boom()
                except Boom as e:
                    swallowed = cm.__exit__(type(e), e, e.__traceback__)
                return ['ok', 0] if swallowed else ['propagated', 0]
        raise MachineryError('unknown action %r' % (a,))

    def project(self):
        return {o: vid(self.od._dict[o]['val']) if self.od._dict[o]['has_been_set'] else 0 for o in self.names}


SNIPPET = '''import openmdao.api as om
from openmdao.utils.options_dictionary import OptionsDictionary
# build the dictionary of scenario %(sc)d (see scenario in this file), apply %(acts)s then %(act)s
'''


def run(ctx):
    quick = ctx.tier == 'quick'
    # 1. the design: exhaustive check of the spec's own properties
    cfg = ctx.write_cfg('OptionsMC.cfg', '''CONSTANTS
  Scenarios <- AllScenarios
  MaxNest = %d
  MaxKw = %d
INIT Init
NEXT Next
VIEW View
INVARIANT ValuesValid
INVARIANT FramesValid
PROPERTY RejectLeaves
PROPERTY TempRestores
PROPERTY ReadOnlyFrozen
''' % ((2, 1) if quick else (2, 2)))
    r = ctx.tlc_check('mech/OptionsMC', cfg, timeout=1500)
    ctx.require_actions(['Init'])
    # 2. export every transition of the graph used for binding
    cfg = ctx.write_cfg('OptionsMC_export.cfg', '''CONSTANTS
  Scenarios <- AllScenarios
  MaxNest = %d
  MaxKw = 2
INIT Init
NEXT XNext
VIEW View
INVARIANT ExportInit
''' % (1 if quick else 2))
    x = ctx.tlc_run('mech/OptionsMC', cfg, coverage=False, timeout=1500, heap='12g')
    if x.error or not x.finished:
        raise MachineryError('export failed:\n' + x.tail())
    scen = x.exports('SCN')
    if len(scen) < 1:
        raise MachineryError('no scenario export')
    scen = scen[0]
    edges = x.exports('EXP')
    inits = x.exports('INI')
    if len(edges) != x.generated - len(inits):
        raise MachineryError('export incomplete: %d edges printed, %d transitions generated' % (len(edges), x.generated - len(inits)))
    g = Graph(edges, inits)
    del edges
    ctx.extra['graph_states'] = len(g.path)
    ctx.extra['graph_transitions'] = g.n_edges

    def fresh(sc):
        return Real(scen[sc - 1])

    def expect(sc, st, r):
        return st['vals'], [r['r'], r['v']]

    def on_bad(sc, acts, act, exp, obs, clause):
        scenario = {'sc': sc, 'decl': scen[sc - 1], 'path': acts, 'action': act}
        ctx.violation(scenario, exp, obs, clause,
                      snippet='replay with: ./check C27 --replay <this file>',
                      info={'act': act, 'path': acts, 'clause': clause})

    def count(k, o):
        a = o[0]
        if a['n'] == 'TempExit' or (a['n'] == 'TempEnter'):
            ctx.note_nontrivial(k + dumps_act(a))
        return True

    import json

    def dumps_act(a):
        return json.dumps(a, sort_keys=True)

    n = g.replay(fresh, lambda o, a: o.apply(a), lambda o: o.project(), expect, on_bad, pick=count)
    ctx.impl = n
    ctx.evaluations = n
    ctx.exhaustive = True
    ctx.rule = ('every transition of the bounded Options state graph (5 declaration scenarios x 3 options, '
                'candidate values incl. invalid ones of every kind, temporary() with 1-2 kwargs, nesting <= %d) is '
                'executed on a real OptionsDictionary after driving it along a shortest path to the source state; '
                'non-trivial = distinct transitions that enter or leave a temporary() context '
                '(incl. exits by exception and refused entries)' % (1 if quick else 2))
    for k in list(g.path)[:400:150]:
        outs = g.adj.get(k, ())
        if outs:
            ctx.sample({'scenario': g.state[k][0], 'state': g.state[k][1], 'path': [p[0] for p in g.path[k]],
                        'action': outs[-1][0], 'spec_result': outs[-1][2]})
    ctx.assumptions = ['Python value universe {None,-1,0,1,5,"a","b",True,False}; 3 options per dictionary',
                       'set_function and recordable flags are outside the spec']
