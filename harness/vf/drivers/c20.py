"""C20 - driver scaling is an exact, invertible affine map applied consistently.

Spec: spec/mech/DriverScaling.tla (+ DriverScalingProof.tla, the TLAPS-checked inverse law).  TLC enumerates the grid
of declarations (scaler/adder, ref/ref0 incl. ref < ref0, unit maps, scalar and per-element arrays) for a design
variable and a constraint, checks the laws (inverse both ways, ref -> 1 / ref0 -> 0, bound images, the composition
law of the scaled Jacobian, multiplier invariance) and exports every scenario with the exact expected driver values,
scaled bounds, Jacobian blocks and multipliers.  Every exported scenario is executed on a real Problem:

  get_design_var_values / get_constraint_values / get_objective_values   (driver_scaling True and False)
  autoscaler.get_bounds_scaling                                          (lower / upper / equals, INF_BOUND kept)
  driver._compute_totals, problem.compute_totals                         (driver_scaling True and False)
  OptimizerVector.set_data + driver._set_design_vars                     (scaled value -> model value -> scaled value)
  autoscaler.apply_mult_unscaling                                        (the spec's scaled multipliers)
  driver.compute_lagrange_multipliers(driver_scaling=False)              (equality-constrained scenarios)
"""
import os
import random
import shutil
import subprocess
from fractions import Fraction as F

from ..tlc import MachineryError, SPEC
from ..util import pmap, split

NOV = [0, 0]
NPROC = int(os.environ.get('VERIF_NPROC', '8'))
UNITS = {'none': (None, None), 'km_m': ('km', 'm'), 'degC_degK': ('degC', 'degK'), 'degF_degC': ('degF', 'degC')}
RTOL = 1e-12


def fr(x):
    return F(x[0], x[1])


def _decl(vals, fill=None):
    """declared value of a per-element argument: None when not given, a float when all elements agree, else an
    array (an absent element inside an array bound is the documented INF_BOUND sentinel `fill`)"""
    import numpy as np
    if all(v == NOV for v in vals):
        return None
    out = [fill if v == NOV else float(fr(v)) for v in vals]
    if any(o is None for o in out):
        raise MachineryError('partially given scaling argument %r' % (vals,))
    if all(o == out[0] for o in out):
        return out[0]
    return np.array(out)


def voi_kwargs(V):
    kw = {}
    if V['kind'] == 'sa':
        names = ('scaler', 'adder')
    elif V['kind'] == 'ref':
        names = ('ref', 'ref0')
    else:
        names = ()
    for nm, key in zip(names, ('p', 'q')):
        v = _decl(V[key])
        if v is not None:
            kw[nm] = v
    if UNITS[V['u']['id']][1] is not None:
        kw['units'] = UNITS[V['u']['id']][1]
    return kw


def bound_kwargs(bd, with_eq):
    from openmdao.core.constants import INF_BOUND
    kw = {}
    lo = _decl(bd['lo'], -INF_BOUND)
    up = _decl(bd['up'], INF_BOUND)
    if lo is not None:
        kw['lower'] = lo
    if up is not None:
        kw['upper'] = up
    if with_eq:
        eq = _decl(bd['eq'])
        if eq is not None:
            kw['equals'] = eq
    return kw


def array_scaler(V):
    """the declaration yields an array total_scaler"""
    if V['kind'] == 'sa':
        return len(V['p']) > 1 and any(x != V['p'][0] for x in V['p'])
    if V['kind'] == 'ref':
        return len(V['p']) > 1 and (any(x != V['p'][0] for x in V['p']) or any(x != V['q'][0] for x in V['q']))
    return False


def build(s):
    import numpy as np
    import openmdao.api as om
    n = s['n']
    a = np.array([float(fr(v)) for v in s['a']])
    b = np.array([float(fr(v)) for v in s['b']])
    w = np.array([float(fr(v)) for v in s['w']])
    pc, cc = float(fr(s['p'])), float(fr(s['c']))
    ux, uy, uf = UNITS[s['dv']['u']['id']][0], UNITS[s['con']['u']['id']][0], UNITS[s['obj']['u']['id']][0]
    p = om.Problem(driver=om.ScipyOptimizeDriver())     # never run; a driver with supports['optimization']
    m = p.model
    m.add_subsystem('ivc', om.IndepVarComp('x', np.zeros(n), units=ux))
    m.add_subsystem('c', om.ExecComp(['y = a*x + w*x[::-1] + b', 'f = %r*sum(x) + %r' % (pc, cc)],
                                     x={'val': np.zeros(n), 'units': ux}, y={'val': np.zeros(n), 'units': uy},
                                     a={'val': a}, w={'val': w}, b={'val': b}, f={'units': uf}))
    m.connect('ivc.x', 'c.x')
    kw = voi_kwargs(s['dv'])
    kw.update(bound_kwargs(s['dvb'], False))
    m.add_design_var('ivc.x', **kw)
    kw = voi_kwargs(s['con'])
    kw.update(bound_kwargs(s['conb'], True))
    m.add_constraint('c.y', **kw)
    m.add_objective('c.f', **voi_kwargs(s['obj']))
    p.setup()
    p.set_val('c.a', a)
    p.set_val('c.b', b)
    p.set_val('c.w', w)
    p.final_setup()
    return p


def observe(s, v):
    import numpy as np
    p = build(s)
    d = p.driver
    n = s['n']
    o = {}
    p.set_val('ivc.x', np.array([float(fr(x)) for x in s['x']]))
    p.run_model()

    def vec(dct, name):
        return [float(x) for x in np.atleast_1d(dct[name]).ravel()]
    o['dvS'] = vec(d.get_design_var_values(driver_scaling=True), 'ivc.x')
    o['conS'] = vec(d.get_constraint_values(driver_scaling=True), 'c.y')
    o['objS'] = vec(d.get_objective_values(driver_scaling=True), 'c.f')
    o['dvU'] = vec(d.get_design_var_values(driver_scaling=False), 'ivc.x')
    o['conU'] = vec(d.get_constraint_values(driver_scaling=False), 'c.y')
    o['objU'] = vec(d.get_objective_values(driver_scaling=False), 'c.f')
    # scaled again after an unscaled query (the vectors are reused in place)
    o['dvS_again'] = vec(d.get_design_var_values(driver_scaling=True), 'ivc.x')
    lo, up, _ = d._autoscaler.get_bounds_scaling('design_var')
    o['dvLo'], o['dvUp'] = [float(x) for x in lo['ivc.x']], [float(x) for x in up['ivc.x']]
    lo, up, eq = d._autoscaler.get_bounds_scaling('constraint')
    o['conLo'], o['conUp'], o['conEq'] = [float(x) for x in lo['c.y']], [float(x) for x in up['c.y']], \
        [float(x) for x in eq['c.y']]

    def blocks(J):
        return np.asarray(J['c.y', 'ivc.x']).reshape(n, n).tolist(), np.asarray(J['c.f', 'ivc.x']).reshape(1, n).tolist()
    d._total_jac = None
    o['JcS'], o['JoS'] = blocks(d._compute_totals(return_format='flat_dict', driver_scaling=True))
    d._total_jac = None
    o['JcU'], o['JoU'] = blocks(d._compute_totals(return_format='flat_dict', driver_scaling=False))
    d._total_jac = None
    o['JcS_p'], o['JoS_p'] = blocks(p.compute_totals(of=['c.y', 'c.f'], wrt=['ivc.x'], driver_scaling=True))
    o['JcU_p'], o['JoU_p'] = blocks(p.compute_totals(of=['c.y', 'c.f'], wrt=['ivc.x'], driver_scaling=False))

    # multipliers (before the design variables are moved)
    try:
        mu = np.array([float(fr(x)) for x in v['muS']])
        lam = np.array([float(fr(x)) for x in v['lamS']])
        dm, cm = d._autoscaler.apply_mult_unscaling({'ivc.x': mu}, {'c.y': lam})
        o['mu'], o['lam'] = [float(x) for x in dm['ivc.x']], [float(x) for x in cm['c.y']]
    except Exception as e:
        o['mult_err'] = '%s: %s' % (type(e).__name__, e)
    if all(x != NOV for x in s['conb']['eq']) and all(x == NOV for x in s['dvb']['lo'] + s['dvb']['up']):
        try:
            adv, acon = d.compute_lagrange_multipliers(driver_scaling=False, use_sparse_solve=False)
            if adv or sorted(acon) != ['c.y']:
                o['e2e_err'] = 'active sets: dvs %s cons %s' % (sorted(adv), sorted(acon))
            else:
                o['lam_e2e'] = [float(x) for x in np.atleast_1d(acon['c.y']['multipliers'])]
        except Exception as e:
            o['e2e_err'] = '%s: %s' % (type(e).__name__, e)

    # multipliers of ACTIVE design-variable bounds: put every design variable on the lower bound the optimizer sees and ask
    # for the multipliers in (declared) model units: the active set is all of them and, with no constraint active,
    # stationarity gives mu = -d obj / d dv (MultLaw: out.mu = Mu(JoU)), whatever the scaling
    if all(x == NOV for x in s['conb']['eq']) and all(x != NOV for x in v['dvLo']):
        try:
            dv_vec = d._vectors['design_var']
            dv_vec.set_data(np.array([float(fr(x)) for x in v['dvLo']]), driver_scaling=True)
            d._set_design_vars(driver_scaling=True)
            p.run_model()
            d._total_jac = None
            adv, acon = d.compute_lagrange_multipliers(driver_scaling=False, use_sparse_solve=False)
            d._total_jac = None
            jo = np.asarray(d._compute_totals(of=['c.f'], wrt=['ivc.x'], return_format='flat_dict',
                                              driver_scaling=False)['c.f', 'ivc.x']).ravel()
            if not acon:
                got = np.atleast_1d(adv['ivc.x']['multipliers']).ravel() if 'ivc.x' in adv else np.array([])
                idx = np.atleast_1d(adv['ivc.x']['indices']).ravel().tolist() if 'ivc.x' in adv else []
                o['mu_bound'] = {'active': sorted(int(i) for i in idx), 'mu': [float(x) for x in got], 'want': [float(-x) for x in jo]}
        except Exception as e:
            o['mu_bound_err'] = '%s: %s' % (type(e).__name__, str(e)[:200])

    # optimizer-space value -> model -> optimizer space
    yset = np.array([float(fr(x)) for x in s['yset']])
    dv_vec = d._vectors['design_var']
    dv_vec.set_data(yset, driver_scaling=True)
    d._set_design_vars(driver_scaling=True)
    o['xset'] = [float(x) for x in np.atleast_1d(p.get_val('ivc.x')).ravel()]
    o['yback'] = vec(d.get_design_var_values(driver_scaling=True), 'ivc.x')
    try:
        d.set_design_var('ivc.x', np.array(o['dvU']))
        o['pub_set'] = [float(x) for x in np.atleast_1d(p.get_val('ivc.x')).ravel()]
    except RuntimeError as e:
        o['pub_set_rejected'] = str(e)[:80]
    return o


def _worker(items):
    from ..util import quiet
    quiet()
    out = []
    for e in items:
        try:
            out.append(observe(e['s'], e['v']))
        except Exception as ex:
            import traceback
            out.append({'err': '%s: %s' % (type(ex).__name__, ex), 'tb': traceback.format_exc()[-600:]})
    return out


def close(obs, exp, rel_only=False):
    e = float(exp)
    if rel_only:
        return abs(obs - e) <= RTOL * abs(e) + 1e-300
    return abs(obs - e) <= RTOL * max(1.0, abs(e))


def compare(ctx, e, o, stats):
    """compare one scenario; returns nothing, reports through ctx.violation"""
    from openmdao.core.constants import INF_BOUND
    import math
    s, v = e['s'], e['v']
    n = s['n']

    def bad(clause, exp, obs, info=None):
        ctx.violation(s, exp, obs, clause, info=info)
        stats['viol'] = stats.get('viol', 0) + 1

    if 'err' in o:
        bad('building or evaluating the problem raised: ' + o['err'], None, o.get('tb'))
        return
    for key, what in (('dvS', 'design variable, driver_scaling=True'), ('conS', 'constraint, driver_scaling=True'),
                      ('objS', 'objective, driver_scaling=True'), ('dvU', 'design variable, driver_scaling=False'),
                      ('conU', 'constraint, driver_scaling=False'), ('objU', 'objective, driver_scaling=False'),
                      ('xset', 'model value after setting an optimizer-space design vector')):
        want = [fr(x) for x in v[key]]
        if len(o[key]) != len(want) or not all(close(a, b) for a, b in zip(o[key], want)):
            bad('value differs from the affine image: ' + what, [float(w) for w in want], o[key])
    for key, ref, what in (('dvS_again', 'dvS', 'scaled query after an unscaled one'),
                           ('yback', None, 'scaled design variables read back after _set_design_vars')):
        want = [fr(x) for x in (v[ref] if ref else s['yset'])]
        if not all(close(a, b) for a, b in zip(o[key], want)):
            bad('value differs from the affine image: ' + what, [float(w) for w in want], o[key])
    for key, sentinel in (('dvLo', -INF_BOUND), ('dvUp', INF_BOUND), ('conLo', -INF_BOUND), ('conUp', INF_BOUND),
                          ('conEq', None)):
        for i in range(n):
            w, got = v[key][i], o[key][i]
            if w == NOV:
                ok = math.isnan(got) if sentinel is None else got == sentinel
            else:
                ok = close(got, fr(w))
            if not ok:
                bad('cached scaled bound %s[%d] is not the image of the declared bound' % (key, i),
                    [None if x == NOV else float(fr(x)) for x in v[key]], o[key])
                break
    for key, ref in (('JcS', 'JcS'), ('JoS', 'JoS'), ('JcU', 'JcU'), ('JoU', 'JoU'), ('JcS_p', 'JcS'), ('JoS_p', 'JoS'),
                     ('JcU_p', 'JcU'), ('JoU_p', 'JoU')):
        want = [[fr(x) for x in row] for row in v[ref]]
        ok = all(close(o[key][r][c], want[r][c], rel_only=True) for r in range(len(want)) for c in range(n))
        if not ok:
            bad('total derivative block %s differs from ScaleJ/UnitJ of the model block' % key,
                [[float(x) for x in row] for row in want], o[key])
    if 'mu_bound' in o:
        mb = o['mu_bound']
        if mb['active'] != list(range(n)):
            bad('compute_lagrange_multipliers: design variables on their bounds are not all found active', list(range(n)), mb['active'])
        elif len(mb['mu']) != n or not all(close(a, b) for a, b in zip(mb['mu'], mb['want'])):
            bad('multipliers of active design-variable bounds (driver_scaling=False) differ from -d obj/d dv', mb['want'], mb['mu'])
    if 'mult_err' in o:
        bad('apply_mult_unscaling raised: ' + o['mult_err'], {'mu': [float(fr(x)) for x in v['mu']],
                                                           'lam': [float(fr(x)) for x in v['lam']]}, o['mult_err'],
            info={'kind': 'mult_err', 'err': o['mult_err']})
    else:
        for key in ('mu', 'lam'):
            want = [fr(x) for x in v[key]]
            if not all(close(a, b, rel_only=True) for a, b in zip(o[key], want)):
                bad('unscaled multipliers %s depend on the scaling' % key, [float(w) for w in want], o[key])
    if 'e2e_err' in o:
        bad('compute_lagrange_multipliers(driver_scaling=False): ' + o['e2e_err'],
            [float(fr(x)) for x in v['lam']], o['e2e_err'], info={'kind': 'e2e_err', 'err': o['e2e_err']})
    elif 'lam_e2e' in o:
        stats['e2e'] = stats.get('e2e', 0) + 1
        want = [fr(x) for x in v['lam']]
        if not all(abs(a - float(b)) <= 1e-9 * max(1.0, abs(float(b))) for a, b in zip(o['lam_e2e'], want)):
            bad('compute_lagrange_multipliers(driver_scaling=False) depends on the scaling', [float(w) for w in want],
                o['lam_e2e'])
    if 'pub_set_rejected' in o:
        stats['pub_rejected'] = stats.get('pub_rejected', 0) + 1
    elif 'pub_set' in o:
        want = [fr(x) for x in s['x']]
        if not all(close(a, b) for a, b in zip(o['pub_set'], want)):
            bad('set_design_var(driver-unit value) does not restore the model value', [float(w) for w in want],
                o['pub_set'])


def run_tlaps(ctx):
    """re-check the inverse-law proof with tlapm (informational: recorded in the evidence, never a violation)"""
    exe = shutil.which('tlapm')
    if not exe:
        return None
    d = os.path.join(ctx.work, 'tlaps')
    os.makedirs(d, exist_ok=True)
    shutil.copy(os.path.join(SPEC, 'mech', 'DriverScalingProof.tla'), d)
    return subprocess.Popen([exe, 'DriverScalingProof.tla'], cwd=d, stdout=subprocess.PIPE, stderr=subprocess.STDOUT,
                            text=True)


def tlaps_outcome(ctx, proc):
    def verdict(out):
        import re
        m = re.search(r'All (\d+) obligations proved', out)
        return 'tlapm: all %s obligations proved' % m.group(1) if m else None
    try:
        out = proc.communicate(timeout=600)[0]
    except subprocess.TimeoutExpired:
        proc.kill()
        return 'tlapm: timeout'
    v = verdict(out)
    if v is None:       # tlapm occasionally dies with an internal exception on a heavily loaded machine: one retry
        proc = run_tlaps(ctx)
        try:
            out = proc.communicate(timeout=600)[0]
        except subprocess.TimeoutExpired:
            proc.kill()
            return 'tlapm: timeout'
        v = verdict(out)
    return v or ('tlapm: not closed: ' + ' '.join(out.split())[:300])


def run(ctx):
    import openmdao.api  # noqa: F401  (imported before the pool forks)
    quick = ctx.tier == 'quick'
    stride = 8 if quick else 1
    tl = run_tlaps(ctx)
    cfg = ctx.write_cfg('DriverScaling.cfg', '''CONSTANTS
  MaxN = 2
  Stride = %d
INIT Init
NEXT Next
INVARIANT InverseLaw
INVARIANT RefLaw
INVARIANT BoundLaw
INVARIANT JLaw
INVARIANT ValueLaw
INVARIANT MultLaw
INVARIANT Export
''' % stride)
    r = ctx.tlc_check('mech/DriverScaling', cfg, timeout=3000, heap='8g', coverage=False, workers=NPROC)
    scens = r.exports('EXP')
    if not scens or len(scens) != len({(e['s']['n'], e['s']['idv'], e['s']['icon']) for e in scens}):
        raise MachineryError('DriverScaling export: %d scenarios (duplicates or none)' % len(scens))
    # vacuity guard (the run is made without -coverage, which costs 40% here): every exported scenario is one Choose
    # transition, every other non-initial state one Pick transition (the per-declaration laws are checked there)
    ctx.coverage_actions['Choose'] = len(scens)
    ctx.coverage_actions['Pick'] = r.distinct - len(scens) - 16
    ctx.require_actions(['Pick', 'Choose'])
    if ctx.coverage_actions['Pick'] != 200:
        raise MachineryError('expected 200 declarations (88 one-element, 112 two-element), TLC visited %d'
                             % ctx.coverage_actions['Pick'])
    scens.sort(key=lambda e: (e['s']['n'], e['s']['idv'], e['s']['icon']))
    if getattr(ctx, 'replay', None):
        import json
        with open(ctx.replay) as fh:
            want = json.load(fh)['scenario']
        scens = [e for e in scens if (e['s']['n'], e['s']['idv'], e['s']['icon']) == (want['n'], want['idv'], want['icon'])]
    rnd = random.Random(ctx.seed)
    order = list(range(len(scens)))
    rnd.shuffle(order)          # balance the chunks
    chunks = split([scens[i] for i in order], NPROC * 6)
    res = pmap(_worker, chunks, nproc=NPROC)

    def known_array_scaler(s, info):
        # apply_mult_unscaling evaluates `total_scaler or 1.0`, which raises for an array scaler of size > 1
        return info.get('kind') in ('mult_err', 'e2e_err') and 'truth value of an array' in info.get('err', '') and \
            (array_scaler(s['dv']) or array_scaler(s['con']))
    ctx.register_predicates({'C20-mult-unscaling-array-scaler': known_array_scaler})
    stats = {}
    k = 0
    for ch, rs in zip([c for c in chunks if c], res):
        for e, o in zip(ch, rs):
            k += 1
            s = e['s']
            if any(V['kind'] != 'none' or V['u']['id'] != 'none' for V in (s['dv'], s['con'], s['obj'])):
                ctx.note_nontrivial((s['n'], s['idv'], s['icon']))
            compare(ctx, e, o, stats)
    ctx.impl = k
    ctx.evaluations = k
    ctx.exhaustive = not quick
    for e in scens[::max(1, len(scens) // 3)][:3]:
        ctx.sample({'scenario': e['s'], 'spec_expectation': e['v']})
    ctx.extra['lagrange_end_to_end'] = stats.get('e2e', 0)
    ctx.extra['public_set_design_var_rejected'] = stats.get('pub_rejected', 0)
    if tl is not None:
        ctx.extra['tlaps'] = tlaps_outcome(ctx, tl)
    import collections
    import re
    ctx.extra['violation_classes'] = dict(collections.Counter(re.sub(r'-?\d+(\.\d+)?', 'N', cl)[:90] for cl, _ in ctx.violations))
    ctx.rule = ('every scenario exported by DriverScaling.tla (Stride=%d): design-variable declaration x constraint '
                'declaration from {none, scaler in {1/2,-1/2,2,-2,3} x adder in {-1,0,2}, six ref/ref0 pairs incl. '
                'ref<ref0 and one-sided} x unit maps {none, km->m, degC->degK, degF->degC}, scalar and 2-element arrays '
                '(per-element scalers/adders/refs/bounds); objective declaration, bound pattern (none/lower/upper/both/'
                'equals, INF_BOUND inside arrays), integer model coefficients and evaluation point rotate with the two '
                'indices; each one is built as a real Problem and compared with the exact expectation; non-trivial = '
                'scenarios with some scaling or unit conversion declared' % stride)
    ctx.assumptions = [
        'declared units are applied before the scaling; bounds, ref and ref0 are in the declared units',
        'the bound pair seen by the optimizer is the image of the interval: a negative scaler exchanges lower and upper (absent on the other side)',
        'no pyoptsparse: multipliers are checked through Autoscaler.apply_mult_unscaling and '
        'Driver.compute_lagrange_multipliers (dense solve) on equality-constrained scenarios without design-variable bounds',
        'Driver.set_design_var (public, deprecated) raises "Deprecation message expired" on this tree and is only counted',
        'affine integer model y = A x + b (full 2x2 block), f = p*sum(x) + c; one design variable, one constraint, one objective',
    ]
