"""C21 - optimizer success implies a feasible reported design (ScipyOptimizeDriver).

Spec: spec/mech/Optimizer.tla (uses Violation.tla's Viol1 for per-element feasibility).  TLC enumerates strictly convex
QPs  min sum (x_i - t_i)^2  s.t. per-element bounds / an equality on  y[idx], y = M x  (M = identity or a unimodular
bidiagonal matrix), computes the exact optimum x* as the best feasible active-set candidate and checks the laws
(x* feasible, x* = t when t is feasible, uniqueness, projection formula, KKT signs, KKT only at x*, and - for every
driver-scaling record - that the problem seen in driver space has the same optimum).  Every exported scenario is built as
a real Problem and optimised with ScipyOptimizeDriver (SLSQP, COBYLA, trust-constr) under several driver scalings, with
scalar or array bound declarations, `indices=` and linear=True/False.  When the driver reports success:
  (i)   the model is left at the design the optimizer returned,
  (ii)  every constraint element is within its bounds,
  (iii) the design is the spec's x*,
  (iv)  the answer does not depend on the driver scaling.
A reported failure (or an exception) is counted, never compared."""
import collections
import json
import os
import random
from fractions import Fraction as F

from ..tlc import MachineryError
from ..util import pmap, split

NOB = [0, 0]
OPTIMIZERS = ('SLSQP', 'COBYLA', 'trust-constr')
# feas: allowed bound violation (model units); opt: allowed distance to x*; same: model design vs returned design.
# SLSQP is an active-set method (bounds met to round-off, optimum to ~1e-5).  scipy's COBYLA and trust-constr are much
# less sharp even at tol=1e-10: measured with scipy alone on these QPs, COBYLA ends up to 4e-4 and trust-constr (barrier
# method with a BFGS Hessian, stops after ~15 evaluations) up to 1.1e-3 away from x* when a target lies on a bound.
# A wrong, missing or mirrored bound moves the answer by >= 1e-1 in this scenario set, so these tolerances still decide.
# same: the model's design must BE the returned vector (only the round-off of the unscaling is allowed).
TOLS = {'SLSQP': {'feas': 1e-6, 'opt': 1e-4, 'same': 1e-9},
        'COBYLA': {'feas': 1e-4, 'opt': 5e-3, 'same': 1e-9},
        'trust-constr': {'feas': 1e-6, 'opt': 5e-3, 'same': 1e-9}}
MAXITER = {'SLSQP': 300, 'COBYLA': 3000, 'trust-constr': 400}
X0 = (0.7, -0.3, 1.1)

F_ARRAY = 'C21-array-bounds-first-element-decides-two-sided'
F_NEG = 'C21-negative-constraint-scaler-bounds-not-exchanged'
F_TC = 'C21-trust-constr-constraint-callbacks'
F_TCLIN = 'C21-trust-constr-linear-constraint-offset'
F_MOVED = 'C21-model-not-left-at-returned-design'


def fr(x):
    return F(x[0], x[1])


def nproc():
    return max(1, min(int(os.environ.get('VERIF_WORKERS', '16')), os.cpu_count() or 1))


# ---- scenario -> real problem -------------------------------------------------------------------------
def _decl(vals):
    """scalar when all elements agree, else an array (both declaration styles are exercised)"""
    import numpy as np
    if all(v == vals[0] for v in vals):
        return float(vals[0])
    return np.array([float(v) for v in vals])


def _scal_kwargs(rec):
    """total (scaler, adder) of the spec -> add_* keywords; form 'ref' declares the same map through ref/ref0"""
    s, a = fr(rec['s']), fr(rec['a'])
    if rec.get('form') == 'ref':
        ref0 = -a
        return {'ref': float(1 / s + ref0), 'ref0': float(ref0)}
    kw = {}
    if s != 1:
        kw['scaler'] = float(s)
    if a != 0:
        kw['adder'] = float(a)
    return kw


def matrix(s):
    import numpy as np
    n = s['n']
    if s['m'] == 'id':
        return np.eye(n)
    return np.array([[1.0 if j in (i, i + 1) else 0.0 for j in range(n)] for i in range(n)])


def con_kwargs(s, sc, lin):
    from openmdao.core.constants import INF_BOUND
    kw = {}
    if s['kind'] == 'eq':
        kw['equals'] = _decl([fr(e) for e in s['eq']])
    else:
        los = [None if b[0] == NOB else fr(b[0]) for b in s['b']]
        ups = [None if b[1] == NOB else fr(b[1]) for b in s['b']]
        # an unbounded element inside an array bound is expressed with the documented INF_BOUND sentinel
        if any(v is not None for v in los):
            kw['lower'] = _decl([-INF_BOUND if v is None else v for v in los])
        if any(v is not None for v in ups):
            kw['upper'] = _decl([INF_BOUND if v is None else v for v in ups])
    if s['idx'] != list(range(1, s['n'] + 1)):
        kw['indices'] = [i - 1 for i in s['idx']]
    kw.update(_scal_kwargs(sc['c']))
    if lin:
        kw['linear'] = True
    return kw


def build(s, sc, opt, lin):
    import numpy as np
    import openmdao.api as om
    n = s['n']
    p = om.Problem()
    m = p.model
    m.add_subsystem('ivc', om.IndepVarComp('x', np.array(X0[:n])))
    m.add_subsystem('o', om.ExecComp('f = sum((x - t)**2)', x=np.zeros(n), t=np.array([float(fr(v)) for v in s['t']])))
    if s['m'] == 'id':
        m.add_subsystem('c', om.ExecComp('y = 1.0*x', x=np.zeros(n), y=np.zeros(n)))
    else:
        m.add_subsystem('c', om.ExecComp('y = dot(M, x)', x=np.zeros(n), y=np.zeros(n), M=matrix(s)))
    m.connect('ivc.x', 'o.x')
    m.connect('ivc.x', 'c.x')
    m.add_design_var('ivc.x', **_scal_kwargs(sc['x']))
    okw = {}
    if fr(sc['f']) != 1:
        okw['scaler'] = float(fr(sc['f']))
    m.add_objective('o.f', **okw)
    kw = con_kwargs(s, sc, lin)
    if 'lower' not in kw and 'upper' not in kw and 'equals' not in kw:
        return None         # no bound at all: add_constraint demands one; such a scenario is run unconstrained
    m.add_constraint('c.y', **kw)
    p.driver = om.ScipyOptimizeDriver(optimizer=opt, tol=1e-10, disp=False, maxiter=MAXITER[opt])
    p.setup()
    return p


def _observe(p, sc):
    import numpy as np
    res = p.driver._scipy_optimize_result
    z = np.asarray(res.x, dtype=float)
    xs, xa = float(fr(sc['x']['s'])), float(fr(sc['x']['a']))
    return {'status': 'success',
            'x_ret': [float(q) for q in z / xs - xa],          # the optimizer's answer in model units
            'x': [float(q) for q in p.get_val('ivc.x')],
            'y': [float(q) for q in p.get_val('c.y')],
            'nfev': int(getattr(res, 'nfev', 0) or 0)}


def run_case(s, sc, opt, lin, v=None):
    """-> observation dict.  status: 'success' | 'fail' | 'skip' | 'error'"""
    import contextlib
    import io
    try:
        p = build(s, sc, opt, lin)
    except Exception as e:
        return {'status': 'error', 'where': 'setup', 'err': '%s: %s' % (type(e).__name__, str(e)[:200])}
    if p is None:
        return {'status': 'skip'}
    try:
        p.final_setup()         # the driver fills its `supports` table here
    except Exception as e:
        return {'status': 'error', 'where': 'final_setup', 'err': '%s: %s' % (type(e).__name__, str(e)[:200])}
    if s['kind'] == 'eq' and not p.driver.supports['equality_constraints']:
        # the driver declares equality constraints unsupported for this optimizer (COBYLA); scipy's COBYLA accepts them
        # but stalls on them (false success with every callback value right), so this combination is not judged
        return {'status': 'unsupported'}
    try:
        with contextlib.redirect_stdout(io.StringIO()):
            result = p.run_driver()
    except Exception as e:
        return {'status': 'error', 'where': 'run_driver', 'err': '%s: %s' % (type(e).__name__, str(e)[:200])}
    ok = bool(result.success)
    if ok == bool(p.driver.fail):
        return {'status': 'error', 'where': 'flags', 'err': 'result.success=%r but driver.fail=%r' % (ok, p.driver.fail)}
    if not ok:
        return {'status': 'fail'}
    o = _observe(p, sc)
    if opt == 'COBYLA' and v is not None:
        # scipy's COBYLA now and then stops early at a feasible non-optimal point and calls it success although every
        # value it was given is right (reproduced with scipy alone).  That is not the driver's doing: a feasible but
        # non-optimal COBYLA answer is judged after one restart of the driver from the design it reported.
        clause, info = judge(s, v, opt, o)
        if clause and info['not_opt'] and not (info['bad_lower'] or info['bad_upper'] or info['bad_eq'] or
                                                info['stale_y']):
            try:
                with contextlib.redirect_stdout(io.StringIO()):
                    result = p.run_driver()
            except Exception as e:
                return {'status': 'error', 'where': 'restart', 'err': '%s: %s' % (type(e).__name__, str(e)[:200])}
            if not result.success:
                return {'status': 'fail', 'restarted': True}
            o2 = _observe(p, sc)
            o2['restarted'] = True
            o2['first'] = o['x']
            return o2
    return o


def _worker(items):
    from ..util import quiet
    quiet()
    return [run_case(*it) for it in items]


# ---- judging ------------------------------------------------------------------------------------------
def judge(s, v, opt, o):
    """compare one successful observation with the spec's expectation -> (clause or None, info)"""
    import numpy as np
    tol = TOLS[opt]
    n = s['n']
    xstar = [float(fr(q)) for q in v['x']]
    M = matrix(s)
    info = {'bad_lower': [], 'bad_upper': [], 'bad_eq': [], 'not_opt': False, 'moved': False, 'stale_y': False}
    x, y, xr = np.array(o['x']), np.array(o['y']), np.array(o['x_ret'])
    info['d_same'] = float(np.max(np.abs(x - xr)))
    info['d_opt'] = float(max(abs(a - b) for a, b in zip(o['x'], xstar)))
    info['d_feas'] = 0.0
    if np.max(np.abs(x - xr)) > tol['same'] * (1 + np.max(np.abs(xr))):
        info['moved'] = True
    if np.max(np.abs(M.dot(x) - y)) > 1e-9 * (1 + np.max(np.abs(y))):
        info['stale_y'] = True
    for i in range(n):
        lo, up = v['yb'][i]
        if s['kind'] == 'eq' and lo != NOB:
            info['d_feas'] = max(info['d_feas'], abs(y[i] - float(fr(lo))))
            if abs(y[i] - float(fr(lo))) > tol['feas']:
                info['bad_eq'].append(i)
            continue
        if lo != NOB:
            info['d_feas'] = max(info['d_feas'], float(fr(lo)) - y[i])
            if y[i] < float(fr(lo)) - tol['feas']:
                info['bad_lower'].append(i)
        if up != NOB:
            info['d_feas'] = max(info['d_feas'], y[i] - float(fr(up)))
            if y[i] > float(fr(up)) + tol['feas']:
                info['bad_upper'].append(i)
    if max(abs(a - b) for a, b in zip(o['x'], xstar)) > tol['opt']:
        info['not_opt'] = True
    if info['bad_lower'] or info['bad_upper'] or info['bad_eq']:
        return ('success reported with y elements violating lower %s / upper %s / equals %s' %
                (info['bad_lower'], info['bad_upper'], info['bad_eq'])), info
    if info['not_opt']:
        return 'success reported but the design is not the optimum x*', info
    if info['moved'] or info['stale_y']:
        return 'success reported but the model is not left at the design the optimizer returned', info
    return None, info


def snippet(s, sc, opt, lin):
    """stand-alone reproduction (no TLC, no harness)"""
    import numpy as np
    kw = con_kwargs(s, sc, lin)
    n = s['n']

    def lit(v):
        if isinstance(v, np.ndarray):
            return 'np.array(%r)' % ([float(q) for q in v],)
        return repr(v)
    kws = ', '.join('%s=%s' % (k, lit(val)) for k, val in kw.items())
    dkw = ', '.join('%s=%r' % kv for kv in _scal_kwargs(sc['x']).items())
    okw = 'scaler=%r' % float(fr(sc['f'])) if fr(sc['f']) != 1 else ''
    comp = ("om.ExecComp('y = 1.0*x', x=np.zeros(%d), y=np.zeros(%d))" % (n, n) if s['m'] == 'id' else
            "om.ExecComp('y = dot(M, x)', x=np.zeros(%d), y=np.zeros(%d), M=np.array(%r))" % (n, n, matrix(s).tolist()))
    return '\n'.join([
        'import numpy as np, openmdao.api as om',
        'p = om.Problem(); m = p.model',
        "m.add_subsystem('ivc', om.IndepVarComp('x', np.array(%r)))" % (list(X0[:n]),),
        "m.add_subsystem('o', om.ExecComp('f = sum((x - t)**2)', x=np.zeros(%d), t=np.array(%r)))" %
        (n, [float(fr(q)) for q in s['t']]),
        "m.add_subsystem('c', %s)" % comp,
        "m.connect('ivc.x', 'o.x'); m.connect('ivc.x', 'c.x')",
        "m.add_design_var('ivc.x'%s)" % (', ' + dkw if dkw else ''),
        "m.add_objective('o.f'%s)" % (', ' + okw if okw else ''),
        "m.add_constraint('c.y', %s)" % kws,
        "p.driver = om.ScipyOptimizeDriver(optimizer=%r, tol=1e-10, disp=False, maxiter=%d)" % (opt, MAXITER[opt]),
        "p.setup(); r = p.run_driver()",
        "print(r.success, p.get_val('ivc.x'), p.get_val('c.y'), p.driver._scipy_optimize_result.x)"])


# ---- predicates of the known findings (scenario = {'s', 'sc', 'optimizer', 'linear'}) -------------------------
def _two_sided(b):
    return b[0] != NOB and b[1] != NOB


def pred_array(scn, info):
    """ScipyOptimizeDriver.run, dict-style constraints (SLSQP/COBYLA): `upper = upper[j]` / `lower = lower[j]` rebind the
    arrays in the per-element loop, so element 0 alone decides whether the second (upper) constraint is added."""
    s = scn['s']
    if scn['optimizer'] not in ('SLSQP', 'COBYLA') or s['kind'] != 'ineq' or fr(scn['sc']['c']['s']) < 0:
        return False
    b = s['b']
    if _two_sided(b[0]):
        # every later element gets the second constraint as well: for a one-sided element it repeats its upper bound (or
        # is 1e30 - y); the redundant row makes scipy's COBYLA stop early at a feasible non-optimal point
        return scn['optimizer'] == 'COBYLA' and any(not _two_sided(q) and q != [NOB, NOB] for q in b[1:]) and \
            bool(info.get('not_opt')) and not (info.get('bad_lower') or info.get('bad_upper'))
    dropped = [s['idx'][k] - 1 for k in range(1, len(b)) if _two_sided(b[k])]      # y positions whose upper is dropped
    bad = info.get('bad_upper') or []
    return bool(dropped) and bool(bad) and set(bad) <= set(dropped) and not info.get('bad_lower')


def pred_neg(scn, info):
    """Autoscaler._compute_scaled_bounds: with a negative total scaler the image of `lower` is kept as the lower bound
    (and `upper` as the upper), so the optimizer enforces the mirrored constraint."""
    s = scn['s']
    return s['kind'] == 'ineq' and fr(scn['sc']['c']['s']) < 0 and any(b != [NOB, NOB] for b in s['b']) and \
        bool(info.get('bad_lower') or info.get('bad_upper') or info.get('not_opt'))


def pred_tc(scn, info):
    """trust-constr (new-style constraints): only the last element's NonlinearConstraint is appended, _con_val_func
    returns the values cached at the previous design (and _gradfunc the gradient of the previous design), _congradfunc
    negates upper-only rows."""
    return scn['optimizer'] == 'trust-constr' and not scn['linear'] and _wrong(info)


def pred_tclin(scn, info):
    """trust-constr, linear=True: LinearConstraint(A, lb, ub) is given the bounds of the affine constraint A z + g0
    without subtracting g0 (g0 != 0 as soon as the constraint or the design variable has an adder / ref0), only one row
    of the Jacobian is passed, and the objective gradient is the one of the previous design."""
    return scn['optimizer'] == 'trust-constr' and scn['linear'] and _wrong(info)


def _wrong(info):
    return bool(info.get('bad_lower') or info.get('bad_upper') or info.get('bad_eq') or info.get('not_opt'))


def pred_moved(scn, info):
    """ScipyOptimizeDriver.run never writes result.x back: the model stays at the optimizer's last evaluation, which for
    COBYLA and trust-constr is usually another (trial) point.  Only runs that are otherwise right are attributed here."""
    return bool(info.get('moved')) and not info.get('stale_y') and not _wrong(info)


PREDICATES = {F_ARRAY: pred_array, F_NEG: pred_neg, F_TC: pred_tc, F_TCLIN: pred_tclin, F_MOVED: pred_moved}


# ---- selection of the runs ------------------------------------------------------------------------------
def plan(ctx, scens, scalings, quick):
    """-> list of (scenario index, scaling index, optimizer, linear).  The identity scaling is always run; the base
    scenarios are all y = x / idx = identity ones (every pair of per-element patterns) plus a seeded sample of the
    others."""
    rnd = random.Random(ctx.seed)
    n = scens[0]['s']['n']
    full = list(range(1, n + 1))
    core = [i for i, e in enumerate(scens) if e['s']['m'] == 'id' and e['s']['idx'] == full]
    rest = [i for i, e in enumerate(scens) if not (e['s']['m'] == 'id' and e['s']['idx'] == full)]
    rnd.shuffle(rest)
    ident = [k for k, sc in enumerate(scalings) if _is_identity(sc)][0]
    others = [k for k in range(len(scalings)) if k != ident]
    if quick:
        chosen = core + rest[:200]
        nsc = 2
    elif n == 2:
        chosen = core + rest[:300]
        nsc = len(others)
    else:
        rnd.shuffle(core)
        chosen = core[:500] + rest[:300]
        nsc = 3
    runs = []
    for j, i in enumerate(chosen):
        ks = [ident] + [others[(j * nsc + q) % len(others)] for q in range(nsc)]
        for q, k in enumerate(ks):
            for o, opt in enumerate(OPTIMIZERS):
                runs.append((i, k, opt, bool((j + q + o) % 2)))
    return runs


def _is_identity(sc):
    return all(fr(sc[w]['s']) == 1 and fr(sc[w]['a']) == 0 for w in ('c', 'x')) and fr(sc['f']) == 1


# ---- main ---------------------------------------------------------------------------------------------
LAWS = ['OptFeasible', 'OptIsTarget', 'OptUnique', 'Projection', 'KKT', 'KKTOnlyAtOptimum', 'ScalingIndependent',
        'ScaledKKT']


def check_oracle(e):
    """independent re-evaluation of the spec's optimum in fractions.Fraction: y = M x*, feasibility, KKT signs
    (lam = -M^-T grad f; positive only on an active upper, negative only on an active lower bound).  For a strictly
    convex objective and affine constraints these conditions are necessary and sufficient."""
    s, v = e['s'], e['v']
    n = s['n']
    M = [[1 if (j == i or (s['m'] == 'tri' and j == i + 1)) else 0 for j in range(n)] for i in range(n)]
    W = [[(0 if j < i else (1 if (j - i) % 2 == 0 else -1)) if s['m'] == 'tri' else int(i == j) for j in range(n)]
         for i in range(n)]
    x = [fr(q) for q in v['x']]
    t = [fr(q) for q in s['t']]
    y = [sum(M[i][j] * x[j] for j in range(n)) for i in range(n)]
    yb = [[NOB, NOB] for _ in range(n)]
    for k, i in enumerate(s['idx']):
        yb[i - 1] = [s['eq'][k], s['eq'][k]] if s['kind'] == 'eq' else s['b'][k]
    g = [2 * (x[j] - t[j]) for j in range(n)]
    lam = [-sum(W[j][i] * g[j] for j in range(n)) for i in range(n)]
    ok = y == [fr(q) for q in v['y']] and yb == v['yb'] and fr(v['f']) == sum((a - b) ** 2 for a, b in zip(x, t))
    for i in range(n):
        lo, up = yb[i]
        ok = ok and (lo == NOB or y[i] >= fr(lo)) and (up == NOB or y[i] <= fr(up))
        ok = ok and (lam[i] <= 0 or (up != NOB and y[i] == fr(up))) and (lam[i] >= 0 or (lo != NOB and y[i] == fr(lo)))
    if not ok:
        raise MachineryError('Optimizer.tla and the independent KKT evaluation disagree on %s' % json.dumps(e))


def tlc_scenarios(ctx, n):
    cfg = ctx.write_cfg('Optimizer%d.cfg' % n, 'CONSTANTS\n  N = %d\nINIT Init\nNEXT Next\n%s\n' % (
        n, '\n'.join('INVARIANT %s' % x for x in LAWS + ['Export', 'ExportScalings'])))
    r = ctx.tlc_check('mech/Optimizer', cfg, timeout=3000, heap='12g', workers=nproc())
    ctx.require_actions(['ChooseT', 'ChooseB'])
    scens = r.exports('EXP')
    scl = r.exports('SCL')
    if not scens or len(scl) != 1 or not scl[0]:
        raise MachineryError('Optimizer.tla exported %d scenarios / %d scaling sets' % (len(scens), len(scl)))
    scalings = sorted(scl[0], key=lambda q: json.dumps(q, sort_keys=True))
    if sum(1 for q in scalings if _is_identity(q)) != 1 or not any(fr(q['c']['s']) < 0 for q in scalings):
        raise MachineryError('scaling set lacks the identity or a negative constraint scaler')
    scens.sort(key=lambda e: json.dumps(e['s'], sort_keys=True))
    for e in scens:
        check_oracle(e)
    return scens, scalings


def guard_swap(ctx, n):
    """vacuity guard of the scaling law: without exchanging the bounds under a negative scaler the optimum would NOT
    be feasible in driver space for some scenario (TLC must refute SwapIrrelevant)."""
    cfg = ctx.write_cfg('OptimizerSwap%d.cfg' % n, 'CONSTANTS\n  N = %d\nINIT Init\nNEXT Next\nINVARIANT SwapIrrelevant\n' % n)
    r = ctx.tlc_run('mech/Optimizer', cfg, timeout=1200, workers=nproc())
    if 'SwapIrrelevant' not in r.violated:
        raise MachineryError('vacuous: no scenario distinguishes exchanged from non-exchanged scaled bounds:\n' + r.tail(20))


def execute(ctx, scens, scalings, runs):
    """run the planned cases on the real code and judge them; returns counters"""
    np_ = nproc()
    items = [(scens[i]['s'], scalings[k], opt, lin, scens[i]['v']) for i, k, opt, lin in runs]
    order = list(range(len(items)))
    random.Random(ctx.seed + 1).shuffle(order)          # mix cheap and expensive runs in every chunk
    chunks = split(order, np_ * 8)
    chunks = [c for c in chunks if c]
    # OpenMDAO writes a <problem>_out directory into the current directory: run inside the scratch directory
    cwd = os.getcwd()
    os.chdir(ctx.work)
    try:
        res = pmap(_worker, [[items[q] for q in c] for c in chunks], nproc=np_)
    finally:
        os.chdir(cwd)
    obs = [None] * len(items)
    for c, rs in zip(chunks, res):
        for q, o in zip(c, rs):
            obs[q] = o
    cnt = collections.Counter()
    errs = collections.Counter()
    classes = collections.Counter()
    worst = collections.defaultdict(float)
    by_group = collections.defaultdict(list)
    for q, (i, k, opt, lin) in enumerate(runs):
        o = obs[q]
        s, v, sc = scens[i]['s'], scens[i]['v'], scalings[k]
        cnt[(opt, o['status'])] += 1
        if o.get('restarted'):
            cnt[(opt, 'restarted')] += 1
        if o['status'] == 'error':
            errs[(opt, 'linear' if lin else 'nonlinear', o['where'], o['err'][:120])] += 1
        if o['status'] != 'success':
            continue
        scn = {'s': s, 'sc': sc, 'optimizer': opt, 'linear': lin}
        arr = (s['kind'] == 'ineq' and any(b != s['b'][0] for b in s['b'])) or \
            (s['kind'] == 'eq' and any(e != s['eq'][0] for e in s['eq']))
        active = [fr(a) for a in v['x']] != [fr(a) for a in s['t']]
        if active and (arr or not _is_identity(sc) or s['idx'] != list(range(1, s['n'] + 1)) or s['m'] != 'id'):
            ctx.note_nontrivial(json.dumps([s, sc, opt, lin], sort_keys=True))
        clause, info = judge(s, v, opt, o)
        if not clause:
            for w in ('same', 'feas', 'opt'):
                worst[(opt, w)] = max(worst[(opt, w)], info['d_' + w])
        expected = {'x_star': [float(fr(a)) for a in v['x']], 'y_bounds': v['yb']}
        if clause:
            cnt[(opt, 'violating')] += 1
            hits = [fid for fid, pr in PREDICATES.items() if pr(scn, info)]
            classes[(opt, clause.split(' violating')[0][:60], '+'.join(hits) or 'unclassified')] += 1
            if not hits and os.environ.get('VERIF_C21_DEBUG'):
                print('UNCLASSIFIED %s' % json.dumps({'scn': scn, 'obs': o, 'clause': clause, 'exp': expected}))
            ctx.violation(scn, expected, o, clause, snippet=snippet(s, sc, opt, lin), info=info)
        else:
            by_group[(i, opt)].append((k, lin, o))
    # (iv) the same answer under every scaling (only runs that individually passed are compared here)
    for (i, opt), lst in by_group.items():
        if len(lst) < 2:
            continue
        ref = lst[0]
        for k, lin, o in lst[1:]:
            d = max(abs(a - b) for a, b in zip(o['x'], ref[2]['x']))
            if d > 2 * TOLS[opt]['opt']:
                ctx.violation({'s': scens[i]['s'], 'sc': scalings[k], 'optimizer': opt, 'linear': lin},
                              {'x_under_scaling_%d' % ref[0]: ref[2]['x']}, o,
                              'the reported optimum depends on the driver scaling',
                              snippet=snippet(scens[i]['s'], scalings[k], opt, lin), info={'scaling_dep': True})
    return cnt, errs, obs, classes, worst


def run(ctx):
    quick = ctx.tier == 'quick'
    ctx.register_predicates(PREDICATES)
    if getattr(ctx, 'replay', None):
        return replay(ctx)
    total = collections.Counter()
    errs = collections.Counter()
    classes = collections.Counter()
    worst = collections.defaultdict(float)
    nruns = 0
    sizes = [2] if quick else [2, 3]
    for n in sizes:
        scens, scalings = tlc_scenarios(ctx, n)
        guard_swap(ctx, n)
        runs = plan(ctx, scens, scalings, quick)
        c, e, obs, cl, wo = execute(ctx, scens, scalings, runs)
        for kk, vv in wo.items():
            worst[kk] = max(worst[kk], vv)
        total.update(c)
        errs.update(e)
        classes.update(cl)
        nruns += len(runs)
        if n == sizes[0]:
            shown = 0
            for q, (i, k, opt, lin) in enumerate(runs):
                s = scens[i]['s']
                if obs[q]['status'] == 'success' and shown < 3 and s['kind'] == 'ineq' and \
                        any(b != s['b'][0] for b in s['b']) and scens[i]['v']['x'] != s['t'] and \
                        (shown == 0 or not _is_identity(scalings[k])) and opt == OPTIMIZERS[shown]:
                    ctx.sample({'scenario': s, 'scaling': scalings[k], 'optimizer': opt, 'linear': lin,
                                'spec': scens[i]['v'], 'observed': obs[q]})
                    shown += 1
            if not ctx.samples:
                ctx.sample({'scenario': scens[0]['s'], 'spec': scens[0]['v']})
    # vacuity: every optimizer must have produced successes to judge
    for opt in OPTIMIZERS:
        if total[(opt, 'success')] == 0:
            raise MachineryError('vacuous: %s never reported success (%s)' % (opt, dict(total)))
    ctx.impl = nruns
    ctx.evaluations = nruns
    ctx.exhaustive = False
    ctx.extra['outcomes'] = {'%s/%s' % k: v for k, v in sorted(total.items())}
    ctx.extra['violation_classes'] = [{'optimizer': k[0], 'clause': k[1], 'finding_predicates': k[2], 'count': v}
                                      for k, v in classes.most_common()]
    ctx.extra['largest_deviation_among_accepted_runs'] = {'%s/%s' % k: v for k, v in sorted(worst.items())}
    print('  largest deviations among accepted runs: %s' % json.dumps(ctx.extra['largest_deviation_among_accepted_runs']))
    for k, v in sorted(total.items()):
        print('  outcome %s/%s: %d' % (k[0], k[1], v))
    for k, v in classes.most_common():
        print('  violations %s | %s | %s: %d' % (k[0], k[1], k[2], v))
    for k, v in errs.most_common(8):
        print('  exception %s: %d' % (' | '.join(k), v))
    ctx.extra['exceptions'] = [{'optimizer': k[0], 'constraint': k[1], 'where': k[2], 'error': k[3], 'count': v}
                               for k, v in errs.most_common(8)]
    ctx.rule = ('TLC enumerates every scenario of Optimizer.tla for N=%s (y = x or bidiagonal unimodular M; constraint on '
                'y[idx] for 3 index lists; per-element bound pattern from {none, lower 0|1, upper 2|3, [0,2], [1,3]} or an '
                'equality in {0,1}; targets {-2,1,5}^N) with its exact optimum, and checks the laws for each of 8 scaling '
                'records.  Executed on ScipyOptimizeDriver: all y = x / full-index scenarios%s plus a seeded sample of the '
                'others, each with the identity scaling and %s further scalings x {SLSQP, COBYLA, trust-constr}, linear flag '
                'alternating, bounds declared scalar when uniform and as arrays (INF_BOUND for absent) otherwise.  Judged only '
                'when success is reported.  non-trivial = successful runs with an active constraint at x* and array bounds, '
                'a non-identity scaling, indices or M' %
                ('2' if quick else '2 and 3', '' if quick else ' (a seeded sample of them for N=3)',
                 '2 rotating' if quick else 'all 7 (N=2) / 3 rotating (N=3)'))
    ctx.assumptions = ['the optimizers are run at tol=1e-10; tolerances of the comparison: ' + json.dumps(TOLS),
                       'objective and constraints are affine/quadratic ExecComps with exact (complex-step) derivatives',
                       'runs whose driver reports failure or raises are counted (coverage.outcomes / exceptions), not judged',
                       'design-variable bounds, units on responses, multiple constraints and MPI are outside the scope']


def replay(ctx):
    with open(ctx.replay) as fh:
        rec = json.load(fh)
    scn = rec['scenario']
    s, sc, opt, lin = scn['s'], scn['sc'], scn['optimizer'], scn['linear']
    scens, scalings = tlc_scenarios(ctx, s['n'])
    match = [e for e in scens if e['s'] == s]
    if not match:
        raise MachineryError('replay scenario is not in the specification scope')
    from ..util import quiet
    quiet()
    cwd = os.getcwd()
    os.chdir(ctx.work)
    try:
        o = run_case(s, sc, opt, lin, match[0]['v'])
    finally:
        os.chdir(cwd)
    ctx.impl = ctx.evaluations = 1
    ctx.sample({'scenario': scn, 'spec': match[0]['v'], 'observed': o})
    ctx.rule = 'replay of one stored scenario'
    if o['status'] == 'success':
        clause, info = judge(s, match[0]['v'], opt, o)
        if clause:
            ctx.violation(scn, {'x_star': [float(fr(a)) for a in match[0]['v']['x']], 'y_bounds': match[0]['v']['yb']}, o,
                          clause, snippet=snippet(s, sc, opt, lin), info=info)
    print('replay outcome: %s' % json.dumps(o))
