"""C22 - constraint violation is measured elementwise and in driver units.

Spec: spec/mech/Violation.tla.  TLC enumerates every scenario (values x per-element bound patterns x scaling x
driver_scaling), checks the laws ZeroIffSatisfied / SignLaw / AgreesWithDriverSpace, and exports the exact expected
violation vector of each scenario; each one is executed against Driver.get_constraint_values(viol=True) and against
Driver._compute_con_viol on a real Problem."""
import collections
import multiprocessing as mp
import os
from fractions import Fraction as F

from ..tlc import MachineryError

NOB = [0, 0]


def fr(x):
    return F(x[0], x[1])


def _decl(vals):
    """scalar when all elements agree (exercises both scalar and array declarations)"""
    import numpy as np
    if all(v == vals[0] for v in vals):
        return float(vals[0])
    return np.array([float(v) for v in vals])


def build(key):
    import numpy as np
    import openmdao.api as om
    n, kind, b, eq, sc = key
    p = om.Problem()
    m = p.model
    m.add_subsystem('ivc', om.IndepVarComp('x', np.zeros(n)))
    m.add_subsystem('c', om.ExecComp('y = 1.0*x', x=np.zeros(n), y=np.zeros(n)))
    m.connect('ivc.x', 'c.x')
    m.add_design_var('ivc.x')
    m.add_subsystem('o', om.ExecComp('f = sum(x)', x=np.zeros(n)))
    m.connect('ivc.x', 'o.x')
    m.add_objective('o.f')
    kw = {}
    if kind == 'eq':
        kw['equals'] = _decl([fr(e) for e in eq])
    else:
        los = [None if x[0] == NOB else fr(x[0]) for x in b]
        ups = [None if x[1] == NOB else fr(x[1]) for x in b]
        if any(v is not None for v in los):
            # an unbounded element inside an array bound is expressed with the documented INF_BOUND sentinel
            from openmdao.core.constants import INF_BOUND
            kw['lower'] = _decl([-INF_BOUND if v is None else v for v in los])
        if any(v is not None for v in ups):
            from openmdao.core.constants import INF_BOUND
            kw['upper'] = _decl([INF_BOUND if v is None else v for v in ups])
    s, a = fr(sc['s']), fr(sc['a'])
    if (s, a) == (F(1, 2), F(-1)):
        kw['ref'] = 3.0
        kw['ref0'] = 1.0
    else:
        if s != 1:
            kw['scaler'] = float(s)
        if a != 0:
            kw['adder'] = float(a)
    m.add_constraint('c.y', **kw)
    p.setup()
    p.final_setup()
    return p


def _worker(items):
    import numpy as np
    from ..util import quiet
    quiet()
    out = []
    for key, scens in items:
        try:
            p = build(key)
        except Exception as e:
            for sc in scens:
                out.append({'err': 'setup: %s: %s' % (type(e).__name__, e)})
            continue
        for s in scens:
            g = np.array([float(fr(x)) for x in s['g']])
            try:
                p.set_val('ivc.x', g)
                p.run_model()
                d = p.driver.get_constraint_values(viol=True, driver_scaling=s['ds'])
                v1 = [float(x) for x in np.atleast_1d(d['c.y'])]
                v2 = [float(x) for x in p.driver._compute_con_viol(g, ['ivc.x'], driver_scaling=s['ds'])] \
                    if not s['ds'] else None
                out.append({'v': v1, 'v2': v2})
            except Exception as e:
                out.append({'err': '%s: %s' % (type(e).__name__, e)})
    return out


def run(ctx):
    quick = ctx.tier == 'quick'
    cfg = ctx.write_cfg('Violation.cfg', '''CONSTANTS
  MaxN = %d
INIT Init
NEXT Next
INVARIANT ZeroIffSatisfied
INVARIANT AgreesWithDriverSpace
INVARIANT SignLaw
INVARIANT Export
''' % (2 if quick else 3))
    r = ctx.tlc_check('mech/Violation', cfg, timeout=3000, heap='12g')
    ctx.require_actions(['Choose'])
    scens = [e for e in r.exports('EXP')]
    if len(scens) != r.distinct - (r.generated - r.distinct if False else 0) and len(scens) == 0:
        raise MachineryError('no scenarios exported')
    groups = collections.OrderedDict()
    for e in scens:
        s = e['s']
        key = (s['n'], s['kind'], tuple(map(lambda x: (tuple(x[0]), tuple(x[1])), s['b'])),
               tuple(map(tuple, s['eq'])), (tuple(s['sc']['s']), tuple(s['sc']['a'])))
        groups.setdefault(key, []).append(e)
    items = []
    for key, es in groups.items():
        s0 = es[0]['s']
        items.append(((s0['n'], s0['kind'], s0['b'], s0['eq'], s0['sc']), [e['s'] for e in es]))
    if not quick:
        # thorough: all n<=2 scenarios plus a seeded rotating sample of the n=3 groups
        import random
        rnd = random.Random(ctx.seed)
        small = [it for it in items if it[0][0] < 3]
        big = [it for it in items if it[0][0] == 3]
        rnd.shuffle(big)
        items = small + big[:1500]
    nproc = min(16, os.cpu_count() or 1)
    chunks = [items[i::nproc * 4] for i in range(nproc * 4)]
    chunks = [c for c in chunks if c]
    with mp.get_context('fork').Pool(nproc) as pool:
        res = pool.map(_worker, chunks)
    exp = {}
    for e in scens:
        exp[ctx_key(e['s'])] = e['v']
    k = 0
    ctx.register_predicates({})
    for ch, rs in zip(chunks, res):
        it = iter(rs)
        for key, ss in ch:
            for s in ss:
                o = next(it)
                k += 1
                want = [fr(x) for x in exp[ctx_key(s)]]
                arr = any(x != s['b'][0] for x in s['b']) or any(x != s['eq'][0] for x in s['eq'])
                if arr or s['ds']:
                    ctx.note_nontrivial(ctx_key(s))
                if 'err' in o:
                    ctx.violation(s, [float(w) for w in want], o['err'], 'get_constraint_values(viol=True) raised')
                    continue
                bad = [i for i in range(s['n']) if abs(o['v'][i] - float(want[i])) > 1e-12 * (1 + abs(float(want[i])))]
                if bad:
                    ctx.violation(s, [float(w) for w in want], o['v'],
                                  'violation elements %s differ from the spec' % bad)
                elif o.get('v2') is not None and any(abs(a - b) > 1e-12 for a, b in zip(o['v2'], o['v'])):
                    ctx.violation(s, [float(w) for w in want], o['v2'], '_compute_con_viol differs from spec')
    ctx.impl = k
    ctx.evaluations = k
    ctx.exhaustive = quick
    for e in scens[::max(1, len(scens) // 3)][:3]:
        ctx.sample({'scenario': e['s'], 'spec_violation': e['v']})
    ctx.rule = ('every scenario of Violation.tla with n<=%d elements (values {-7/2,-2,0,1/2,1,5}^n x per-element bound pattern (incl. negative bounds) '
                '{none, lower, upper, both} / equality, scalar or array declared x 5 scalings incl. negative scaler and '
                'ref/ref0 x driver_scaling) executed on a real Problem; non-trivial = distinct scenarios with array '
                '(element-varying) bounds or driver scaling on' % (2 if quick else 3))
    ctx.assumptions = ['constraints without units= (bounds given in model units)']


def ctx_key(s):
    import json
    return json.dumps(s, sort_keys=True)
