"""C26 - stock math components compute their formulas and exact partials.

Spec: spec/mech/StockComps.tla.  TLC enumerates, per component kind, the option sets (vec_size, length/shape, axis,
scaling factors in {-2,1,3}, units configuration with exact km/m factors, use_mult/mult_val/normalize, vectorize_A, a
second equation sharing inputs, an input name given more than once in an equation, one input used for both operands,
negative stacking axes ...) and seeded small-integer inputs, checks the laws
(exact central difference of the formula = Jacobian column, quotient rule, Mux bijection, skew structure, polarisation,
Pythagorean magnitude, A x = b and the implicit-function relation, hat weights) and exports for every scenario the exact
rational outputs and the dense exact Jacobian d(outputs)/d(source values).

Binding: every exported scenario is built as the real component in a Problem (IndepVarComp sources in the source units ->
component), run, and the outputs and the assembled derivatives (compute_totals of the outputs w.r.t. the sources, fwd and
rev alternating) are compared with the spec at 1e-12.  BalanceComp is observed in residual form (run_apply_nonlinear /
run_linearize and the component's sub-Jacobians); LinearSystemComp through totals (its partials and solve_linear) and its
residual-form sub-Jacobians.  SplineComp: outputs reproduce the degree-1 table for every method; the Jacobian is the
exact hat weights for slinear and, for the other methods, must satisfy the relations J.1 = 1, J.p(x_cp) = p(x_interp)
and block-diagonality over vec rows on the observed numbers."""
import json
import os
from fractions import Fraction as F

from ..tlc import MachineryError
from ..util import pmap

ATOL = 1e-12
SPLINE_TOL = 1e-9
ALL_KINDS = ["addsub", "mux", "dot", "cross", "matvec", "vecmag", "eq", "balance", "linsys", "spline"]


def nproc():
    return max(1, min(int(os.environ.get('VERIF_NPROC', '16')), os.cpu_count() or 1))


def fr(x):
    return F(x[0], x[1])


def _shape(kind, o, i):
    """shape of input i (0-based) as the component declares it"""
    if kind == 'addsub':
        return (o['vec'],) if o['len'] == 1 else (o['vec'], o['len'])
    if kind == 'mux':
        return tuple(o['shp'])
    if kind == 'dot':
        return (o['vec'], o['len'])
    if kind == 'cross':
        return (o['vec'], 3) if o['vec'] > 1 else (3,)
    if kind == 'matvec':
        return (o['vec'], o['nr'], o['nc']) if i == 0 else (o['vec'], o['nc'])
    if kind == 'vecmag':
        return (o['vec'], o['len'])
    if kind in ('eq', 'balance'):
        return tuple(o['shape'])
    if kind == 'linsys':
        if i == 0:
            return (o['vec'], o['size'], o['size']) if o['vecA'] else (o['size'], o['size'])
        return (o['vec'], o['size']) if o['vec'] > 1 else (o['size'],)
    if kind == 'spline':
        return (o['vec'], len(o['g']))
    raise MachineryError('kind %s' % kind)


def _units(s):
    """(component units, [source units per input])"""
    U = {'none': None, 'km': 'km', 'm': 'm'}[s['ucfg']]
    src = []
    for i, f in enumerate(s['f']):
        f = fr(f)
        if s['kind'] in ('eq', 'balance') and i == 2:
            src.append(None)          # the multiplier has no units
        elif U is None or f == 1:
            src.append(U)
        elif f == F(1, 1000) and U == 'km':
            src.append('m')
        elif f == 1000 and U == 'm':
            src.append('km')
        else:
            raise MachineryError('unit factor %s with component units %s' % (f, U))
    return U, src


def build(s, mode):
    """-> (problem, component, [component input names], [output names])"""
    import numpy as np
    import openmdao.api as om
    kind, o = s['kind'], s['o']
    U, src = _units(s)
    if kind == 'addsub':
        names = ['a%d' % (i + 1) for i in range(o['nin'])]       # the distinct inputs
        terms = ['a%d' % i for i in o['map']]                    # the names as given (a name may be repeated)
        c = om.AddSubtractComp()
        c.add_equation('y', input_names=terms, vec_size=o['vec'], length=o['len'],
                       scaling_factors=[float(v) for v in o['sf']], units=U)
        outs = ['y']
        if o['two']:
            # a second equation sharing the inputs: the names are given in reverse order with the same factor list
            c.add_equation('y2', input_names=terms[::-1], vec_size=o['vec'], length=o['len'],
                           scaling_factors=[float(v) for v in o['sf']], units=U)
            outs.append('y2')
    elif kind == 'mux':
        c = om.MuxComp(vec_size=o['n'])
        c.add_var('y', shape=tuple(o['shp']), axis=o['axis'], units=U)
        names = ['y_%d' % i for i in range(o['n'])]
        outs = ['y']
    elif kind == 'dot':
        cu = None if U is None else 'm**2'
        if o['same']:
            c = om.DotProductComp(vec_size=o['vec'], length=o['len'], a_name='a', b_name='a', c_name='c',
                                  a_units=U, b_units=U, c_units=cu)
            names = ['a']
        else:
            c = om.DotProductComp(vec_size=o['vec'], length=o['len'], a_units=U, b_units=U, c_units=cu)
            names = ['a', 'b']
        outs = ['c']
    elif kind == 'cross':
        cu = None if U is None else 'm**2'
        if o['same']:
            c = om.CrossProductComp(vec_size=o['vec'], a_name='a', b_name='a', c_name='c', a_units=U, b_units=U, c_units=cu)
            names = ['a']
        else:
            c = om.CrossProductComp(vec_size=o['vec'], a_units=U, b_units=U, c_units=cu)
            names = ['a', 'b']
        outs = ['c']
    elif kind == 'matvec':
        c = om.MatrixVectorProductComp(vec_size=o['vec'], A_shape=(o['nr'], o['nc']), A_units=U, x_units=U)
        names = ['A', 'x']
        outs = ['b']
    elif kind == 'vecmag':
        c = om.VectorMagnitudeComp(vec_size=o['vec'], length=o['len'], in_name='a', mag_name='a_mag', units=U)
        names = ['a']
        outs = ['a_mag']
    elif kind == 'eq':
        c = om.EQConstraintComp('y', eq_units=U, use_mult=o['use_mult'], mult_val=float(o['mult_val']),
                                normalize=o['normalize'], shape=tuple(o['shape']))
        names = ['lhs:y', 'rhs:y'] + (['mult:y'] if o['multsrc'] == 'ivc' else [])
        outs = ['y']
    elif kind == 'balance':
        kw = dict(use_mult=o['use_mult'], mult_val=float(o['mult_val']), normalize=o['normalize'],
                  shape=tuple(o['shape']))
        if o['uroute'] == 'kwargs':
            kw['lhs_kwargs'] = {'units': U}
            kw['rhs_kwargs'] = {'units': U}
        else:
            kw['eq_units'] = U
        if o['route'] == 'init':
            c = om.BalanceComp('y', **kw)
        else:
            c = om.BalanceComp()
            c.add_balance('y', **kw)
        names = ['lhs:y', 'rhs:y'] + (['mult:y'] if o['multsrc'] == 'ivc' else [])
        outs = ['y']
    elif kind == 'linsys':
        c = om.LinearSystemComp(size=o['size'], vec_size=o['vec'], vectorize_A=o['vecA'])
        names = ['A', 'b']
        outs = ['x']
    elif kind == 'spline':
        c = om.SplineComp(method=o['method'], x_cp_val=[float(v) for v in o['g']],
                          x_interp_val=np.array([v / float(o['rr']) for v in o['xi']]), vec_size=o['vec'])
        c.add_spline(y_cp_name='ycp', y_interp_name='y', y_units=U)
        names = ['ycp']
        outs = ['y']
    else:
        raise MachineryError('kind %s' % kind)
    p = om.Problem()
    ivc = p.model.add_subsystem('ivc', om.IndepVarComp())
    for i, nm in enumerate(names):
        ivc.add_output('x%d' % i, val=np.zeros(_shape(kind, o, i)), units=src[i])
    p.model.add_subsystem('c', c)
    for i, nm in enumerate(names):
        p.model.connect('ivc.x%d' % i, 'c.' + nm)
    p.setup(mode=mode)
    for i, nm in enumerate(names):
        p.set_val('ivc.x%d' % i, np.array(s['x'][i], dtype=float).reshape(_shape(kind, o, i)))
    return p, c, names, outs


def _subjac_dense(comp, of, wrt):
    import numpy as np
    jac = comp._jacobian
    key = (comp.pathname + '.' + of, comp.pathname + '.' + wrt)
    sj = jac._get_subjacs(comp)[key] if hasattr(jac, '_get_subjacs') else jac._subjacs[key]
    return np.atleast_2d(np.asarray(sj.todense(), dtype=float))


def observe(s, idx):
    import numpy as np
    mode = 'fwd' if idx % 2 == 0 else 'rev'
    p, c, names, outs = build(s, mode)
    kind = s['kind']
    res = {'mode': mode}
    if kind == 'balance':
        p.run_model()
        p.model.run_apply_nonlinear()
        d = dict(p.model.list_outputs(residuals=True, val=False, out_stream=None, return_format='dict'))
        res['y'] = np.asarray(d['c.y']['resids'], dtype=float).ravel().tolist()
        p.model.run_linearize()
        # the sub-Jacobians are w.r.t. the component's own inputs; the spec's J is w.r.t. the source values: the
        # chain rule through the (exact, scenario-given) unit factor of every input is applied here
        res['J'] = np.hstack([_subjac_dense(c, 'y', nm) * float(fr(s['f'][i]))
                              for i, nm in enumerate(names)]).tolist()
        return res
    p.run_model()
    res['y'] = np.concatenate([np.asarray(p.get_val('c.' + o_), dtype=float).ravel() for o_ in outs]).tolist()
    if kind == 'mux':
        res['sh'] = [int(d) for d in np.shape(p.get_val('c.y'))]
    of = ['c.' + o_ for o_ in outs]
    wrt = ['ivc.x%d' % i for i in range(len(names))]
    tot = p.compute_totals(of=of, wrt=wrt)
    res['J'] = np.vstack([np.hstack([np.atleast_2d(tot[(a, b)]) for b in wrt]) for a in of]).tolist()
    if kind == 'linsys':
        p.model.run_linearize()
        res['P'] = np.hstack([_subjac_dense(c, 'x', nm) for nm in ('A', 'b', 'x')]).tolist()
    return res


def _worker(items):
    from ..util import quiet
    quiet()
    out = []
    for idx, s in items:
        try:
            out.append(observe(s, idx))
        except Exception as e:      # the component rejected / crashed on a configuration the spec gives a meaning to
            out.append({'err': '%s: %s' % (type(e).__name__, str(e)[:300])})
    return out


def _cmp(exp, obs, tol):
    """exp: nested lists of [n, d]; obs: nested floats -> list of (index, expected, observed) that differ"""
    bad = []
    if len(exp) != len(obs):
        return [('shape', len(exp), len(obs))]
    for r, (e, o_) in enumerate(zip(exp, obs)):
        if isinstance(e[0], list):
            if len(e) != len(o_):
                return [('shape', len(e), len(o_))]
            for c_, (ee, oo) in enumerate(zip(e, o_)):
                w = float(fr(ee))
                if not abs(oo - w) <= tol * (1.0 + abs(w)):
                    bad.append(((r, c_), w, oo))
        else:
            w = float(fr(e))
            if not abs(o_ - w) <= tol * (1.0 + abs(w)):
                bad.append((r, w, o_))
    return bad


def _spline_relations(s, J):
    """observed Jacobian of a non-slinear method: J.1 = f, J.p(x_cp) = f p(x_interp) per row, zero across vec rows"""
    o = s['o']
    f = float(fr(s['f'][0]))
    ncp, ni = len(o['g']), len(o['xi'])
    bad = []
    akima = o['method'] == 'akima'     # at collinear data Akima's weights |m[i+1]-m[i]| sit at their kink: no derivative
    for v in range(o['vec']):
        c0, c1 = o['c'][v]
        for t in range(ni):
            row = J[v * ni + t]
            blk = row[v * ncp:(v + 1) * ncp]
            off = [row[k] for k in range(len(row)) if not (v * ncp <= k < (v + 1) * ncp)]
            if any(abs(z) > SPLINE_TOL for z in off):
                bad.append(('offblock', v, t))
            if akima:
                continue
            if abs(sum(blk) - f) > SPLINE_TOL:
                bad.append(('unity', v, t, sum(blk)))
            xt = o['xi'][t] / float(o['rr'])
            if abs(sum(b * g for b, g in zip(blk, o['g'])) - f * xt) > SPLINE_TOL * (1 + abs(xt)):
                bad.append(('linear', v, t))
            # methods that are linear in the table: J does not depend on it, so J.p(x_cp) is the output itself
            want = f * (c0 + c1 * xt)
            got = sum(b * (c0 + c1 * g) for b, g in zip(blk, o['g']))
            if abs(got - want) > SPLINE_TOL * (1 + abs(want)):
                bad.append(('reproduce', v, t, got, want))
    return bad


def nontrivial(s):
    o = s['o']
    k = s['kind']
    if s['ucfg'] != 'none':
        return True
    if k == 'addsub':
        return o['vec'] > 1 or o['two'] or any(v != 1 for v in o['sf']) or len(set(o['map'])) < len(o['map'])
    if k == 'mux':
        return o['n'] > 1
    if k in ('eq', 'balance'):
        return o['normalize'] or o['use_mult']
    if k == 'spline':
        return True
    return o.get('vec', 1) > 1 or o.get('same', False)


# --- genuine defects recognised on the unchanged tree (see proposed_fixes/C26.diff) --------------------------------
def pred_balance_nd(s, info):
    return s['kind'] == 'balance' and len(s['o']['shape']) > 1 and s['o']['normalize'] and \
        'partials' in info.get('clause', '')


def pred_same_operand(s, info):
    return s['kind'] in ('dot', 'cross') and s['o'].get('same') and 'partials' in info.get('clause', '')


def pred_balance_init_kwargs(s, info):
    return s['kind'] == 'balance' and s['o']['route'] == 'init' and s['o']['uroute'] == 'kwargs'


def pred_addsub_repeated(s, info):
    """an input name given more than once in an equation: the partial declared last replaces the others"""
    return s['kind'] == 'addsub' and len(set(s['o']['map'])) < len(s['o']['map']) and 'partials' in info.get('clause', '')


def pred_mux_negative_axis(s, info):
    """negative axis: the output is declared with list.insert's position, not np.stack's"""
    return s['kind'] == 'mux' and s['o']['axis'] < 0 and 'partials' not in info.get('clause', '')


def run(ctx):
    quick = ctx.tier == 'quick'
    kinds = os.environ.get('VERIF_C26_KINDS')
    kinds = kinds.split(',') if kinds else ALL_KINDS
    cfg = ctx.write_cfg('StockComps.cfg', '''CONSTANTS
  Kinds = {%s}
  MaxVec = 3
  NSeeds = %d
  Full = %s
INIT Init
NEXT Next
INVARIANT CentralDiffLaw
INVARIANT QuotientLaw
INVARIANT MuxLaw
INVARIANT AddSubLaw
INVARIANT CrossLaw
INVARIANT PolarLaw
INVARIANT MagLaw
INVARIANT LinSysLaw
INVARIANT SplineLaw
INVARIANT Export
''' % (', '.join('"%s"' % k for k in kinds), 2 if quick else 4, 'FALSE' if quick else 'TRUE'))
    r = ctx.tlc_check('mech/StockComps', cfg, timeout=3000, heap='10g', workers=nproc())
    ctx.require_actions(['Choose'])
    exps = r.exports('EXP')
    if not exps:
        raise MachineryError('no scenarios exported')
    seen = set(e['s']['kind'] for e in exps)
    if seen != set(kinds):
        raise MachineryError('kinds without scenario: %s' % sorted(set(kinds) - seen))
    ctx.register_predicates({'C26-balance-nd-normalize': pred_balance_nd,
                             'C26-same-operand': pred_same_operand,
                             'C26-balance-init-kwargs': pred_balance_init_kwargs,
                             'C26-addsub-repeated-input': pred_addsub_repeated,
                             'C26-mux-negative-axis': pred_mux_negative_axis})
    items = [(i, e['s']) for i, e in enumerate(exps)]
    n = nproc()
    chunks = [items[i::n * 4] for i in range(n * 4)]
    chunks = [c for c in chunks if c]
    res = pmap(_worker, chunks, nproc=n)
    obs = {}
    for ch, rs in zip(chunks, res):
        for (i, _s), o_ in zip(ch, rs):
            obs[i] = o_
    per_kind = {}
    for i, e in enumerate(exps):
        s, v, o_ = e['s'], e['v'], obs[i]
        kind = s['kind']
        per_kind[kind] = per_kind.get(kind, 0) + 1
        if nontrivial(s):
            ctx.note_nontrivial(json.dumps([kind, s['o'], s['ucfg'], s['sd']], sort_keys=True))
        exp_short = {'y': [float(fr(a)) for a in v['y']]}
        if 'err' in o_:
            ctx.violation(s, exp_short, o_['err'], 'component raised on a configuration the specification gives a meaning to')
            continue
        tol = SPLINE_TOL if (kind == 'spline' and s['o']['method'] != 'slinear') else ATOL
        bad = _cmp(v['y'], o_['y'], tol)
        if bad:
            ctx.violation(s, exp_short, o_['y'], '%s: outputs differ from the formula at %s' % (kind, bad[:3]))
            continue
        if 'sh' in v and list(v['sh']) != list(o_['sh']):
            ctx.violation(s, {'shape': v['sh']}, {'shape': o_['sh']}, '%s: shape of the output' % kind)
            continue
        if kind == 'spline' and s['o']['method'] != 'slinear':
            badj = _spline_relations(s, o_['J'])
            clause = 'spline(%s): partials violate the reproduction relations (%s mode): %s' % (
                s['o']['method'], o_['mode'], badj[:3])
        else:
            badj = _cmp(v['J'], o_['J'], ATOL)
            clause = '%s: partials differ from the exact derivative (%s mode) at %s' % (kind, o_['mode'], badj[:3])
        if badj:
            ctx.violation(s, {'J': [[float(fr(a)) for a in row] for row in v['J']]}, o_['J'],
                          clause)
            continue
        if 'P' in v:
            badp = _cmp(v['P'], o_['P'], ATOL)
            if badp:
                ctx.violation(s, {'P': [[float(fr(a)) for a in row] for row in v['P']]}, o_['P'],
                              '%s: residual-form partials differ at %s' % (kind, badp[:3]))
    ctx.impl = len(exps)
    ctx.evaluations = len(exps)
    ctx.exhaustive = True
    ctx.extra['scenarios_per_kind'] = per_kind
    for k in ('matvec', 'eq', 'linsys'):
        for e in exps:
            if e['s']['kind'] == k and e['s']['o'].get('vec', 2) == 2 and e['s']['ucfg'] != 'km':
                ctx.sample({'scenario': e['s'], 'spec': e['v']})
                break
    if not ctx.samples:
        ctx.sample({'scenario': exps[0]['s'], 'spec': exps[0]['v']})
    ctx.rule = ('every scenario exported by StockComps.tla: per component kind %s the option sets (vec_size 1-3, '
                'length/shape, axis, scaling factors {-2,1,3}^(2..3), units none / km / m with exact factors 1/1000 and '
                '1000 on alternating inputs, use_mult x mult source x mult_val, normalize, constructor vs add_* route, '
                'vectorize_A, second equation sharing inputs, an input name repeated within an equation, MuxComp axes -3..2 with '
                'the shape of the output, one input as both operands) x %d seeded integer input sets; '
                'each built as the real component in a Problem and compared (outputs, totals fwd/rev alternating, '
                'residual-form sub-Jacobians for BalanceComp/LinearSystemComp) with the exact rationals at 1e-12; '
                'non-trivial = scenario with units, vec_size>1, non-unit scaling, normalisation/multiplier or spline'
                % (sorted(per_kind), 2 if quick else 4))
    ctx.assumptions = [
        'inputs are small integers (Pythagorean rows for VectorMagnitudeComp, integer matrices with det in {1,-1,2,-2} '
        'for LinearSystemComp): conditioning and round-off of large or irrational data are not examined',
        'units are exercised with the exact pair km/m only, on the input side (source in the other unit)',
        'SplineComp: tables of per-row degree <= 1, interior and first-node query points; the Jacobian is compared '
        'entry-wise only for slinear, for lagrange2/lagrange3/cubic as the relations J.1=1, J.p(x_cp)=p(x_interp), '
        'block-diagonal over vec rows; for akima (not differentiable at collinear data) only block-diagonality; bsplines '
        'is not covered',
        'BalanceComp is checked in residual form (no solver); EQConstraintComp add_constraint and driver scaling '
        'options are not part of the formula and are not exercised',
    ]
