"""C17 - recorded cases are faithful, filtered and ordered.

Spec: spec/mech/Recorder.tla (the run as a tree of recording frames, the file as `log`, the reader's algorithms
transcribed from sqlite_reader.py on real coordinate strings, and what the property states: execution order and
descendants by frame nesting; the variable selection logic of driver / problem / system / solver recorders),
RecorderMC.tla (exhaustive bounded run trees), RecorderJudge.tla (validation of observed recordings).

(a) TLC checks on every bounded run tree (2 driver iterations or run_model calls x 1..3 root solver iterations x a
    sub-group with its own solver x a component, _run_apply / _compute_totals frames, iteration numberings that pass
    through 1|10..12|100.. and 9->10, attachment subsets): counter = index into global_iterations, unique coordinates,
    nothing recorded under a no-record frame, list_cases() = execution order, the flat recursive listing of every case =
    exactly the cases recorded while its frame was open, list_sources, per-source listings.  The deliberately broken
    window (off by one) must be REFUTED, and so must the places where the transcribed (pinned) reader is not what the
    property states (nested listing across an unrecorded level; list_cases(<coordinate>, recurse=False); a sub-group
    whose name merely starts with "root" - list_sources / list_cases(<source>); get_case(<int>) with an index that falls
    on a problem case).  With the repairs of the last two (constant Fix) the theorems are proved again, also for the
    run trees whose sub-group is called "rootsub".
(b) V: generated models (feed-forward and coupled, NLBGS / Newton / ...), drivers (run_model sequences, DOEDriver,
    ScipyOptimizeDriver SLSQP), SqliteRecorders attached to random subsets of {problem, driver, systems, nonlinear
    solvers} with random recording_options.  Class-level wrappers log every push / pop / record (requester, coordinate,
    counter) and take an INDEPENDENT live snapshot of every model variable (physical values, from the root vectors) at
    each record.  Afterwards every reader query is logged: list_sources, list_source_vars, list_cases for every source
    and every case x recurse x flat (also under the 'root.<path>' name of every attached system / solver), get_case for
    every case with the names in .inputs/.outputs/.residuals, get_case(<int>) for the indices in and just outside the
    range (both signs).  Some systems get names that merely start with 'root' (rootg1, root_c3, roots).
    TLC replays the event stream through Recorder.tla's actions (one event per step), and judges order, descendants,
    sources and the selected variable sets (fnmatch table from Python's own fnmatch, logic in TLA+).
    Values are compared here: recorded == snapshot, exactly.

Stand-alone reproduction of one scenario (no TLC):  PYTHONPATH=/verif/harness /venv/bin/python -m vf.drivers.c17 <seed> [kind]
"""
import contextlib
import copy
import fnmatch
import io
import json
import os
import random
import sys
import traceback

import numpy as np

from .. import ombuild as ob
from ..sysdriver import gen_model
from ..tlc import MachineryError
from ..util import pmap, quiet, split

PAR = int(os.environ.get('VERIF_C17_PAR', '16'))
TLC_WORKERS = int(os.environ.get('VERIF_C17_TLC_WORKERS', '16'))

OPTS = {'storage': ['dense', 'rowscols', 'csc'], 'cyc_frac': .55, 'voi_scaling': True, 'voi_indices': True,
        'implicit': .2, 'shared': False}
KINDS = ['model', 'model', 'doe', 'doe', 'slsqp', 'model12', 'doe12']


# ------------------------------------------------------------------------------------------------------------
# observation wrappers (class level, installed once per process)
# ------------------------------------------------------------------------------------------------------------
class Obs:
    installed = False
    active = None          # the Observation of the scenario being run


class Observation:
    def __init__(self, prob, md):
        self.prob = prob
        self.md = md
        self.events = []       # raw: push / rec / pop / run
        self.snaps = []        # live snapshots, one per record event
        self.labels = {}       # id(requester) -> label
        self.files = {}        # id(recorder) -> file label
        self.pending = None
        self.cur_snap = None
        self.scaled = 0        # depth of System.run_solve_nonlinear on the root (vectors in scaled state)

    def label(self, obj):
        return self.labels.get(id(obj), '?%s' % type(obj).__name__)

    def register(self):
        p = self.prob
        self.labels[id(p)] = 'problem'
        self.labels[id(p.driver)] = 'driver'
        for s in p.model.system_iter(include_self=True, recurse=True):
            self.labels[id(s)] = 'sys:' + s.pathname
            nl = s._nonlinear_solver
            if nl is not None:
                self.labels[id(nl)] = 'nl:' + s.pathname
                if getattr(nl, 'linesearch', None) is not None:
                    self.labels[id(nl.linesearch)] = 'ls:' + s.pathname


def _vec_values(vec, raw):
    """{abs name: flat list} from a copy `raw` of the vector's array, using the vector's own slices"""
    out = {}
    for name in vec._abs_iter():
        view = vec._abs_get_val(name, True)
        # locate the view inside the root array by memory offset
        base = vec.asarray()
        off = (view.__array_interface__['data'][0] - base.__array_interface__['data'][0]) // base.itemsize
        out[name] = [float(x) for x in raw[off:off + view.size]]
    return out


def install():
    if Obs.installed:
        return
    Obs.installed = True
    from openmdao.recorders.recording_iteration_stack import _RecIteration, Recording
    from openmdao.recorders.case_recorder import CaseRecorder
    from openmdao.core.system import System
    from openmdao.core.problem import Problem

    o_push, o_pop = _RecIteration.push, _RecIteration.pop
    o_enter = Recording.__enter__
    o_rec = CaseRecorder.record_iteration
    o_rsn = System.run_solve_nonlinear

    def push(self, iter_coord):
        ob_ = Obs.active
        if ob_ is not None and self is ob_.prob._metadata['recording_iter']:
            ob_.events.append({'e': 'push', 'name': str(iter_coord[0]), 'it': int(iter_coord[1]), 'req': ob_.pending or ''})
            ob_.pending = None
        return o_push(self, iter_coord)

    def pop(self):
        ob_ = Obs.active
        if ob_ is not None and self is ob_.prob._metadata['recording_iter']:
            ob_.events.append({'e': 'pop'})
        return o_pop(self)

    def enter(self):
        ob_ = Obs.active
        if ob_ is not None:
            ob_.pending = ob_.label(self.recording_requester())
        return o_enter(self)

    def take_snapshot(ob_):
        """physical values of every input, output and residual of the model, read from copies of the root vectors.
        Taken on entry to the REQUESTER's record_iteration: there the scaling state is known (scaled inside
        run_solve_nonlinear of the model, physical outside), whatever the recording code does afterwards."""
        m = ob_.prob.model
        snap = {}
        in_scaled = ob_.scaled > 0
        for kind, vec, has in (('inp', m._inputs, False), ('out', m._outputs, m._has_output_scaling),
                               ('res', m._residuals, m._has_resid_scaling)):
            raw = vec.asarray(copy=True)
            if in_scaled and has and vec._scaling is not None:
                scaler, adder = vec._scaling
                raw = raw * scaler
                if adder is not None:
                    raw = raw + adder
            snap[kind] = _vec_values(vec, raw)
        snap['scaled_state'] = bool(in_scaled and (m._has_output_scaling or m._has_resid_scaling))
        return snap

    def requester_wrapper(orig):
        def wrapped(self, *args, **kwargs):
            ob_ = Obs.active
            if ob_ is None or id(self) not in ob_.labels or not self._rec_mgr._recorders:
                return orig(self, *args, **kwargs)
            old = ob_.cur_snap
            ob_.cur_snap = take_snapshot(ob_)
            try:
                return orig(self, *args, **kwargs)
            finally:
                ob_.cur_snap = old
        return wrapped

    def record_iteration(self, recording_requester, data, metadata, **kwargs):
        ob_ = Obs.active
        if ob_ is None or id(self) not in ob_.files:
            return o_rec(self, recording_requester, data, metadata, **kwargs)
        snap = ob_.cur_snap
        if snap is None:
            raise RuntimeError('C17 harness: record_iteration reached a recorder outside the wrapped requester methods')
        req = ob_.label(recording_requester)
        if isinstance(recording_requester, Problem):
            coord = metadata['name']
        else:
            coord = recording_requester._recording_iter.get_formatted_iteration_coordinate()
        r = o_rec(self, recording_requester, data, metadata, **kwargs)
        ob_.snaps.append(snap)
        ob_.events.append({'e': 'rec', 'file': ob_.files[id(self)], 'req': req, 'coord': coord,
                           'counter': int(self._counter), 'snap': len(ob_.snaps) - 1})
        return r

    def run_solve_nonlinear(self):
        ob_ = Obs.active
        mine = ob_ is not None and self is ob_.prob.model
        if mine:
            ob_.scaled += 1
        try:
            return o_rsn(self)
        finally:
            if mine:
                ob_.scaled -= 1

    _RecIteration.push, _RecIteration.pop = push, pop
    Recording.__enter__ = enter
    CaseRecorder.record_iteration = record_iteration
    System.run_solve_nonlinear = run_solve_nonlinear
    from openmdao.core.driver import Driver
    from openmdao.solvers.solver import Solver
    System.record_iteration = requester_wrapper(System.record_iteration)
    Solver.record_iteration = requester_wrapper(Solver.record_iteration)
    Driver.record_iteration = requester_wrapper(Driver.record_iteration)
    Problem.record = requester_wrapper(Problem.record)


# ------------------------------------------------------------------------------------------------------------
# scenarios
# ------------------------------------------------------------------------------------------------------------
PATTERNS = ['*', '*', 'x*', '*y0', '*y1', '*.y*', 'c?.*', 'g1.*', '*.c2.*', '*a0', '*a1', 'ivc.*', '*c1*', '*[13].y0',
            'p*', '*.p*', 'c1.y0', 'nomatch*']


def group_paths(md):
    return list(md['groups'])


def comp_paths(md):
    return [ob.comp_path(c) for c in md['comps']]


def rand_options(rng, req, md):
    """random recording_options for a requester label"""
    names = [ob.out_path(md, o['id']) for o in md['outs']] + [ob.in_path(md, i['id']) for i in md['ins']]
    if req.startswith('nl:') and req[3:]:
        # the patterns of a solver recorder are relative to the solver's group
        path = req[3:]
        names = [n[len(path) + 1:] for n in names if n.startswith(path + '.')] or names

    def pats(n, allow_star=True):
        out = []
        for _ in range(n):
            c = rng.random()
            if c < .55:
                out.append(rng.choice(PATTERNS))
            elif c < .8:
                nm = rng.choice(names)
                out.append(nm)
            else:
                nm = rng.choice(names)
                parts = nm.split('.')
                out.append('*' + parts[-1] if rng.random() < .5 else '.'.join(parts[:-1]) + '.*')
        return out
    o = {}
    r = rng.random()
    if req in ('driver', 'problem'):
        o['includes'] = [] if r < .25 else (['*'] if r < .5 else pats(rng.randrange(1, 3)))
    else:
        o['includes'] = ['*'] if r < .5 else pats(rng.randrange(1, 3))
    o['excludes'] = [] if rng.random() < .5 else pats(rng.randrange(1, 3))
    flags = {'driver': ['record_desvars', 'record_responses', 'record_objectives', 'record_constraints', 'record_inputs',
                        'record_outputs', 'record_residuals'],
             'problem': ['record_desvars', 'record_responses', 'record_objectives', 'record_constraints', 'record_inputs',
                         'record_outputs', 'record_residuals'],
             'sys': ['record_inputs', 'record_outputs', 'record_residuals'],
             'nl': ['record_inputs', 'record_outputs', 'record_solver_residuals']}[req.split(':')[0]]
    for f in flags:
        if f == 'record_outputs':
            o[f] = rng.random() < .85
        else:
            o[f] = rng.random() < .6
    return o


def rename_rootlike(md, rng):
    """Give some systems a name that merely STARTS with 'root' (the reader marks the model root with the name 'root').
    Names are only labels in the model description: every path is derived from comp['group'] / comp['name'], the list of
    groups and the solver table (keyed by group path).  Returns the new names."""
    done = []
    r = rng.random()
    if r < .45:
        cand = [c for c in md['comps'] if c['kind'] != 'ivc']
        if cand:
            c = rng.choice(cand)
            c['name'] = rng.choice(['root', 'rooted_', 'root_']) + c['name'] if rng.random() < .8 else 'roots'
            done.append(ob.comp_path(c))
    if .3 < r < .6:
        tops = sorted(g for g in md['groups'] if g and '.' not in g)
        if tops:
            old = rng.choice(tops)
            new = 'root' + old

            def ren(path):
                return new + path[len(old):] if (path == old or path.startswith(old + '.')) else path
            md['groups'] = [ren(g) for g in md['groups']]
            md['solvers'] = {ren(g): v for g, v in md['solvers'].items()}
            for c in md['comps']:
                c['group'] = ren(c['group'])
            done.append(new)
    return done


def plan(seed, kind=None, quick=True):
    """deterministic scenario for a seed, or None"""
    rng0 = random.Random(seed * 7919 + 13)
    kind = kind or rng0.choice(KINDS)
    scaling = rng0.random() < .25
    opts = dict(OPTS, scaling=scaling)
    if kind in ('doe', 'slsqp', 'doe12'):
        # (DOE values for design variables with multi-dimensional indices and responses with repeated indices under an
        #  optimizer fail inside the drivers / total-Jacobian code: subjects of other properties)
        opts['voi_indices'] = False
    md, ref, rng = gen_model(seed, opts)
    if md is None:
        return None
    if not md['desvars']:
        return None
    md = copy.deepcopy(md)
    rootnames = rename_rootlike(md, random.Random(seed * 31 + 5))
    # keep iterative solvers short: the subject is recording, not convergence (12 iterations: numbers pass 9 -> 10)
    for gp, sv in md['solvers'].items():
        if sv.get('nl'):
            sv['nl']['opts'] = dict(sv['nl']['opts'], err_on_non_converge=False,
                                    maxiter=rng.choice([3, 12]) if kind == 'model' else rng.choice([2, 3]))
            if sv['nl']['name'] == 'newton' and rng.random() < .4:
                sv['nl']['opts']['solve_subsystems'] = True
    sc = {'seed': seed, 'kind': kind, 'scaling': scaling, 'md': md, 'rootnames': rootnames}
    # an objective (scalar: entry 0 of a 1-d output) - always for the optimizer, sometimes otherwise
    def make_objective():
        cand = [o for o in md['outs'] if md['comps'][o['comp']]['kind'] != 'ivc' and len(o['shape']) == 1]
        if not cand:
            return False
        o = rng.choice(cand)
        md['responses'] = [r for r in md['responses'] if r['oid'] != o['id']]
        md['responses'].insert(0, {'name': None, 'oid': o['id'], 'indices_term': None, 'flat_indices': False, 'type': 'obj',
                                   'index': 0, 'scaler': None, 'adder': None, 'ref': None, 'ref0': None})
        return True
    if kind == 'slsqp':
        if not make_objective():
            return None
        for dv in md['desvars']:
            dv['lower'], dv['upper'] = -4, 4
            dv['scaler'] = dv['adder'] = dv['ref'] = dv['ref0'] = None      # (negative scalers with bounds: C21's subject)
    elif rng.random() < .5:
        make_objective()
    # requesters available
    groups = group_paths(md)
    comps = comp_paths(md)
    reqs = ['problem', 'driver'] + ['sys:' + g for g in groups] + ['sys:' + c for c in comps] + ['nl:' + g for g in groups]
    # attachment: file 'a' gets a random subset; sometimes a second file 'b'
    rq = rng.random()
    must = ['sys:', 'driver'] if rq < .3 else (['nl:'] if rq < .5 else [])
    pool = [r for r in reqs if r not in must]
    k = rng.randrange(1, min(6, len(pool)) + 1)
    att_a = sorted(set(must + rng.sample(pool, k)))
    if random.Random(seed * 31 + 6).random() < .3:
        att_a = sorted(set(att_a + ['problem']))       # problem cases between the others: get_case(<int>), order
    files = {'a': att_a}
    if rng.random() < .3:
        files['b'] = sorted(rng.sample(reqs, rng.randrange(1, 3)))
    sc['files'] = files
    sc['options'] = {r: rand_options(rng, r, md) for r in sorted(set(x for v in files.values() for x in v))}
    # the runs
    ivc_outs = md['comps'][0]['outs']

    def setvals():
        return [[oid, [rng.randrange(-3, 4) for _ in range(int(np.prod(md['outs'][oid]['shape'])))]] for oid in ivc_outs
                if rng.random() < .7]
    runs = []
    if kind in ('model', 'model12'):
        n = 12 if kind == 'model12' else rng.randrange(1, 4)
        usepfx = rng.random() < .4 and kind == 'model'
        for k in range(n):
            runs.append({'k': 'run_model', 'prefix': ('r%d' % k) if usepfx else None, 'reset': bool(usepfx), 'set': setvals(),
                         'record': ('after%d' % k) if rng.random() < .6 else None})
    else:
        npts = 12 if kind == 'doe12' else rng.randrange(2, 4)
        nrun = 1 if kind != 'doe' else rng.randrange(1, 3)
        for k in range(nrun):
            run = {'k': 'run_driver', 'prefix': ('d%d' % k) if nrun > 1 else None, 'reset': True, 'set': setvals(),
                   'record': ('final%d' % k) if rng.random() < .7 else None}
            if kind in ('doe', 'doe12'):
                pts = []
                for _ in range(npts):
                    pt = []
                    for dv in md['desvars']:
                        from ..sysobs import voi_positions
                        n = len(voi_positions(md, dv))
                        pt.append([ob.out_path(md, dv['oid']), [rng.randrange(-3, 4) for _ in range(n)]])
                    pts.append(pt)
                run['points'] = pts
            runs.append(run)
        if rng.random() < .4:
            runs.append({'k': 'run_model', 'prefix': 'm', 'reset': False, 'set': setvals(), 'record': 'afterm'})
    sc['runs'] = runs
    return sc


def build_problem(sc, work):
    """the real Problem of a scenario with recorders attached; returns (problem, {file label: (recorder, path)})"""
    import openmdao.api as om
    md = sc['md']
    p = ob.build(md, {'mode': 'auto'}, setup=False)
    kind = sc['kind']
    if kind in ('doe', 'doe12'):
        p.driver = om.DOEDriver(om.ListGenerator([[(n, np.array(v, dtype=float)) for n, v in pt] for pt in sc['runs'][0]['points']]))
    elif kind == 'slsqp':
        p.driver = om.ScipyOptimizeDriver(optimizer='SLSQP', maxiter=4, disp=False)
    recs = {}
    for lab, att in sc['files'].items():
        path = os.path.join(work, 'c17_%d_%s_%d.sql' % (sc['seed'], lab, os.getpid()))
        rec = om.SqliteRecorder(path, record_viewer_data=False)
        recs[lab] = (rec, path)
        for r in att:
            obj = requester_obj(p, r)
            obj.add_recorder(rec)
    for r, o in sc['options'].items():
        obj = requester_obj(p, r)
        for k, v in o.items():
            obj.recording_options[k] = v
    p.setup()
    return p, recs


def requester_obj(p, r):
    if r == 'problem':
        return p
    if r == 'driver':
        return p.driver
    kind, path = r.split(':', 1)
    s = p.model
    if path:
        for part in path.split('.'):
            s = getattr(s, part)
    return s if kind == 'sys' else s.nonlinear_solver


def execute(sc, work):
    """run the scenario on the real code; returns the observation record (JSON-able)"""
    import openmdao.api as om
    from openmdao.core.analysis_error import AnalysisError
    install()
    md = sc['md']
    p, recs = build_problem(sc, work)
    obs = Observation(p, md)
    for lab, (rec, path) in recs.items():
        obs.files[id(rec)] = lab
    Obs.active = obs
    status = 'ok'
    try:
        p.final_setup()
        obs.register()
        for k, run in enumerate(sc['runs']):
            for oid, vals in run['set']:
                p.set_val(ob.out_path(md, oid), np.array(vals, dtype=float).reshape(md['outs'][oid]['shape']))
            willreset = bool(run['reset'] and p.model.iter_count > 0)
            obs.events.append({'e': 'run', 'prefix': run['prefix'] or '', 'reset': willreset})
            try:
                if run['k'] == 'run_model':
                    p.run_model(case_prefix=run['prefix'], reset_iter_counts=run['reset'])
                else:
                    if 'points' in run and k > 0:
                        p.driver.options['generator'] = om.ListGenerator(
                            [[(n, np.array(v, dtype=float)) for n, v in pt] for pt in run['points']])
                    with contextlib.redirect_stdout(io.StringIO()):          # (the optimizer's exit message)
                        p.run_driver(case_prefix=run['prefix'], reset_iter_counts=run['reset'])
            except AnalysisError:
                status = 'noconv'
                break
            if run['record']:
                obs.events.append({'e': 'precord', 'name': run['record']})
                p.record(run['record'])
    finally:
        Obs.active = None
        try:
            p.cleanup()
        except Exception:
            pass
    out = {'status': status, 'events': obs.events, 'snaps': obs.snaps, 'driver_name': p.driver._get_name(),
           'names': name_sets(p, md), 'files': {}}
    for lab, (rec, path) in recs.items():
        out['files'][lab] = read_file(path, attached=sc['files'][lab]) if os.path.exists(path) else {'missing': True}
        for suffix in ('', '-journal'):
            try:
                os.remove(path + suffix)
            except OSError:
                pass
    return out


# ------------------------------------------------------------------------------------------------------------
# names (for the selection logic): computed from the model description, cross-checked against the real model
# ------------------------------------------------------------------------------------------------------------
def name_sets(p, md):
    """what OpenMDAO's own resolver says (used only as a cross-check of md_names)"""
    m = p.model
    res = m._resolver
    return {'outs': sorted(n for n, _ in res.abs2prom_iter('output')),
            'ins': sorted(res.abs_iter('input')),
            'pin': {pn: res.source(pn) for pn in res.prom_iter('input')},
            'dvs': sorted(v['source'] for v in p.driver._designvars.values()),
            'objs': sorted(v['source'] for v in p.driver._objs.values()),
            'cons': sorted(v['source'] for v in p.driver._cons.values())}


def md_names(md):
    """absolute names, promoted input names with their sources, sources of the variables of interest: from the description"""
    outs = [ob.out_path(md, o['id']) for o in md['outs']]
    ins = [ob.in_path(md, i['id']) for i in md['ins']]
    pin = {}
    for i in md['ins']:
        t = ob.in_path(md, i['id'])
        if i.get('how', 'connect') == 'promote':
            parts = t.split('.')
            gparts = parts[:-2]
            pl = i['plevels']
            top = '.'.join(gparts[:len(gparts) - (len(pl) - 1)])
            name = pl[-1]['alias']
            pn = (top + '.' if top else '') + name       # promoted up to (and including) the group `top`
        elif i.get('how') == 'promote_shared':
            g = md['comps'][i['comp']]['group']
            pn = (g + '.' if g else '') + i['share']['alias']
        else:
            pn = t
        pin[pn] = ob.out_path(md, i['src'])
    return {'outs': sorted(outs), 'ins': sorted(ins), 'pin': pin,
            'dvs': sorted(ob.out_path(md, d['oid']) for d in md['desvars']),
            'objs': sorted(ob.out_path(md, r['oid']) for r in md['responses'] if r.get('type') == 'obj'),
            'cons': sorted(ob.out_path(md, r['oid']) for r in md['responses'] if r.get('type') != 'obj')}


# ------------------------------------------------------------------------------------------------------------
# reader queries
# ------------------------------------------------------------------------------------------------------------
def _ans(fn):
    try:
        r = fn()
    except Exception as e:        # the reader's own failures are answers, judged like any other
        return {'k': 'err', 'v': [type(e).__name__]}
    if isinstance(r, dict):
        def tree(d):
            return [{'c': k, 'ch': tree(v)} for k, v in d.items()]
        return {'k': 'nested', 'v': tree(r)}
    return {'k': 'flat', 'v': list(r)}


def _names(d):
    if d is None:
        return []
    return sorted(str(n) for n in d.absolute_names())


def _vals(d):
    if d is None:
        return {}
    out = {}
    for n in d.absolute_names():
        out[str(n)] = [float(x) for x in np.ravel(d[n])]
    return out


def public_source(r):
    """the name under which the reader's API knows a requester (Recorder.tla: PublicSource)"""
    if r in ('problem', 'driver'):
        return r
    kind, path = r.split(':', 1)
    return ('root.' + path if path else 'root') + {'sys': '', 'nl': '.nonlinear_solver', 'ls': '.nonlinear_solver.linesearch'}[kind]


def read_file(path, maxcoord=14, attached=()):
    import openmdao.api as om
    cr = om.CaseReader(path)
    out = {'queries': [], 'cases': []}
    sources = cr.list_sources(out_stream=None)
    out['sources'] = list(sources)
    out['source_vars'] = {}
    # queried: every source the reader lists, and the name of every attached system / solver (one that recorded
    # nothing is not a source: 'Source not found' is then the right answer)
    sources = list(sources) + sorted(set(public_source(r) for r in attached if ':' in r) - set(sources))
    for s in sources:
        try:
            sv = cr.list_source_vars(s, out_stream=None)
            out['source_vars'][s] = {k: sorted(v) for k, v in sv.items()}
        except Exception as e:
            out['source_vars'][s] = {'error': type(e).__name__}
    a2p = cr._abs2prom['output']
    out['abs2prom'] = dict(a2p)
    allc = cr.list_cases(out_stream=None)
    out['all'] = list(allc)
    for src in [''] + list(sources):
        for rec in (True, False):
            for flat in (True, False):
                out['queries'].append({'src': src, 'rec': rec, 'flat': flat,
                                       'ans': _ans(lambda: cr.list_cases(src or None, recurse=rec, flat=flat, out_stream=None))})
    coords = [c for c in allc if '|' in c]
    if len(coords) > maxcoord:
        step = len(coords) / float(maxcoord)
        coords = [coords[int(k * step)] for k in range(maxcoord)]
    for c in coords:
        for rec in (True, False):
            for flat in (True, False):
                out['queries'].append({'src': c, 'rec': rec, 'flat': flat,
                                       'ans': _ans(lambda: cr.list_cases(c, recurse=rec, flat=flat, out_stream=None))})
    # get_case(<int>): "an index into all cases" - every index for short files, else both ends and every problem case
    n = len(allc)
    if n <= 12:
        idxs = list(range(-n - 1, n + 1))
    else:
        pc = [k for k, c in enumerate(allc) if '|' not in c]
        idxs = sorted(set([0, 1, 2, n // 2, n - 2, n - 1, n, -1, -2, -n, -n - 1] + pc[:4] + [k - n for k in pc[:4]]))
    out['idx'] = []
    for i in idxs:
        try:
            case = cr.get_case(i)
            out['idx'].append({'i': i, 'ans': {'k': 'flat', 'v': [case.name]}, 'cnt': int(case.counter)})
        except Exception as e:
            out['idx'].append({'i': i, 'ans': {'k': 'err', 'v': [type(e).__name__]}, 'cnt': 0})
    import warnings
    for k, c in enumerate(allc):
        with warnings.catch_warnings(record=True) as w:
            warnings.simplefilter('always')
            try:
                case = cr.get_case(c)
            except Exception as e:
                out['cases'].append({'name': c, 'error': type(e).__name__})
                continue
        out['cases'].append({'name': case.name, 'source': case.source, 'counter': int(case.counter),
                             'inp': _names(case.inputs), 'out': _names(case.outputs), 'res': _names(case.residuals),
                             'vinp': _vals(case.inputs), 'vout': _vals(case.outputs), 'vres': _vals(case.residuals),
                             'abs_err': case.abs_err, 'rel_err': case.rel_err,
                             'warn': [str(x.message)[:160] for x in w if 'Mismatched source' in str(x.message)]})
    return out



# ------------------------------------------------------------------------------------------------------------
# traces for RecorderJudge.tla
# ------------------------------------------------------------------------------------------------------------
DRV_FLAGS = ['record_desvars', 'record_responses', 'record_objectives', 'record_constraints', 'record_inputs',
             'record_outputs', 'record_residuals']
DEFAULTS = {'driver': dict(includes=[], excludes=[], record_desvars=True, record_responses=False, record_objectives=True,
                           record_constraints=True, record_inputs=True, record_outputs=True, record_residuals=False),
            'problem': dict(includes=['*'], excludes=[], record_desvars=True, record_responses=False, record_objectives=True,
                            record_constraints=True, record_inputs=False, record_outputs=True, record_residuals=False),
            'sys': dict(includes=['*'], excludes=[], record_inputs=True, record_outputs=True, record_residuals=True),
            'nl': dict(includes=['*'], excludes=[], record_inputs=True, record_outputs=True, record_solver_residuals=False)}


def under(path, name):
    return path == '' or name == path or name.startswith(path + '.')


def fold_events(raw, lab):
    """raw push/pop/rec stream -> events of the specification, for the recorder file `lab`"""
    ev = []
    pending = None
    notes = []
    for e in raw:
        k = e['e']
        if k == 'run':
            ev.append({'e': 'run', 'prefix': e['prefix'], 'reset': bool(e['reset'])})
        elif k == 'push':
            if pending is not None:
                notes.append('record-not-followed-by-pop')
            pending = None
            ev.append({'e': 'enter', 'name': e['name'], 'it': e['it'], 'req': e['req']})
        elif k == 'precord':
            ev.append({'e': 'problem', 'has': False, 'name': e['name'], 'counter': 0})
        elif k == 'rec':
            if e['file'] != lab:
                continue
            if e['req'] == 'problem':
                if ev and ev[-1]['e'] == 'problem' and not ev[-1]['has'] and ev[-1]['name'] == e['coord']:
                    ev[-1].update(has=True, counter=e['counter'])
                else:
                    notes.append('problem-record-without-call')
            else:
                if pending is not None:
                    notes.append('two-records-in-one-frame')
                pending = e
        elif k == 'pop':
            if pending is not None:
                ev.append({'e': 'exit', 'has': True, 'req': pending['req'], 'coord': pending['coord'], 'counter': pending['counter']})
            else:
                ev.append({'e': 'exit', 'has': False, 'req': '', 'coord': '', 'counter': 0})
            pending = None
    return ev, notes


def req_vars(md, names, r):
    """the name sets the selection logic of requester r works on"""
    outs, ins = names['outs'], names['ins']
    if r in ('driver', 'problem'):
        return {'outs': outs, 'ins': ins, 'resids': outs, 'prom': {n: n for n in outs}, 'pin': sorted(names['pin']),
                'psrc': dict(names['pin']), 'dvs': names['dvs'], 'objs': names['objs'], 'cons': names['cons']}
    path = r.split(':', 1)[1]
    o = [n for n in outs if under(path, n)]
    i = [n for n in ins if under(path, n)]
    off = len(path) + 1 if path else 0
    return {'outs': o, 'ins': i, 'resids': o, 'prom': dict({n: n[off:] for n in o}, **{'-': '-'}), 'pin': ['-'], 'psrc': {'-': '-'},
            'dvs': [], 'objs': [], 'cons': []}


def build_trace(sc, obs, lab):
    md = sc['md']
    f = obs['files'][lab]
    att = sc['files'][lab]
    names = md_names(md)
    if names['pin'] != obs['names']['pin']:
        # promoted input names are the one part of the name sets this module re-derives from the generator's promotion
        # records; a promotion form it does not know falls back to the model's own resolver (counted in the evidence)
        names['pin'] = dict(obs['names']['pin'])
    ev, notes = fold_events(obs['events'], lab)
    reqs = sorted(set(['problem', 'driver'] + [e['req'] for e in ev if e['e'] == 'enter' and e['req']] + list(att)))
    opts, vs, pats, universe = {}, {}, set(), set()
    for r in att:
        kind = r.split(':')[0]
        o = dict(DEFAULTS[kind])
        o.update(sc['options'].get(r, {}))
        opts[r] = o
        v = req_vars(md, names, r)
        vs[r] = v
        universe.update(v['outs'], v['ins'], v['prom'].values(), v['pin'])
        path = r.split(':', 1)[1] if ':' in r else ''
        for pt in o['includes'] + o['excludes']:
            pats.add(pt)
            if kind == 'nl' and path:
                pats.add(path + '.' + pt)
    match = {pt: sorted(n for n in universe if fnmatch.fnmatchcase(n, pt)) for pt in pats}
    match['-'] = []
    a2p = f.get('abs2prom', {})

    def to_abs(keys, pool):
        """names as the reader presents them (promoted in some requester's namespace) -> absolute names"""
        res = []
        for k in keys:
            if k in pool:
                res.append(k)
                continue
            c = [n for n in pool if a2p.get(n) == k]
            res.append(c[0] if len(c) == 1 else ('COLLISION(%d):%s' % (len(c), k)))
        return sorted(res)
    srcvars = []
    bysrc = {}
    for c in f['cases']:
        bysrc.setdefault(c.get('source'), c)
    for src, sv in f['source_vars'].items():
        if 'error' in sv:
            srcvars.append({'src': src, 'inp': ['ERROR:' + sv['error']], 'out': [], 'res': []})
            continue
        c0 = bysrc.get(src, {})
        srcvars.append({'src': src, 'inp': sorted(sv['inputs']), 'out': to_abs(sv['outputs'], c0.get('out', [])),
                        'res': to_abs(sv['residuals'], c0.get('res', []))})
    cases = [{'name': c.get('name', ''), 'source': c.get('source', 'ERROR:' + c.get('error', '')), 'counter': c.get('counter', -1),
              'inp': c.get('inp', []), 'out': c.get('out', []), 'res': c.get('res', [])} for c in f['cases']]
    return {'att': list(att), 'reqs': reqs, 'ev': ev, 'q': f['queries'], 'all': f['all'], 'sources': f['sources'],
            'idx': f['idx'], 'cases': cases, 'srcvars': srcvars, 'opts': opts, 'vars': vs, 'match': match, 'flags': trace_flags(ev, att)}, notes


def trace_flags(ev, att):
    """structure of the run that the known-finding predicates refer to"""
    stack = []
    gap = nested_nl = False
    for e in ev:
        if e['e'] == 'enter':
            if e['req'] and stack and stack[-1] == e['req'] and e['req'].startswith('nl:'):
                nested_nl = nested_nl or e['req'] in att          # NonlinearBlockJac|k|NonlinearBlockJac|0, Newton_subsolve, Broyden
            if e['req'] in att:
                owners = [r for r in stack if r]
                if owners and owners[-1] not in att and any(r in att for r in owners):
                    gap = True                                    # a recorded frame, an unrecorded level, a recorded frame
            stack.append(e['req'])
        elif e['e'] == 'exit':
            stack.pop()
    return {'gap': gap, 'nested_nl': nested_nl}


def compare_values(obs, lab):
    """recorded values == the live snapshot taken at the record (exact; 1e-12 where the harness had to unscale)"""
    f = obs['files'][lab]
    recs = [e for e in obs['events'] if e['e'] == 'rec' and e['file'] == lab]
    bad = []
    if len(recs) != len(f['cases']):
        return [{'what': 'number-of-cases', 'recorded': len(recs), 'read': len(f['cases'])}]
    ncmp = 0
    for k, (e, c) in enumerate(zip(recs, f['cases'])):
        if 'error' in c:
            bad.append({'case': e['coord'], 'what': 'get_case raised ' + c['error']})
            continue
        snap = obs['snaps'][e['snap']]
        tol = 1e-12 if snap['scaled_state'] else 0.0
        for kind, key in (('inp', 'vinp'), ('out', 'vout'), ('res', 'vres')):
            for n, v in c[key].items():
                live = snap[kind].get(n)
                ncmp += 1
                if live is None:
                    bad.append({'case': e['coord'], 'req': e['req'], 'kind': kind, 'var': n, 'what': 'not a model variable'})
                    continue
                same = len(live) == len(v) and all(
                    (a == b) or (a != a and b != b) or (tol and abs(a - b) <= tol * max(1.0, abs(b))) for a, b in zip(v, live))
                if not same:
                    bad.append({'case': e['coord'], 'req': e['req'], 'kind': kind, 'var': n, 'recorded': v, 'live': live,
                                'scaled_state': snap['scaled_state']})
    return bad, ncmp


def observe(seed, kind=None, work=None):
    quiet()
    sc = plan(seed, kind)
    if sc is None:
        return {'skip': 'rejected', 'seed': seed}
    try:
        o = execute(sc, work or os.environ.get('OPENMDAO_WORKDIR', '/tmp'))
    except Exception as e:
        return {'exc': '%s: %s' % (type(e).__name__, e), 'tb': traceback.format_exc()[-2000:], 'sc': sc, 'seed': seed}
    return {'sc': sc, 'obs': o, 'seed': seed}




def _worker(args):
    quiet()
    seeds, work = args
    out = []
    for s in seeds:
        r = observe(s, None, work)
        if 'obs' in r:
            o = r['obs']
            r['traces'] = {}
            r['values'] = {}
            for lab in r['sc']['files']:
                if o['files'][lab].get('missing'):
                    r['traces'][lab] = None
                    continue
                try:
                    r['traces'][lab] = build_trace(r['sc'], o, lab)
                    r['values'][lab] = compare_values(o, lab)
                except Exception as e:
                    r['exc'] = 'harness: %s: %s' % (type(e).__name__, e)
                    r['tb'] = traceback.format_exc()[-2000:]
            mdn = md_names(r['sc']['md'])
            r['names_ok'] = all(mdn[k] == o['names'][k] for k in mdn if k != 'pin')
            r['pin_ok'] = mdn['pin'] == o['names']['pin']
            r['names'] = (mdn, o['names']) if not r['names_ok'] else None
            r['nev'] = len(o['events'])
            r['status'] = o['status']
            r['drv'] = o['driver_name']
            # keep the result small: the raw observation is not sent back
            del r['obs']
        out.append(r)
    return out


MC_BASE = """INIT Init
NEXT Next
CONSTANTS
 MaxDrv = 2
 MaxSol = 3
 MaxSub = 2
 MaxProb = 1
 Configs <- %s
 WinAdj %s
 S1 = "%s"
 Fix = {%s}
"""
MC_INV = ['TypeOK', 'CounterOK', 'Unique', 'NoRecRule', 'Order', 'Descendants', 'Sources', 'SourceLists', 'Indexed']
ALLFIX = '"rootname", "getcase"'


def model_check(ctx, quick):
    import concurrent.futures
    import time
    inv = ''.join('INVARIANT %s\n' % i for i in MC_INV) + 'PROPERTY NoRecFrames\n'

    # non-vacuity: the broken window must be refuted, and so must the places where the transcribed (pinned) reader is
    # not what the property states
    def refute(k, name, conf, adj, s1, fix, inv1):
        time.sleep(.3 * k)
        cfg1 = MC_BASE % (conf, adj, s1, fix) + 'INVARIANT %s\n' % inv1
        fname = 'RecorderMC_%s.cfg' % name.replace('+', 'p').replace(':', '_')
        r = ctx.tlc_run('mech/RecorderMC', ctx.write_cfg(fname, cfg1), workers=2, timeout=1200)
        if inv1 not in r.violated:
            raise MachineryError('RecorderMC: %s should be refuted (%s) but TLC says:\n%s' % (inv1, name, r.tail(30)))
        return inv1
    items = (('window+1', 'ConfigsRefute', '= 1', 's1', ALLFIX, 'Descendants'),
             ('window-1', 'ConfigsRefute', '<- MinusOne', 's1', ALLFIX, 'Descendants'),
             ('nested-across-unrecorded-level', 'ConfigsRefute', '= 0', 's1', ALLFIX, 'Nested'),
             ('coordinate-without-recurse', 'ConfigsRefute', '= 0', 's1', ALLFIX, 'CoordPlain'),
             ('name-starting-with-root:list_sources', 'ConfigsRefute', '= 0', 'rootsub', '"getcase"', 'Sources'),
             ('name-starting-with-root:list_cases', 'ConfigsRefute', '= 0', 'rootsub', '"getcase"', 'SourceLists'),
             ('get_case-index-of-a-problem-case', 'ConfigsIdx', '= 0', 's1', '"rootname"', 'Indexed'))
    with concurrent.futures.ThreadPoolExecutor(3) as ex:
        futs = {it[0]: ex.submit(refute, k, *it) for k, it in enumerate(items)}
        cfg = MC_BASE % ('ConfigsQuick' if quick else 'ConfigsAll', '= 0', 's1', ALLFIX) + inv
        ctx.tlc_check('mech/RecorderMC', ctx.write_cfg('RecorderMC.cfg', cfg), workers=max(2, TLC_WORKERS // 2), timeout=3000)
        ctx.require_actions(['DriverBegin', 'ModelBegin', 'ProblemRecord', 'DriverIter', 'Totals', 'RootSolve', 'RootIter',
                             'RunApply', 'SubSolve', 'SubIter', 'Leaf'])
        # the same theorems when the sub-group's name merely starts with "root" (the repaired reader)
        cfg = MC_BASE % ('ConfigsIdx' if quick else 'ConfigsQuick', '= 0', 'rootsub', ALLFIX) + inv
        ctx.tlc_check('mech/RecorderMC', ctx.write_cfg('RecorderMC_rootsub.cfg', cfg), workers=max(2, TLC_WORKERS // 2), timeout=3000)
        refuted = {name: f.result() for name, f in futs.items()}
    return refuted


def classify_query(q, exp):
    """class of a wrong reader answer"""
    if not q['rec'] and '|' in q['src'] and q['ans']['k'] == 'err' and q['ans']['v'] == ['UnboundLocalError']:
        return 'coordinate-without-recurse'
    if q['ans']['k'] == 'nested' and exp['k'] == 'nested':
        return 'nested-listing'
    return 'listing'


def _strip_root(name):
    return name[5:] if name.startswith('root.') else name


def pred_rootname(sc, info):
    """a system whose pathname merely starts with 'root' is listed without the 'root.' prefix: list_sources is wrong, the
    listed name has no cases, the right name is 'not found'"""
    rl = info.get('rootlike') or []
    if not rl:
        return False
    cls = _cls(info)
    if cls == 'sources':
        exp, obs = set(info['expected']), set(info['observed'])
        return exp - obs <= set(rl) and obs - exp <= set(_strip_root(x) for x in rl)
    if cls in ('listing', 'nested-listing'):
        return any(info['query']['src'] in (x, _strip_root(x)) for x in rl)
    if cls == 'source-vars':
        return any(info['sv']['src'] in (x, _strip_root(x)) for x in rl)
    if cls == 'case-source':                       # Case.source of a solver case (the solver table's own list)
        return public_source(info.get('req') or 'driver') in rl
    return False


def run(ctx):
    import concurrent.futures
    quick = ctx.tier == 'quick'
    n = int(os.environ.get('VERIF_C17_N', 0)) or (64 if quick else 480)
    base = 17000003 * (1 + ctx.seed % 1000)
    seeds = list(range(base, base + n))
    # TLC on the specification runs in a background thread while the scenarios execute in the process pool
    with concurrent.futures.ThreadPoolExecutor(1) as ex:
        fut = ex.submit(model_check, ctx, quick)
        res = [r for rs in pmap(_worker, [(c, ctx.work) for c in split(seeds, PAR * 2) if c], PAR) for r in rs]
        refuted = fut.result()
    res.sort(key=lambda r: r['seed'])
    ctx.register_predicates(PREDICATES)
    traces, owners = [], []
    skipped = {}
    for r in res:
        if 'skip' in r:
            skipped[r['skip']] = skipped.get(r['skip'], 0) + 1
            continue
        if 'exc' in r:
            if r['exc'].startswith('harness:'):
                raise MachineryError('%s\n%s' % (r['exc'], r['tb']))
            ctx.violation({'seed': r['seed'], 'scenario': slim(r['sc'])}, 'the run and every reader query succeed', r['exc'],
                          'exception from OpenMDAO: ' + r['exc'].split(':')[0], snippet=r['tb'])
            continue
        if not r['names_ok']:
            raise MachineryError('name sets derived from the model description differ from the model: seed %d: %s' % (r['seed'], r['names']))
        if r['status'] != 'ok':
            skipped[r['status']] = skipped.get(r['status'], 0) + 1
        if not r.get('pin_ok', True):
            skipped['promoted-input-names-from-resolver'] = skipped.get('promoted-input-names-from-resolver', 0) + 1
        for lab, t in r['traces'].items():
            if t is None:
                continue
            tr, notes = t
            if notes:
                raise MachineryError('event folding: %s (seed %d)' % (notes, r['seed']))
            traces.append(tr)
            owners.append((r, lab))
    if not traces:
        raise MachineryError('no traces')
    path = ctx.write_json('rec_traces.json', traces)
    cfg = ctx.write_cfg('RecorderJudge.cfg', 'INIT Init\nNEXT Next\nCONSTANT Fix = {}\nINVARIANT Export\nINVARIANT FileOK\n')
    tr_ = ctx.tlc_check('mech/RecorderJudge', cfg, env={'REC_TRACES': path}, timeout=3000, coverage=False, workers=TLC_WORKERS,
                        heap='10g')
    v = {e['tid']: e for e in tr_.exports('EXP')}
    if len(v) != len(traces):
        raise MachineryError('verdicts missing: %d of %d\n%s' % (len(v), len(traces), tr_.tail(30)))
    nq = ncases = nval = nev = nroot = nprobfiles = 0
    kinds = {}
    for k, (tr, (r, lab)) in enumerate(zip(traces, owners)):
        e = v[k + 1]
        sc = r['sc']
        scen = {'seed': r['seed'], 'file': lab, 'scenario': slim(sc)}
        vd = e['v']
        nev += len(tr['ev'])
        kinds[sc['kind']] = kinds.get(sc['kind'], 0) + 1
        ctx.note_nontrivial((r['seed'], lab))
        if vd['step'] == 'number-of-cases':
            ctx.violation(scen, {'cases in the file (execution order)': vd['n']}, {'list_cases()': len(tr['all']), 'tail': tr['all'][-3:]},
                          'order: list_cases() does not return every recorded case', info={'class': 'order'})
            continue
        if vd['step'] != 'done':
            bad = tr['ev'][e['l'] - 2] if 2 <= e['l'] <= len(tr['ev']) + 1 else None
            ctx.violation(scen, 'event stream accepted by Recorder.tla', {'verdict': vd, 'event': bad, 'index': e['l'] - 1},
                          'stream: ' + vd['step'], info={'class': 'stream', 'step': vd['step']})
            continue
        nq += len(tr['q']) + len(tr['idx'])
        ncases += vd['ncases']
        # attached systems / solvers whose pathname merely starts with 'root' (C17-name-starting-with-root)
        rootlike = sorted(public_source(x) for x in tr['att'] if ':' in x and x.split(':', 1)[1].startswith('root'))
        if rootlike:
            nroot += 1
        if any('|' not in c for c in tr['all']):
            nprobfiles += 1
        if not vd['order']:
            ctx.violation(scen, {'list_cases()': 'execution order'}, {'list_cases()': tr['all'][:12]}, 'order: list_cases() is not the execution order',
                          info={'class': 'order'})
        if not vd['sources']:
            ctx.violation(scen, {'sources': vd['expsources']}, {'sources': tr['sources']}, 'sources: list_sources',
                          info={'class': 'sources', 'expected': vd['expsources'], 'observed': tr['sources'], 'rootlike': rootlike})
        seen = set()
        for b in vd['badq']:
            q = tr['q'][b['q'] - 1]
            cls = classify_query(q, b['exp'])
            if cls in seen:
                continue
            seen.add(cls)
            ctx.violation(dict(scen, query={'source': q['src'], 'recurse': q['rec'], 'flat': q['flat']}), _short(b['exp']), _short(q['ans']),
                          'list_cases: ' + cls, info=dict(tr['flags'], **{'class': cls, 'query': q, 'att': tr['att'], 'rootlike': rootlike}))
        seen = set()
        for b in vd['badc']:
            c = tr['cases'][b['c'] - 1]
            key = (b['what'], b['req'].split(':')[0])
            if key in seen:
                continue
            seen.add(key)
            ctx.violation(dict(scen, case=c['name'], requester=b['req'], options=tr['opts'].get(b['req'])),
                          {'inputs': b['inp'], 'outputs': b['out'], 'residuals': b['res'], 'source': None},
                          {'inputs': c['inp'], 'outputs': c['out'], 'residuals': c['res'], 'source': c['source']},
                          'case %s: %s recorder' % (b['what'], b['req'].split(':')[0]),
                          info=dict(tr['flags'], **{'class': 'case-' + b['what'], 'req': b['req'], 'opts': tr['opts'].get(b['req']),
                                                    'rootlike': rootlike}))
        for b in vd['badi'][:1]:
            g = tr['idx'][b['g'] - 1]
            target = tr['all'][b['pos'] - 1] if 1 <= b['pos'] <= len(tr['all']) else None
            ctx.violation(dict(scen, index=g['i']), {'get_case(%d)' % g['i']: _short(b['exp']), 'counter': b['pos']},
                          {'get_case(%d)' % g['i']: g['ans'], 'counter': g['cnt']},
                          'get_case(<int>): not the index-th case of list_cases()',
                          info={'class': 'get_case-index', 'problem_case': target is not None and '|' not in target,
                                'wrong': vd['nbadi']})
        for b in vd['bads'][:1]:
            sv = tr['srcvars'][b['s'] - 1]
            ctx.violation(dict(scen, source=sv['src']), 'the selected variables of the source (absolute names)', sv,
                          'list_source_vars: ' + b['what'], info={'class': 'source-vars', 'sv': sv, 'what': b['what'], 'rootlike': rootlike})
        vals = r['values'].get(lab)
        if vals is not None:
            if isinstance(vals, tuple):
                bad, ncmp = vals
            else:
                bad, ncmp = vals, 0
            nval += ncmp
            seen = set()
            for b in bad:
                key = (b.get('what'), b.get('kind'), (b.get('req') or '').split(':')[0], b.get('scaled_state'))
                if key in seen:
                    continue
                seen.add(key)
                ctx.violation(dict(scen, case=b.get('case'), requester=b.get('req'), var=b.get('var'), kind=b.get('kind')),
                              {'value': b.get('live')}, {'value': b.get('recorded'), 'what': b.get('what')},
                              'value: recorded %s differs from the model' % b.get('kind', 'case'),
                              info={'class': 'value', 'scaled_state': b.get('scaled_state'), 'req': b.get('req'), 'scaling': sc['scaling']})
    classes = {}
    for clause, _ in ctx.violations:
        classes[clause] = classes.get(clause, 0) + 1
    ctx.extra['violation_classes'] = classes
    ctx.impl = len(traces)
    ctx.evaluations = nq + ncases + nval
    ctx.exhaustive = False
    ctx.extra.update({'refuted_on_the_spec': refuted, 'events_replayed': nev, 'reader_queries_judged': nq, 'cases_judged': ncases,
                      'values_compared': nval, 'scenarios_by_kind': kinds, 'skipped': skipped,
                      'files_with_a_system_named_root_something': nroot, 'files_with_problem_cases': nprobfiles})
    for tr, (r, lab) in list(zip(traces, owners))[:2]:
        ctx.sample({'seed': r['seed'], 'kind': r['sc']['kind'], 'attached': tr['att'], 'options': tr['opts'], 'events': tr['ev'][:10],
                    'query': {k: (x if k != 'ans' else _short(x)) for k, x in tr['q'][4].items()} if len(tr['q']) > 4 else None})
    ctx.rule = ('(a) every run tree within the bounds of RecorderMC.tla; (b) per seed: gen_model (feed-forward / coupled with NLBGS, Newton, '
                'NLBJ, Broyden; units, src_indices, promotion; 25% with solver scaling), a driver kind (run_model sequences with and '
                'without case_prefix incl. 12 runs, DOEDriver 2-3 or 12 points in 1-2 run_driver calls, SLSQP), one or two SqliteRecorders '
                'attached to a random subset of problem/driver/systems/nonlinear solvers (30% with the problem forced in), random '
                'recording_options per requester, some systems renamed to root<name>; the reader is asked list_sources, list_source_vars, '
                'list_cases(source | coordinate) x recurse x flat, get_case(name), get_case(int: every index for <= 12 cases, else the '
                'ends and the problem cases, both signs, one past each end); '
                'non-trivial = distinct (seed, file): each has its own attachment subset, options and event stream')
    ctx.assumptions = [
        'serial runs (no MPI), SqliteRecorder / SqliteCaseReader, no discrete variables, no auto-IVC sources, no constraint aliases',
        'no top-level system is called exactly "root" (the file format writes the model root as "root": such a file is ambiguous); names that '
        'merely start with "root" are exercised',
        'coordinates are kept unique by the run sequences (run_model(reset_iter_counts=False) or a distinct case_prefix per run): '
        'repeated runs with reset counters and no prefix overwrite nothing but produce identical coordinates (documented use of case_prefix)',
        'recorders are attached before the first final_setup; record_derivatives is off; line-search recorders are not attached',
        'selection semantics are those the code documents: excludes win over includes; design variables/responses are added after the '
        'filters by their own record_* flags, whatever record_outputs says (Driver._get_vars_to_record; the sources of the recorded '
        'promoted inputs likewise); includes/excludes match promoted names of outputs '
        '(relative to the recording system), absolute names of inputs, and solver patterns are relative to the solver\'s group',
        'values: recorded == independent live snapshot of the root vectors taken inside the record call (physical values; where the '
        'harness has to unscale a solver-scaled vector itself the comparison uses 1e-12 relative)',
        'iteration numbers of driver and solver frames are taken from the observed push events (only system counters are predicted)',
    ]


def _short(a):
    if isinstance(a, dict) and 'v' in a:
        v = a['v']
        return {'k': a['k'], 'n': len(v), 'v': v[:6]}
    return a


def slim(sc):
    return {'seed': sc['seed'], 'kind': sc['kind'], 'files': sc['files'], 'options': sc['options'], 'scaling': sc['scaling'],
            'runs': [{k: v for k, v in r.items() if k != 'points'} for r in sc['runs']], 'model': sc['md']}


def _cls(info):
    return (info or {}).get('class')


PREDICATES = {
    # system / solver recorders write the solver-SCALED values of outputs and residuals (ref/ref0/res_ref)
    'C17-scaled-values': lambda sc, info: _cls(info) == 'value' and bool(info.get('scaled_state')) and
    (info.get('req') or '').split(':')[0] in ('sys', 'nl', 'ls'),
    # the reader derives the source of a solver case from the shape of its coordinate: nested frames of one solver
    # (NonlinearBlockJac, Newton_subsolve, Broyden) look like a line search
    'C17-solver-source-parse': lambda sc, info: bool(info.get('nested_nl')) and
    ((_cls(info) == 'case-source' and (info.get('req') or '').startswith('nl:')) or
     (_cls(info) in ('listing', 'nested-listing') and 'nonlinear_solver' in info['query']['src'])),
    # nested listing drops the descendants below a level that was not recorded
    'C17-nested-unrecorded-level': lambda sc, info: _cls(info) == 'nested-listing' and bool(info.get('gap')),
    # list_cases(<coordinate>, recurse=False) raises UnboundLocalError
    'C17-coordinate-no-recurse': lambda sc, info: _cls(info) == 'coordinate-without-recurse',
    # several requesters in one file: the file-wide promoted names are those of the requester started last
    'C17-prom-name-collision': lambda sc, info: _cls(info) == 'source-vars' and
    any('COLLISION' in n for k in ('out', 'res') for n in info['sv'][k]),
    # a subsystem whose pathname merely starts with 'root' ('rootfinder') is taken for an already rooted name
    'C17-name-starting-with-root': pred_rootname,
    # get_case(<int>) with an index that falls on a problem case hands the integer on to the driver table
    'C17-get_case-index-problem-case': lambda sc, info: _cls(info) == 'get_case-index' and bool(info.get('problem_case')),
    # driver / problem recorder with record_outputs=False: the design variables / responses selected by record_desvars,
    # record_objectives, record_constraints, record_responses (and the sources of recorded promoted inputs) are dropped
    'C17-vois-need-record-outputs': lambda sc, info:
    (_cls(info) == 'case-outputs-need-record_outputs' and not info['opts']['record_outputs']) or
    (_cls(info) == 'source-vars' and info.get('what') == 'outputs-need-record_outputs'),
}


if __name__ == '__main__':
    seed = int(sys.argv[1])
    kind = sys.argv[2] if len(sys.argv) > 2 else None
    os.environ.setdefault('OPENMDAO_REPORTS', '0')
    r = observe(seed, kind, work='/verif/.work/c17dev')
    if 'obs' not in r:
        print(json.dumps({k: v for k, v in r.items() if k != 'sc'}, indent=1)[:3000])
        sys.exit(0)
    o = r['obs']
    print('kind', r['sc']['kind'], 'files', r['sc']['files'], 'status', o['status'])
    for e in o['events'][:60]:
        print(e)
    for lab, f in o['files'].items():
        print(lab, f.get('sources'), len(f.get('all', [])))
        for c in f.get('cases', [])[:6]:
            print('  ', {k: v for k, v in c.items() if not k.startswith('v')})
