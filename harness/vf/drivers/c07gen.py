"""C07, second family: set_val / get_val / final_setup / run_model histories on GENERATED hierarchical models, validated
as traces against spec/sys/OMSetGetTrace.tla (views of the store through arbitrary chains of src_indices).

The harness chooses the history (which view, which indices, which values, where the phase changes are), executes it on a
real Problem and records the values of ALL views after every event, quantised to exact rationals with its own Fraction
model as a hint only; TLC recomputes every expectation from the model record with NdIndex / OMModel and names the first
event that does not match."""
import copy
import random
import traceback
from fractions import Fraction as F

import numpy as np

from vf.core import MachineryError
from vf.util import quiet, pmap, split
from vf import modelgen as mg, ombuild as ob, sysobs as so
from vf.sysdriver import gen_model

OPTS = {'storage': ['dense', 'rowscols', 'coo', 'csr'], 'cyc': False, 'vois': False, 'bil': .15, 'prom_frac': .7}
NONE_IDX = {'k': 'none'}


def rj(x):
    x = F(x)
    return [x.numerator, x.denominator]


def views_of(md):
    """every addressable name as a view of one source: dict(name, src (0-based out id), chain, fac, off, shape, kind)"""
    outs = md['outs']
    V = []
    for o in outs:
        V.append({'name': ob.out_path(md, o['id']), 'src': o['id'], 'chain': [], 'fac': F(1), 'off': F(0),
                  'shape': list(o['shape']), 'kind': 'out'})
    for i in md['ins']:
        t = ob.in_path(md, i['id'])
        fac, off = mg.fr(i['fac']), mg.fr(i['off'])
        V.append({'name': t, 'src': i['src'], 'chain': list(i['chain']), 'fac': fac, 'off': off, 'shape': list(i['shape']),
                  'kind': 'abs'})
        how = i.get('how', 'connect')
        parts = t.split('.')
        gparts = parts[:-2]
        if how == 'promote':
            pl = i['plevels']                       # inner -> outer; chain = [clink?] + links outer -> inner
            links = [p['link'] for p in pl]
            head = [i['clink']] if i.get('clink') is not None else []
            for lvl in range(len(pl)):
                gpath = '.'.join(gparts[:len(gparts) - lvl])
                # the node at level lvl sees the source through the connect link and the links of the levels ABOVE it
                above = [l for l in reversed(links[lvl + 1:]) if l is not None]
                chain = head + above
                shape = list(outs[i['src']]['shape'])
                for l in chain:
                    _, shape = mg.np_positions(l['idx'], shape, l['flat'])
                V.append({'name': (gpath + '.' if gpath else '') + pl[lvl]['alias'], 'src': i['src'], 'chain': chain,
                          'fac': fac, 'off': off, 'shape': list(shape), 'kind': 'prom'})
        elif how == 'promote_shared':
            g = md['comps'][i['comp']]['group']
            V.append({'name': (g + '.' if g else '') + i['share']['alias'], 'src': i['src'], 'chain': [], 'fac': fac, 'off': off,
                      'shape': list(outs[i['src']]['shape']), 'kind': 'prom'})
    return V


def view_positions(v, outs):
    pos = list(range(int(np.prod(outs[v['src']]['shape']))))
    shape = list(outs[v['src']]['shape'])
    for l in v['chain']:
        p, shape = mg.np_positions(l['idx'], shape, l['flat'])
        pos = [pos[k] for k in p]
    return pos


def plan(seed):
    md, ref, rng = gen_model(seed, OPTS)
    if md is None:
        return None
    V = views_of(md)
    outs = md['outs']
    nset = rng.randrange(3, 7)
    phases = rng.choice([['setup'], ['final'], ['run'], ['setup', 'final'], ['setup', 'run'], ['setup', 'run', 'run'],
                         ['run', 'final', 'run']])
    # events: sets, with the phase changes spread between them
    ev = []
    cut = sorted(rng.randrange(0, nset + 1) for _ in phases)
    if phases[0] != 'setup':
        cut[0] = 0
    k = 0
    for j in range(nset + 1):
        while k < len(phases) and cut[k] == j:
            if phases[k] != 'setup':
                ev.append({'a': phases[k]})
            k += 1
        if j == nset:
            break
        vi = rng.randrange(len(V))
        v = V[vi]
        size = int(np.prod(v['shape']))
        idx = NONE_IDX
        lpos = list(range(size))
        if size > 1 and rng.random() < .5:
            for _ in range(50):
                t, flat, lp, _ = mg.rand_term(rng, v['shape'], allow_bare=False)
                if not flat or len(v['shape']) == 1:
                    idx, lpos = t, list(lp)
                    break
        vp = view_positions(v, outs)
        sp = [vp[q] for q in lpos]
        if len(set(sp)) < len(sp) or rng.random() < .25:
            vals = [F(rng.randrange(-6, 9))]                       # a single value, broadcast
        else:
            base = rng.randrange(-6, 9)
            vals = [F(base + 2 * q + 1) for q in range(len(sp))]
        ev.append({'a': 'set', 'v': vi, 'idx': idx, 'vals': vals, 'scalar': len(vals) == 1 and len(sp) > 1 or rng.random() < .3})
    return {'seed': seed, 'md': md, 'V': V, 'ev': ev}


def py_idx(t):
    return ob.term_to_py(t)


def hint_store(md, store):
    """the harness's own run: exact converged outputs for the current independent values (hint for quantisation only)"""
    xvals = {oid: store[oid] for oid in md['comps'][0]['outs']}
    ref = mg.reference(md, xvals)
    if ref is None:
        return None
    return [list(v) for v in ref['out']]


def observe(seed):
    quiet()
    sc = plan(seed)
    if sc is None:
        return {'skip': 'rejected', 'seed': seed}
    md, V = sc['md'], sc['V']
    outs = md['outs']
    try:
        p = ob.build(md, {'mode': 'auto'})
        store = [[mg.fr(x) for x in o['val']] for o in outs]
        vpos = [view_positions(v, outs) for v in V]
        evs = []
        for e in sc['ev']:
            rec = {'a': e['a']}
            err = None
            try:
                if e['a'] == 'final':
                    p.final_setup()
                elif e['a'] == 'run':
                    p.run_model()
                    hs = hint_store(md, store)
                    if hs is None:
                        return {'skip': 'no-reference', 'seed': seed}
                    store = hs
                else:
                    v = V[e['v']]
                    lp = list(range(len(vpos[e['v']]))) if e['idx']['k'] == 'none' else \
                        list(mg.np_positions(e['idx'], v['shape'], False)[0])
                    vals = e['vals']
                    if len(vals) == 1:
                        arg = float(vals[0]) if e['scalar'] else np.full(len(lp), float(vals[0]))
                    else:
                        arg = np.array([float(x) for x in vals])
                    if e['idx']['k'] == 'none':
                        if not np.isscalar(arg):
                            arg = arg.reshape(v['shape'])
                        p.set_val(v['name'], arg)
                    else:
                        if not np.isscalar(arg):
                            arg = arg.reshape(mg.np_positions(e['idx'], v['shape'], False)[1])
                        p.set_val(v['name'], arg, indices=py_idx(e['idx']))
                    for k, q in enumerate(lp):
                        x = vals[0] if len(vals) == 1 else vals[k]
                        store[v['src']][vpos[e['v']][q]] = (x - v['off']) / v['fac']
                    rec.update(v=e['v'] + 1, idx=e['idx'], vals=[rj(x) for x in vals])
            except Exception as ex:            # the judged calls must not raise
                err = '%s: %s' % (type(ex).__name__, str(ex)[:300])
            if err is not None:
                rec['raised'] = err
                evs.append(rec)
                break
            views = []
            for j, v in enumerate(V):
                exp = [v['fac'] * store[v['src']][q] + v['off'] for q in vpos[j]]
                try:
                    got = np.ravel(p.get_val(v['name']))
                except Exception as ex:
                    rec['raised'] = 'get_val(%s): %s: %s' % (v['name'], type(ex).__name__, str(ex)[:300])
                    got = None
                    break
                views.append(so.qvec(got, exp))
            if 'raised' in rec:
                evs.append(rec)
                break
            rec['views'] = views
            evs.append(rec)
        M = so.semiflat(md)
        order = mg.eval_order(md)
        case = {'M': M,
                'V': [{'src': v['src'] + 1, 'chain': [{'idx': l['idx'], 'shape': list(l['shape']), 'flat': bool(l['flat'])} for l in v['chain']],
                       'fac': rj(v['fac']), 'off': rj(v['off']), 'shape': list(v['shape'])} for v in V],
                'ev': [dict(e, idx=e.get('idx', NONE_IDX), v=e.get('v', 0), vals=e.get('vals', [])) for e in evs if 'raised' not in e]}
        raised = [dict(e, step=k) for k, e in enumerate(evs) if 'raised' in e]
        return {'seed': seed, 'case': case, 'names': [v['name'] for v in V], 'kinds': [v['kind'] for v in V],
                'plan': [{k: (x if k != 'vals' else [rj(y) for y in x]) for k, x in e.items()} for e in sc['ev']],
                'raised': raised, 'md': md}
    except Exception as ex:
        return {'exc': '%s: %s' % (type(ex).__name__, ex), 'tb': traceback.format_exc()[-1500:], 'seed': seed}


def _worker(chunk):
    return [observe(s) for s in chunk]


def run_generated(ctx):
    quick = ctx.tier == 'quick'
    n = 200 if quick else 2500
    base = 7000000 + 1000003 * (ctx.seed % 1000)
    seeds = list(range(base, base + n))
    res = [x for rs in pmap(_worker, [c for c in split(seeds, 48) if c]) for x in rs]
    res.sort(key=lambda r: r['seed'])
    excs = [r for r in res if 'exc' in r]
    if len(excs) > len(res) // 10:
        raise MachineryError('c07gen: %d harness exceptions, first: %s\n%s' % (len(excs), excs[0]['exc'], excs[0]['tb']))
    cases = [r for r in res if 'case' in r]
    if len(cases) < n // 3:
        raise MachineryError('c07gen: only %d of %d models usable' % (len(cases), n))
    path = ctx.write_json('setget_cases.json', [r['case'] for r in cases])
    cfg = ctx.write_cfg('OMSetGetTrace.cfg', 'INIT Init\nNEXT Next\nINVARIANT Export\nINVARIANT ViewsWellFormed\n')
    r = ctx.tlc_check('sys/OMSetGetTrace', cfg, env={'OM_CASES': path}, timeout=3000, heap='12g', coverage=False)
    verdicts = {}
    for e in r.exports('EXP'):
        verdicts[e['tid']] = e
    if len(verdicts) != len(cases):
        raise MachineryError('OMSetGetTrace returned %d verdicts for %d cases:\n%s' % (len(verdicts), len(cases), r.tail()))
    nev = 0
    kinds = {}
    for k, c in enumerate(cases):
        v = verdicts[k + 1]
        nev += v['n']
        scn = {'seed': c['seed'], 'names': c['names'], 'plan': c['plan'], 'model': c['md']}
        for e in c['plan']:
            if e['a'] == 'set':
                kd = c['kinds'][e['v']] + ('' if e['idx']['k'] == 'none' else '+indices')
                kinds[kd] = kinds.get(kd, 0) + 1
        if any(e['a'] != 'set' for e in c['plan']) and any(e['a'] == 'set' for e in c['plan']):
            ctx.note_nontrivial('gen%d' % c['seed'])
        if v['v']['k'] == 'harness-ambiguous-set':
            raise MachineryError('c07gen: the harness produced an ambiguous set (seed %d)' % c['seed'])
        if v['v']['k'] != 'ok':
            vv = v['v']
            if vv['view'] == 0:
                ctx.violation(scn, 'independent values kept, every computed output solves its equations',
                              dict(zip(c['names'], c['case']['ev'][vv['ev'] - 1]['views'])),
                              '[generated models] %s after event %d (%s)' % (vv['clause'], vv['ev'], vv['a']))
                continue
            ctx.violation(scn, {'view': c['names'][vv['view'] - 1], 'value': vv['expected']},
                          {'view': c['names'][vv['view'] - 1], 'value': c['case']['ev'][vv['ev'] - 1]['views'][vv['view'] - 1]},
                          '[generated models] %s after event %d (%s)' % (vv['clause'], vv['ev'], vv['a']))
        elif c['raised']:
            e = c['raised'][0]
            ctx.violation(scn, 'the call returns', e['raised'], '[generated models] %s raised at event %d' % (e['a'], e['step'] + 1))
    for x in excs:
        ctx.violation({'seed': x['seed']}, 'history executes', x['exc'], '[generated models] exception outside the judged calls',
                      snippet=x['tb'])
    ctx.impl += len(cases)
    ctx.evaluations += nev
    ctx.extra['generated_models'] = {'cases': len(cases), 'events_validated': nev, 'sets_by_view_kind': kinds,
                                     'skipped': len(res) - len(cases) - len(excs)}
    return len(cases), nev
