"""C23 - DOE generators stay within bounds and cover their designs; DOEDriver evaluates exactly the generated values.

Spec: spec/mech/DOE.tla.
  part 1  TLC enumerates design-variable sets (1-3 variables of 1-2 elements, scalar/array integer bounds) x levels
          (int or per-variable dict with "default"), checks the product laws and exports the exact full-factorial
          design (driver units and model units) of every scenario;
  part 3  the judge (JInit/JNext of the same module) reads OBSERVED designs of the real generators and applies the
          spec's InBounds / Latin-hypercube stratum / level-membership / reproducibility laws to them.
Binding:
  (a) generator output: doe_generators.{FullFactorial, PlackettBurman, BoxBehnken, GeneralizedSubset, Uniform,
      LatinHypercube} and drivers.sampling.{FullFactorial, LatinHypercube, Uniform} on the design variables of a real
      Problem (units and scaler/adder/ref/ref0 declared on them);
  (b) DOEDriver runs with every generator incl. ListGenerator and CSVGenerator: the inputs a spy component sees at each
      case, and the cases read back from a SqliteRecorder, equal the generated values converted to model units.
"""
import math
import os
import struct
from fractions import Fraction as F

from ..tlc import MachineryError
from ..util import pmap, split

NPROC = int(os.environ.get('VERIF_NPROC', '8'))
QRES = 65536
# units (model, declared on the design variable) and scaling declared on the design variables of the catalogue of DOE.tla
UNITS = {'a': ('km', 'm'), 'b': (None, None), 'c': ('degC', 'degK'), 'd': (None, None), 'e': ('degF', 'degC')}
CRITERIA = [None, 'center', 'c', 'maximin', 'm', 'centermaximin', 'cm', 'correlation', 'corr']


def fr(x):
    return F(x[0], x[1])


def scaling(name):
    import numpy as np
    return {'a': dict(scaler=2.0, adder=-1.0), 'b': dict(ref=3.0, ref0=1.0), 'c': dict(scaler=np.array([0.5, -2.0])),
            'd': {}, 'e': dict(adder=np.array([1.0, -2.0]), scaler=-1.0)}[name]


def decl(vals):
    import numpy as np
    vs = [float(fr(v)) for v in vals]
    return vs[0] if all(v == vs[0] for v in vs) else np.array(vs)


SEEN = []


def build(vars_, driver=None):
    """a Problem whose design variables are the scenario's variables; a spy component records every evaluation"""
    import numpy as np
    import openmdao.api as om

    class Spy(om.ExplicitComponent):
        def setup(self):
            for v in vars_:
                self.add_input(v['name'], np.zeros(len(v['lo'])), units=UNITS[v['name']][0])
            self.add_output('y', 0.0)

        def compute(self, inputs, outputs):
            SEEN.append({v['name']: inputs[v['name']].copy() for v in vars_})
            outputs['y'] = sum(inputs[v['name']].sum() for v in vars_)

    p = om.Problem()
    m = p.model
    ivc = m.add_subsystem('ivc', om.IndepVarComp(), promotes=['*'])
    for v in vars_:
        ivc.add_output(v['name'], np.zeros(len(v['lo'])), units=UNITS[v['name']][0])
    m.add_subsystem('spy', Spy(), promotes=['*'])
    for v in vars_:
        kw = dict(scaling(v['name']))
        if UNITS[v['name']][1]:
            kw['units'] = UNITS[v['name']][1]
        m.add_design_var(v['name'], lower=decl(v['lo']), upper=decl(v['up']), **kw)
    m.add_objective('y')
    if driver is not None:
        p.driver = driver
    return p


def flat(case, vars_):
    """one generated case [(name, value), ...] -> list of floats in factor order"""
    import numpy as np
    d = {n: np.atleast_1d(np.asarray(v, dtype=float)).ravel() for n, v in case}
    return [float(x) for v in vars_ for x in d[v['name']]]


def factors(vars_):
    return [(v['name'], k, fr(v['lo'][k]), fr(v['up'][k]), fr(v['f']), fr(v['o'])) for v in vars_
            for k in range(len(v['lo']))]


def levels_arg(lv):
    return lv['n'] if lv['kind'] == 'int' else {e[0]: e[1] for e in lv['d']}


def bits(x):
    b = struct.unpack('>Q', struct.pack('>d', x))[0]
    return [b >> 44, (b >> 22) & 0x3FFFFF, b & 0x3FFFFF]


def sgn(x):
    return (x > 0) - (x < 0)


def obs_record(design, again, fs, lhs, lev):
    """exact integer facts about an observed design for the judge (see DOE.tla part 3)"""
    n = len(design)
    pts = []
    for pt in design:
        row = []
        for i, x in enumerate(pt):
            lo, up = fs[i][2], fs[i][3]
            if math.isnan(x) or math.isinf(x):
                row.append({'sl': -1, 'su': -1, 'k': -1, 'q': -1, 'r': [0, 0], 'b': bits(x)})
                continue
            X = F(x)
            pos = (X - lo) / (up - lo)
            q = max(-2, min(QRES + 2, math.floor(pos * QRES)))
            k = max(-2, min(n + 2, math.floor(pos * n))) if lhs else -1
            r = [0, 0]
            if lev:
                D = max(1, lev[i] - 1)
                num = round(x * D)
                if abs(x * D - num) <= 1e-9 and abs(num) < 2 ** 30:
                    r = [int(num), D]
            row.append({'sl': sgn(X - lo), 'su': sgn(up - X), 'k': k, 'q': q, 'r': r, 'b': bits(x)})
        pts.append(row)
    return {'n': n, 'nd': len(fs), 'lo': [int(f[2]) for f in fs], 'up': [int(f[3]) for f in fs], 'lhs': bool(lhs),
            'lev': list(lev or []), 'seeded': again is not None,
            'again': [[bits(x) for x in pt] for pt in again] if again is not None else [], 'pts': pts}


# ------------------------------------------------------------------------------------------------ generators
def make_gen(spec, vars_, workdir=None, ffdesign=None):
    """spec = (kind, args) -> generator instance (fresh each time: LatinHypercube caches `samples`)"""
    import openmdao.api as om
    kind, a = spec
    if kind == 'ff':
        return om.FullFactorialGenerator(levels=a)
    if kind == 'pb':
        return om.PlackettBurmanGenerator()
    if kind == 'bb':
        return om.BoxBehnkenGenerator(center=a)
    if kind == 'gsd':
        return om.GeneralizedSubsetGenerator(levels=a[0], reduction=a[1])
    if kind == 'uni':
        return om.UniformGenerator(num_samples=a[0], seed=a[1])
    if kind == 'lhs':
        return om.LatinHypercubeGenerator(samples=a[0], criterion=a[1], seed=a[2])
    if kind in ('list', 'csv'):
        cases = []
        for pt in ffdesign:
            it = iter(pt)
            cases.append([(v['name'], [float(fr(next(it))) for _ in v['lo']]) for v in vars_])
        if kind == 'list':
            import numpy as np
            return om.ListGenerator([[(n, np.array(x)) for n, x in c] for c in cases])
        path = os.path.join(workdir, 'cases_%d_%s.csv' % (os.getpid(), '_'.join(v['name'] for v in vars_)))
        with open(path, 'w') as fh:
            fh.write(', '.join(v['name'] for v in vars_) + '\n')
            for c in cases:
                fh.write(','.join('"[%s]"' % ' '.join(repr(x) for x in xs) for _, xs in c) + '\n')
        return om.CSVGenerator(path)
    raise MachineryError('unknown generator %r' % (kind,))


def sampling_gen(spec, vars_):
    """the AnalysisDriver flavour of the same generators (openmdao/drivers/sampling)"""
    from openmdao.drivers.sampling.pyDOE_generators import FullFactorialGenerator, LatinHypercubeGenerator
    from openmdao.drivers.sampling.uniform_generator import UniformGenerator
    kind, a = spec
    vd = {v['name']: {'lower': decl(v['lo']), 'upper': decl(v['up'])} for v in vars_}
    for v in vars_:        # scalar bounds on a 2-element variable: the analysis generators size a factor by its bounds
        if len(v['lo']) > 1:
            import numpy as np
            vd[v['name']] = {'lower': np.array([float(fr(x)) for x in v['lo']]),
                             'upper': np.array([float(fr(x)) for x in v['up']])}
    if kind == 'ff':
        return FullFactorialGenerator(vd, levels=a)
    if kind == 'uni':
        return UniformGenerator(vd, num_samples=a[0], seed=a[1])
    if kind == 'lhs':
        return LatinHypercubeGenerator(vd, samples=a[0], criterion=a[1], seed=a[2])
    return None


def gen_plan(vars_, lvs, quick, seed, si):
    """generator specs for one design-variable set: (kind, args, judge levels or None, lhs?, seeded?)"""
    nf = sum(len(v['lo']) for v in vars_)
    plan = []
    for lv in lvs:
        plan.append((('ff', levels_arg(lv['lv'])), None, False, False))
    plan.append((('pb', None), [2] * nf, False, False))
    plan.append((('bb', None), [3] * nf, False, False))
    plan.append((('bb', 2), [3] * nf, False, False))
    first = vars_[0]['name']
    for lv, red in ((2, 2), (3, 2), ({first: 3, 'default': 2}, 2)):
        per = [lv if isinstance(lv, int) else lv.get(v['name'], lv['default']) for v in vars_ for _ in v['lo']]
        plan.append((('gsd', (lv, red)), per, False, False))
    for k, ns in enumerate((1, 5) if quick else (1, 5, 12)):
        plan.append((('uni', (ns, seed + 11 * si + k)), None, False, True))
    plan.append((('uni', (3, None)), None, False, False))
    samples = (None, 4, 7) if quick else (None, 2, 4, 7, 12)
    for ci, crit in enumerate(CRITERIA):
        for k, ns in enumerate(samples):
            if quick and (ci + k + si) % 3 != 0:        # quick: one sample count per criterion, rotating
                continue
            plan.append((('lhs', (ns, crit, seed + 100 * si + 10 * ci + k)), None, True, True))
    plan.append((('lhs', (5, None, None)), None, True, False))
    return plan


def lhs_degenerate(args, nf):
    """pyDOE itself raises for these Latin-hypercube requests (probed on pyDOE 1.5: the maximin search over a single
    sample has no distances; the correlation search has no off-diagonal entry with one factor and an undefined
    correlation with one or two samples)"""
    n = args[0] or nf
    if args[1] in ('m', 'maximin', 'cm', 'centermaximin'):
        return n == 1
    if args[1] in ('corr', 'correlation'):
        return nf == 1 or n <= 2
    return False


def run_gen(g, dvs, model):
    return [c for c in g(dvs, model)]


def _worker_a(items):
    """(a) generator output on the design variables of a real problem"""
    from ..util import quiet
    quiet()
    out = []
    for it in items:
        vars_, plan = it['vars'], it['plan']
        fs = factors(vars_)
        try:
            p = build(vars_)
            p.setup()
            p.final_setup()
            dvs = p.driver._designvars
        except Exception as e:
            out.append({'err': 'setup: %s: %s' % (type(e).__name__, e)})
            continue
        res = []
        for spec, lev, lhs, seeded in plan:
            r = {'spec': spec}
            try:
                g1 = make_gen(spec, vars_)
                d1 = [flat(c, vars_) for c in run_gen(g1, dvs, p.model)]
                d2 = [flat(c, vars_) for c in run_gen(make_gen(spec, vars_), dvs, p.model)] if seeded else None
                if seeded:
                    # the same generator object asked again (a second run_driver) must reproduce its design as well
                    d3 = [flat(c, vars_) for c in run_gen(g1, dvs, p.model)]
                    if d3 != d1:
                        d2 = d3
                r['design'] = d1
                if spec[0] != 'ff':
                    r['obs'] = obs_record(d1, d2, fs, lhs, lev)
            except Exception as e:
                r['raised'] = '%s: %s' % (type(e).__name__, str(e)[:200])
            res.append(r)
            sg = None
            try:
                sg = sampling_gen(spec, vars_)
            except Exception as e:
                res.append({'spec': ('sampling.' + spec[0], spec[1]), 'raised': '%s: %s' % (type(e).__name__, str(e)[:200])})
            if sg is not None:
                r2 = {'spec': ('sampling.' + spec[0], spec[1])}
                try:
                    d1 = [flat([(n, c[n]['val']) for n in c], vars_) for c in sg]
                    d2 = None
                    if seeded:
                        d2 = [flat([(n, c[n]['val']) for n in c], vars_) for c in sampling_gen(spec, vars_)]
                    r2['design'] = d1
                    if spec[0] != 'ff':
                        r2['obs'] = obs_record(d1, d2, fs, lhs, lev)
                except Exception as e:
                    r2['raised'] = '%s: %s' % (type(e).__name__, str(e)[:200])
                res.append(r2)
        out.append({'res': res})
    return out


def _worker_b(items):
    """(b) DOEDriver runs: what the model sees and what the recorder stores"""
    import numpy as np
    import openmdao.api as om
    from ..util import quiet
    quiet()
    out = []
    for it in items:
        vars_, spec, work = it['vars'], it['spec'], it['work']
        r = {}
        try:
            p0 = build(vars_)
            p0.setup()
            p0.final_setup()
            gen = [flat(c, vars_) for c in run_gen(make_gen(spec, vars_, work, it.get('ff')), p0.driver._designvars, p0.model)]
        except Exception as e:
            out.append({'raised': '%s: %s' % (type(e).__name__, str(e)[:200])})
            continue
        try:
            rec_path = os.path.join(work, 'doe_%d_%d.sql' % (os.getpid(), it['id']))
            p = build(vars_, om.DOEDriver(make_gen(spec, vars_, work, it.get('ff'))))
            record = len(gen) <= it['max_rec']      # one fsync per recorded case: long designs are watched by the spy only
            if record:
                p.driver.add_recorder(om.SqliteRecorder(rec_path))
            p.setup()
            p.final_setup()
            del SEEN[:]
            p.run_driver()
            p.cleanup()
            r['gen'] = gen
            r['seen'] = [[float(x) for v in vars_ for x in s[v['name']]] for s in SEEN]
            if record:
                cr = om.CaseReader(rec_path)
                ids = cr.list_cases('driver', out_stream=None)
                outs, dvs = [], []
                for cid in ids:
                    c = cr.get_case(cid)
                    outs.append([float(x) for v in vars_ for x in np.atleast_1d(c.outputs[v['name']]).ravel()])
                    d = c.get_design_vars(scaled=False)
                    dvs.append([float(x) for v in vars_ for x in np.atleast_1d(d[v['name']]).ravel()])
                r['rec_out'], r['rec_dv'] = outs, dvs
                os.remove(rec_path)
        except Exception as e:
            import traceback
            r['err'] = '%s: %s' % (type(e).__name__, str(e)[:300])
            r['tb'] = traceback.format_exc()[-500:]
        out.append(r)
    return out


# ------------------------------------------------------------------------------------------------ comparison
def close(x, want, exact):
    w = float(want)
    if exact:
        return x == w
    return abs(x - w) <= 1e-12 * max(1.0, abs(w))


def match_ff(design, ff):
    """the observed design enumerates exactly the spec's product: every spec point once (coordinates matched to 1e-12)"""
    nf = len(ff[0]) if ff else 0
    cols = [sorted({fr(pt[i]) for pt in ff}) for i in range(nf)]
    want = {tuple(fr(x) for x in pt) for pt in ff}
    got = []
    for pt in design:
        if len(pt) != nf:
            return 'point with %d coordinates, expected %d' % (len(pt), nf), False
        q = []
        for i, x in enumerate(pt):
            m = [lv for lv in cols[i] if close(x, lv, False)]
            if len(m) != 1:
                return 'coordinate %d = %r is not a level %s' % (i, x, [float(c) for c in cols[i]]), False
            q.append(m[0])
        got.append(tuple(q))
    if len(got) != len(want):
        return '%d points, the product has %d' % (len(got), len(want)), False
    if len(set(got)) != len(got):
        return 'a point occurs twice', False
    if set(got) != want:
        return 'points outside the product', False
    return None, got == [tuple(fr(x) for x in pt) for pt in ff]


def run(ctx):
    import numpy as np
    import openmdao.api  # noqa: F401  (imported before the pools fork)
    from openmdao.utils.units import unit_conversion
    quick = ctx.tier == 'quick'
    empty = ctx.write_json('doe_none.json', [])
    cfg = ctx.write_cfg('DOE.cfg', '''CONSTANTS
  MaxVars = 3
INIT Init
NEXT Next
INVARIANT ProductLaw
INVARIANT BoundsLaw
INVARIANT LevelsLaw
INVARIANT LatinSelfCheck
INVARIANT Export
''')
    r = ctx.tlc_check('mech/DOE', cfg, env={'DOE_OBS': empty}, timeout=3000, heap='8g', workers=NPROC)
    ctx.require_actions(['Choose'])
    scens = r.exports('EXP')
    if not scens:
        raise MachineryError('DOE.tla exported no scenarios')
    # the catalogue's unit maps are the library's conversion of the units the harness declares (oracle self-check)
    for e in scens:
        for v in e['s']['vars']:
            mu, du = UNITS[v['name']]
            f, o = (1.0, 0.0) if mu is None else unit_conversion(mu, du)
            if abs(float(fr(v['f'])) - f) > 1e-12 * abs(f) or abs(float(fr(v['o'])) - o * f) > 1e-9:
                raise MachineryError('unit map of %s in DOE.tla (%s, %s) is not %s -> %s' % (v['name'], v['f'], v['o'], mu, du))
    sets = {}
    for e in scens:
        key = tuple(v['name'] for v in e['s']['vars'])
        sets.setdefault(key, {'vars': e['s']['vars'], 'lvs': []})['lvs'].append({'lv': e['s']['lv'], 'v': e['v']})
    keys = sorted(sets)
    for k in keys:
        sets[k]['lvs'].sort(key=lambda x: (x['lv']['kind'], x['lv']['n'], str(x['lv']['d'])))

    # ---- (a) generator output --------------------------------------------------------------------------
    items = []
    for si, k in enumerate(keys):
        S = sets[k]
        lvs = [x for x in S['lvs'] if quick is False or len(x['v']['ff']) <= 300]
        plan = gen_plan(S['vars'], lvs, quick, ctx.seed, si)
        for j in range(0, len(plan), 8):        # several work items per set: better balance over the pool
            items.append({'vars': S['vars'], 'plan': plan[j:j + 8], 'lvs': lvs, 'key': k})
    import time
    t0 = time.time()
    chunks_a = split(items, NPROC * 6)
    res = pmap(_worker_a, chunks_a, nproc=NPROC)
    ctx.extra['wall_generators_s'] = round(time.time() - t0, 1)
    flat_res = []
    for ch, rs in zip([c for c in chunks_a if c], res):
        flat_res.extend(zip(ch, rs))
    obs, obs_ref = [], []
    stats = {'ff': 0, 'ff_pydoe_order': 0, 'rejected': 0, 'judged': 0}
    rejected = {}
    for it, o in flat_res:
        sc0 = {'vars': it['vars']}
        if 'err' in o:
            ctx.violation(sc0, None, o['err'], 'building the problem raised')
            continue
        ffs = {str(levels_arg(x['lv'])): x for x in it['lvs']}
        for rr in o['res']:
            spec = rr['spec']
            sc = {'vars': it['vars'], 'generator': spec[0], 'args': spec[1]}
            kind = spec[0].split('.')[-1]
            if 'raised' in rr:
                nf = sum(len(v['lo']) for v in it['vars'])
                # pyDOE refuses: Box-Behnken below 3 factors, some GSD reductions, a maximin search over one sample
                legit = (kind == 'bb' and nf < 3) or kind == 'gsd' or (kind == 'lhs' and lhs_degenerate(spec[1], nf))
                if legit:
                    stats['rejected'] += 1
                    rejected[rr['raised'][:60]] = rejected.get(rr['raised'][:60], 0) + 1
                else:
                    ctx.violation(sc, 'a design', rr['raised'], 'generator %s raised' % spec[0])
                continue
            if kind == 'ff':
                x = ffs[str(spec[1])]
                why, same_order = match_ff(rr['design'], x['v']['ff'])
                stats['ff'] += 1
                stats['ff_pydoe_order'] += bool(same_order)
                ctx.note_nontrivial(('ff', spec[0], it['key'], str(spec[1])))
                if why:
                    ctx.violation(sc, [[float(fr(c)) for c in pt] for pt in x['v']['ff']][:50], rr['design'][:50],
                                  'full factorial design is not the product of the level sets: ' + why)
            else:
                obs.append(rr['obs'])
                obs_ref.append((sc, rr))
    ctx.extra['legitimately_rejected'] = rejected
    verdicts = {}
    # judge self-test: hand-made designs with known verdicts ride along behind the observed ones
    sfs = [('a', 0, F(-1), F(2), F(1000), F(0)), ('d', 0, F(0), F(3), F(1), F(0))]
    good = [[-0.9, 0.1], [0.3, 2.9], [1.7, 1.2]]
    crafted = [(obs_record(good, good, sfs, True, None), {}),
               (obs_record([[-0.9, 0.1], [0.3, 0.9], [1.7, 1.2]], None, sfs, True, None), {'lhs': False}),
               (obs_record([[-0.9, 0.1], [0.3, 2.9], [2.0000000001, 1.2]], None, sfs, True, None), {'lhs': False, 'inb': False}),
               (obs_record(good, [[-0.9, 0.1], [0.3, 2.9], [1.7, 1.2000000000000002]], sfs, True, None), {'rep': False}),
               (obs_record([[-1.0, 0.0], [2.0, 1.5]], None, sfs, False, [2, 3]), {}),
               (obs_record([[-1.0, 0.0], [2.0, 1.4]], None, sfs, False, [2, 3]), {'lev': False})]
    if obs:
        path = ctx.write_json('doe_obs.json', obs + [c[0] for c in crafted])
        jcfg = ctx.write_cfg('DOEJudge.cfg', 'CONSTANTS\n  MaxVars = 3\nINIT JInit\nNEXT JNext\nINVARIANT JExport\n')
        jr = ctx.tlc_check('mech/DOE', jcfg, env={'DOE_OBS': path}, timeout=3000, heap='8g', workers=NPROC)
        ctx.require_actions(['JNext'])
        verdicts = {e['tid']: e['v'] for e in jr.exports('EXP')}
        if len(verdicts) != len(obs) + len(crafted):
            raise MachineryError('DOE judge returned %d verdicts for %d designs:\n%s' % (len(verdicts), len(obs), jr.tail()))
        for j, (_, wantv) in enumerate(crafted):
            v = verdicts[len(obs) + 1 + j]
            if any(v[f] is not wantv.get(f, True) for f in ('inb', 'lhs', 'lev', 'rep', 'shape')):
                raise MachineryError('DOE judge self-test %d: verdict %s, expected failures %s' % (j, v, wantv))
    clauses = {'inb': 'a generated value lies outside the bounds of its design variable',
               'lhs': 'Latin hypercube: the samples do not occupy every stratum of every dimension exactly once',
               'lev': 'a generated value is not one of the linspace levels of its factor',
               'rep': 'the same seed gave a different design', 'shape': 'wrong number of samples or coordinates'}
    for t, (sc, rr) in enumerate(obs_ref, 1):
        v = verdicts[t]
        stats['judged'] += 1
        ctx.note_nontrivial(('judge', sc['generator'], tuple(x['name'] for x in sc['vars']), str(sc['args'])))
        for fld, clause in clauses.items():
            if v[fld] is not True:
                ctx.violation(sc, clause, rr['design'][:30], clause, info={'law': fld})

    # ---- (b) DOEDriver runs ----------------------------------------------------------------------------
    runs = []
    for si, k in enumerate(keys):
        S = sets[k]
        ff2 = [x for x in S['lvs'] if x['lv']['kind'] == 'int' and x['lv']['n'] == 2][0]
        lv_small = [x for x in S['lvs'] if len(x['v']['ff']) <= (130 if quick else 800)]
        if quick:       # levels 2, one dict form, rotating third
            lv_small = [x for j, x in enumerate(lv_small) if x is ff2 or x['lv']['kind'] == 'dict' and (j + si) % 2 == 0]
        specs = [(('ff', levels_arg(x['lv'])), x) for x in lv_small]
        first = S['vars'][0]['name']
        others = [('pb', None), ('bb', None), ('gsd', (2, 2)), ('gsd', ({first: 3, 'default': 2}, 2)),
                  ('uni', (4, ctx.seed + si)), ('lhs', (None, None, ctx.seed + si)),
                  ('lhs', (5, 'center', ctx.seed + si + 1)), ('lhs', (4, 'maximin', ctx.seed + si + 2)),
                  ('lhs', (6, 'corr', ctx.seed + si + 3)), ('list', None), ('csv', None)]
        if quick:       # every generator on every third set, rotating (uniform, one Latin hypercube on all)
            others = [g for j, g in enumerate(others) if (j + si) % 3 == 0 or g[0] == 'uni' or j == 5 + si % 4]
        specs += [(g, ff2 if g[0] in ('list', 'csv') else None) for g in others]
        for spec, x in specs:
            runs.append({'vars': S['vars'], 'spec': spec, 'work': ctx.work, 'id': len(runs), 'max_rec': 20 if quick else 10 ** 6,
                         'ff': (x['v']['ff'] if x is not None else None), 'x': x})
    payload = [{k2: v2 for k2, v2 in rn.items() if k2 != 'x'} for rn in runs]
    order = list(range(len(payload)))
    order.sort(key=lambda i: -(len(payload[i]['ff']) if payload[i]['ff'] else 10))
    chunks = split([payload[i] for i in order], NPROC * 4)
    t0 = time.time()
    res_b = pmap(_worker_b, chunks, nproc=NPROC)
    ctx.extra['wall_doe_runs_s'] = round(time.time() - t0, 1)
    nrun = ncase = nrec = 0
    for ch, rs in zip([c for c in chunks if c], res_b):
        for pl, o in zip(ch, rs):
            rn = runs[pl['id']]
            vars_, spec = rn['vars'], rn['spec']
            sc = {'vars': vars_, 'generator': 'DOEDriver(' + spec[0] + ')', 'args': spec[1]}
            fs = factors(vars_)
            if 'raised' in o:
                nf = len(fs)
                if (spec[0] == 'bb' and nf < 3) or spec[0] == 'gsd' or (spec[0] == 'lhs' and lhs_degenerate(spec[1], nf)):
                    stats['rejected'] += 1
                else:
                    ctx.violation(sc, 'a design', o['raised'], 'generator raised')
                continue
            if 'err' in o:
                ctx.violation(sc, 'a completed DOE run', o['err'] + '\n' + o.get('tb', ''), 'DOEDriver run raised')
                continue
            nrun += 1
            gen = o['gen']
            if rn['x'] is not None and spec[0] in ('ff', 'list', 'csv'):
                # the spec's design: the generated values are the spec's product (list/csv: in the given order)
                why, same = match_ff(gen, rn['x']['v']['ff'])
                if why or (spec[0] != 'ff' and not same):
                    ctx.violation(sc, [[float(fr(c)) for c in pt] for pt in rn['x']['v']['ff']][:50], gen[:50],
                                  'generated cases differ from the specified design: %s' % (why or 'order changed'))
                    continue
            # expected model-unit values of every generated case: (value - o) / f, exactly
            want_model = [[(F(x) - fs[i][5]) / fs[i][4] for i, x in enumerate(pt)] for pt in gen]
            if rn['x'] is not None and spec[0] == 'ff':
                # cross-check with the spec's own model-unit design (same multiset)
                a = sorted(tuple(round(float(c), 9) for c in pt) for pt in want_model)
                b = sorted(tuple(round(float(fr(c)), 9) for c in pt) for pt in rn['x']['v']['ffm'])
                if a != b:
                    raise MachineryError('model-unit design of the harness and of DOE.tla disagree for %s' % (sc,))
            checks = [('values seen by the model', o['seen'], want_model)]
            if 'rec_out' in o:
                nrec += 1
                checks += [('recorded outputs', o['rec_out'], want_model), ('recorded design variables', o['rec_dv'], gen)]
            for what, got, want in checks:
                if len(got) != len(gen):
                    ctx.violation(sc, '%d cases' % len(gen), '%d cases' % len(got), 'DOEDriver: number of %s' % what)
                    continue
                bad = None
                for t in range(len(gen)):
                    for i in range(len(fs)):
                        exact = fs[i][4] == 1 and fs[i][5] == 0        # no unit conversion on the way
                        if not close(got[t][i], want[t][i], exact):
                            bad = (t, i)
                            break
                    if bad:
                        break
                if bad:
                    ctx.violation(sc, [float(x) for x in want[bad[0]]], got[bad[0]],
                                  'DOEDriver: %s at case %d differ from the generated values (factor %d)' % (what, bad[0], bad[1]))
            ncase += len(gen)
            ctx.note_nontrivial(('run', spec[0], tuple(v['name'] for v in vars_), str(spec[1])))
    ctx.register_predicates({})
    ctx.impl = stats['ff'] + stats['judged'] + nrun
    ctx.evaluations = ncase + stats['ff'] + stats['judged']
    ctx.exhaustive = False
    ctx.extra.update({'full_factorial_designs': stats['ff'], 'full_factorial_in_pydoe_order': stats['ff_pydoe_order'],
                      'judged_designs': stats['judged'], 'doe_driver_runs': nrun, 'doe_driver_runs_read_back_from_recorder': nrec, 'doe_cases_evaluated': ncase,
                      'rejected_configurations': stats['rejected']})
    e0 = scens[len(scens) // 2]
    ctx.sample({'design_variables': [{'name': v['name'], 'lower': v['lo'], 'upper': v['up']} for v in e0['s']['vars']],
                'levels': e0['s']['lv'], 'spec_full_factorial_first_points': e0['v']['ff'][:4], 'points': len(e0['v']['ff'])})
    if obs_ref:
        sc, rr = obs_ref[len(obs_ref) // 2]
        ctx.sample({'generator': sc['generator'], 'args': sc['args'], 'variables': [v['name'] for v in sc['vars']],
                    'observed_design': rr['design'][:4], 'verdict': verdicts[len(obs_ref) // 2 + 1]})
    import collections
    import re
    ctx.extra['violation_classes'] = dict(collections.Counter(re.sub(r'-?\d+(\.\d+)?', 'N', cl)[:90] for cl, _ in ctx.violations))
    ctx.rule = ('design-variable sets = all 25 subsets of 1-3 variables of the catalogue of DOE.tla (sizes 1-2, scalar and '
                'array integer bounds, units km->m / degC->degK / degF->degC, scaler/adder/ref/ref0 incl. array and negative '
                'scalers) x generators: FullFactorial (levels 1,2,3 and four dict forms) compared point-for-point with the '
                'product exported by TLC; PlackettBurman, BoxBehnken, GeneralizedSubset, Uniform, LatinHypercube (9 criterion '
                'spellings x samples None/4/7.. x seeds) and the drivers.sampling variants judged by the TLA+ judge; DOEDriver '
                'runs (all generators + List + CSV) compared case by case with the generated values in model units through a '
                'spy component and a SqliteRecorder; non-trivial = distinct (variables, generator, arguments) combinations')
    ctx.assumptions = [
        'bounds are given in the declared units of the design variable; generators work in those units and ignore '
        'scaler/adder/ref/ref0; the model must see (value - offset)/factor',
        'observed doubles are handed to TLC as exact integer facts (signs of x-lower / upper-x, stratum index, 2^-16 '
        'quantised position, 64-bit pattern) computed with fractions.Fraction',
        'requests pyDOE itself refuses are counted, not compared: BoxBehnken below 3 factors, some GeneralizedSubset '
        'reductions, maximin Latin hypercubes with one sample, correlation Latin hypercubes with one factor or <= 2 samples',
        'serial runs only (no MPI run_parallel)',
    ]
