"""C08 - solver scaling never changes physical results.

The system specification (OMModel.tla) has no ref/ref0/res_ref at all: the denotation of a model - converged outputs,
inputs, total derivatives - is by construction independent of solver scaling.  Generated models get random scalar and
array ref/ref0 (positive, negative spans, all four scalar/array mixes) and res_ref on their outputs, on sources read
through src_indices chains and unit conversions, under several solver stacks; TLC judges outputs, inputs and totals
against the unscaled denotation exactly as in C01/C04."""
from ..sysdriver import collect
from .c01 import judge, OPTS


def run(ctx):
    quick = ctx.tier == 'quick'
    n = 240 if quick else 3000
    base = 3000017 * (1 + ctx.seed % 1000)
    res = collect(ctx, range(base, base + n), dict(OPTS, scaling=True), 3 if quick else 6, want_runs=True)
    judge(ctx, res, clause_prefix='[with solver scaling] ')
    nsc = 0
    for r in res:
        if 'md' in r and 'case' in r:
            arr = sum(1 for o in r['md']['outs'] if isinstance(o.get('ref'), dict) or isinstance(o.get('ref0'), dict))
            nsc += 1 if arr else 0
    ctx.extra['models_with_array_scaling'] = nsc
    ctx.rule = ('as C01, with random ref/ref0 (scalar and array, negative spans) and res_ref on outputs; the denotation has no '
                'scaling, so any dependence of outputs, inputs or totals on it is a mismatch; ' + ctx.rule)
