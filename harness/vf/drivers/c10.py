"""C10 - bounds enforcement keeps Newton updates inside bounds and along the step.

Spec: spec/mech/LineSearch.tla.  TLC enumerates every scenario (length 1-2, starting point inside the bounds, full
Newton step, per-entry bound pattern and (ref, ref0) scaling, enforcement method, line-search class / initial step
length), checks InBounds / AlongStep (and the kernel laws ScaledSpaceAgrees, VectorParallel, BEMaximal,
AGBookkeeping) on the spec's own result, and exports scenario + exact expected new point in physical units.

Binding: each scenario is realised in real OpenMDAO as an implicit component with residual `y - target` and
d(res)/dy = 1 (the Newton step from u0 is exactly target - u0), outputs declared with lower/upper/ref/ref0, in a Group
with NewtonSolver(maxiter=1, solve_subsystems=False), DirectSolver and the line search under test.  The output is set
to u0, the model is run, the output is read back in physical units and (a) compared with the spec's exact value,
(b) the two invariants are re-evaluated on the observed value.  Length-2 scenarios are realised twice: as one array
output (array or scalar bound / ref declarations) and as two scalar outputs (separate slices of the bounds arrays).

The spec's oracle is itself cross-checked: a second, independent model written with fractions.Fraction follows the
*implementation's* formulation (scaled space, d_alpha / change arithmetic, the while loop of ArmijoGoldsteinLS) with
correctly ordered scaled bounds and must reproduce every exported expectation exactly (else MachineryError).  The
same model with the scaled bounds left unswapped is the signature of the known defect (predicate below)."""
import collections
import os
import re
from fractions import Fraction as F

from ..tlc import MachineryError
from ..util import pmap, split

NOB = (0, 0)
BIG = 10 ** 30          # openmdao.core.constants.INF_BOUND: "no bound" for one entry of an array bound
C_AG = (2, 5)           # Armijo slope parameter c
RHO = (1, 2)            # contraction factor
MAXITER = 3             # ArmijoGoldsteinLS maxiter: at most two contractions
TOL = 1e-12

FINDING = 'C10-scaled-bounds-not-swapped'


def fr(x):
    return F(x[0], x[1])


def tup(x):
    """nested lists -> nested tuples (hashable keys)"""
    return tuple(tup(y) for y in x) if isinstance(x, list) else x


# ---------------------------------------------------------------------------------------------------------
# the real model
# ---------------------------------------------------------------------------------------------------------
_CLS = {}


def _comp_class():
    if 'c' in _CLS:
        return _CLS['c']
    import numpy as np
    import openmdao.api as om

    class Target(om.ImplicitComponent):
        """residual(y) = y - target, d(res)/dy = 1"""

        def initialize(self):
            self.options.declare('decl', types=list)        # [(name, size, kwargs)]

        def setup(self):
            self.tgt = {}
            for name, size, kw in self.options['decl']:
                self.tgt[name] = np.zeros(size)
                self.add_output(name, val=np.zeros(size), **kw)
                self.declare_partials(name, name, rows=np.arange(size), cols=np.arange(size), val=1.0)

        def apply_nonlinear(self, inputs, outputs, residuals):
            for name in self.tgt:
                residuals[name] = outputs[name] - self.tgt[name]

    _CLS['c'] = Target
    return Target


def declared(key, layout):
    """What add_output is given: [(name, size, {lower, upper, ref, ref0} as Fractions / lists / absent)]."""
    n, m, c, a0, b, sc = key
    ents = []
    for i in range(n):
        lo = None if b[i][0] == NOB else fr(b[i][0])
        up = None if b[i][1] == NOB else fr(b[i][1])
        ents.append((lo, up, fr(sc[i][0]), fr(sc[i][1])))
    if layout == 'split':
        groups = [('y%d' % i, [e]) for i, e in enumerate(ents)]
    else:
        groups = [('y', ents)]
    out = []
    for name, es in groups:
        kw = {}
        los = [e[0] for e in es]
        ups = [e[1] for e in es]
        if any(v is not None for v in los):
            kw['lower'] = [F(-BIG) if v is None else v for v in los]
        if any(v is not None for v in ups):
            kw['upper'] = [F(BIG) if v is None else v for v in ups]
        kw['ref'] = [e[2] for e in es]
        kw['ref0'] = [e[3] for e in es]
        out.append((name, len(es), kw))
    return out


def _arg(vals):
    """scalar when all entries agree (exercises scalar and array declarations)"""
    import numpy as np
    if all(v == vals[0] for v in vals):
        return float(vals[0])
    return np.array([float(v) for v in vals])


def build(key, layout):
    import openmdao.api as om
    n, m, c, a0, b, sc = key
    decl = [(name, size, {k: _arg(v) for k, v in kw.items()}) for name, size, kw in declared(key, layout)]
    p = om.Problem()
    g = p.model.add_subsystem('g', om.Group())
    comp = g.add_subsystem('c', _comp_class()(decl=decl))
    nl = g.nonlinear_solver = om.NewtonSolver(maxiter=1, solve_subsystems=False, iprint=-1)
    g.linear_solver = om.DirectSolver()
    if c == 'BE':
        nl.linesearch = om.BoundsEnforceLS(bound_enforcement=m)
    else:
        nl.linesearch = om.ArmijoGoldsteinLS(bound_enforcement=m, maxiter=MAXITER, alpha=float(fr(a0)),
                                             c=float(F(*C_AG)), rho=float(F(*RHO)), method='Armijo', iprint=-1)
    p.setup()
    p.final_setup()
    return p, comp


def execute(p, comp, layout, u0, st):
    import numpy as np
    names = list(comp.tgt)
    if layout == 'split':
        for i, nm in enumerate(names):
            p.set_val('g.c.' + nm, float(u0[i]))
            comp.tgt[nm][:] = float(u0[i] + st[i])
    else:
        p.set_val('g.c.y', np.array([float(x) for x in u0]))
        comp.tgt['y'][:] = [float(x + d) for x, d in zip(u0, st)]
    p.run_model()
    obs = []
    for nm in names:
        obs.extend(float(x) for x in np.atleast_1d(p.get_val('g.c.' + nm)))
    return obs


# ---------------------------------------------------------------------------------------------------------
# independent reference (Fractions) following the implementation's formulation in the scaled space
# ---------------------------------------------------------------------------------------------------------
def reference(key, layout, u0, st, swap, num=F):
    """All outcomes the implementation's algorithm can produce (more than one only when an Armijo test is an exact
    tie).  swap=True: scaled bounds correctly ordered (intended); swap=False: images of lower/upper stored as they
    come (the defect).  num=float evaluates the same formulas in double precision (the defect signature must
    reproduce the absorption that happens next to the 1e30 placeholders)."""
    n, m, c, a0, b, sc = key
    cv = (lambda v: v) if num is F else float
    zero, one = cv(F(0)), cv(F(1))
    a0 = cv(fr(a0))
    u0 = [cv(v) for v in u0]
    st = [cv(v) for v in st]
    lo, up = [], []          # scaled bounds per entry; None = the array holds -inf / +inf there
    span, off = [], []
    for name, size, kw in declared(key, layout):
        for j in range(size):
            r, r0 = cv(kw['ref'][j]), cv(kw['ref0'][j])
            s = r - r0
            span.append(s)
            off.append(r0)
            l = (cv(kw['lower'][j]) - r0) / s if 'lower' in kw else None
            u = (cv(kw['upper'][j]) - r0) / s if 'upper' in kw else None
            if swap and s < 0:
                l, u = u, l
            lo.append(l)
            up.append(u)
    any_lo = any(v is not None for v in lo)
    any_up = any(v is not None for v in up)
    x0 = [(u0[i] - off[i]) / span[i] for i in range(n)]
    d = [st[i] / span[i] for i in range(n)]
    tgt = [u0[i] + st[i] for i in range(n)]
    al = one if c == 'BE' else a0
    x = [x0[i] + al * d[i] for i in range(n)]

    # --- _enforce_bounds_* ---------------------------------------------------
    if any_lo or any_up:
        if m == 'vector':
            d_alpha = zero
            idx = [i for i in range(n) if d[i] != 0]
            if idx:
                if any_lo:
                    c_ = [(lo[i] - x[i]) / abs(d[i]) for i in idx if lo[i] is not None]
                    if c_ and max(c_) > d_alpha:
                        d_alpha = max(c_)
                if any_up:
                    c_ = [(x[i] - up[i]) / abs(d[i]) for i in idx if up[i] is not None]
                    if c_ and max(c_) > d_alpha:
                        d_alpha = max(c_)
            if d_alpha > 0:
                x = [x[i] - d_alpha * d[i] for i in range(n)]
                d = [d[i] * (1 - d_alpha / al) for i in range(n)]
        else:
            ch = []
            for i in range(n):
                cl = (max(x[i], lo[i]) - x[i]) if lo[i] is not None else zero
                cu = (min(x[i], up[i]) - x[i]) if up[i] is not None else zero
                ch.append(cl + cu)
            x = [x[i] + ch[i] for i in range(n)]
            d = [d[i] + ch[i] / al for i in range(n)]
            if m == 'wall':
                d = [zero if ch[i] != 0 else d[i] for i in range(n)]

    def phys(xs):
        return [off[i] + span[i] * xs[i] for i in range(n)]

    if c == 'BE':
        return [phys(x)]

    # --- ArmijoGoldsteinLS._solve (squared norms: both sides are non-negative) ----
    cc, rho = cv(F(*C_AG)), cv(F(*RHO))
    phi0 = sum(s_ * s_ for s_ in st)
    if phi0 == 0:
        phi0 = one

    def phi2(xs):
        return sum((y - t) ** 2 for y, t in zip(phys(xs), tgt))

    results = []

    def loop(k, al, x):
        # state at the top of the while test
        while True:
            if k >= MAXITER:
                results.append(phys(x))
                return
            lhs, rhs = phi2(x), phi0 * (1 - cc * al) ** 2
            if lhs == rhs:                      # tie: the float comparison may go either way
                results.append(phys(x))
            elif lhs < rhs:
                results.append(phys(x))
                return
            if k > 0:
                al_old = al
                al = al * rho
                x = [x[i] + (al - al_old) * d[i] for i in range(n)]
            k += 1

    loop(0, al, x)
    uniq = []
    for r in results:
        if r not in uniq:
            uniq.append(r)
    return uniq


# ---------------------------------------------------------------------------------------------------------
# judging one observation
# ---------------------------------------------------------------------------------------------------------
def close(a, b, tol=TOL):
    return a == a and abs(a - b) <= tol * (1.0 + abs(b))


def judge(key, u0, st, exp, exact, obs):
    """Return the list of violated clauses (empty = held)."""
    n, b = key[0], key[4]
    bad = []
    for i in range(n):
        y = obs[i]
        lo = None if b[i][0] == NOB else float(fr(b[i][0]))
        up = None if b[i][1] == NOB else float(fr(b[i][1]))
        if y != y or (lo is not None and y < lo - TOL) or (up is not None and y > up + TOL):
            bad.append('InBounds: entry %d = %r outside [%s, %s]' % (i, y, lo, up))
        d = y - float(u0[i])
        s = float(st[i])
        if s == 0:
            if not abs(d) <= TOL:
                bad.append('AlongStep: entry %d has a zero Newton step but moved by %r' % (i, d))
        elif not d * (1 if s > 0 else -1) >= -TOL:
            bad.append('AlongStep: entry %d moved by %r, opposite to its Newton step %r' % (i, d, s))
        elif not abs(d) <= abs(s) + TOL * (1 + abs(s)):
            bad.append('AlongStep: entry %d moved by %r, beyond its full Newton step %r' % (i, d, s))
    if exact and not all(close(obs[i], float(exp[i])) for i in range(n)):
        bad.append('new point differs from the spec')
    return bad


def _worker(items):
    """items: [(key, layout, [(u0, st, expected u, exact, contractions)])] -> per item ('rejected', msg) or
    ('ran', counters, {position: verdict}) with verdicts only for scenarios that did not hold."""
    from ..util import quiet
    quiet()
    res = []
    for key, layout, scens in items:
        key = tup(key)
        try:
            p, comp = build(key, layout)
        except Exception as e:                                      # configuration rejected by OpenMDAO
            res.append(('rejected', '%s: %s' % (type(e).__name__, str(e)[:200])))
            continue
        rows = {}
        cnt = collections.Counter()
        for pos, (u0q, stq, expq, exact, nb) in enumerate(scens):
            u0 = [fr(x) for x in u0q]
            st = [fr(x) for x in stq]
            exp = [fr(x) for x in expq]
            cnt['bound'] += 1
            cnt['tie'] += 0 if exact else 1
            cnt['backtracked'] += 1 if nb > 0 else 0
            # non-trivial: a bound is active or the line search contracted the step
            cnt['nontrivial'] += 1 if any(e != a + d for e, a, d in zip(exp, u0, st)) else 0
            want = reference(key, layout, u0, st, True)
            if exp not in want or (exact and len(want) != 1):
                rows[pos] = ('oracle', [[float(x) for x in w] for w in want])
                continue
            try:
                obs = execute(p, comp, layout, u0, st)
            except Exception as e:
                rows[pos] = ('raised', '%s: %s' % (type(e).__name__, str(e)[:200]))
                continue
            bad = judge(key, u0, st, exp, exact, obs)
            if bad:
                try:
                    sig = [[float(x) for x in w] for w in reference(key, layout, u0, st, False, float)]
                except ArithmeticError:
                    sig = []
                rows[pos] = ('bad', bad, obs, sig)
        res.append(('ran', dict(cnt), rows))
    return res


# ---------------------------------------------------------------------------------------------------------
def neg_scaled_bounded(scen):
    """an entry with ref < ref0 whose variable declares a bound for it (its own bound, or - in an array declaration that
    exists because another entry is bounded - the -/+INF_BOUND placeholder, which is mapped the same way)"""
    s = scen
    n = s['n']
    has_lo = [tuple(s['b'][i][0]) != NOB for i in range(n)]
    has_up = [tuple(s['b'][i][1]) != NOB for i in range(n)]
    for i in range(n):
        if fr(s['sc'][i][0]) < fr(s['sc'][i][1]):
            if has_lo[i] or has_up[i]:
                return True
            if s.get('layout', 'array') == 'array' and (any(has_lo) or any(has_up)):
                return True
    return False


def pred_not_swapped(scen, info):
    """The failure is the known defect: some bounded entry has ref < ref0 AND the observed point is exactly what the
    algorithm yields when the scaled images of lower/upper are used without being swapped."""
    if not neg_scaled_bounded(scen):
        return False
    obs, sigs = info.get('observed'), info.get('unswapped_model')
    if not isinstance(obs, list) or not sigs:
        return False
    return any(all(x == x and abs(x - y) <= 1e-9 * (1.0 + abs(y)) for x, y in zip(obs, sig)) for sig in sigs)


def _tlc(ctx, maxn, tier, methods, workers, coverage, count=True, module='mech/LineSearch', init='Init'):
    cfg = ctx.write_cfg('LineSearch_%s_%d_%s.cfg' % (tier, maxn, '-'.join(methods)), '''CONSTANTS
  MaxN = %d
  Tier = "%s"
  Methods = {%s}
  CNum = %d
  CDen = %d
  RhoNum = %d
  RhoDen = %d
  MaxIter = %d
INIT %s
NEXT Next
INVARIANT InBounds
INVARIANT AlongStep
INVARIANT ScaledSpaceAgrees
INVARIANT VectorParallel
INVARIANT BEMaximal
INVARIANT AGBookkeeping
INVARIANT Export
''' % (maxn, tier, ', '.join('"%s"' % m for m in methods), C_AG[0], C_AG[1], RHO[0], RHO[1], MAXITER, init))
    r = ctx.tlc_check(module, cfg, count=count, coverage=coverage, workers=workers, timeout=3000,
                      heap='12g')
    exps = r.exports('EXP')
    m = re.search(r'Finished computing initial states: (\d+) distinct state', r.out)
    if not exps or (init == 'Init' and m and len(exps) != r.distinct - int(m.group(1))):
        raise MachineryError('exported %d scenarios but TLC found %d states (%s initial)' %
                             (len(exps), r.distinct, m.group(1) if m else '?'))
    return exps


def _replay(ctx):
    """./check C10 --replay <file>: TLC evaluates the spec (and its invariants) on exactly the stored scenario, and
    that one scenario is executed on the real code."""
    import json
    from ..tlc import to_tla
    with open(ctx.replay) as fh:
        rec = json.load(fh)
    s = dict(rec['scenario'])
    layout = s.pop('layout', 'array')
    mod = os.path.join(ctx.work, 'LineSearchReplay.tla')
    with open(mod, 'w') as fh:
        fh.write('---- MODULE LineSearchReplay ----\nEXTENDS LineSearch\n'
                 'ReplayInit == stage = 1 /\\ scen = %s /\\ out = Result(scen)\n====\n' % to_tla(s))
    exps = _tlc(ctx, 2, 'thorough', ['vector', 'scalar', 'wall'], 1, True, module=mod, init='ReplayInit')
    if len(exps) != 1:
        raise MachineryError('replay: expected one exported scenario, got %d' % len(exps))
    e = exps[0]
    s, v = e['s'], e['v']
    key = (s['n'], s['m'], s['c'], tuple(s['a0']), tup(s['b']), tup(s['sc']))
    row = _worker([(key, layout, [(s['u0'], s['st'], v['u'], bool(v['exact']), v['nb'])])])[0]
    scen = dict(s, layout=layout)
    ctx.impl = ctx.evaluations = 1
    ctx.rule = 'replay of one stored scenario'
    ctx.sample({'scenario': scen, 'spec_result': v, 'outcome': row})
    if row[0] == 'rejected':
        raise MachineryError('replay: OpenMDAO rejected the configuration: %s' % row[1])
    _report(ctx, scen, key, layout, e, row[2].get(0))


def _report(ctx, scen, key, layout, e, row):
    """Turn one worker verdict into a violation (or nothing)."""
    if row is None:
        return
    s, v = e['s'], e['v']
    if row[0] == 'oracle':
        raise MachineryError('spec and independent reference disagree on %s: spec %s reference %s' %
                             (scen, v['u'], row[1]))
    expf = [float(fr(x)) for x in v['u']]
    if row[0] == 'raised':
        ctx.violation(scen, expf, row[1], 'run_model raised')
        return
    _, bad, obs, sig = row
    ctx.violation(scen, {'u': expf, 'alpha': v['al'], 'exact': bool(v['exact'])}, obs, '; '.join(bad),
                  snippet=snippet(key, layout, tup(s['u0']), tup(s['st'])),
                  info={'observed': obs, 'unswapped_model': sig, 'clause': '; '.join(bad)})


def run(ctx):
    ctx.register_predicates({FINDING: pred_not_swapped})
    if getattr(ctx, 'replay', None):
        return _replay(ctx)
    quick = ctx.tier == 'quick'
    nproc = int(os.environ.get('VF_WORKERS', '16'))
    nproc = max(1, min(nproc, os.cpu_count() or 1))
    tier = 'quick' if quick else 'thorough'

    # vacuity guard on a small configuration with coverage (coverage doubles TLC's run time on the large one)
    _tlc(ctx, 1, tier, ['vector', 'scalar', 'wall'], nproc, True, count=False)
    ctx.require_actions(['Choose'])

    batches = [['vector', 'scalar', 'wall']] if quick else [['vector'], ['scalar'], ['wall']]
    stats = collections.Counter()
    rejected = {}
    nt = 0
    for methods in batches:
        exps = _tlc(ctx, 2, tier, methods, nproc, False)
        groups = collections.OrderedDict()        # one Problem per (length, method, class/a0, bounds, scaling)
        for e in exps:
            s = e['s']
            groups.setdefault(str((s['n'], s['m'], s['c'], s['a0'], s['b'], s['sc'])), []).append(e)
        items = []
        for es in groups.values():
            s = es[0]['s']
            for layout in (('array', 'split') if s['n'] > 1 else ('array',)):
                items.append(([s['n'], s['m'], s['c'], s['a0'], s['b'], s['sc']], layout, es))
        stats['configurations'] += len(items)
        chunks = [c for c in split(items, nproc * 8) if c]
        res = pmap(_worker, [[(k, l, [(e['s']['u0'], e['s']['st'], e['v']['u'], bool(e['v']['exact']), e['v']['nb'])
                                      for e in es]) for k, l, es in ch] for ch in chunks], nproc)
        for ch, rs in zip(chunks, res):
            for (key, layout, es), r in zip(ch, rs):
                if r[0] == 'rejected':
                    rejected['%s %s' % (key, layout)] = r[1]
                    stats['rejected_scenarios'] += len(es)
                    continue
                _, cnt, rows = r
                if cnt['bound'] != len(es):
                    raise MachineryError('worker judged %d of %d scenarios of %s' % (cnt['bound'], len(es), key))
                stats.update(cnt)
                if neg_scaled_bounded(dict(es[0]['s'], layout=layout)):
                    stats['neg_scaled_bounded'] += len(es)
                # every realised scenario is distinct by construction: number the non-trivial ones
                for k in range(nt, nt + cnt['nontrivial']):
                    ctx.note_nontrivial(k)
                nt += cnt['nontrivial']
                for pos in sorted(rows):
                    e = es[pos]
                    _report(ctx, dict(e['s'], layout=layout), tup(key), layout, e, rows[pos])
        if len(ctx.samples) < 3:
            pick = [e for e in exps if e['s']['n'] == 2 and e['v']['u'] != e['s']['u0'] and e['v']['nb'] > 0]
            for e in (pick or exps)[::max(1, len(pick or exps) // 3)][:3]:
                ctx.sample({'scenario': e['s'], 'spec_result': e['v']})
        del exps, groups, items, chunks, res
    ctx.impl = stats['bound']
    ctx.evaluations = stats['bound']
    ctx.exhaustive = True
    ctx.extra['c10'] = {'rejected_configurations': len(rejected), 'rejected_examples': list(rejected.items())[:3],
                        'rejected_scenarios': stats['rejected_scenarios'],
                        'armijo_tie_scenarios_invariants_only': stats['tie'],
                        'backtracked': stats['backtracked'], 'neg_scaled_bounded': stats['neg_scaled_bounded']}
    if len(rejected) * 20 > stats['configurations']:
        raise MachineryError('OpenMDAO rejected %d configurations, e.g. %s' % (len(rejected), list(rejected.items())[:2]))
    ctx.rule = ('every scenario of LineSearch.tla (tier %s): length 1 = u0 in {0,1,2} x step in -3..3 x 9 bound patterns '
                '(none/lower/upper/both from {0,1,2}, u0 inside) x 5 (ref,ref0) scalings incl. ref<ref0 x {vector,scalar,'
                'wall} x {BoundsEnforceLS, ArmijoGoldsteinLS alpha=1, alpha=1/2}; length 2 = all pairs of entries from the '
                "tier's reduced sets (%s), each realised as one array output (scalar or array declarations) and as two "
                'scalar outputs; one Newton iteration on the real Problem per scenario; non-trivial = scenarios whose '
                'expected point differs from the full Newton step (a bound is active or the step was contracted)'
                % (tier, '3 patterns x 3 scalings x 4 steps, initial step length 1 only' if quick else '6 patterns x 5 scalings x 5 steps'))
    ctx.assumptions = ['residual y - target with unit Jacobian and DirectSolver: the Newton step is exactly target - u0',
                       'res_ref left at its default (residual norm in physical units); ArmijoGoldsteinLS c=2/5, rho=1/2, '
                       'maxiter=3, method=Armijo; scenarios with an exact Armijo tie are compared on the two invariants only',
                       'an unbounded entry inside an array bound is declared with -/+INF_BOUND (1e30)',
                       'no units on the outputs; serial run; starting point inside the bounds']


def snippet(key, layout, u0q, stq):
    n, m, c, a0, b, sc = key
    decl = declared(key, layout)
    return ('./check C10 --replay <this file>   (realisation: outputs %s; linesearch %s(bound_enforcement=%r%s); set y = %s, target = %s; run_model())'
            % ([(nm, {k: [str(x) for x in v] for k, v in kw.items()}) for nm, _, kw in decl],
               'BoundsEnforceLS' if c == 'BE' else 'ArmijoGoldsteinLS', m,
               '' if c == 'BE' else ', alpha=%s, c=2/5, rho=1/2, maxiter=3' % fr(a0),
               [str(fr(x)) for x in u0q], [str(fr(x) + fr(d)) for x, d in zip(u0q, stq)]))
