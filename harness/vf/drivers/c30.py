"""C30 (partial) - complex-step-safe helpers agree with NumPy and differentiate exactly.

Spec: spec/mech/CsSafe.tla.  TLC enumerates integer points and perturbation directions for cs_safe.abs (every sign class
incl. the kink, scalar and array arguments), cs_safe.norm (Pythagorean vectors / matrices, axis None / 0 / 1) and
cs_safe.arctan2 (all four quadrants and the four half-axes), checks the laws (evenness, Euler / Cauchy-Schwarz, radial /
tangential / homogeneity identities) and exports the exact rational directional derivative.  Replay: the helper is called
at p + i*h*dp with h = 1e-40; the real part must equal NumPy's function at p exactly, imag/h the spec's derivative (1e-12).

jax smooth helpers (act_tanh, smooth_max/min/abs/round, ks_max/min): only identities that are exactly rational are
specified - tanh is an uninterpreted odd function except tanh(0) = 0 and |t| >= 32 -> +-1; TLC proves each exported
identity independent of the uninterpreted value and exports the rational value of the combination and, at the exact
points, the derivative w.r.t. the first argument (compared with jax.grad)."""
import os
from fractions import Fraction as F

from ..tlc import MachineryError
from ..util import pmap

H = 1e-40
RTOL = 1e-12


def nproc():
    return max(1, min(int(os.environ.get('VERIF_NPROC', '16')), os.cpu_count() or 1))


def fr(x):
    return F(x[0], x[1])


def _close(obs, want, scale=0.0):
    return abs(obs - want) <= RTOL * (1.0 + abs(want) + scale)


def _abs(s, v):
    import numpy as np
    from openmdao.utils import cs_safe
    x = np.array(s['x'], dtype=float)
    dx = np.array(s['dx'], dtype=float)
    forms = []
    z = x + 1j * H * dx
    if not dx.any():
        forms.append(('real-array', x.copy()))
    forms.append(('array', z))
    forms.append(('array2d', z.reshape(1, -1)))
    if s['n'] == 1:
        forms.append(('scalar', complex(z[0])))
        forms.append(('numpy-scalar', z[0]))
        if not dx.any():
            forms.append(('float', float(x[0])))
    bad = []
    for name, arg in forms:
        r = np.atleast_1d(np.asarray(cs_safe.abs(arg))).ravel()
        want_re = np.abs(x)
        for k in range(s['n']):
            if r[k].real != want_re[k] or r[k].real != v['re'][k]:
                bad.append((name, k, 're', float(r[k].real), float(want_re[k])))
            allowed = [float(fr(d)) for d in v['d'][k]]
            got = float(np.imag(r[k])) / H
            if not any(_close(got, a) for a in allowed):
                bad.append((name, k, 'im/h', got, allowed))
    return bad


def _norm(s, v):
    import numpy as np
    from openmdao.utils import cs_safe
    x = np.array(s['x'], dtype=float)
    dx = np.array(s['dx'], dtype=float)
    axis = None if s['axis'] == 'none' else int(s['axis'])
    forms = [('matrix', x + 1j * H * dx, x, axis)]
    if x.shape[0] == 1 and axis is None:
        forms.append(('vector', (x + 1j * H * dx)[0], x[0], None))
    if x.shape[0] == 1 and axis == 1:
        forms.append(('vector-axis0', (x + 1j * H * dx)[0], x[0], 0))
    bad = []
    for name, arg, re_arg, ax in forms:
        r = np.atleast_1d(np.asarray(cs_safe.norm(arg, axis=ax))).ravel()
        want_re = np.atleast_1d(np.linalg.norm(re_arg, axis=ax)).ravel()
        if len(r) != len(v['d']):
            bad.append((name, 'shape', len(r), len(v['d'])))
            continue
        for k in range(len(r)):
            if r[k].real != want_re[k] or r[k].real != v['re'][k]:
                bad.append((name, k, 're', float(r[k].real), float(want_re[k]), v['re'][k]))
            got = float(np.imag(r[k])) / H
            if not _close(got, float(fr(v['d'][k]))):
                bad.append((name, k, 'im/h', got, float(fr(v['d'][k]))))
    return bad


def _arctan2(s, v):
    import numpy as np
    from openmdao.utils import cs_safe
    y, x, dy, dx = float(s['y']), float(s['x']), float(s['dy']), float(s['dx'])
    want_re = float(np.arctan2(y, x))
    want_d = float(fr(v['d']))
    yc, xc = complex(y, H * dy), complex(x, H * dx)
    forms = [('scalar', yc, xc), ('array', np.array([yc, yc]), np.array([xc, xc])),
             ('array-scalar', np.array([yc]), xc)]
    if dx == 0:
        forms.append(('x-real', yc, x))
        forms.append(('x-real-array', np.array([yc]), np.array([x])))
    if dy == 0:
        forms.append(('y-real', y, xc))
    bad = []
    for name, a, b in forms:
        r = np.atleast_1d(np.asarray(cs_safe.arctan2(a, b))).ravel()
        for k in range(len(r)):
            if float(np.real(r[k])) != want_re:
                bad.append((name, 're', float(np.real(r[k])), want_re))
            got = float(np.imag(r[k])) / H
            if not _close(got, want_d):
                bad.append((name, 'im/h', got, want_d))
    # real arguments: NumPy's value and a real result
    rr = cs_safe.arctan2(y, x)
    if np.iscomplexobj(rr) or float(rr) != want_re:
        bad.append(('real', 're', complex(rr), want_re))
    return bad


def _smooth(s, v):
    import jax
    import numpy as np
    import jax.numpy as jnp
    import openmdao.jax_funcs as jf

    def call(t, grad=False):
        fn = getattr(jf, t['fn'])
        a = [float(fr(q)) for q in t['args']]
        if t['fn'] in ('ks_max', 'ks_min'):
            if grad:
                return None
            return float(fn(jnp.array(a[1:]), a[0]))
        if grad:
            if t['fn'] not in _GRADS:
                _GRADS[t['fn']] = jax.jit(jax.grad(fn, argnums=0))
            return float(_GRADS[t['fn']](*a))
        return float(fn(*a))

    bad = []
    vals = [call(t) for t in s['terms']]
    tot = sum(w * x for w, x in zip(s['w'], vals))
    want = float(fr(v['v']))
    if not (np.isfinite(tot) and _close(tot, want, sum(abs(w * x) for w, x in zip(s['w'], vals)))):
        bad.append(('value', vals, tot, want))
    if v['d'] != [0, 0]:
        g = call(s['terms'][0], grad=True)
        if g is not None:
            wd = float(fr(v['d']))
            if not (np.isfinite(g) and _close(g, wd)):
                bad.append(('grad', g, wd))
    return bad


_GRADS = {}
FN = {'abs': _abs, 'norm': _norm, 'arctan2': _arctan2, 'smooth': _smooth}


def _worker(items):
    from ..util import quiet
    quiet()
    out = []
    for e in items:
        try:
            out.append({'bad': FN[e['s']['kind']](e['s'], e['v'])})
        except Exception as ex:
            out.append({'err': '%s: %s' % (type(ex).__name__, str(ex)[:300])})
    return out


def run(ctx):
    cfg = ctx.write_cfg('CsSafe.cfg', '''CONSTANTS
  Kinds = {"abs", "norm", "arctan2", "smooth"}
INIT Init
NEXT Next
INVARIANT AbsLaw
INVARIANT NormLaw
INVARIANT At2Law
INVARIANT QIndependent
INVARIANT Export
''')
    r = ctx.tlc_check('mech/CsSafe', cfg, timeout=1500, heap='4g', workers=min(8, nproc()))
    ctx.require_actions(['Choose'])
    exps = r.exports('EXP')
    kinds = {}
    for e in exps:
        kinds.setdefault(e['s']['kind'], []).append(e)
    if set(kinds) != {'abs', 'norm', 'arctan2', 'smooth'}:
        raise MachineryError('kinds exported: %s' % sorted(kinds))
    ctx.register_predicates({})
    # the jax scenarios go to one worker (one jit compilation per function), the NumPy ones are spread
    numpy_items = kinds['abs'] + kinds['norm'] + kinds['arctan2']
    n = min(3, nproc())         # the NumPy scenarios are cheap: process start-up dominates
    chunks = [numpy_items[i::n] for i in range(n)]
    chunks = [c for c in chunks if c] + [kinds['smooth']]
    res = pmap(_worker, chunks, nproc=n + 1)
    count = 0
    ids = set()
    for ch, rs in zip(chunks, res):
        for e, o in zip(ch, rs):
            s, v = e['s'], e['v']
            count += 1
            k = s['kind']
            if k == 'abs':
                if any(x == 0 for x in s['x']) or any(x < 0 for x in s['x']):
                    ctx.note_nontrivial(('abs', tuple(s['x']), tuple(s['dx'])))
            elif k == 'norm':
                ctx.note_nontrivial(('norm', str(s['x']), s['axis'], str(s['dx'])))
            elif k == 'arctan2':
                if v['quadrant'] != 'I':
                    ctx.note_nontrivial(('at2', s['y'], s['x'], s['dy'], s['dx']))
            else:
                ids.add(s['id'])
                ctx.note_nontrivial(('smooth', s['id'], str(s['terms'])))
            if 'err' in o:
                ctx.violation(s, v, o['err'], '%s raised' % k)
            elif o['bad']:
                what = 'imaginary part / h differs from the exact derivative' if any('im/h' in b for b in o['bad']) \
                    else ('real part differs from NumPy' if k != 'smooth' else 'rational identity of the smooth helper violated')
                ctx.violation(s, v, o['bad'][:4], '%s: %s' % (k if k != 'smooth' else s['id'], what))
    ctx.impl = count
    ctx.evaluations = count
    ctx.exhaustive = True
    ctx.extra['scenarios_per_kind'] = {k: len(vs) for k, vs in kinds.items()}
    ctx.extra['smooth_identities'] = sorted(ids)
    for k in ('norm', 'arctan2', 'smooth'):
        e = kinds[k][len(kinds[k]) // 2]
        ctx.sample({'scenario': e['s'], 'spec': e['v']})
    ctx.rule = ('every scenario of CsSafe.tla: abs on vectors of 1-3 integers in -2..2 x directions {-1,0,2} (scalar, '
                'NumPy scalar, 1-D, 2-D, real and complex arguments); norm on 12 Pythagorean vectors/matrices x every axis '
                'for which the groups are Pythagorean x direction arrays over {-1,0,2}; arctan2 on the 24 integer points '
                'of [-2,2]^2 without the origin x 15 directions (complex/complex, complex/real, real/complex, arrays); '
                'smooth: %d rational identities (midpoint, saturation, antisymmetry, max+min, symmetry, evenness, '
                'rounding cases, single/separated KS) x parameters; non-trivial = every scenario except abs on positive '
                'data and arctan2 in the open first quadrant' % len(ids))
    ctx.assumptions = [
        'PARTIAL: cs_safe.abs / norm / arctan2 are covered on integer (Pythagorean) points only; the derivative is '
        'compared for the single step h = 1e-40',
        'at the kink of abs (x = 0) either one-sided derivative (+dx or -dx) is accepted: the array path returns |dx|, '
        'the scalar path dx; the documentation fixes neither',
        'cs_safe.norm has only the axis option in this version (no keepdims, no ord); zero vectors (no derivative) are '
        'not enumerated',
        'jax smooth helpers: only identities whose value is exactly rational are decided (tanh(0) = 0, tanh(t) = +-1 '
        'in IEEE double for |t| >= 32, exp underflow for the KS functions, oddness of tanh); accuracy of the smooth '
        'approximation between those points (tanh / exp / log values) is out of scope',
    ]
