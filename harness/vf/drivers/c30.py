"""C30 (partial) - complex-step-safe helpers agree with NumPy and differentiate exactly.

Spec: spec/mech/CsSafe.tla.  TLC enumerates integer points and perturbation directions (positive, zero, negative) for
cs_safe.abs (every sign class incl. the kink, points scaled by 10^e down to real parts far below the step; scalar, 0-d,
1-D, 2-D, strided, real / integer arguments), cs_safe.norm (Pythagorean vectors / matrices incl. all-zero arrays, rows and
columns, axis None / 0 / 1 / negative) and cs_safe.arctan2 (four quadrants, four half-axes, the origin for real arguments),
checks the laws (evenness, exact difference quotient, homogeneity, Euler / Cauchy-Schwarz, radial / tangential identities)
and exports the exact rational ONE-SIDED DIRECTIONAL derivative (|dx| resp. ||dx|| at a kink).  Replay: the helper is
called at p + i*h*dp with h = 1e-40; the real part must equal NumPy's function at p exactly, imag/h the spec's value (1e-12).

jax smooth helpers (act_tanh, smooth_max/min/abs/round, ks_max/min, with explicit and default parameters): only
identities that are exactly rational are specified - tanh is an uninterpreted odd function of its argument except
tanh(0) = 0 and |t| >= 32 -> +-1, log-sum-exp an uninterpreted symmetric function of the scaled differences (exp
underflow exact); TLC proves each exported identity (value and derivative of a linear combination of terms) for a family
of such functions and exports the rational value; the driver compares the value, the jax.grad derivative and the
complex-step derivative (where the function accepts complex arguments), and the KS gradient where it is rational."""
import os
from fractions import Fraction as F

from ..tlc import MachineryError
from ..util import pmap

H = 1e-40
RTOL = 1e-12


def nproc():
    return max(1, min(int(os.environ.get('VERIF_NPROC', '16')), os.cpu_count() or 1))


def fr(x):
    return F(x[0], x[1])


def _close(obs, want, scale=0.0):
    return abs(obs - want) <= RTOL * (1.0 + abs(want) + scale)


def _abs(s, v):
    import numpy as np
    from openmdao.utils import cs_safe
    scale = 10.0 ** s['e']
    x = np.array(s['x'], dtype=float) * scale
    dx = np.array(s['dx'], dtype=float)
    forms = []
    z = x + 1j * H * dx
    real = not dx.any()
    if real:
        forms.append(('real-array', x.copy()))
        if s['e'] == 0:
            forms.append(('int-array', np.array(s['x'], dtype=int)))
    forms.append(('array', z))
    forms.append(('array2d', z.reshape(1, -1)))
    forms.append(('strided', np.repeat(z, 2)[::2]))
    if s['n'] == 1:
        forms.append(('scalar', complex(z[0])))
        forms.append(('numpy-scalar', z[0]))
        forms.append(('0-d array', np.array(z[0])))
        if real:
            forms.append(('float', float(x[0])))
            forms.append(('numpy-float', x[0]))
            if s['e'] == 0:
                forms.append(('int', int(s['x'][0])))
    bad = []
    want_re = np.abs(x)
    for name, arg in forms:
        res = cs_safe.abs(arg)
        if real and name in ('real-array', 'int-array', 'float', 'numpy-float', 'int') and np.iscomplexobj(res):
            bad.append((name, 'dtype', 'complex result for a real argument'))
        r = np.atleast_1d(np.asarray(res)).ravel()
        if len(r) != s['n']:
            bad.append((name, 'shape', len(r), s['n']))
            continue
        for k in range(s['n']):
            if not (r[k].real == want_re[k] and r[k].real == v['re'][k] * scale):
                bad.append((name, k, 're', float(r[k].real), float(want_re[k])))
            want = float(fr(v['d'][k]))
            got = float(np.imag(r[k])) / H
            if not _close(got, want):
                bad.append((name, k, 'im/h', got, want))
    return bad


def _norm(s, v):
    import numpy as np
    from openmdao.utils import cs_safe
    x = np.array(s['x'], dtype=float)
    dx = np.array(s['dx'], dtype=float)
    axis = None if s['axis'] == 'none' else int(s['axis'])
    z = x + 1j * H * dx
    forms = [('matrix', z, x, axis)]
    if axis is not None:
        forms.append(('matrix-negative-axis', z, x, axis - 2))
    if not dx.any():
        forms.append(('real-matrix', x.copy(), x, axis))
    if x.shape[0] == 1 and axis is None:
        forms.append(('vector', z[0], x[0], None))
        if not dx.any():
            forms.append(('real-vector', x[0].copy(), x[0], None))
    if x.shape[0] == 1 and axis == 1:
        forms.append(('vector-axis0', z[0], x[0], 0))
    if x.shape[1] == 1 and axis == 0:
        forms.append(('column-as-vector', z[:, 0], x[:, 0], 0))
    bad = []
    for name, arg, re_arg, ax in forms:
        res = cs_safe.norm(arg, axis=ax)
        if name.startswith('real') and np.iscomplexobj(res):
            bad.append((name, 'dtype', 'complex result for a real argument'))
        r = np.atleast_1d(np.asarray(res)).ravel()
        want_re = np.atleast_1d(np.linalg.norm(re_arg, axis=ax)).ravel()
        if len(r) != len(v['d']):
            bad.append((name, 'shape', len(r), len(v['d'])))
            continue
        for k in range(len(r)):
            if not (r[k].real == want_re[k] and r[k].real == v['re'][k]):
                bad.append((name, k, 're', float(r[k].real), float(want_re[k]), v['re'][k]))
            got = float(np.imag(r[k])) / H
            if not _close(got, float(fr(v['d'][k]))):
                bad.append((name, k, 'im/h', got, float(fr(v['d'][k]))))
    return bad


def _arctan2(s, v):
    import numpy as np
    from openmdao.utils import cs_safe
    y, x, dy, dx = float(s['y']), float(s['x']), float(s['dy']), float(s['dx'])
    want_re = float(np.arctan2(y, x))
    bad = []
    # real arguments: NumPy's value and a real result
    for name, a, b in (('real', y, x), ('real-array', np.array([y, y]), np.array([x, x])), ('real-array-scalar', np.array([y]), x)):
        rr = cs_safe.arctan2(a, b)
        if np.iscomplexobj(rr) or any(float(q) != want_re for q in np.atleast_1d(rr)):
            bad.append((name, 're', [str(q) for q in np.atleast_1d(rr)], want_re))
    if dy == 0 and dx == 0:
        return bad
    want_d = float(fr(v['d']))
    yc, xc = complex(y, H * dy), complex(x, H * dx)
    forms = [('scalar', yc, xc), ('array', np.array([yc, yc]), np.array([xc, xc])),
             ('array-scalar', np.array([yc]), xc), ('array2d', np.array([[yc], [yc]]), np.array([[xc], [xc]]))]
    if dx == 0:
        forms.append(('x-real', yc, x))
        forms.append(('x-real-array', np.array([yc]), np.array([x])))
    if dy == 0:
        forms.append(('y-real', y, xc))
        forms.append(('y-real-array', np.array([y]), np.array([xc])))
    for name, a, b in forms:
        r = np.atleast_1d(np.asarray(cs_safe.arctan2(a, b))).ravel()
        for k in range(len(r)):
            if float(np.real(r[k])) != want_re:
                bad.append((name, 're', float(np.real(r[k])), want_re))
            got = float(np.imag(r[k])) / H
            if not _close(got, want_d):
                bad.append((name, 'im/h', got, want_d))
    return bad


NO_COMPLEX = ('smooth_round',)       # jnp.floor rejects complex arguments: differentiated with jax.grad only


def _smooth(s, v):
    import jax
    import numpy as np
    import jax.numpy as jnp
    import openmdao.jax_funcs as jf

    def pos(t, repl=None):
        """positional arguments actually passed; repl = {index: value} replaces arguments"""
        a = [float(fr(q)) for q in t['args']]
        if t['fn'] in ('ks_max', 'ks_min'):
            xs = a[1:]
            if repl:
                xs = [repl.get(i, q) for i, q in enumerate(xs)]
                return [jnp.array(xs, dtype=complex)] + ([a[0]] if t['given'] else [])
            return [jnp.array(xs)] + ([a[0]] if t['given'] else [])
        a = a[:t['given']]
        if repl:
            a = [repl.get(i, q) for i, q in enumerate(a)]
        return a

    def val(t):
        return float(getattr(jf, t['fn'])(*pos(t)))

    def grad(t, arg):
        # one compilation per (function, number of arguments passed): both derivatives of smooth_max / smooth_min at once
        two = t['fn'] in ('smooth_max', 'smooth_min')
        key = (t['fn'], t['given'])
        if key not in _GRADS:
            _GRADS[key] = jax.jit(jax.grad(getattr(jf, t['fn']), argnums=(0, 1) if two else 0))
        g = _GRADS[key](*pos(t))
        return g[arg] if two else g

    def cs(t, arg):
        ks = t['fn'] in ('ks_max', 'ks_min')
        a0 = float(fr(t['args'][arg + (1 if ks else 0)]))
        repl = {arg: complex(a0, H)}
        if t['fn'] in ('smooth_max', 'smooth_min'):
            # the other one of x, y is passed as a complex number with a zero imaginary part (same compiled signature)
            repl[1 - arg] = complex(float(fr(t['args'][1 - arg])), 0.0)
        r = complex(getattr(jf, t['fn'])(*pos(t, repl)))
        return r.imag / H

    bad = []
    w = [float(fr(q)) for q in s['w']]
    vals = [val(t) for t in s['terms']]
    tot = sum(a * b for a, b in zip(w, vals)) + float(fr(s['k0']))
    scale = sum(abs(a * b) for a, b in zip(w, vals)) + abs(float(fr(s['k0'])))
    want = float(fr(v['v']))
    if not (np.isfinite(tot) and _close(tot, want, scale)):
        bad.append(('value', vals, tot, want))
    if v['d'] != [0, 0]:
        wd = float(fr(v['d']))
        for how in ('jax.grad', 'complex step'):
            parts = []
            for t, wk, ck in zip(s['terms'], w, s['c']):
                for arg in (0, 1):
                    c = float(fr(ck[arg]))
                    if c == 0.0:
                        continue
                    if how == 'jax.grad':
                        parts.append(wk * c * float(grad(t, arg)))
                    elif t['fn'] in NO_COMPLEX:
                        parts = None
                        break
                    else:
                        parts.append(wk * c * cs(t, arg))
                if parts is None:
                    break
            if parts is None:
                continue
            g = sum(parts)
            if not (np.isfinite(g) and _close(g, wd, sum(abs(q) for q in parts))):
                bad.append(('derivative by ' + how, parts, g, wd))
    if v['kg']:
        t = s['terms'][0]
        wg = [float(fr(q)) for q in v['kg']]
        g = [float(q) for q in np.asarray(grad(t, 0))]
        if not all(np.isfinite(a) and _close(a, b) for a, b in zip(g, wg)):
            bad.append(('KS gradient by jax.grad', g, wg))
        g = [cs(t, i) for i in range(len(wg))]
        if not all(np.isfinite(a) and _close(a, b) for a, b in zip(g, wg)):
            bad.append(('KS gradient by complex step', g, wg))
    return bad


_GRADS = {}
FN = {'abs': _abs, 'norm': _norm, 'arctan2': _arctan2, 'smooth': _smooth}


def _worker(items):
    import warnings
    from ..util import quiet
    quiet()
    out = []
    for e in items:
        try:
            with warnings.catch_warnings():
                warnings.simplefilter('ignore')
                out.append({'bad': FN[e['s']['kind']](e['s'], e['v'])})
        except Exception as ex:
            out.append({'err': '%s: %s' % (type(ex).__name__, str(ex)[:300])})
    return out


def _is_kink(s):
    if s['kind'] == 'abs':
        return any(x == 0 and d != 0 for x, d in zip(s['x'], s['dx']))
    if s['kind'] == 'norm':
        return any(not any(row) for row in s['x']) or not any(any(row) for row in s['x']) or \
            any(not any(row[c] for row in s['x']) for c in range(len(s['x'][0])))
    return False


def _report(ctx, s, v, o):
    k = s['kind']
    if 'err' in o:
        ctx.violation(s, v, o['err'], '%s raised' % k)
    elif o['bad']:
        if k == 'smooth':
            what = 'rational identity of the smooth helper violated' if any(b[0] == 'value' for b in o['bad']) \
                else 'derivative of the smooth helper differs from the exact rational value'
            ctx.violation(s, v, o['bad'][:4], '%s: %s' % (s['id'], what))
            return
        if any('re' in b for b in o['bad']):
            what = 'real part differs from NumPy'
        elif any('im/h' in b for b in o['bad']):
            what = 'imaginary part / h differs from the exact ' + \
                ('one-sided directional derivative at the kink' if _is_kink(s) else 'derivative')
        elif any('dtype' in b for b in o['bad']):
            what = 'complex result for real arguments'
        else:
            what = 'result has the wrong shape'
        ctx.violation(s, v, o['bad'][:4], '%s: %s' % (k, what), info={'clause': what, 'observed': o['bad'], 'forms': sorted({b[0] for b in o['bad']})})


ARRAY_FORMS = {'array', 'array2d', 'strided', '0-d array'}


def _pred_array_sign(s, info):
    """NumPy-2 array branch of cs_safe.abs: sign(x).real = re/|x| instead of sign(x.real) (real part not >> step)."""
    return s.get('kind') == 'abs' and s['e'] < 0 and any(d != 0 and x != 0 for x, d in zip(s['x'], s['dx'])) and \
        set(info.get('forms', ['?'])) <= ARRAY_FORMS


def _pred_scalar_kink(s, info):
    """scalar branch of cs_safe.abs at x = 0 with a negative imaginary step: returns -h j (array branch: +h j)."""
    return s.get('kind') == 'abs' and s['n'] == 1 and s['x'][0] == 0 and s['dx'][0] < 0 and \
        set(info.get('forms', ['?'])) <= {'scalar', 'numpy-scalar'}


PREDICATES = {'C30-abs-array-sign-of-real-part': _pred_array_sign, 'C30-abs-scalar-kink-negative-step': _pred_scalar_kink}


def tlc_scenarios(ctx, thorough):
    suffix = 'Thorough' if thorough else 'Quick'
    cfg = ctx.write_cfg('CsSafe.cfg', '''CONSTANTS
  Kinds = {"abs", "norm", "arctan2", "smooth"}
  Dirs <- Dirs%s
  Scales <- Scales%s
INIT Init
NEXT Next
INVARIANT AbsLaw
INVARIANT NormLaw
INVARIANT At2Law
INVARIANT QIndependent
INVARIANT Export
''' % (suffix, suffix))
    # no -coverage: TLC's cost model of the nested rational operators takes longer to build than the whole run; every
    # exported line is printed in a state reached by one Choose step, which is the action count recorded here
    r = ctx.tlc_check('mech/CsSafe', cfg, timeout=1500, heap='4g', workers=min(8, nproc()), coverage=False)
    exps = r.exports('EXP')
    ctx.coverage_actions['Choose'] = len(exps)
    ctx.require_actions(['Choose'])
    return exps


def replay(ctx):
    import json
    with open(ctx.replay) as f:
        rec = json.load(f)
    s = rec['scenario']
    match = [e for e in tlc_scenarios(ctx, True) if e['s'] == s]
    if not match:
        raise MachineryError('replay scenario is not in the specification scope')
    v = match[0]['v']
    o = pmap(_worker, [[{'s': s, 'v': v}]], nproc=1)[0][0]
    _report(ctx, s, v, o)
    ctx.impl = ctx.evaluations = 1
    ctx.note_nontrivial(('replay', s['kind']))
    ctx.sample({'scenario': s, 'spec': v, 'observed': o})
    ctx.rule = 'replay of one stored scenario against the expectation TLC computes for it'
    ctx.exhaustive = False
    print('replay outcome: %s' % json.dumps(o, default=str)[:600])


def run(ctx):
    ctx.register_predicates(PREDICATES)
    if getattr(ctx, 'replay', None):
        return replay(ctx)
    thorough = ctx.tier == 'thorough'
    dirs = '{-2, -1, 0, 1, 2}' if thorough else '{-1, 0, 2}'
    scales = '{0, -36, -41, -300, -7, 30}' if thorough else '{0, -36, -41, -300}'
    exps = tlc_scenarios(ctx, thorough)
    kinds = {}
    for e in exps:
        kinds.setdefault(e['s']['kind'], []).append(e)
    if set(kinds) != {'abs', 'norm', 'arctan2', 'smooth'}:
        raise MachineryError('kinds exported: %s' % sorted(kinds))
    # vacuity guards: the scenario classes this check exists for must be present
    need = {
        'abs kink with a negative step': any(any(x == 0 and d < 0 for x, d in zip(e['s']['x'], e['s']['dx'])) for e in kinds['abs']),
        'abs with a real part below the step': any(e['s']['e'] <= -41 for e in kinds['abs']),
        'norm of an all-zero array': any(not any(any(row) for row in e['s']['x']) for e in kinds['norm']),
        'norm with an all-zero row': any(e['s']['axis'] == '1' and any(row) and not all(any(row) for row in e['s']['x'])
                                         for e in kinds['norm'] for row in e['s']['x']),
        'arctan2 at the origin': any(e['s']['x'] == 0 and e['s']['y'] == 0 for e in kinds['arctan2']),
        'smooth helper with a default argument': any(t['given'] < len(t['args']) and t['fn'] not in ('ks_max', 'ks_min')
                                                     for e in kinds['smooth'] for t in e['s']['terms']),
        'KS gradient': any(e['v']['kg'] for e in kinds['smooth']),
    }
    if not all(need.values()):
        raise MachineryError('scenario classes missing from the TLC export: %s' % [k for k, ok in need.items() if not ok])
    # the jax scenarios are grouped by function family (jit compilations dominate: one worker per family compiles each
    # function once), the NumPy ones are spread
    numpy_items = kinds['abs'] + kinds['norm'] + kinds['arctan2']
    n = min(2, nproc())         # the NumPy scenarios are cheap: process start-up dominates
    chunks = [numpy_items[i::n] for i in range(n)]
    fam = {'act_tanh': 0, 'smooth_max': 1, 'smooth_min': 1, 'smooth_abs': 2, 'smooth_round': 2, 'ks_max': 3, 'ks_min': 3}
    groups = {}
    for e in kinds['smooth']:
        groups.setdefault(fam[e['s']['terms'][-1]['fn']], []).append(e)
    chunks = [c for c in chunks if c] + [groups[k] for k in sorted(groups)]
    res = pmap(_worker, chunks, nproc=min(len(chunks), nproc()))
    count = 0
    ids = set()
    for ch, rs in zip(chunks, res):
        for e, o in zip(ch, rs):
            s, v = e['s'], e['v']
            count += 1
            k = s['kind']
            if k == 'abs':
                if any(x == 0 for x in s['x']) or any(x < 0 for x in s['x']) or s['e'] != 0:
                    ctx.note_nontrivial(('abs', s['e'], tuple(s['x']), tuple(s['dx'])))
            elif k == 'norm':
                ctx.note_nontrivial(('norm', str(s['x']), s['axis'], str(s['dx'])))
            elif k == 'arctan2':
                if v['quadrant'] != 'I':
                    ctx.note_nontrivial(('at2', s['y'], s['x'], s['dy'], s['dx']))
            else:
                ids.add(s['id'])
                ctx.note_nontrivial(('smooth', s['id'], str(s['terms']), str(s['c'])))
            _report(ctx, s, v, o)
    ctx.impl = count
    ctx.evaluations = count
    ctx.exhaustive = True
    ctx.extra['scenarios_per_kind'] = {k: len(vs) for k, vs in kinds.items()}
    ctx.extra['smooth_identities'] = sorted(ids)
    for k in ('norm', 'arctan2', 'smooth'):
        e = kinds[k][len(kinds[k]) // 2]
        ctx.sample({'scenario': e['s'], 'spec': e['v']})
    ctx.rule = ('every scenario of CsSafe.tla: abs on vectors of 1-3 integers in -2..2 scaled by 10^e, e in %s, x directions %s '
                '(scalar, NumPy scalar, 0-d, 1-D, 2-D, strided, real / integer and complex arguments); norm on 19 Pythagorean '
                'vectors/matrices incl. all-zero arrays, rows and columns x every axis for which the groups are Pythagorean x '
                'direction arrays (real and complex dtype, negative axis); arctan2 on the 25 integer points of [-2,2]^2 x 15 '
                'directions (complex/complex, complex/real, real/complex, arrays; origin: real arguments only); '
                'smooth: %d rational identities (midpoint, saturation, antisymmetry, shift / scale / affine laws, max+min, '
                'symmetry, evenness, cross-function identities, default arguments, rounding, KS ties / shift / scale / '
                'permutation) x parameters, value, jax.grad and complex-step derivative; non-trivial = every scenario except '
                'unscaled abs on positive data and arctan2 in the open first quadrant' % (scales, dirs, len(ids)))
    ctx.assumptions = [
        'PARTIAL: cs_safe.abs / norm / arctan2 are covered on integer (Pythagorean) points only (abs additionally scaled by '
        'powers of ten down to real parts far below the step); the derivative is compared for the single step h = 1e-40',
        'at a kink (abs at 0, norm of an all-zero group) the expected imaginary part is h times the one-sided DIRECTIONAL '
        'derivative, |dx| resp. ||dx||: the slope in the direction of the step, which is what the array branch of cs_safe.abs '
        'documents (sign(x.imag) where x.real == 0); signed zeros are compared with == (abs(-0.0) = -0.0 is not reported)',
        'cs_safe.norm has only the axis option in this version (no keepdims, no ord); arctan2 at the origin is evaluated '
        'for real arguments only (no derivative exists)',
        'jax smooth helpers: only identities whose value is exactly rational are decided (tanh(0) = 0, tanh(t) = +-1 '
        'in IEEE double for |t| >= 32, exp underflow for the KS functions, tanh / log-sum-exp uninterpreted otherwise); '
        'accuracy of the smooth approximation between those points (tanh / exp / log values) is out of scope; smooth_round '
        'rejects complex arguments (jnp.floor), its derivative is taken with jax.grad only',
    ]
